
type __ = Obj.t

(** val negb : bool -> bool **)

let negb = function
| true -> false
| false -> true

type nat =
| O
| S of nat

(** val option_map : ('a1 -> 'a2) -> 'a1 option -> 'a2 option **)

let option_map f = function
| Some a -> Some (f a)
| None -> None

type ('a, 'b) sum =
| Inl of 'a
| Inr of 'b

(** val fst : ('a1 * 'a2) -> 'a1 **)

let fst = function
| (x, _) -> x

(** val snd : ('a1 * 'a2) -> 'a2 **)

let snd = function
| (_, y) -> y

(** val length : 'a1 list -> nat **)

let rec length = function
| [] -> O
| _ :: l' -> S (length l')

(** val app : 'a1 list -> 'a1 list -> 'a1 list **)

let rec app l m =
  match l with
  | [] -> m
  | a :: l1 -> a :: (app l1 m)

type comparison =
| Eq
| Lt
| Gt

type uint =
| Nil
| D0 of uint
| D1 of uint
| D2 of uint
| D3 of uint
| D4 of uint
| D5 of uint
| D6 of uint
| D7 of uint
| D8 of uint
| D9 of uint

type signed_int =
| Pos of uint
| Neg of uint

(** val revapp : uint -> uint -> uint **)

let rec revapp d d' =
  match d with
  | Nil -> d'
  | D0 d0 -> revapp d0 (D0 d')
  | D1 d0 -> revapp d0 (D1 d')
  | D2 d0 -> revapp d0 (D2 d')
  | D3 d0 -> revapp d0 (D3 d')
  | D4 d0 -> revapp d0 (D4 d')
  | D5 d0 -> revapp d0 (D5 d')
  | D6 d0 -> revapp d0 (D6 d')
  | D7 d0 -> revapp d0 (D7 d')
  | D8 d0 -> revapp d0 (D8 d')
  | D9 d0 -> revapp d0 (D9 d')

(** val rev : uint -> uint **)

let rev d =
  revapp d Nil

module Little =
 struct
  (** val double : uint -> uint **)

  let rec double = function
  | Nil -> Nil
  | D0 d0 -> D0 (double d0)
  | D1 d0 -> D2 (double d0)
  | D2 d0 -> D4 (double d0)
  | D3 d0 -> D6 (double d0)
  | D4 d0 -> D8 (double d0)
  | D5 d0 -> D0 (succ_double d0)
  | D6 d0 -> D2 (succ_double d0)
  | D7 d0 -> D4 (succ_double d0)
  | D8 d0 -> D6 (succ_double d0)
  | D9 d0 -> D8 (succ_double d0)

  (** val succ_double : uint -> uint **)

  and succ_double = function
  | Nil -> D1 Nil
  | D0 d0 -> D1 (double d0)
  | D1 d0 -> D3 (double d0)
  | D2 d0 -> D5 (double d0)
  | D3 d0 -> D7 (double d0)
  | D4 d0 -> D9 (double d0)
  | D5 d0 -> D1 (succ_double d0)
  | D6 d0 -> D3 (succ_double d0)
  | D7 d0 -> D5 (succ_double d0)
  | D8 d0 -> D7 (succ_double d0)
  | D9 d0 -> D9 (succ_double d0)
 end

module Coq__1 = struct
 (** val add : nat -> nat -> nat **)
 let rec add n0 m =
   match n0 with
   | O -> m
   | S p -> S (add p m)
end
include Coq__1

(** val mul : nat -> nat -> nat **)

let rec mul n0 m =
  match n0 with
  | O -> O
  | S p -> add m (mul p m)

(** val sub : nat -> nat -> nat **)

let rec sub n0 m =
  match n0 with
  | O -> n0
  | S k -> (match m with
            | O -> n0
            | S l -> sub k l)

module Nat =
 struct
  (** val sub : nat -> nat -> nat **)

  let rec sub n0 m =
    match n0 with
    | O -> n0
    | S k -> (match m with
              | O -> n0
              | S l -> sub k l)

  (** val eqb : nat -> nat -> bool **)

  let rec eqb n0 m =
    match n0 with
    | O -> (match m with
            | O -> true
            | S _ -> false)
    | S n' -> (match m with
               | O -> false
               | S m' -> eqb n' m')

  (** val leb : nat -> nat -> bool **)

  let rec leb n0 m =
    match n0 with
    | O -> true
    | S n' -> (match m with
               | O -> false
               | S m' -> leb n' m')

  (** val ltb : nat -> nat -> bool **)

  let ltb n0 m =
    leb (S n0) m

  (** val divmod : nat -> nat -> nat -> nat -> nat * nat **)

  let rec divmod x y q0 u =
    match x with
    | O -> (q0, u)
    | S x' ->
      (match u with
       | O -> divmod x' y (S q0) y
       | S u' -> divmod x' y q0 u')

  (** val div : nat -> nat -> nat **)

  let div x y = match y with
  | O -> y
  | S y' -> fst (divmod x y' O y')

  (** val modulo : nat -> nat -> nat **)

  let modulo x = function
  | O -> x
  | S y' -> sub y' (snd (divmod x y' O y'))

  (** val div2 : nat -> nat **)

  let rec div2 = function
  | O -> O
  | S n1 -> (match n1 with
             | O -> O
             | S n' -> S (div2 n'))
 end

module Pos =
 struct
  type mask =
  | IsNul
  | IsPos of Big_int_Z.big_int
  | IsNeg
 end

module Coq_Pos =
 struct
  (** val succ : Big_int_Z.big_int -> Big_int_Z.big_int **)

  let rec succ = Big_int_Z.succ_big_int

  (** val add :
      Big_int_Z.big_int -> Big_int_Z.big_int -> Big_int_Z.big_int **)

  let rec add = Big_int_Z.add_big_int

  (** val add_carry :
      Big_int_Z.big_int -> Big_int_Z.big_int -> Big_int_Z.big_int **)

  and add_carry x y =
    (fun f2p1 f2p f1 p ->
  if Big_int_Z.le_big_int p Big_int_Z.unit_big_int then f1 () else
  let (q,r) = Big_int_Z.quomod_big_int p (Big_int_Z.big_int_of_int 2) in
  if Big_int_Z.eq_big_int r Big_int_Z.zero_big_int then f2p q else f2p1 q)
      (fun p ->
      (fun f2p1 f2p f1 p ->
  if Big_int_Z.le_big_int p Big_int_Z.unit_big_int then f1 () else
  let (q,r) = Big_int_Z.quomod_big_int p (Big_int_Z.big_int_of_int 2) in
  if Big_int_Z.eq_big_int r Big_int_Z.zero_big_int then f2p q else f2p1 q)
        (fun q0 ->
        (fun x -> Big_int_Z.succ_big_int (Big_int_Z.mult_int_big_int 2 x))
        (add_carry p q0))
        (fun q0 -> Big_int_Z.mult_int_big_int 2 (add_carry p q0))
        (fun _ ->
        (fun x -> Big_int_Z.succ_big_int (Big_int_Z.mult_int_big_int 2 x))
        (succ p))
        y)
      (fun p ->
      (fun f2p1 f2p f1 p ->
  if Big_int_Z.le_big_int p Big_int_Z.unit_big_int then f1 () else
  let (q,r) = Big_int_Z.quomod_big_int p (Big_int_Z.big_int_of_int 2) in
  if Big_int_Z.eq_big_int r Big_int_Z.zero_big_int then f2p q else f2p1 q)
        (fun q0 -> Big_int_Z.mult_int_big_int 2 (add_carry p q0))
        (fun q0 ->
        (fun x -> Big_int_Z.succ_big_int (Big_int_Z.mult_int_big_int 2 x))
        (add p q0))
        (fun _ -> Big_int_Z.mult_int_big_int 2 (succ p))
        y)
      (fun _ ->
      (fun f2p1 f2p f1 p ->
  if Big_int_Z.le_big_int p Big_int_Z.unit_big_int then f1 () else
  let (q,r) = Big_int_Z.quomod_big_int p (Big_int_Z.big_int_of_int 2) in
  if Big_int_Z.eq_big_int r Big_int_Z.zero_big_int then f2p q else f2p1 q)
        (fun q0 ->
        (fun x -> Big_int_Z.succ_big_int (Big_int_Z.mult_int_big_int 2 x))
        (succ q0))
        (fun q0 -> Big_int_Z.mult_int_big_int 2 (succ q0))
        (fun _ ->
        (fun x -> Big_int_Z.succ_big_int (Big_int_Z.mult_int_big_int 2 x))
        Big_int_Z.unit_big_int)
        y)
      x

  (** val pred_double : Big_int_Z.big_int -> Big_int_Z.big_int **)

  let rec pred_double x =
    (fun f2p1 f2p f1 p ->
  if Big_int_Z.le_big_int p Big_int_Z.unit_big_int then f1 () else
  let (q,r) = Big_int_Z.quomod_big_int p (Big_int_Z.big_int_of_int 2) in
  if Big_int_Z.eq_big_int r Big_int_Z.zero_big_int then f2p q else f2p1 q)
      (fun p ->
      (fun x -> Big_int_Z.succ_big_int (Big_int_Z.mult_int_big_int 2 x))
      (Big_int_Z.mult_int_big_int 2 p))
      (fun p ->
      (fun x -> Big_int_Z.succ_big_int (Big_int_Z.mult_int_big_int 2 x))
      (pred_double p))
      (fun _ -> Big_int_Z.unit_big_int)
      x

  type mask = Pos.mask =
  | IsNul
  | IsPos of Big_int_Z.big_int
  | IsNeg

  (** val succ_double_mask : mask -> mask **)

  let succ_double_mask = function
  | IsNul -> IsPos Big_int_Z.unit_big_int
  | IsPos p ->
    IsPos ((fun x -> Big_int_Z.succ_big_int (Big_int_Z.mult_int_big_int 2 x))
      p)
  | IsNeg -> IsNeg

  (** val double_mask : mask -> mask **)

  let double_mask = function
  | IsPos p -> IsPos (Big_int_Z.mult_int_big_int 2 p)
  | x0 -> x0

  (** val double_pred_mask : Big_int_Z.big_int -> mask **)

  let double_pred_mask x =
    (fun f2p1 f2p f1 p ->
  if Big_int_Z.le_big_int p Big_int_Z.unit_big_int then f1 () else
  let (q,r) = Big_int_Z.quomod_big_int p (Big_int_Z.big_int_of_int 2) in
  if Big_int_Z.eq_big_int r Big_int_Z.zero_big_int then f2p q else f2p1 q)
      (fun p -> IsPos (Big_int_Z.mult_int_big_int 2
      (Big_int_Z.mult_int_big_int 2 p)))
      (fun p -> IsPos (Big_int_Z.mult_int_big_int 2
      (pred_double p)))
      (fun _ -> IsNul)
      x

  (** val sub_mask : Big_int_Z.big_int -> Big_int_Z.big_int -> mask **)

  let rec sub_mask x y =
    (fun f2p1 f2p f1 p ->
  if Big_int_Z.le_big_int p Big_int_Z.unit_big_int then f1 () else
  let (q,r) = Big_int_Z.quomod_big_int p (Big_int_Z.big_int_of_int 2) in
  if Big_int_Z.eq_big_int r Big_int_Z.zero_big_int then f2p q else f2p1 q)
      (fun p ->
      (fun f2p1 f2p f1 p ->
  if Big_int_Z.le_big_int p Big_int_Z.unit_big_int then f1 () else
  let (q,r) = Big_int_Z.quomod_big_int p (Big_int_Z.big_int_of_int 2) in
  if Big_int_Z.eq_big_int r Big_int_Z.zero_big_int then f2p q else f2p1 q)
        (fun q0 -> double_mask (sub_mask p q0))
        (fun q0 -> succ_double_mask (sub_mask p q0))
        (fun _ -> IsPos (Big_int_Z.mult_int_big_int 2 p))
        y)
      (fun p ->
      (fun f2p1 f2p f1 p ->
  if Big_int_Z.le_big_int p Big_int_Z.unit_big_int then f1 () else
  let (q,r) = Big_int_Z.quomod_big_int p (Big_int_Z.big_int_of_int 2) in
  if Big_int_Z.eq_big_int r Big_int_Z.zero_big_int then f2p q else f2p1 q)
        (fun q0 -> succ_double_mask (sub_mask_carry p q0))
        (fun q0 -> double_mask (sub_mask p q0))
        (fun _ -> IsPos (pred_double p))
        y)
      (fun _ ->
      (fun f2p1 f2p f1 p ->
  if Big_int_Z.le_big_int p Big_int_Z.unit_big_int then f1 () else
  let (q,r) = Big_int_Z.quomod_big_int p (Big_int_Z.big_int_of_int 2) in
  if Big_int_Z.eq_big_int r Big_int_Z.zero_big_int then f2p q else f2p1 q)
        (fun _ -> IsNeg)
        (fun _ -> IsNeg)
        (fun _ -> IsNul)
        y)
      x

  (** val sub_mask_carry : Big_int_Z.big_int -> Big_int_Z.big_int -> mask **)

  and sub_mask_carry x y =
    (fun f2p1 f2p f1 p ->
  if Big_int_Z.le_big_int p Big_int_Z.unit_big_int then f1 () else
  let (q,r) = Big_int_Z.quomod_big_int p (Big_int_Z.big_int_of_int 2) in
  if Big_int_Z.eq_big_int r Big_int_Z.zero_big_int then f2p q else f2p1 q)
      (fun p ->
      (fun f2p1 f2p f1 p ->
  if Big_int_Z.le_big_int p Big_int_Z.unit_big_int then f1 () else
  let (q,r) = Big_int_Z.quomod_big_int p (Big_int_Z.big_int_of_int 2) in
  if Big_int_Z.eq_big_int r Big_int_Z.zero_big_int then f2p q else f2p1 q)
        (fun q0 -> succ_double_mask (sub_mask_carry p q0))
        (fun q0 -> double_mask (sub_mask p q0))
        (fun _ -> IsPos (pred_double p))
        y)
      (fun p ->
      (fun f2p1 f2p f1 p ->
  if Big_int_Z.le_big_int p Big_int_Z.unit_big_int then f1 () else
  let (q,r) = Big_int_Z.quomod_big_int p (Big_int_Z.big_int_of_int 2) in
  if Big_int_Z.eq_big_int r Big_int_Z.zero_big_int then f2p q else f2p1 q)
        (fun q0 -> double_mask (sub_mask_carry p q0))
        (fun q0 -> succ_double_mask (sub_mask_carry p q0))
        (fun _ -> double_pred_mask p)
        y)
      (fun _ -> IsNeg)
      x

  (** val sub :
      Big_int_Z.big_int -> Big_int_Z.big_int -> Big_int_Z.big_int **)

  let sub = (fun n m -> Big_int_Z.max_big_int
  Big_int_Z.unit_big_int (Big_int_Z.sub_big_int n m))

  (** val mul :
      Big_int_Z.big_int -> Big_int_Z.big_int -> Big_int_Z.big_int **)

  let rec mul = Big_int_Z.mult_big_int

  (** val iter : ('a1 -> 'a1) -> 'a1 -> Big_int_Z.big_int -> 'a1 **)

  let rec iter f x n0 =
    (fun f2p1 f2p f1 p ->
  if Big_int_Z.le_big_int p Big_int_Z.unit_big_int then f1 () else
  let (q,r) = Big_int_Z.quomod_big_int p (Big_int_Z.big_int_of_int 2) in
  if Big_int_Z.eq_big_int r Big_int_Z.zero_big_int then f2p q else f2p1 q)
      (fun n' -> f (iter f (iter f x n') n'))
      (fun n' -> iter f (iter f x n') n')
      (fun _ -> f x)
      n0

  (** val pow :
      Big_int_Z.big_int -> Big_int_Z.big_int -> Big_int_Z.big_int **)

  let pow x =
    iter (mul x) Big_int_Z.unit_big_int

  (** val size_nat : Big_int_Z.big_int -> nat **)

  let rec size_nat p =
    (fun f2p1 f2p f1 p ->
  if Big_int_Z.le_big_int p Big_int_Z.unit_big_int then f1 () else
  let (q,r) = Big_int_Z.quomod_big_int p (Big_int_Z.big_int_of_int 2) in
  if Big_int_Z.eq_big_int r Big_int_Z.zero_big_int then f2p q else f2p1 q)
      (fun p0 -> S (size_nat p0))
      (fun p0 -> S (size_nat p0))
      (fun _ -> S O)
      p

  (** val compare_cont :
      comparison -> Big_int_Z.big_int -> Big_int_Z.big_int -> comparison **)

  let rec compare_cont = (fun c x y -> let s = Big_int_Z.compare_big_int x y in
  if s = 0 then c else if s < 0 then Lt else Gt)

  (** val compare : Big_int_Z.big_int -> Big_int_Z.big_int -> comparison **)

  let compare = (fun x y -> let s = Big_int_Z.compare_big_int x y in
  if s = 0 then Eq else if s < 0 then Lt else Gt)

  (** val eqb : Big_int_Z.big_int -> Big_int_Z.big_int -> bool **)

  let rec eqb p q0 =
    (fun f2p1 f2p f1 p ->
  if Big_int_Z.le_big_int p Big_int_Z.unit_big_int then f1 () else
  let (q,r) = Big_int_Z.quomod_big_int p (Big_int_Z.big_int_of_int 2) in
  if Big_int_Z.eq_big_int r Big_int_Z.zero_big_int then f2p q else f2p1 q)
      (fun p0 ->
      (fun f2p1 f2p f1 p ->
  if Big_int_Z.le_big_int p Big_int_Z.unit_big_int then f1 () else
  let (q,r) = Big_int_Z.quomod_big_int p (Big_int_Z.big_int_of_int 2) in
  if Big_int_Z.eq_big_int r Big_int_Z.zero_big_int then f2p q else f2p1 q)
        (fun q1 -> eqb p0 q1)
        (fun _ -> false)
        (fun _ -> false)
        q0)
      (fun p0 ->
      (fun f2p1 f2p f1 p ->
  if Big_int_Z.le_big_int p Big_int_Z.unit_big_int then f1 () else
  let (q,r) = Big_int_Z.quomod_big_int p (Big_int_Z.big_int_of_int 2) in
  if Big_int_Z.eq_big_int r Big_int_Z.zero_big_int then f2p q else f2p1 q)
        (fun _ -> false)
        (fun q1 -> eqb p0 q1)
        (fun _ -> false)
        q0)
      (fun _ ->
      (fun f2p1 f2p f1 p ->
  if Big_int_Z.le_big_int p Big_int_Z.unit_big_int then f1 () else
  let (q,r) = Big_int_Z.quomod_big_int p (Big_int_Z.big_int_of_int 2) in
  if Big_int_Z.eq_big_int r Big_int_Z.zero_big_int then f2p q else f2p1 q)
        (fun _ -> false)
        (fun _ -> false)
        (fun _ -> true)
        q0)
      p

  (** val ggcdn :
      nat -> Big_int_Z.big_int -> Big_int_Z.big_int ->
      Big_int_Z.big_int * (Big_int_Z.big_int * Big_int_Z.big_int) **)

  let rec ggcdn n0 a b =
    match n0 with
    | O -> (Big_int_Z.unit_big_int, (a, b))
    | S n1 ->
      ((fun f2p1 f2p f1 p ->
  if Big_int_Z.le_big_int p Big_int_Z.unit_big_int then f1 () else
  let (q,r) = Big_int_Z.quomod_big_int p (Big_int_Z.big_int_of_int 2) in
  if Big_int_Z.eq_big_int r Big_int_Z.zero_big_int then f2p q else f2p1 q)
         (fun a' ->
         (fun f2p1 f2p f1 p ->
  if Big_int_Z.le_big_int p Big_int_Z.unit_big_int then f1 () else
  let (q,r) = Big_int_Z.quomod_big_int p (Big_int_Z.big_int_of_int 2) in
  if Big_int_Z.eq_big_int r Big_int_Z.zero_big_int then f2p q else f2p1 q)
           (fun b' ->
           match compare a' b' with
           | Eq -> (a, (Big_int_Z.unit_big_int, Big_int_Z.unit_big_int))
           | Lt ->
             let (g, p) = ggcdn n1 (sub b' a') a in
             let (ba, aa) = p in
             (g, (aa, (add aa (Big_int_Z.mult_int_big_int 2 ba))))
           | Gt ->
             let (g, p) = ggcdn n1 (sub a' b') b in
             let (ab, bb) = p in
             (g, ((add bb (Big_int_Z.mult_int_big_int 2 ab)), bb)))
           (fun b0 ->
           let (g, p) = ggcdn n1 a b0 in
           let (aa, bb) = p in (g, (aa, (Big_int_Z.mult_int_big_int 2 bb))))
           (fun _ -> (Big_int_Z.unit_big_int, (a, Big_int_Z.unit_big_int)))
           b)
         (fun a0 ->
         (fun f2p1 f2p f1 p ->
  if Big_int_Z.le_big_int p Big_int_Z.unit_big_int then f1 () else
  let (q,r) = Big_int_Z.quomod_big_int p (Big_int_Z.big_int_of_int 2) in
  if Big_int_Z.eq_big_int r Big_int_Z.zero_big_int then f2p q else f2p1 q)
           (fun _ ->
           let (g, p) = ggcdn n1 a0 b in
           let (aa, bb) = p in (g, ((Big_int_Z.mult_int_big_int 2 aa), bb)))
           (fun b0 ->
           let (g, p) = ggcdn n1 a0 b0 in
           ((Big_int_Z.mult_int_big_int 2 g), p))
           (fun _ -> (Big_int_Z.unit_big_int, (a, Big_int_Z.unit_big_int)))
           b)
         (fun _ -> (Big_int_Z.unit_big_int, (Big_int_Z.unit_big_int, b)))
         a)

  (** val ggcd :
      Big_int_Z.big_int -> Big_int_Z.big_int ->
      Big_int_Z.big_int * (Big_int_Z.big_int * Big_int_Z.big_int) **)

  let ggcd a b =
    ggcdn (Coq__1.add (size_nat a) (size_nat b)) a b

  (** val iter_op : ('a1 -> 'a1 -> 'a1) -> Big_int_Z.big_int -> 'a1 -> 'a1 **)

  let rec iter_op op p a =
    (fun f2p1 f2p f1 p ->
  if Big_int_Z.le_big_int p Big_int_Z.unit_big_int then f1 () else
  let (q,r) = Big_int_Z.quomod_big_int p (Big_int_Z.big_int_of_int 2) in
  if Big_int_Z.eq_big_int r Big_int_Z.zero_big_int then f2p q else f2p1 q)
      (fun p0 -> op a (iter_op op p0 (op a a)))
      (fun p0 -> iter_op op p0 (op a a))
      (fun _ -> a)
      p

  (** val to_nat : Big_int_Z.big_int -> nat **)

  let to_nat x =
    iter_op Coq__1.add x (S O)

  (** val of_succ_nat : nat -> Big_int_Z.big_int **)

  let rec of_succ_nat = function
  | O -> Big_int_Z.unit_big_int
  | S x -> succ (of_succ_nat x)

  (** val to_little_uint : Big_int_Z.big_int -> uint **)

  let rec to_little_uint p =
    (fun f2p1 f2p f1 p ->
  if Big_int_Z.le_big_int p Big_int_Z.unit_big_int then f1 () else
  let (q,r) = Big_int_Z.quomod_big_int p (Big_int_Z.big_int_of_int 2) in
  if Big_int_Z.eq_big_int r Big_int_Z.zero_big_int then f2p q else f2p1 q)
      (fun p0 -> Little.succ_double (to_little_uint p0))
      (fun p0 -> Little.double (to_little_uint p0))
      (fun _ -> D1 Nil)
      p

  (** val to_uint : Big_int_Z.big_int -> uint **)

  let to_uint p =
    rev (to_little_uint p)
 end

module N =
 struct
  (** val add :
      Big_int_Z.big_int -> Big_int_Z.big_int -> Big_int_Z.big_int **)

  let add = Big_int_Z.add_big_int

  (** val mul :
      Big_int_Z.big_int -> Big_int_Z.big_int -> Big_int_Z.big_int **)

  let mul = Big_int_Z.mult_big_int

  (** val compare : Big_int_Z.big_int -> Big_int_Z.big_int -> comparison **)

  let compare = (fun x y -> let s = Big_int_Z.compare_big_int x y in
  if s = 0 then Eq else if s < 0 then Lt else Gt)

  (** val to_nat : Big_int_Z.big_int -> nat **)

  let to_nat a =
    (fun fO fp n -> if Big_int_Z.sign_big_int n <= 0 then fO () else fp n)
      (fun _ -> O)
      (fun p -> Coq_Pos.to_nat p)
      a

  (** val of_nat : nat -> Big_int_Z.big_int **)

  let of_nat = function
  | O -> Big_int_Z.zero_big_int
  | S n' -> (Coq_Pos.of_succ_nat n')
 end

(** val zero : char **)

let zero = '\000'

(** val one : char **)

let one = '\001'

(** val shift : bool -> char -> char **)

let shift = fun b c -> Char.chr (((Char.code c) lsl 1) land 255 + if b then 1 else 0)

(** val ascii_of_pos : Big_int_Z.big_int -> char **)

let ascii_of_pos =
  let rec loop n0 p =
    match n0 with
    | O -> zero
    | S n' ->
      ((fun f2p1 f2p f1 p ->
  if Big_int_Z.le_big_int p Big_int_Z.unit_big_int then f1 () else
  let (q,r) = Big_int_Z.quomod_big_int p (Big_int_Z.big_int_of_int 2) in
  if Big_int_Z.eq_big_int r Big_int_Z.zero_big_int then f2p q else f2p1 q)
         (fun p' -> shift true (loop n' p'))
         (fun p' -> shift false (loop n' p'))
         (fun _ -> one)
         p)
  in loop (S (S (S (S (S (S (S (S O))))))))

(** val ascii_of_N : Big_int_Z.big_int -> char **)

let ascii_of_N n0 =
  (fun fO fp n -> if Big_int_Z.sign_big_int n <= 0 then fO () else fp n)
    (fun _ -> zero)
    (fun p -> ascii_of_pos p)
    n0

(** val ascii_of_nat : nat -> char **)

let ascii_of_nat a =
  ascii_of_N (N.of_nat a)

(** val n_of_digits : bool list -> Big_int_Z.big_int **)

let rec n_of_digits = function
| [] -> Big_int_Z.zero_big_int
| b :: l' ->
  N.add (if b then Big_int_Z.unit_big_int else Big_int_Z.zero_big_int)
    (N.mul (Big_int_Z.mult_int_big_int 2 Big_int_Z.unit_big_int)
      (n_of_digits l'))

(** val n_of_ascii : char -> Big_int_Z.big_int **)

let n_of_ascii a =
  (* If this appears, you're using Ascii internals. Please don't *)
 (fun f c ->
  let n = Char.code c in
  let h i = (n land (1 lsl i)) <> 0 in
  f (h 0) (h 1) (h 2) (h 3) (h 4) (h 5) (h 6) (h 7))
    (fun a0 a1 a2 a3 a4 a5 a6 a7 ->
    n_of_digits
      (a0 :: (a1 :: (a2 :: (a3 :: (a4 :: (a5 :: (a6 :: (a7 :: [])))))))))
    a

(** val nat_of_ascii : char -> nat **)

let nat_of_ascii a =
  N.to_nat (n_of_ascii a)

(** val compare0 : char -> char -> comparison **)

let compare0 = fun c1 c2 ->
    let cmp = Char.compare c1 c2 in
    if cmp < 0 then Lt else if cmp = 0 then Eq else Gt

(** val hd : 'a1 -> 'a1 list -> 'a1 **)

let hd default = function
| [] -> default
| x :: _ -> x

(** val hd_error : 'a1 list -> 'a1 option **)

let hd_error = function
| [] -> None
| x :: _ -> Some x

(** val nth_error : 'a1 list -> nat -> 'a1 option **)

let rec nth_error l = function
| O -> (match l with
        | [] -> None
        | x :: _ -> Some x)
| S n1 -> (match l with
           | [] -> None
           | _ :: l0 -> nth_error l0 n1)

(** val rev0 : 'a1 list -> 'a1 list **)

let rec rev0 = function
| [] -> []
| x :: l' -> app (rev0 l') (x :: [])

(** val concat : 'a1 list list -> 'a1 list **)

let rec concat = function
| [] -> []
| x :: l0 -> app x (concat l0)

(** val map : ('a1 -> 'a2) -> 'a1 list -> 'a2 list **)

let rec map f = function
| [] -> []
| a :: t0 -> (f a) :: (map f t0)

(** val flat_map : ('a1 -> 'a2 list) -> 'a1 list -> 'a2 list **)

let rec flat_map f = function
| [] -> []
| x :: t0 -> app (f x) (flat_map f t0)

(** val fold_left : ('a1 -> 'a2 -> 'a1) -> 'a2 list -> 'a1 -> 'a1 **)

let rec fold_left f l a0 =
  match l with
  | [] -> a0
  | b :: t0 -> fold_left f t0 (f a0 b)

(** val fold_right : ('a2 -> 'a1 -> 'a1) -> 'a1 -> 'a2 list -> 'a1 **)

let rec fold_right f a0 = function
| [] -> a0
| b :: t0 -> f b (fold_right f a0 t0)

(** val existsb : ('a1 -> bool) -> 'a1 list -> bool **)

let rec existsb f = function
| [] -> false
| a :: l0 -> (||) (f a) (existsb f l0)

(** val forallb : ('a1 -> bool) -> 'a1 list -> bool **)

let rec forallb f = function
| [] -> true
| a :: l0 -> (&&) (f a) (forallb f l0)

(** val filter : ('a1 -> bool) -> 'a1 list -> 'a1 list **)

let rec filter f = function
| [] -> []
| x :: l0 -> if f x then x :: (filter f l0) else filter f l0

(** val find : ('a1 -> bool) -> 'a1 list -> 'a1 option **)

let rec find f = function
| [] -> None
| x :: tl -> if f x then Some x else find f tl

(** val firstn : nat -> 'a1 list -> 'a1 list **)

let rec firstn n0 l =
  match n0 with
  | O -> []
  | S n1 -> (match l with
             | [] -> []
             | a :: l0 -> a :: (firstn n1 l0))

(** val skipn : nat -> 'a1 list -> 'a1 list **)

let rec skipn n0 l =
  match n0 with
  | O -> l
  | S n1 -> (match l with
             | [] -> []
             | _ :: l0 -> skipn n1 l0)

(** val seq : nat -> nat -> nat list **)

let rec seq start = function
| O -> []
| S len0 -> start :: (seq (S start) len0)

module Z =
 struct
  (** val double : Big_int_Z.big_int -> Big_int_Z.big_int **)

  let double x =
    (fun fO fp fn z -> let s = Big_int_Z.sign_big_int z in
  if s = 0 then fO () else if s > 0 then fp z
  else fn (Big_int_Z.minus_big_int z))
      (fun _ -> Big_int_Z.zero_big_int)
      (fun p -> (Big_int_Z.mult_int_big_int 2 p))
      (fun p -> Big_int_Z.minus_big_int (Big_int_Z.mult_int_big_int 2 p))
      x

  (** val succ_double : Big_int_Z.big_int -> Big_int_Z.big_int **)

  let succ_double x =
    (fun fO fp fn z -> let s = Big_int_Z.sign_big_int z in
  if s = 0 then fO () else if s > 0 then fp z
  else fn (Big_int_Z.minus_big_int z))
      (fun _ -> Big_int_Z.unit_big_int)
      (fun p ->
      ((fun x -> Big_int_Z.succ_big_int (Big_int_Z.mult_int_big_int 2 x))
      p))
      (fun p -> Big_int_Z.minus_big_int (Coq_Pos.pred_double p))
      x

  (** val pred_double : Big_int_Z.big_int -> Big_int_Z.big_int **)

  let pred_double x =
    (fun fO fp fn z -> let s = Big_int_Z.sign_big_int z in
  if s = 0 then fO () else if s > 0 then fp z
  else fn (Big_int_Z.minus_big_int z))
      (fun _ -> Big_int_Z.minus_big_int Big_int_Z.unit_big_int)
      (fun p -> (Coq_Pos.pred_double p))
      (fun p -> Big_int_Z.minus_big_int
      ((fun x -> Big_int_Z.succ_big_int (Big_int_Z.mult_int_big_int 2 x)) p))
      x

  (** val pos_sub :
      Big_int_Z.big_int -> Big_int_Z.big_int -> Big_int_Z.big_int **)

  let rec pos_sub x y =
    (fun f2p1 f2p f1 p ->
  if Big_int_Z.le_big_int p Big_int_Z.unit_big_int then f1 () else
  let (q,r) = Big_int_Z.quomod_big_int p (Big_int_Z.big_int_of_int 2) in
  if Big_int_Z.eq_big_int r Big_int_Z.zero_big_int then f2p q else f2p1 q)
      (fun p ->
      (fun f2p1 f2p f1 p ->
  if Big_int_Z.le_big_int p Big_int_Z.unit_big_int then f1 () else
  let (q,r) = Big_int_Z.quomod_big_int p (Big_int_Z.big_int_of_int 2) in
  if Big_int_Z.eq_big_int r Big_int_Z.zero_big_int then f2p q else f2p1 q)
        (fun q0 -> double (pos_sub p q0))
        (fun q0 -> succ_double (pos_sub p q0))
        (fun _ -> (Big_int_Z.mult_int_big_int 2 p))
        y)
      (fun p ->
      (fun f2p1 f2p f1 p ->
  if Big_int_Z.le_big_int p Big_int_Z.unit_big_int then f1 () else
  let (q,r) = Big_int_Z.quomod_big_int p (Big_int_Z.big_int_of_int 2) in
  if Big_int_Z.eq_big_int r Big_int_Z.zero_big_int then f2p q else f2p1 q)
        (fun q0 -> pred_double (pos_sub p q0))
        (fun q0 -> double (pos_sub p q0))
        (fun _ -> (Coq_Pos.pred_double p))
        y)
      (fun _ ->
      (fun f2p1 f2p f1 p ->
  if Big_int_Z.le_big_int p Big_int_Z.unit_big_int then f1 () else
  let (q,r) = Big_int_Z.quomod_big_int p (Big_int_Z.big_int_of_int 2) in
  if Big_int_Z.eq_big_int r Big_int_Z.zero_big_int then f2p q else f2p1 q)
        (fun q0 -> Big_int_Z.minus_big_int (Big_int_Z.mult_int_big_int 2
        q0))
        (fun q0 -> Big_int_Z.minus_big_int (Coq_Pos.pred_double q0))
        (fun _ -> Big_int_Z.zero_big_int)
        y)
      x

  (** val add :
      Big_int_Z.big_int -> Big_int_Z.big_int -> Big_int_Z.big_int **)

  let add = Big_int_Z.add_big_int

  (** val opp : Big_int_Z.big_int -> Big_int_Z.big_int **)

  let opp = Big_int_Z.minus_big_int

  (** val sub :
      Big_int_Z.big_int -> Big_int_Z.big_int -> Big_int_Z.big_int **)

  let sub = Big_int_Z.sub_big_int

  (** val mul :
      Big_int_Z.big_int -> Big_int_Z.big_int -> Big_int_Z.big_int **)

  let mul = Big_int_Z.mult_big_int

  (** val pow_pos :
      Big_int_Z.big_int -> Big_int_Z.big_int -> Big_int_Z.big_int **)

  let pow_pos z0 =
    Coq_Pos.iter (mul z0) Big_int_Z.unit_big_int

  (** val pow :
      Big_int_Z.big_int -> Big_int_Z.big_int -> Big_int_Z.big_int **)

  let pow x y =
    (fun fO fp fn z -> let s = Big_int_Z.sign_big_int z in
  if s = 0 then fO () else if s > 0 then fp z
  else fn (Big_int_Z.minus_big_int z))
      (fun _ -> Big_int_Z.unit_big_int)
      (fun p -> pow_pos x p)
      (fun _ -> Big_int_Z.zero_big_int)
      y

  (** val compare : Big_int_Z.big_int -> Big_int_Z.big_int -> comparison **)

  let compare = (fun x y -> let s = Big_int_Z.compare_big_int x y in
  if s = 0 then Eq else if s < 0 then Lt else Gt)

  (** val sgn : Big_int_Z.big_int -> Big_int_Z.big_int **)

  let sgn z0 =
    (fun fO fp fn z -> let s = Big_int_Z.sign_big_int z in
  if s = 0 then fO () else if s > 0 then fp z
  else fn (Big_int_Z.minus_big_int z))
      (fun _ -> Big_int_Z.zero_big_int)
      (fun _ -> Big_int_Z.unit_big_int)
      (fun _ -> Big_int_Z.minus_big_int Big_int_Z.unit_big_int)
      z0

  (** val leb : Big_int_Z.big_int -> Big_int_Z.big_int -> bool **)

  let leb x y =
    match compare x y with
    | Gt -> false
    | _ -> true

  (** val ltb : Big_int_Z.big_int -> Big_int_Z.big_int -> bool **)

  let ltb x y =
    match compare x y with
    | Lt -> true
    | _ -> false

  (** val eqb : Big_int_Z.big_int -> Big_int_Z.big_int -> bool **)

  let eqb = Big_int_Z.eq_big_int

  (** val abs : Big_int_Z.big_int -> Big_int_Z.big_int **)

  let abs = Big_int_Z.abs_big_int

  (** val to_nat : Big_int_Z.big_int -> nat **)

  let to_nat z0 =
    (fun fO fp fn z -> let s = Big_int_Z.sign_big_int z in
  if s = 0 then fO () else if s > 0 then fp z
  else fn (Big_int_Z.minus_big_int z))
      (fun _ -> O)
      (fun p -> Coq_Pos.to_nat p)
      (fun _ -> O)
      z0

  (** val to_N : Big_int_Z.big_int -> Big_int_Z.big_int **)

  let to_N = Big_int_Z.(fun p -> if sign_big_int p < 0 then zero_big_int else p)

  (** val of_nat : nat -> Big_int_Z.big_int **)

  let of_nat = function
  | O -> Big_int_Z.zero_big_int
  | S n1 -> (Coq_Pos.of_succ_nat n1)

  (** val of_N : Big_int_Z.big_int -> Big_int_Z.big_int **)

  let of_N = (fun p -> p)

  (** val to_pos : Big_int_Z.big_int -> Big_int_Z.big_int **)

  let to_pos z0 =
    (fun fO fp fn z -> let s = Big_int_Z.sign_big_int z in
  if s = 0 then fO () else if s > 0 then fp z
  else fn (Big_int_Z.minus_big_int z))
      (fun _ -> Big_int_Z.unit_big_int)
      (fun p -> p)
      (fun _ -> Big_int_Z.unit_big_int)
      z0

  (** val to_int : Big_int_Z.big_int -> signed_int **)

  let to_int n0 =
    (fun fO fp fn z -> let s = Big_int_Z.sign_big_int z in
  if s = 0 then fO () else if s > 0 then fp z
  else fn (Big_int_Z.minus_big_int z))
      (fun _ -> Pos (D0 Nil))
      (fun p -> Pos (Coq_Pos.to_uint p))
      (fun p -> Neg (Coq_Pos.to_uint p))
      n0

  (** val pos_div_eucl :
      Big_int_Z.big_int -> Big_int_Z.big_int ->
      Big_int_Z.big_int * Big_int_Z.big_int **)

  let rec pos_div_eucl a b =
    (fun f2p1 f2p f1 p ->
  if Big_int_Z.le_big_int p Big_int_Z.unit_big_int then f1 () else
  let (q,r) = Big_int_Z.quomod_big_int p (Big_int_Z.big_int_of_int 2) in
  if Big_int_Z.eq_big_int r Big_int_Z.zero_big_int then f2p q else f2p1 q)
      (fun a' ->
      let (q0, r) = pos_div_eucl a' b in
      let r' =
        add (mul (Big_int_Z.mult_int_big_int 2 Big_int_Z.unit_big_int) r)
          Big_int_Z.unit_big_int
      in
      if ltb r' b
      then ((mul (Big_int_Z.mult_int_big_int 2 Big_int_Z.unit_big_int) q0),
             r')
      else ((add
              (mul (Big_int_Z.mult_int_big_int 2 Big_int_Z.unit_big_int) q0)
              Big_int_Z.unit_big_int), (sub r' b)))
      (fun a' ->
      let (q0, r) = pos_div_eucl a' b in
      let r' = mul (Big_int_Z.mult_int_big_int 2 Big_int_Z.unit_big_int) r in
      if ltb r' b
      then ((mul (Big_int_Z.mult_int_big_int 2 Big_int_Z.unit_big_int) q0),
             r')
      else ((add
              (mul (Big_int_Z.mult_int_big_int 2 Big_int_Z.unit_big_int) q0)
              Big_int_Z.unit_big_int), (sub r' b)))
      (fun _ ->
      if leb (Big_int_Z.mult_int_big_int 2 Big_int_Z.unit_big_int) b
      then (Big_int_Z.zero_big_int, Big_int_Z.unit_big_int)
      else (Big_int_Z.unit_big_int, Big_int_Z.zero_big_int))
      a

  (** val div_eucl :
      Big_int_Z.big_int -> Big_int_Z.big_int ->
      Big_int_Z.big_int * Big_int_Z.big_int **)

  let div_eucl = Big_int_Z.(fun x y ->
  match sign_big_int y with
  | 0 -> (zero_big_int, x)
  | 1 -> quomod_big_int x y
  | _ -> let (q, r) = quomod_big_int (add_int_big_int (-1) x) y in
          (add_int_big_int (-1) q, add_big_int (add_int_big_int 1 y) r))

  (** val div :
      Big_int_Z.big_int -> Big_int_Z.big_int -> Big_int_Z.big_int **)

  let div = Big_int_Z.(fun x y ->
  match sign_big_int y with
  | 0 -> zero_big_int
  | 1 -> div_big_int x y
  | _ -> add_int_big_int (-1) (div_big_int (add_int_big_int (-1) x) y))

  (** val modulo :
      Big_int_Z.big_int -> Big_int_Z.big_int -> Big_int_Z.big_int **)

  let modulo = Big_int_Z.(fun x y ->
  match sign_big_int y with
  | 0 -> x
  | 1 -> mod_big_int x y
  | _ -> add_big_int y (add_int_big_int 1 (mod_big_int (add_int_big_int (-1) x) y)))

  (** val ggcd :
      Big_int_Z.big_int -> Big_int_Z.big_int ->
      Big_int_Z.big_int * (Big_int_Z.big_int * Big_int_Z.big_int) **)

  let ggcd a b =
    (fun fO fp fn z -> let s = Big_int_Z.sign_big_int z in
  if s = 0 then fO () else if s > 0 then fp z
  else fn (Big_int_Z.minus_big_int z))
      (fun _ -> ((abs b), (Big_int_Z.zero_big_int, (sgn b))))
      (fun a0 ->
      (fun fO fp fn z -> let s = Big_int_Z.sign_big_int z in
  if s = 0 then fO () else if s > 0 then fp z
  else fn (Big_int_Z.minus_big_int z))
        (fun _ -> ((abs a), ((sgn a), Big_int_Z.zero_big_int)))
        (fun b0 ->
        let (g, p) = Coq_Pos.ggcd a0 b0 in let (aa, bb) = p in (g, (aa, bb)))
        (fun b0 ->
        let (g, p) = Coq_Pos.ggcd a0 b0 in
        let (aa, bb) = p in (g, (aa, (Big_int_Z.minus_big_int bb))))
        b)
      (fun a0 ->
      (fun fO fp fn z -> let s = Big_int_Z.sign_big_int z in
  if s = 0 then fO () else if s > 0 then fp z
  else fn (Big_int_Z.minus_big_int z))
        (fun _ -> ((abs a), ((sgn a), Big_int_Z.zero_big_int)))
        (fun b0 ->
        let (g, p) = Coq_Pos.ggcd a0 b0 in
        let (aa, bb) = p in (g, ((Big_int_Z.minus_big_int aa), bb)))
        (fun b0 ->
        let (g, p) = Coq_Pos.ggcd a0 b0 in
        let (aa, bb) = p in
        (g, ((Big_int_Z.minus_big_int aa), (Big_int_Z.minus_big_int bb))))
        b)
      a
 end

(** val zeq_bool : Big_int_Z.big_int -> Big_int_Z.big_int -> bool **)

let zeq_bool x y =
  match Z.compare x y with
  | Eq -> true
  | _ -> false

(** val compare1 : string -> string -> comparison **)

let rec compare1 s1 s2 =
  (* If this appears, you're using String internals. Please don't *)
 (fun f0 f1 s ->
    let l = String.length s in
    if l = 0 then f0 () else f1 (String.get s 0) (String.sub s 1 (l-1)))

    (fun _ ->
    (* If this appears, you're using String internals. Please don't *)
 (fun f0 f1 s ->
    let l = String.length s in
    if l = 0 then f0 () else f1 (String.get s 0) (String.sub s 1 (l-1)))

      (fun _ -> Eq)
      (fun _ _ -> Lt)
      s2)
    (fun c1 s1' ->
    (* If this appears, you're using String internals. Please don't *)
 (fun f0 f1 s ->
    let l = String.length s in
    if l = 0 then f0 () else f1 (String.get s 0) (String.sub s 1 (l-1)))

      (fun _ -> Gt)
      (fun c2 s2' ->
      match compare0 c1 c2 with
      | Eq -> compare1 s1' s2'
      | x -> x)
      s2)
    s1

(** val length0 : string -> nat **)

let rec length0 s =
  (* If this appears, you're using String internals. Please don't *)
 (fun f0 f1 s ->
    let l = String.length s in
    if l = 0 then f0 () else f1 (String.get s 0) (String.sub s 1 (l-1)))

    (fun _ -> O)
    (fun _ s' -> S (length0 s'))
    s



type q = { qnum : Big_int_Z.big_int; qden : Big_int_Z.big_int }

(** val inject_Z : Big_int_Z.big_int -> q **)

let inject_Z x =
  { qnum = x; qden = Big_int_Z.unit_big_int }

(** val qcompare : q -> q -> comparison **)

let qcompare p q0 =
  Z.compare (Z.mul p.qnum q0.qden) (Z.mul q0.qnum p.qden)

(** val qeq_bool : q -> q -> bool **)

let qeq_bool x y =
  zeq_bool (Z.mul x.qnum y.qden) (Z.mul y.qnum x.qden)

(** val qplus : q -> q -> q **)

let qplus x y =
  { qnum = (Z.add (Z.mul x.qnum y.qden) (Z.mul y.qnum x.qden)); qden =
    (Coq_Pos.mul x.qden y.qden) }

(** val qmult : q -> q -> q **)

let qmult x y =
  { qnum = (Z.mul x.qnum y.qnum); qden = (Coq_Pos.mul x.qden y.qden) }

(** val qopp : q -> q **)

let qopp x =
  { qnum = (Z.opp x.qnum); qden = x.qden }

(** val qminus : q -> q -> q **)

let qminus x y =
  qplus x (qopp y)

(** val qinv : q -> q **)

let qinv x =
  (fun fO fp fn z -> let s = Big_int_Z.sign_big_int z in
  if s = 0 then fO () else if s > 0 then fp z
  else fn (Big_int_Z.minus_big_int z))
    (fun _ -> { qnum = Big_int_Z.zero_big_int; qden =
    Big_int_Z.unit_big_int })
    (fun p -> { qnum = x.qden; qden = p })
    (fun p -> { qnum = (Big_int_Z.minus_big_int x.qden); qden = p })
    x.qnum

(** val qdiv : q -> q -> q **)

let qdiv x y =
  qmult x (qinv y)

(** val qred : q -> q **)

let qred q0 =
  let { qnum = q1; qden = q2 } = q0 in
  let (r1, r2) = snd (Z.ggcd q1 q2) in { qnum = r1; qden = (Z.to_pos r2) }

type exn =
| ZeroDivisionError
| ValueError
| IndexError
| TypeError
| AttributeError
| AssertionError
| KeyError
| UnboundLocalError
| OverflowError
| NotImplementedErr
| UsageError
| ElectionError
| ElectionProfileError
| ArithmeticValuesError

type 'a res =
| Ok of 'a
| Raise of exn

(** val bind : 'a1 res -> ('a1 -> 'a2 res) -> 'a2 res **)

let bind r f =
  match r with
  | Ok a -> f a
  | Raise e -> Raise e

type operand =
| OInt of Big_int_Z.big_int
| OVal of Big_int_Z.big_int

(** val operand_raw : operand -> Big_int_Z.big_int **)

let operand_raw = function
| OInt n0 -> n0
| OVal r -> r

(** val operand_value : operand -> Big_int_Z.big_int res **)

let operand_value = function
| OInt _ -> Raise AttributeError
| OVal r -> Ok r

(** val res_true : bool res -> bool **)

let res_true = function
| Ok a -> a
| Raise _ -> false

type rnd =
| RUp
| RDown
| RNone
| ROther

(** val rnd_eqb : rnd -> rnd -> bool **)

let rnd_eqb a b =
  match a with
  | RUp -> (match b with
            | RUp -> true
            | _ -> false)
  | RDown -> (match b with
              | RDown -> true
              | _ -> false)
  | RNone -> (match b with
              | RNone -> true
              | _ -> false)
  | ROther -> (match b with
               | ROther -> true
               | _ -> false)

(** val rnd_in : rnd -> rnd list -> bool **)

let rnd_in a l =
  existsb (rnd_eqb a) l

(** val pydiv :
    Big_int_Z.big_int -> Big_int_Z.big_int -> Big_int_Z.big_int res **)

let pydiv a b =
  if Z.eqb b Big_int_Z.zero_big_int
  then Raise ZeroDivisionError
  else Ok (Z.div a b)

(** val pymod :
    Big_int_Z.big_int -> Big_int_Z.big_int -> Big_int_Z.big_int res **)

let pymod a b =
  if Z.eqb b Big_int_Z.zero_big_int
  then Raise ZeroDivisionError
  else Ok (Z.modulo a b)

(** val pydivmod :
    Big_int_Z.big_int -> Big_int_Z.big_int ->
    (Big_int_Z.big_int * Big_int_Z.big_int) res **)

let pydivmod a b =
  if Z.eqb b Big_int_Z.zero_big_int
  then Raise ZeroDivisionError
  else Ok ((Z.div a b), (Z.modulo a b))

(** val truthy : Big_int_Z.big_int -> bool **)

let truthy z0 =
  negb (Z.eqb z0 Big_int_Z.zero_big_int)

(** val py_min_by : ('a1 -> 'a1 -> bool) -> 'a1 list -> 'a1 res **)

let py_min_by lt = function
| [] -> Raise ValueError
| x :: t0 -> Ok (fold_left (fun m y -> if lt y m then y else m) t0 x)

type fixed_cls = { f_precision : Big_int_Z.big_int;
                   f_display : Big_int_Z.big_int;
                   f_scale : Big_int_Z.big_int; f_scaled : Big_int_Z.big_int;
                   f_scaledd : Big_int_Z.big_int;
                   f_scaledr : Big_int_Z.big_int }

type guarded_cls = { g_precision : Big_int_Z.big_int;
                     g_guard : Big_int_Z.big_int;
                     g_display : Big_int_Z.big_int;
                     g_scale : Big_int_Z.big_int;
                     g_scalep : Big_int_Z.big_int;
                     g_scaleg : Big_int_Z.big_int;
                     g_scaled : Big_int_Z.big_int;
                     g_scaledd : Big_int_Z.big_int;
                     g_scaledr : Big_int_Z.big_int;
                     g_scaledg : Big_int_Z.big_int; g_geps : Big_int_Z.big_int }

type fmt_args =
| Fmt2 of Big_int_Z.big_int * Big_int_Z.big_int
| Fmt3 of Big_int_Z.big_int * Big_int_Z.big_int * Big_int_Z.big_int
| FmtInt of Big_int_Z.big_int
| FmtNeg of fmt_args

module NilEmpty =
 struct
  (** val string_of_uint : uint -> string **)

  let rec string_of_uint = function
  | Nil -> ""
  | D0 d0 ->
    (* If this appears, you're using String internals. Please don't *)
  (fun (c, s) -> String.make 1 c ^ s)

      ('0', (string_of_uint d0))
  | D1 d0 ->
    (* If this appears, you're using String internals. Please don't *)
  (fun (c, s) -> String.make 1 c ^ s)

      ('1', (string_of_uint d0))
  | D2 d0 ->
    (* If this appears, you're using String internals. Please don't *)
  (fun (c, s) -> String.make 1 c ^ s)

      ('2', (string_of_uint d0))
  | D3 d0 ->
    (* If this appears, you're using String internals. Please don't *)
  (fun (c, s) -> String.make 1 c ^ s)

      ('3', (string_of_uint d0))
  | D4 d0 ->
    (* If this appears, you're using String internals. Please don't *)
  (fun (c, s) -> String.make 1 c ^ s)

      ('4', (string_of_uint d0))
  | D5 d0 ->
    (* If this appears, you're using String internals. Please don't *)
  (fun (c, s) -> String.make 1 c ^ s)

      ('5', (string_of_uint d0))
  | D6 d0 ->
    (* If this appears, you're using String internals. Please don't *)
  (fun (c, s) -> String.make 1 c ^ s)

      ('6', (string_of_uint d0))
  | D7 d0 ->
    (* If this appears, you're using String internals. Please don't *)
  (fun (c, s) -> String.make 1 c ^ s)

      ('7', (string_of_uint d0))
  | D8 d0 ->
    (* If this appears, you're using String internals. Please don't *)
  (fun (c, s) -> String.make 1 c ^ s)

      ('8', (string_of_uint d0))
  | D9 d0 ->
    (* If this appears, you're using String internals. Please don't *)
  (fun (c, s) -> String.make 1 c ^ s)

      ('9', (string_of_uint d0))
 end

module NilZero =
 struct
  (** val string_of_uint : uint -> string **)

  let string_of_uint d = match d with
  | Nil -> "0"
  | _ -> NilEmpty.string_of_uint d

  (** val string_of_int : signed_int -> string **)

  let string_of_int = function
  | Pos d0 -> string_of_uint d0
  | Neg d0 ->
    (* If this appears, you're using String internals. Please don't *)
  (fun (c, s) -> String.make 1 c ^ s)

      ('-', (string_of_uint d0))
 end

(** val string_of_Z : Big_int_Z.big_int -> string **)

let string_of_Z z0 =
  NilZero.string_of_int (Z.to_int z0)

(** val zeros : nat -> string **)

let rec zeros = function
| O -> ""
| S k ->
  (* If this appears, you're using String internals. Please don't *)
  (fun (c, s) -> String.make 1 c ^ s)

    ('0', (zeros k))

(** val pad0 : Big_int_Z.big_int -> Big_int_Z.big_int -> string **)

let pad0 width z0 =
  let w = Z.to_nat width in
  if Z.ltb z0 Big_int_Z.zero_big_int
  then let d = string_of_Z (Z.opp z0) in
       (* If this appears, you're using String internals. Please don't *)
  (fun (c, s) -> String.make 1 c ^ s)

       ('-', ((^) (zeros (sub (sub w (S O)) (length0 d))) d))
  else let d = string_of_Z z0 in (^) (zeros (sub w (length0 d))) d

(** val render_fmt :
    Big_int_Z.big_int -> Big_int_Z.big_int -> fmt_args -> string **)

let rec render_fmt w1 w2 = function
| Fmt2 (a, b) -> (^) (string_of_Z a) ((^) "." (pad0 w1 b))
| Fmt3 (a, b, c) ->
  (^) (string_of_Z a) ((^) "." ((^) (pad0 w1 b) ((^) "_" (pad0 w2 c))))
| FmtInt a -> string_of_Z a
| FmtNeg g ->
  (* If this appears, you're using String internals. Please don't *)
  (fun (c, s) -> String.make 1 c ^ s)

    ('-', (render_fmt w1 w2 g))

(** val digit_of : char -> Big_int_Z.big_int option **)

let digit_of c =
  let n0 = Z.of_nat (nat_of_ascii c) in
  if (&&)
       (Z.leb (Big_int_Z.mult_int_big_int 2 (Big_int_Z.mult_int_big_int 2
         (Big_int_Z.mult_int_big_int 2 (Big_int_Z.mult_int_big_int 2
         ((fun x -> Big_int_Z.succ_big_int (Big_int_Z.mult_int_big_int 2 x))
         Big_int_Z.unit_big_int))))) n0)
       (Z.leb n0
         ((fun x -> Big_int_Z.succ_big_int (Big_int_Z.mult_int_big_int 2 x))
         (Big_int_Z.mult_int_big_int 2 (Big_int_Z.mult_int_big_int 2
         ((fun x -> Big_int_Z.succ_big_int (Big_int_Z.mult_int_big_int 2 x))
         ((fun x -> Big_int_Z.succ_big_int (Big_int_Z.mult_int_big_int 2 x))
         Big_int_Z.unit_big_int))))))
  then Some
         (Z.sub n0 (Big_int_Z.mult_int_big_int 2
           (Big_int_Z.mult_int_big_int 2 (Big_int_Z.mult_int_big_int 2
           (Big_int_Z.mult_int_big_int 2
           ((fun x -> Big_int_Z.succ_big_int (Big_int_Z.mult_int_big_int 2 x))
           Big_int_Z.unit_big_int))))))
  else None

(** val qfloor : q -> Big_int_Z.big_int **)

let qfloor x =
  let { qnum = n0; qden = d } = x in Z.div n0 d

(** val init_r : fixed_cls -> operand -> bool -> Big_int_Z.big_int res **)

let init_r st arg = function
| true -> let self_1 = operand_raw arg in Ok self_1
| false ->
  (match arg with
   | OInt arg_i_2 -> let self_4 = Z.mul arg_i_2 st.f_scale in Ok self_4
   | OVal arg_o_3 -> Ok arg_o_3)

(** val init : fixed_cls -> operand -> bool -> Big_int_Z.big_int **)

let init st arg setval =
  match init_r st arg setval with
  | Ok v -> v
  | Raise _ -> Big_int_Z.zero_big_int

(** val dunder_add :
    fixed_cls -> Big_int_Z.big_int -> operand -> Big_int_Z.big_int res **)

let dunder_add st self other =
  let v_1 = init st other false in let v_2 = Z.add v_1 self in Ok v_2

(** val dunder_sub :
    fixed_cls -> Big_int_Z.big_int -> operand -> Big_int_Z.big_int res **)

let dunder_sub st self other =
  let v_1 = init st other false in let v_2 = Z.sub self v_1 in Ok v_2

(** val dunder_neg :
    fixed_cls -> Big_int_Z.big_int -> Big_int_Z.big_int res **)

let dunder_neg st self =
  let v_1 = init st (OVal self) false in let v_2 = Z.opp v_1 in Ok v_2

(** val dunder_pos :
    fixed_cls -> Big_int_Z.big_int -> Big_int_Z.big_int res **)

let dunder_pos st self =
  Ok (init st (OVal self) false)

(** val dunder_bool : fixed_cls -> Big_int_Z.big_int -> bool res **)

let dunder_bool _ self =
  Ok (negb (Z.eqb self Big_int_Z.zero_big_int))

(** val dunder_abs :
    fixed_cls -> Big_int_Z.big_int -> Big_int_Z.big_int res **)

let dunder_abs st self =
  let v_1 = init st (OVal self) false in let v_2 = Z.abs v_1 in Ok v_2

(** val dunder_mul :
    fixed_cls -> Big_int_Z.big_int -> operand -> Big_int_Z.big_int res **)

let dunder_mul st self other =
  let v_1 = init st (OVal self) false in
  (match other with
   | OInt other_i_2 -> let v_4 = Z.mul v_1 other_i_2 in Ok v_4
   | OVal other_o_3 ->
     let v_5 = Z.mul v_1 other_o_3 in
     bind (pydiv v_5 st.f_scale) (fun v_6 -> Ok v_6))

(** val dunder_floordiv :
    fixed_cls -> Big_int_Z.big_int -> operand -> Big_int_Z.big_int res **)

let dunder_floordiv st self other =
  let v_1 = init st (OVal self) false in
  (match other with
   | OInt other_i_2 -> bind (pydiv v_1 other_i_2) (fun v_4 -> Ok v_4)
   | OVal other_o_3 ->
     let v_5 = Z.mul v_1 st.f_scale in
     bind (pydiv v_5 other_o_3) (fun v_6 -> Ok v_6))

(** val mul0 :
    fixed_cls -> operand -> operand -> rnd -> Big_int_Z.big_int res **)

let mul0 st arg1 arg2 round0 =
  let v1_1 = init st arg1 false in
  let v2_2 = init st arg2 false in
  if negb (rnd_in round0 (RDown :: (RUp :: [])))
  then Raise ValueError
  else bind (pydivmod (Z.mul v1_1 v2_2) st.f_scale) (fun x ->
         let (v1_3, rem_4) = x in
         if (&&) (truthy rem_4) (rnd_eqb round0 RUp)
         then let v1_5 = Z.add v1_3 Big_int_Z.unit_big_int in Ok v1_5
         else Ok v1_3)

(** val div0 :
    fixed_cls -> operand -> operand -> rnd -> Big_int_Z.big_int res **)

let div0 st arg1 arg2 round0 =
  let v1_1 = init st arg1 false in
  let v2_2 = init st arg2 false in
  if negb (rnd_in round0 (RDown :: (RUp :: [])))
  then Raise ValueError
  else bind (pydivmod (Z.mul v1_1 st.f_scale) v2_2) (fun x ->
         let (v1_3, rem_4) = x in
         if (&&) (truthy rem_4) (rnd_eqb round0 RUp)
         then let v1_5 = Z.add v1_3 Big_int_Z.unit_big_int in Ok v1_5
         else Ok v1_3)

(** val muldiv :
    fixed_cls -> operand -> operand -> operand -> rnd -> Big_int_Z.big_int res **)

let muldiv st arg1 arg2 arg3 round0 =
  let v1_1 = init st arg1 false in
  let v2_2 = init st arg2 false in
  let v3_3 = init st arg3 false in
  bind (pydivmod (Z.mul v1_1 v2_2) v3_3) (fun x ->
    let (v1_4, rem_5) = x in
    if negb (rnd_in round0 (RDown :: (RUp :: [])))
    then Raise ValueError
    else if (&&) (truthy rem_5) (rnd_eqb round0 RUp)
         then let v1_6 = Z.add v1_4 Big_int_Z.unit_big_int in Ok v1_6
         else Ok v1_4)

(** val dunder_eq : fixed_cls -> Big_int_Z.big_int -> operand -> bool res **)

let dunder_eq _ self other =
  bind (operand_value other) (fun other_v_1 -> Ok (Z.eqb self other_v_1))

(** val dunder_ne : fixed_cls -> Big_int_Z.big_int -> operand -> bool res **)

let dunder_ne _ self other =
  bind (operand_value other) (fun other_v_1 -> Ok
    (negb (Z.eqb self other_v_1)))

(** val dunder_lt : fixed_cls -> Big_int_Z.big_int -> operand -> bool res **)

let dunder_lt _ self other =
  bind (operand_value other) (fun other_v_1 -> Ok (Z.ltb self other_v_1))

(** val dunder_le : fixed_cls -> Big_int_Z.big_int -> operand -> bool res **)

let dunder_le _ self other =
  bind (operand_value other) (fun other_v_1 -> Ok (Z.leb self other_v_1))

(** val dunder_gt : fixed_cls -> Big_int_Z.big_int -> operand -> bool res **)

let dunder_gt _ self other =
  bind (operand_value other) (fun other_v_1 -> Ok (Z.ltb other_v_1 self))

(** val dunder_ge : fixed_cls -> Big_int_Z.big_int -> operand -> bool res **)

let dunder_ge _ self other =
  bind (operand_value other) (fun other_v_1 -> Ok (Z.leb other_v_1 self))

(** val min : fixed_cls -> Big_int_Z.big_int list -> Big_int_Z.big_int res **)

let min st vals =
  bind (py_min_by (fun a b -> res_true (dunder_lt st a (OVal b))) vals)
    (fun m_1 -> Ok m_1)

(** val dunder_str : fixed_cls -> Big_int_Z.big_int -> fmt_args res **)

let dunder_str st self =
  if Z.eqb st.f_precision Big_int_Z.zero_big_int
  then Ok (FmtInt self)
  else if Z.ltb st.f_display st.f_precision
       then let v_2 = Z.add self st.f_scaledr in
            bind (pydiv v_2 st.f_scaledd) (fun v_3 ->
              if Z.ltb v_3 Big_int_Z.zero_big_int
              then bind (pydiv (Z.opp v_3) st.f_scaled) (fun q_4 ->
                     bind (pymod (Z.opp v_3) st.f_scaled) (fun r_5 -> Ok
                       (FmtNeg (Fmt2 (q_4, r_5)))))
              else bind (pydiv v_3 st.f_scaled) (fun q_6 ->
                     bind (pymod v_3 st.f_scaled) (fun r_7 -> Ok (Fmt2 (q_6,
                       r_7)))))
       else if Z.ltb self Big_int_Z.zero_big_int
            then bind (pydiv (Z.opp self) st.f_scaled) (fun q_8 ->
                   bind (pymod (Z.opp self) st.f_scaled) (fun r_9 -> Ok
                     (FmtNeg (Fmt2 (q_8, r_9)))))
            else bind (pydiv self st.f_scaled) (fun q_10 ->
                   bind (pymod self st.f_scaled) (fun r_11 -> Ok (Fmt2 (q_10,
                     r_11))))

(** val dunder_truediv :
    fixed_cls -> Big_int_Z.big_int -> operand -> Big_int_Z.big_int res **)

let dunder_truediv =
  dunder_floordiv

(** val init_r0 : guarded_cls -> operand -> bool -> Big_int_Z.big_int res **)

let init_r0 st arg = function
| true -> let self_1 = operand_raw arg in Ok self_1
| false ->
  (match arg with
   | OInt arg_i_2 -> let self_4 = Z.mul arg_i_2 st.g_scale in Ok self_4
   | OVal arg_o_3 -> Ok arg_o_3)

(** val init0 : guarded_cls -> operand -> bool -> Big_int_Z.big_int **)

let init0 st arg setval =
  match init_r0 st arg setval with
  | Ok v -> v
  | Raise _ -> Big_int_Z.zero_big_int

(** val dunder_add0 :
    guarded_cls -> Big_int_Z.big_int -> operand -> Big_int_Z.big_int res **)

let dunder_add0 st self other =
  let v_1 = init0 st other false in Ok (init0 st (OInt (Z.add self v_1)) true)

(** val dunder_sub0 :
    guarded_cls -> Big_int_Z.big_int -> operand -> Big_int_Z.big_int res **)

let dunder_sub0 st self other =
  let v_1 = init0 st other false in Ok (init0 st (OInt (Z.sub self v_1)) true)

(** val dunder_neg0 :
    guarded_cls -> Big_int_Z.big_int -> Big_int_Z.big_int res **)

let dunder_neg0 st self =
  Ok (init0 st (OInt (Z.opp self)) true)

(** val dunder_pos0 :
    guarded_cls -> Big_int_Z.big_int -> Big_int_Z.big_int res **)

let dunder_pos0 st self =
  Ok (init0 st (OInt self) true)

(** val dunder_bool0 : guarded_cls -> Big_int_Z.big_int -> bool res **)

let dunder_bool0 _ self =
  Ok (negb (Z.eqb self Big_int_Z.zero_big_int))

(** val dunder_abs0 :
    guarded_cls -> Big_int_Z.big_int -> Big_int_Z.big_int res **)

let dunder_abs0 st self =
  Ok (init0 st (OInt (Z.abs self)) true)

(** val dunder_mul0 :
    guarded_cls -> Big_int_Z.big_int -> operand -> Big_int_Z.big_int res **)

let dunder_mul0 st self = function
| OInt other_i_1 -> Ok (init0 st (OInt (Z.mul self other_i_1)) true)
| OVal other_o_2 ->
  bind (pydiv (Z.mul self other_o_2) st.g_scale) (fun q_3 -> Ok
    (init0 st (OInt q_3) true))

(** val dunder_floordiv0 :
    guarded_cls -> Big_int_Z.big_int -> operand -> Big_int_Z.big_int res **)

let dunder_floordiv0 st self = function
| OInt other_i_1 ->
  bind (pydiv self other_i_1) (fun q_3 -> Ok (init0 st (OInt q_3) true))
| OVal other_o_2 ->
  bind (pydiv (Z.mul self st.g_scale) other_o_2) (fun q_4 -> Ok
    (init0 st (OInt q_4) true))

(** val mul1 :
    guarded_cls -> operand -> operand -> rnd -> Big_int_Z.big_int res **)

let mul1 st arg1 arg2 round0 =
  let v1_1 = init0 st arg1 false in
  let v2_2 = init0 st arg2 false in
  if truthy st.g_guard
  then bind (pydiv (Z.mul v1_1 v2_2) st.g_scale) (fun q_3 -> Ok q_3)
  else bind (pydivmod (Z.mul v1_1 v2_2) st.g_scale) (fun x ->
         let (v1_5, rem_6) = x in
         if (&&) (truthy rem_6) (rnd_eqb round0 RUp)
         then let v1_7 = Z.add v1_5 Big_int_Z.unit_big_int in Ok v1_7
         else Ok v1_5)

(** val div1 :
    guarded_cls -> operand -> operand -> rnd -> Big_int_Z.big_int res **)

let div1 st arg1 arg2 round0 =
  let v1_1 = init0 st arg1 false in
  let v2_2 = init0 st arg2 false in
  if truthy st.g_guard
  then bind (pydiv (Z.mul v1_1 st.g_scale) v2_2) (fun q_3 -> Ok q_3)
  else bind (pydivmod (Z.mul v1_1 st.g_scale) v2_2) (fun x ->
         let (v1_5, rem_6) = x in
         if (&&) (truthy rem_6) (rnd_eqb round0 RUp)
         then let v1_7 = Z.add v1_5 Big_int_Z.unit_big_int in Ok v1_7
         else Ok v1_5)

(** val muldiv0 :
    guarded_cls -> operand -> operand -> operand -> rnd -> Big_int_Z.big_int
    res **)

let muldiv0 st arg1 arg2 arg3 round0 =
  let v1_1 = init0 st arg1 false in
  let v2_2 = init0 st arg2 false in
  let v3_3 = init0 st arg3 false in
  if truthy st.g_guard
  then bind (pydiv (Z.mul v1_1 v2_2) v3_3) (fun q_4 -> Ok q_4)
  else bind (pydivmod (Z.mul v1_1 v2_2) v3_3) (fun x ->
         let (v1_6, rem_7) = x in
         if (&&) (truthy rem_7) (rnd_eqb round0 RUp)
         then let v1_8 = Z.add v1_6 Big_int_Z.unit_big_int in Ok v1_8
         else Ok v1_6)

(** val dunder_cmp :
    guarded_cls -> Big_int_Z.big_int -> operand -> Big_int_Z.big_int res **)

let dunder_cmp st self other =
  bind (operand_value other) (fun other_v_1 ->
    let gdiff_2 = Z.abs (Z.sub self other_v_1) in
    if Z.ltb gdiff_2 st.g_geps
    then Ok Big_int_Z.zero_big_int
    else bind (operand_value other) (fun other_v_3 ->
           if Z.ltb other_v_3 self
           then Ok Big_int_Z.unit_big_int
           else Ok (Z.opp Big_int_Z.unit_big_int)))

(** val dunder_eq0 :
    guarded_cls -> Big_int_Z.big_int -> operand -> bool res **)

let dunder_eq0 st self other =
  bind (dunder_cmp st self other) (fun c_1 -> Ok
    (Z.eqb c_1 Big_int_Z.zero_big_int))

(** val dunder_ne0 :
    guarded_cls -> Big_int_Z.big_int -> operand -> bool res **)

let dunder_ne0 st self other =
  bind (dunder_cmp st self other) (fun c_1 -> Ok
    (negb (Z.eqb c_1 Big_int_Z.zero_big_int)))

(** val dunder_lt0 :
    guarded_cls -> Big_int_Z.big_int -> operand -> bool res **)

let dunder_lt0 st self other =
  bind (dunder_cmp st self other) (fun c_1 -> Ok
    (Z.ltb c_1 Big_int_Z.zero_big_int))

(** val dunder_le0 :
    guarded_cls -> Big_int_Z.big_int -> operand -> bool res **)

let dunder_le0 st self other =
  bind (dunder_cmp st self other) (fun c_1 -> Ok
    (Z.leb c_1 Big_int_Z.zero_big_int))

(** val dunder_gt0 :
    guarded_cls -> Big_int_Z.big_int -> operand -> bool res **)

let dunder_gt0 st self other =
  bind (dunder_cmp st self other) (fun c_1 -> Ok
    (Z.ltb Big_int_Z.zero_big_int c_1))

(** val dunder_ge0 :
    guarded_cls -> Big_int_Z.big_int -> operand -> bool res **)

let dunder_ge0 st self other =
  bind (dunder_cmp st self other) (fun c_1 -> Ok
    (Z.leb Big_int_Z.zero_big_int c_1))

(** val min0 :
    guarded_cls -> Big_int_Z.big_int list -> Big_int_Z.big_int res **)

let min0 _ = function
| [] -> Raise IndexError
| x0 :: rest ->
  Ok
    (fold_left (fun acc val0 -> if Z.ltb val0 acc then val0 else acc) rest x0)

(** val dunder_str0 : guarded_cls -> Big_int_Z.big_int -> fmt_args res **)

let dunder_str0 st self =
  bind (pydiv (Z.add self st.g_scaledr) st.g_scaledd) (fun q_2 ->
    let neg_4 = Z.ltb q_2 Big_int_Z.zero_big_int in
    if neg_4
    then let gv_5 = Z.opp q_2 in
         if Z.leb st.g_display st.g_precision
         then bind (pydiv gv_5 st.g_scaled) (fun q_6 ->
                bind (pymod gv_5 st.g_scaled) (fun r_7 ->
                  let s_8 = Fmt2 (q_6, r_7) in
                  Ok (if neg_4 then FmtNeg s_8 else s_8)))
         else bind (pymod gv_5 st.g_scaled) (fun r_9 ->
                bind (pydiv gv_5 st.g_scaled) (fun q_11 ->
                  bind (pydiv r_9 st.g_scaledg) (fun q_12 ->
                    bind (pymod r_9 st.g_scaledg) (fun r_13 ->
                      let s_14 = Fmt3 (q_11, q_12, r_13) in
                      Ok (if neg_4 then FmtNeg s_14 else s_14)))))
    else if Z.leb st.g_display st.g_precision
         then bind (pydiv q_2 st.g_scaled) (fun q_15 ->
                bind (pymod q_2 st.g_scaled) (fun r_16 ->
                  let s_17 = Fmt2 (q_15, r_16) in
                  Ok (if neg_4 then FmtNeg s_17 else s_17)))
         else bind (pymod q_2 st.g_scaled) (fun r_18 ->
                bind (pydiv q_2 st.g_scaled) (fun q_20 ->
                  bind (pydiv r_18 st.g_scaledg) (fun q_21 ->
                    bind (pymod r_18 st.g_scaledg) (fun r_22 ->
                      let s_23 = Fmt3 (q_20, q_21, r_22) in
                      Ok (if neg_4 then FmtNeg s_23 else s_23))))))

(** val dunder_hash :
    guarded_cls -> Big_int_Z.big_int -> Big_int_Z.big_int res **)

let dunder_hash _ _ =
  Raise NotImplementedErr

(** val dunder_truediv0 :
    guarded_cls -> Big_int_Z.big_int -> operand -> Big_int_Z.big_int res **)

let dunder_truediv0 =
  dunder_floordiv0

(** val unres : 'a1 -> 'a1 res -> 'a1 **)

let unres d = function
| Ok a -> a
| Raise _ -> d

type arith = { of_int : (Big_int_Z.big_int -> __); add0 : (__ -> __ -> __);
               sub0 : (__ -> __ -> __); mulv : (__ -> __ -> __);
               divv : (__ -> __ -> __ res); floordivv : (__ -> __ -> __ res);
               kmul : (__ -> __ -> bool -> __);
               kdiv : (__ -> __ -> bool -> __ res);
               kmuldiv : (__ -> __ -> __ -> bool -> __ res);
               eqv : (__ -> __ -> bool); ltv : (__ -> __ -> bool);
               lev : (__ -> __ -> bool); gtv : (__ -> __ -> bool);
               gev : (__ -> __ -> bool); truth : (__ -> bool);
               vmin : (__ -> __ list -> __); epsilon : __; exact : bool;
               str : (__ -> string); raw_repr : (__ -> string) }

type t = __

(** val rnd_of : bool -> rnd **)

let rnd_of = function
| true -> RUp
| false -> RDown

type arith_meta = { aname : string; ainfo : string;
                    areport : (string -> string -> string) }

(** val nev : arith -> t -> t -> bool **)

let nev a a0 b =
  negb (a.eqv a0 b)

(** val fixed_display :
    Big_int_Z.big_int -> Big_int_Z.big_int -> Big_int_Z.big_int **)

let fixed_display p d0 =
  if (||) (Z.ltb d0 Big_int_Z.zero_big_int) (Z.ltb p d0) then p else d0

(** val mk_fixed_cls : Big_int_Z.big_int -> Big_int_Z.big_int -> fixed_cls **)

let mk_fixed_cls p d0 =
  let d = fixed_display p d0 in
  { f_precision = p; f_display = d; f_scale =
  (Z.pow (Big_int_Z.mult_int_big_int 2
    ((fun x -> Big_int_Z.succ_big_int (Big_int_Z.mult_int_big_int 2 x))
    (Big_int_Z.mult_int_big_int 2 Big_int_Z.unit_big_int))) p); f_scaled =
  (Z.pow (Big_int_Z.mult_int_big_int 2
    ((fun x -> Big_int_Z.succ_big_int (Big_int_Z.mult_int_big_int 2 x))
    (Big_int_Z.mult_int_big_int 2 Big_int_Z.unit_big_int))) d); f_scaledd =
  (Z.pow (Big_int_Z.mult_int_big_int 2
    ((fun x -> Big_int_Z.succ_big_int (Big_int_Z.mult_int_big_int 2 x))
    (Big_int_Z.mult_int_big_int 2 Big_int_Z.unit_big_int))) (Z.sub p d));
  f_scaledr =
  (Z.div
    (Z.pow (Big_int_Z.mult_int_big_int 2
      ((fun x -> Big_int_Z.succ_big_int (Big_int_Z.mult_int_big_int 2 x))
      (Big_int_Z.mult_int_big_int 2 Big_int_Z.unit_big_int))) (Z.sub p d))
    (Big_int_Z.mult_int_big_int 2 Big_int_Z.unit_big_int)) }

(** val fixed_str : fixed_cls -> Big_int_Z.big_int -> string **)

let fixed_str st v =
  match dunder_str st v with
  | Ok f -> render_fmt st.f_display Big_int_Z.zero_big_int f
  | Raise _ -> "<exception>"

(** val fixed_info : Big_int_Z.big_int -> Big_int_Z.big_int -> string **)

let fixed_info p d =
  if Z.eqb p Big_int_Z.zero_big_int
  then "integer arithmetic"
  else if negb (Z.eqb d p)
       then (^) "fixed-point decimal arithmetic ("
              ((^) (string_of_Z p)
                ((^) " places, " ((^) (string_of_Z d) " displayed)")))
       else (^) "fixed-point decimal arithmetic ("
              ((^) (string_of_Z p) " places)")

(** val fixed : Big_int_Z.big_int -> Big_int_Z.big_int -> arith **)

let fixed p d =
  let st = mk_fixed_cls p d in
  { of_int = (fun n0 -> Obj.magic init st (OInt n0) false); add0 =
  (fun a b ->
  unres (Obj.magic Big_int_Z.zero_big_int)
    (Obj.magic dunder_add st a (OVal (Obj.magic b)))); sub0 = (fun a b ->
  unres (Obj.magic Big_int_Z.zero_big_int)
    (Obj.magic dunder_sub st a (OVal (Obj.magic b)))); mulv = (fun a b ->
  unres (Obj.magic Big_int_Z.zero_big_int)
    (Obj.magic dunder_mul st a (OVal (Obj.magic b)))); divv = (fun a b ->
  Obj.magic dunder_truediv st a (OVal (Obj.magic b))); floordivv =
  (fun a b -> Obj.magic dunder_floordiv st a (OVal (Obj.magic b))); kmul =
  (fun a b up ->
  unres (Obj.magic Big_int_Z.zero_big_int)
    (Obj.magic mul0 st (OVal (Obj.magic a)) (OVal (Obj.magic b)) (rnd_of up)));
  kdiv = (fun a b up ->
  Obj.magic div0 st (OVal (Obj.magic a)) (OVal (Obj.magic b)) (rnd_of up));
  kmuldiv = (fun a b c up ->
  Obj.magic muldiv st (OVal (Obj.magic a)) (OVal (Obj.magic b)) (OVal
    (Obj.magic c)) (rnd_of up)); eqv = (fun a b ->
  res_true (dunder_eq st (Obj.magic a) (OVal (Obj.magic b)))); ltv =
  (fun a b -> res_true (dunder_lt st (Obj.magic a) (OVal (Obj.magic b))));
  lev = (fun a b ->
  res_true (dunder_le st (Obj.magic a) (OVal (Obj.magic b)))); gtv =
  (fun a b -> res_true (dunder_gt st (Obj.magic a) (OVal (Obj.magic b))));
  gev = (fun a b ->
  res_true (dunder_ge st (Obj.magic a) (OVal (Obj.magic b)))); truth =
  (fun a -> res_true (dunder_bool st (Obj.magic a))); vmin = (fun x l ->
  unres x (Obj.magic min st ((Obj.magic x) :: (Obj.magic l)))); epsilon =
  (Obj.magic Big_int_Z.unit_big_int); exact = false; str =
  (Obj.magic fixed_str st); raw_repr = (Obj.magic string_of_Z) }

(** val fixedMeta : Big_int_Z.big_int -> Big_int_Z.big_int -> arith_meta **)

let fixedMeta p d =
  { aname = (if Z.eqb p Big_int_Z.zero_big_int then "integer" else "fixed");
    ainfo = (fixed_info p (fixed_display p d)); areport = (fun _ _ -> "") }

(** val mk_guarded_cls :
    Big_int_Z.big_int -> Big_int_Z.big_int -> Big_int_Z.big_int ->
    Big_int_Z.big_int -> guarded_cls **)

let mk_guarded_cls p g d0 stale =
  let d = if Z.ltb (Z.add p g) d0 then Z.add p g else d0 in
  let geps0 =
    Z.div
      (Z.pow (Big_int_Z.mult_int_big_int 2
        ((fun x -> Big_int_Z.succ_big_int (Big_int_Z.mult_int_big_int 2 x))
        (Big_int_Z.mult_int_big_int 2 Big_int_Z.unit_big_int))) g)
      (Big_int_Z.mult_int_big_int 2 Big_int_Z.unit_big_int)
  in
  { g_precision = p; g_guard = g; g_display = d; g_scale =
  (Z.pow (Big_int_Z.mult_int_big_int 2
    ((fun x -> Big_int_Z.succ_big_int (Big_int_Z.mult_int_big_int 2 x))
    (Big_int_Z.mult_int_big_int 2 Big_int_Z.unit_big_int))) (Z.add p g));
  g_scalep =
  (Z.pow (Big_int_Z.mult_int_big_int 2
    ((fun x -> Big_int_Z.succ_big_int (Big_int_Z.mult_int_big_int 2 x))
    (Big_int_Z.mult_int_big_int 2 Big_int_Z.unit_big_int))) p); g_scaleg =
  (Z.pow (Big_int_Z.mult_int_big_int 2
    ((fun x -> Big_int_Z.succ_big_int (Big_int_Z.mult_int_big_int 2 x))
    (Big_int_Z.mult_int_big_int 2 Big_int_Z.unit_big_int))) g); g_scaled =
  (Z.pow (Big_int_Z.mult_int_big_int 2
    ((fun x -> Big_int_Z.succ_big_int (Big_int_Z.mult_int_big_int 2 x))
    (Big_int_Z.mult_int_big_int 2 Big_int_Z.unit_big_int))) d); g_scaledd =
  (Z.pow (Big_int_Z.mult_int_big_int 2
    ((fun x -> Big_int_Z.succ_big_int (Big_int_Z.mult_int_big_int 2 x))
    (Big_int_Z.mult_int_big_int 2 Big_int_Z.unit_big_int)))
    (Z.sub (Z.add g p) d)); g_scaledr =
  (Z.div
    (Z.pow (Big_int_Z.mult_int_big_int 2
      ((fun x -> Big_int_Z.succ_big_int (Big_int_Z.mult_int_big_int 2 x))
      (Big_int_Z.mult_int_big_int 2 Big_int_Z.unit_big_int)))
      (Z.sub (Z.add g p) d)) (Big_int_Z.mult_int_big_int 2
    Big_int_Z.unit_big_int)); g_scaledg =
  (if Z.ltb p d
   then Z.pow (Big_int_Z.mult_int_big_int 2
          ((fun x -> Big_int_Z.succ_big_int (Big_int_Z.mult_int_big_int 2 x))
          (Big_int_Z.mult_int_big_int 2 Big_int_Z.unit_big_int))) (Z.sub d p)
   else stale); g_geps =
  (if Z.eqb geps0 Big_int_Z.zero_big_int
   then Big_int_Z.unit_big_int
   else geps0) }

(** val guarded_str : guarded_cls -> Big_int_Z.big_int -> string **)

let guarded_str st v =
  match dunder_str0 st v with
  | Ok f ->
    if Z.leb st.g_display st.g_precision
    then render_fmt st.g_display Big_int_Z.zero_big_int f
    else render_fmt st.g_precision (Z.sub st.g_display st.g_precision) f
  | Raise _ -> "<exception>"

(** val guarded_info :
    Big_int_Z.big_int -> Big_int_Z.big_int -> Big_int_Z.big_int -> string **)

let guarded_info p g d =
  if negb (Z.eqb d p)
  then (^) "guarded-precision fixed-point decimal arithmetic ("
         ((^) (string_of_Z p)
           ((^) "+"
             ((^) (string_of_Z g)
               ((^) " places; " ((^) (string_of_Z d) " displayed)")))))
  else (^) "guarded-precision fixed-point decimal arithmetic ("
         ((^) (string_of_Z p) ((^) "+" ((^) (string_of_Z g) " places)")))

(** val tab : string **)

let tab =
  (* If this appears, you're using String internals. Please don't *)
  (fun (c, s) -> String.make 1 c ^ s)

    ((ascii_of_nat (S (S (S (S (S (S (S (S (S O)))))))))), "")

(** val nl : string **)

let nl =
  (* If this appears, you're using String internals. Please don't *)
  (fun (c, s) -> String.make 1 c ^ s)

    ((ascii_of_nat (S (S (S (S (S (S (S (S (S (S O))))))))))), "")

(** val guarded_report : guarded_cls -> string -> string -> string **)

let guarded_report st maxd mind =
  (^) tab
    ((^) "maxDiff: "
      ((^) maxd
        ((^) "  (s/b << geps)"
          ((^) nl
            ((^) tab
              ((^) "geps:    "
                ((^) (string_of_Z st.g_geps)
                  ((^) nl
                    ((^) tab
                      ((^) "minDiff: "
                        ((^) mind
                          ((^) "  (s/b >> geps)"
                            ((^) nl
                              ((^) tab
                                ((^) "guard:   "
                                  ((^) (string_of_Z st.g_scaleg)
                                    ((^) nl
                                      ((^) tab
                                        ((^) "prec:    "
                                          ((^) (string_of_Z st.g_scale)
                                            ((^) nl nl)))))))))))))))))))))

(** val guarded :
    Big_int_Z.big_int -> Big_int_Z.big_int -> Big_int_Z.big_int ->
    Big_int_Z.big_int -> arith **)

let guarded p g d stale =
  let st = mk_guarded_cls p g d stale in
  { of_int = (fun n0 -> Obj.magic init0 st (OInt n0) false); add0 =
  (fun a b ->
  unres (Obj.magic Big_int_Z.zero_big_int)
    (Obj.magic dunder_add0 st a (OVal (Obj.magic b)))); sub0 = (fun a b ->
  unres (Obj.magic Big_int_Z.zero_big_int)
    (Obj.magic dunder_sub0 st a (OVal (Obj.magic b)))); mulv = (fun a b ->
  unres (Obj.magic Big_int_Z.zero_big_int)
    (Obj.magic dunder_mul0 st a (OVal (Obj.magic b)))); divv = (fun a b ->
  Obj.magic dunder_truediv0 st a (OVal (Obj.magic b))); floordivv =
  (fun a b -> Obj.magic dunder_floordiv0 st a (OVal (Obj.magic b))); kmul =
  (fun a b up ->
  unres (Obj.magic Big_int_Z.zero_big_int)
    (Obj.magic mul1 st (OVal (Obj.magic a)) (OVal (Obj.magic b)) (rnd_of up)));
  kdiv = (fun a b up ->
  Obj.magic div1 st (OVal (Obj.magic a)) (OVal (Obj.magic b)) (rnd_of up));
  kmuldiv = (fun a b c up ->
  Obj.magic muldiv0 st (OVal (Obj.magic a)) (OVal (Obj.magic b)) (OVal
    (Obj.magic c)) (rnd_of up)); eqv = (fun a b ->
  res_true (dunder_eq0 st (Obj.magic a) (OVal (Obj.magic b)))); ltv =
  (fun a b -> res_true (dunder_lt0 st (Obj.magic a) (OVal (Obj.magic b))));
  lev = (fun a b ->
  res_true (dunder_le0 st (Obj.magic a) (OVal (Obj.magic b)))); gtv =
  (fun a b -> res_true (dunder_gt0 st (Obj.magic a) (OVal (Obj.magic b))));
  gev = (fun a b ->
  res_true (dunder_ge0 st (Obj.magic a) (OVal (Obj.magic b)))); truth =
  (fun a -> res_true (dunder_bool0 st (Obj.magic a))); vmin = (fun x l ->
  unres x (Obj.magic min0 st ((Obj.magic x) :: (Obj.magic l)))); epsilon =
  (Obj.magic Big_int_Z.unit_big_int); exact =
  (negb (Z.eqb g Big_int_Z.zero_big_int)); str = (Obj.magic guarded_str st);
  raw_repr = (Obj.magic string_of_Z) }

(** val guardedMeta :
    Big_int_Z.big_int -> Big_int_Z.big_int -> Big_int_Z.big_int ->
    Big_int_Z.big_int -> arith_meta **)

let guardedMeta p g d stale =
  let st = mk_guarded_cls p g d stale in
  { aname = "guarded"; ainfo = (guarded_info p g st.g_display); areport =
  (guarded_report st) }

(** val qz : q -> bool **)

let qz q0 =
  Z.eqb q0.qnum Big_int_Z.zero_big_int

(** val q_div : q -> q -> q res **)

let q_div a b =
  if qz b then Raise ZeroDivisionError else Ok (qred (qdiv a b))

(** val q_floordiv : q -> q -> q res **)

let q_floordiv a b =
  if qz b then Raise ZeroDivisionError else Ok (inject_Z (qfloor (qdiv a b)))

(** val q_lt : q -> q -> bool **)

let q_lt a b =
  match qcompare a b with
  | Lt -> true
  | _ -> false

(** val q_le : q -> q -> bool **)

let q_le a b =
  match qcompare a b with
  | Gt -> false
  | _ -> true

(** val rational_fmt : Big_int_Z.big_int -> q -> fmt_args **)

let rational_fmt dp q0 =
  let q1 = qred q0 in
  let dps =
    Z.pow (Big_int_Z.mult_int_big_int 2
      ((fun x -> Big_int_Z.succ_big_int (Big_int_Z.mult_int_big_int 2 x))
      (Big_int_Z.mult_int_big_int 2 Big_int_Z.unit_big_int))) dp
  in
  let v =
    if (||) (Z.eqb q1.qnum Big_int_Z.zero_big_int)
         (Z.eqb q1.qden Big_int_Z.unit_big_int)
    then Z.mul q1.qnum dps
    else let w =
           qred
             (qplus q1
               (qred { qnum = Big_int_Z.unit_big_int; qden =
                 (Z.to_pos
                   (Z.mul dps (Big_int_Z.mult_int_big_int 2
                     Big_int_Z.unit_big_int))) }))
         in
         Z.div (Z.mul w.qnum dps) w.qden
  in
  if Z.ltb v Big_int_Z.zero_big_int
  then FmtNeg (Fmt2 ((Z.div (Z.opp v) dps), (Z.modulo (Z.opp v) dps)))
  else Fmt2 ((Z.div v dps), (Z.modulo v dps))

(** val rational_str : Big_int_Z.big_int -> q -> string **)

let rational_str dp q0 =
  render_fmt dp Big_int_Z.zero_big_int (rational_fmt dp q0)

(** val rational : Big_int_Z.big_int -> arith **)

let rational dp =
  { of_int = (fun n0 -> Obj.magic inject_Z n0); add0 = (fun a b ->
    Obj.magic qred (qplus (Obj.magic a) (Obj.magic b))); sub0 = (fun a b ->
    Obj.magic qred (qminus (Obj.magic a) (Obj.magic b))); mulv = (fun a b ->
    Obj.magic qred (qmult (Obj.magic a) (Obj.magic b))); divv =
    (Obj.magic q_div); floordivv = (Obj.magic q_floordiv); kmul =
    (fun a b _ -> Obj.magic qred (qmult (Obj.magic a) (Obj.magic b))); kdiv =
    (fun a b _ -> Obj.magic q_div a b); kmuldiv = (fun a b c _ ->
    Obj.magic q_div (qred (qmult (Obj.magic a) (Obj.magic b))) c); eqv =
    (Obj.magic qeq_bool); ltv = (Obj.magic q_lt); lev = (Obj.magic q_le);
    gtv = (fun a b -> q_lt (Obj.magic b) (Obj.magic a)); gev = (fun a b ->
    q_le (Obj.magic b) (Obj.magic a)); truth = (fun a ->
    negb (qz (Obj.magic a))); vmin = (fun x l ->
    unres x (py_min_by (Obj.magic q_lt) (x :: l))); epsilon =
    (Obj.magic { qnum = Big_int_Z.zero_big_int; qden =
      Big_int_Z.unit_big_int }); exact = true; str =
    (Obj.magic rational_str dp); raw_repr = (fun q0 ->
    let r = qred (Obj.magic q0) in
    (^) (string_of_Z r.qnum) ((^) "/" (string_of_Z r.qden))) }

(** val rationalMeta : arith_meta **)

let rationalMeta =
  { aname = "rational"; ainfo = "rational arithmetic"; areport = (fun _ _ ->
    "") }

(** val run_asc : ('a1 -> 'a1 -> bool) -> 'a1 -> 'a1 list -> nat **)

let rec run_asc lt prev = function
| [] -> O
| x :: t0 -> if lt x prev then O else S (run_asc lt x t0)

(** val run_desc : ('a1 -> 'a1 -> bool) -> 'a1 -> 'a1 list -> nat **)

let rec run_desc lt prev = function
| [] -> O
| x :: t0 -> if lt x prev then S (run_desc lt x t0) else O

(** val bsearch :
    ('a1 -> 'a1 -> bool) -> nat -> 'a1 list -> 'a1 -> nat -> nat -> nat **)

let rec bsearch lt fuel a pivot l r =
  match fuel with
  | O -> l
  | S f ->
    if Nat.ltb l r
    then let p = add l (Nat.div2 (sub r l)) in
         (match nth_error a p with
          | Some ap ->
            if lt pivot ap
            then bsearch lt f a pivot l p
            else bsearch lt f a pivot (S p) r
          | None -> l)
    else l

(** val insert_at : 'a1 list -> nat -> 'a1 -> 'a1 list **)

let insert_at a i x =
  app (firstn i a) (x :: (skipn i a))

(** val binsort : ('a1 -> 'a1 -> bool) -> 'a1 list -> 'a1 list -> 'a1 list **)

let rec binsort lt sorted = function
| [] -> sorted
| x :: t0 ->
  let n0 = length sorted in
  binsort lt (insert_at sorted (bsearch lt (S n0) sorted x O n0) x) t0

(** val py_sort : ('a1 -> 'a1 -> bool) -> 'a1 list -> 'a1 list **)

let py_sort lt l = match l with
| [] -> []
| x :: l0 ->
  (match l0 with
   | [] -> x :: []
   | y :: t0 ->
     if lt y x
     then let n0 = S (S (run_desc lt y t0)) in
          binsort lt (rev0 (firstn n0 l)) (skipn n0 l)
     else let n0 = S (S (run_asc lt y t0)) in
          binsort lt (firstn n0 l) (skipn n0 l))

(** val py_sorted : ('a1 -> 'a1 -> bool) -> bool -> 'a1 list -> 'a1 list **)

let py_sorted lt reverse l =
  if reverse then rev0 (py_sort lt (rev0 l)) else py_sort lt l

type ctl =
| Next
| Brk
| Cont
| Abort

type 'st cmd =
| Do of ('st -> 'st)
| Seq of 'st cmd * 'st cmd
| Ite of ('st -> bool) * 'st cmd * 'st cmd
| While of ('st -> bool) * 'st cmd
| Break
| Continue
| Skip

(** val iter_once :
    ('a1 -> ('a1 * ctl) option) -> ('a1 -> bool) -> 'a1 ->
    (('a1 * bool) * ctl) option **)

let iter_once run0 g s =
  if g s
  then (match run0 s with
        | Some p ->
          let (s', c) = p in
          (match c with
           | Brk -> Some ((s', false), Next)
           | Abort -> Some ((s', false), Abort)
           | _ -> Some ((s', true), Next))
        | None -> None)
  else Some ((s, false), Next)

(** val loopP :
    ('a1 -> ('a1 * ctl) option) -> ('a1 -> bool) -> Big_int_Z.big_int -> 'a1
    -> (('a1 * bool) * ctl) option **)

let rec loopP run0 g p s =
  (fun f2p1 f2p f1 p ->
  if Big_int_Z.le_big_int p Big_int_Z.unit_big_int then f1 () else
  let (q,r) = Big_int_Z.quomod_big_int p (Big_int_Z.big_int_of_int 2) in
  if Big_int_Z.eq_big_int r Big_int_Z.zero_big_int then f2p q else f2p1 q)
    (fun q0 ->
    match iter_once run0 g s with
    | Some p0 ->
      let (p1, c) = p0 in
      let (s1, b) = p1 in
      if b
      then (match loopP run0 g q0 s1 with
            | Some p2 ->
              let (p3, c0) = p2 in
              let (s2, b0) = p3 in
              if b0 then loopP run0 g q0 s2 else Some ((s2, false), c0)
            | None -> None)
      else Some ((s1, false), c)
    | None -> None)
    (fun q0 ->
    match loopP run0 g q0 s with
    | Some p0 ->
      let (p1, c) = p0 in
      let (s', b) = p1 in
      if b then loopP run0 g q0 s' else Some ((s', false), c)
    | None -> None)
    (fun _ -> iter_once run0 g s)
    p

(** val exec :
    ('a1 -> bool) -> Big_int_Z.big_int -> 'a1 cmd -> 'a1 -> ('a1 * ctl) option **)

let rec exec crashed0 fuel c s =
  match c with
  | Do f -> let s' = f s in Some (s', (if crashed0 s' then Abort else Next))
  | Seq (a, b) ->
    (match exec crashed0 fuel a s with
     | Some p ->
       let (s', c0) = p in
       (match c0 with
        | Next -> exec crashed0 fuel b s'
        | x -> Some (s', x))
     | None -> None)
  | Ite (g, a, b) ->
    if g s then exec crashed0 fuel a s else exec crashed0 fuel b s
  | While (g, body) ->
    (match loopP (exec crashed0 fuel body) g fuel s with
     | Some p ->
       let (p0, k) = p in let (s', b) = p0 in if b then None else Some (s', k)
     | None -> None)
  | Break -> Some (s, Brk)
  | Continue -> Some (s, Cont)
  | Skip -> Some (s, Next)

type cstate =
| Hopeful
| Elected
| Defeated
| Withdrawn

(** val cstate_eqb : cstate -> cstate -> bool **)

let cstate_eqb a b =
  match a with
  | Hopeful -> (match b with
                | Hopeful -> true
                | _ -> false)
  | Elected -> (match b with
                | Elected -> true
                | _ -> false)
  | Defeated -> (match b with
                 | Defeated -> true
                 | _ -> false)
  | Withdrawn -> (match b with
                  | Withdrawn -> true
                  | _ -> false)

type meth =
| MWigm
| MMeek
| MQpq

type tag =
| TBegin
| TCount
| TLog
| TRound
| TTie
| TElect
| TDefeat
| TIterate
| TUnpend
| TTransfer
| TEnd

type cand = { cid : Big_int_Z.big_int; corder : Big_int_Z.big_int;
              ctie : Big_int_Z.big_int; cname : string; cnick : string;
              cundecl : bool; cst : cstate; cpend : bool option; cvote : 
              t; ckf : t option; cquo : t option; ctc : t }

(** val with_st : arith -> cand -> cstate -> bool option -> cand **)

let with_st _ c s p =
  { cid = c.cid; corder = c.corder; ctie = c.ctie; cname = c.cname; cnick =
    c.cnick; cundecl = c.cundecl; cst = s; cpend = p; cvote = c.cvote; ckf =
    c.ckf; cquo = c.cquo; ctc = c.ctc }

(** val with_vote : arith -> cand -> t -> cand **)

let with_vote _ c v =
  { cid = c.cid; corder = c.corder; ctie = c.ctie; cname = c.cname; cnick =
    c.cnick; cundecl = c.cundecl; cst = c.cst; cpend = c.cpend; cvote = v;
    ckf = c.ckf; cquo = c.cquo; ctc = c.ctc }

(** val with_kf : arith -> cand -> t option -> cand **)

let with_kf _ c k =
  { cid = c.cid; corder = c.corder; ctie = c.ctie; cname = c.cname; cnick =
    c.cnick; cundecl = c.cundecl; cst = c.cst; cpend = c.cpend; cvote =
    c.cvote; ckf = k; cquo = c.cquo; ctc = c.ctc }

(** val with_quo : arith -> cand -> t option -> cand **)

let with_quo _ c q0 =
  { cid = c.cid; corder = c.corder; ctie = c.ctie; cname = c.cname; cnick =
    c.cnick; cundecl = c.cundecl; cst = c.cst; cpend = c.cpend; cvote =
    c.cvote; ckf = c.ckf; cquo = q0; ctc = c.ctc }

(** val with_tc : arith -> cand -> t -> cand **)

let with_tc _ c t0 =
  { cid = c.cid; corder = c.corder; ctie = c.ctie; cname = c.cname; cnick =
    c.cnick; cundecl = c.cundecl; cst = c.cst; cpend = c.cpend; cvote =
    c.cvote; ckf = c.ckf; cquo = c.cquo; ctc = t0 }

type ballot = { bmult : t; bidx : nat; bweight : t; bres : t;
                brank : Big_int_Z.big_int list }

(** val with_bidx : arith -> ballot -> nat -> ballot **)

let with_bidx _ b i =
  { bmult = b.bmult; bidx = i; bweight = b.bweight; bres = b.bres; brank =
    b.brank }

(** val with_bweight : arith -> ballot -> t -> ballot **)

let with_bweight _ b w =
  { bmult = b.bmult; bidx = b.bidx; bweight = w; bres = b.bres; brank =
    b.brank }

(** val with_bres : arith -> ballot -> t -> ballot **)

let with_bres _ b r =
  { bmult = b.bmult; bidx = b.bidx; bweight = b.bweight; bres = r; brank =
    b.brank }

type eballot = { emult : t; eres : t; erank : Big_int_Z.big_int list list }

type csnap = { sn_cid : Big_int_Z.big_int; sn_st : cstate;
               sn_pend : bool option; sn_vote : t; sn_kf : t option;
               sn_quo : t option }

type asnap = { as_c : csnap list; as_votes : t; as_quota : t;
               as_nt : t option; as_surplus : t option;
               as_ballots : (nat * t) list }

type action = { a_tag : tag; a_msg : string; a_round : Big_int_Z.big_int;
                a_snap : asnap option }

type est = { cands : cand list; ballots : ballot list;
             eballots : eballot list; quota : t; surplus : t; votes : 
             t; exhausted : t; residual : t; round : Big_int_Z.big_int;
             rounds : cand list list; actions : action list;
             crash : exn option; lv_flag : bool; lv_last : t;
             lv_status : Big_int_Z.big_int;
             lv_batch : Big_int_Z.big_int list; lv_tx : t; lv_va : t }

(** val set_cands : arith -> est -> cand list -> est **)

let set_cands _ s c =
  { cands = c; ballots = s.ballots; eballots = s.eballots; quota = s.quota;
    surplus = s.surplus; votes = s.votes; exhausted = s.exhausted; residual =
    s.residual; round = s.round; rounds = s.rounds; actions = s.actions;
    crash = s.crash; lv_flag = s.lv_flag; lv_last = s.lv_last; lv_status =
    s.lv_status; lv_batch = s.lv_batch; lv_tx = s.lv_tx; lv_va = s.lv_va }

(** val set_ballots : arith -> est -> ballot list -> est **)

let set_ballots _ s b =
  { cands = s.cands; ballots = b; eballots = s.eballots; quota = s.quota;
    surplus = s.surplus; votes = s.votes; exhausted = s.exhausted; residual =
    s.residual; round = s.round; rounds = s.rounds; actions = s.actions;
    crash = s.crash; lv_flag = s.lv_flag; lv_last = s.lv_last; lv_status =
    s.lv_status; lv_batch = s.lv_batch; lv_tx = s.lv_tx; lv_va = s.lv_va }

(** val set_eballots : arith -> est -> eballot list -> est **)

let set_eballots _ s b =
  { cands = s.cands; ballots = s.ballots; eballots = b; quota = s.quota;
    surplus = s.surplus; votes = s.votes; exhausted = s.exhausted; residual =
    s.residual; round = s.round; rounds = s.rounds; actions = s.actions;
    crash = s.crash; lv_flag = s.lv_flag; lv_last = s.lv_last; lv_status =
    s.lv_status; lv_batch = s.lv_batch; lv_tx = s.lv_tx; lv_va = s.lv_va }

(** val set_quota : arith -> est -> t -> est **)

let set_quota _ s q0 =
  { cands = s.cands; ballots = s.ballots; eballots = s.eballots; quota = q0;
    surplus = s.surplus; votes = s.votes; exhausted = s.exhausted; residual =
    s.residual; round = s.round; rounds = s.rounds; actions = s.actions;
    crash = s.crash; lv_flag = s.lv_flag; lv_last = s.lv_last; lv_status =
    s.lv_status; lv_batch = s.lv_batch; lv_tx = s.lv_tx; lv_va = s.lv_va }

(** val set_surplus : arith -> est -> t -> est **)

let set_surplus _ s x =
  { cands = s.cands; ballots = s.ballots; eballots = s.eballots; quota =
    s.quota; surplus = x; votes = s.votes; exhausted = s.exhausted;
    residual = s.residual; round = s.round; rounds = s.rounds; actions =
    s.actions; crash = s.crash; lv_flag = s.lv_flag; lv_last = s.lv_last;
    lv_status = s.lv_status; lv_batch = s.lv_batch; lv_tx = s.lv_tx; lv_va =
    s.lv_va }

(** val set_votes : arith -> est -> t -> est **)

let set_votes _ s x =
  { cands = s.cands; ballots = s.ballots; eballots = s.eballots; quota =
    s.quota; surplus = s.surplus; votes = x; exhausted = s.exhausted;
    residual = s.residual; round = s.round; rounds = s.rounds; actions =
    s.actions; crash = s.crash; lv_flag = s.lv_flag; lv_last = s.lv_last;
    lv_status = s.lv_status; lv_batch = s.lv_batch; lv_tx = s.lv_tx; lv_va =
    s.lv_va }

(** val set_exhausted : arith -> est -> t -> est **)

let set_exhausted _ s x =
  { cands = s.cands; ballots = s.ballots; eballots = s.eballots; quota =
    s.quota; surplus = s.surplus; votes = s.votes; exhausted = x; residual =
    s.residual; round = s.round; rounds = s.rounds; actions = s.actions;
    crash = s.crash; lv_flag = s.lv_flag; lv_last = s.lv_last; lv_status =
    s.lv_status; lv_batch = s.lv_batch; lv_tx = s.lv_tx; lv_va = s.lv_va }

(** val set_residual : arith -> est -> t -> est **)

let set_residual _ s x =
  { cands = s.cands; ballots = s.ballots; eballots = s.eballots; quota =
    s.quota; surplus = s.surplus; votes = s.votes; exhausted = s.exhausted;
    residual = x; round = s.round; rounds = s.rounds; actions = s.actions;
    crash = s.crash; lv_flag = s.lv_flag; lv_last = s.lv_last; lv_status =
    s.lv_status; lv_batch = s.lv_batch; lv_tx = s.lv_tx; lv_va = s.lv_va }

(** val set_round : arith -> est -> Big_int_Z.big_int -> est **)

let set_round _ s r =
  { cands = s.cands; ballots = s.ballots; eballots = s.eballots; quota =
    s.quota; surplus = s.surplus; votes = s.votes; exhausted = s.exhausted;
    residual = s.residual; round = r; rounds = s.rounds; actions = s.actions;
    crash = s.crash; lv_flag = s.lv_flag; lv_last = s.lv_last; lv_status =
    s.lv_status; lv_batch = s.lv_batch; lv_tx = s.lv_tx; lv_va = s.lv_va }

(** val set_rounds : arith -> est -> cand list list -> est **)

let set_rounds _ s r =
  { cands = s.cands; ballots = s.ballots; eballots = s.eballots; quota =
    s.quota; surplus = s.surplus; votes = s.votes; exhausted = s.exhausted;
    residual = s.residual; round = s.round; rounds = r; actions = s.actions;
    crash = s.crash; lv_flag = s.lv_flag; lv_last = s.lv_last; lv_status =
    s.lv_status; lv_batch = s.lv_batch; lv_tx = s.lv_tx; lv_va = s.lv_va }

(** val set_actions : arith -> est -> action list -> est **)

let set_actions _ s a =
  { cands = s.cands; ballots = s.ballots; eballots = s.eballots; quota =
    s.quota; surplus = s.surplus; votes = s.votes; exhausted = s.exhausted;
    residual = s.residual; round = s.round; rounds = s.rounds; actions = a;
    crash = s.crash; lv_flag = s.lv_flag; lv_last = s.lv_last; lv_status =
    s.lv_status; lv_batch = s.lv_batch; lv_tx = s.lv_tx; lv_va = s.lv_va }

(** val set_crash : arith -> est -> exn -> est **)

let set_crash _ s e =
  { cands = s.cands; ballots = s.ballots; eballots = s.eballots; quota =
    s.quota; surplus = s.surplus; votes = s.votes; exhausted = s.exhausted;
    residual = s.residual; round = s.round; rounds = s.rounds; actions =
    s.actions; crash =
    (match s.crash with
     | Some e0 -> Some e0
     | None -> Some e); lv_flag = s.lv_flag; lv_last = s.lv_last; lv_status =
    s.lv_status; lv_batch = s.lv_batch; lv_tx = s.lv_tx; lv_va = s.lv_va }

(** val set_flag : arith -> est -> bool -> est **)

let set_flag _ s b =
  { cands = s.cands; ballots = s.ballots; eballots = s.eballots; quota =
    s.quota; surplus = s.surplus; votes = s.votes; exhausted = s.exhausted;
    residual = s.residual; round = s.round; rounds = s.rounds; actions =
    s.actions; crash = s.crash; lv_flag = b; lv_last = s.lv_last; lv_status =
    s.lv_status; lv_batch = s.lv_batch; lv_tx = s.lv_tx; lv_va = s.lv_va }

(** val set_last : arith -> est -> t -> est **)

let set_last _ s x =
  { cands = s.cands; ballots = s.ballots; eballots = s.eballots; quota =
    s.quota; surplus = s.surplus; votes = s.votes; exhausted = s.exhausted;
    residual = s.residual; round = s.round; rounds = s.rounds; actions =
    s.actions; crash = s.crash; lv_flag = s.lv_flag; lv_last = x; lv_status =
    s.lv_status; lv_batch = s.lv_batch; lv_tx = s.lv_tx; lv_va = s.lv_va }

(** val set_status : arith -> est -> Big_int_Z.big_int -> est **)

let set_status _ s x =
  { cands = s.cands; ballots = s.ballots; eballots = s.eballots; quota =
    s.quota; surplus = s.surplus; votes = s.votes; exhausted = s.exhausted;
    residual = s.residual; round = s.round; rounds = s.rounds; actions =
    s.actions; crash = s.crash; lv_flag = s.lv_flag; lv_last = s.lv_last;
    lv_status = x; lv_batch = s.lv_batch; lv_tx = s.lv_tx; lv_va = s.lv_va }

(** val set_batch : arith -> est -> Big_int_Z.big_int list -> est **)

let set_batch _ s x =
  { cands = s.cands; ballots = s.ballots; eballots = s.eballots; quota =
    s.quota; surplus = s.surplus; votes = s.votes; exhausted = s.exhausted;
    residual = s.residual; round = s.round; rounds = s.rounds; actions =
    s.actions; crash = s.crash; lv_flag = s.lv_flag; lv_last = s.lv_last;
    lv_status = s.lv_status; lv_batch = x; lv_tx = s.lv_tx; lv_va = s.lv_va }

(** val set_txva : arith -> est -> t -> t -> est **)

let set_txva _ s tx va =
  { cands = s.cands; ballots = s.ballots; eballots = s.eballots; quota =
    s.quota; surplus = s.surplus; votes = s.votes; exhausted = s.exhausted;
    residual = s.residual; round = s.round; rounds = s.rounds; actions =
    s.actions; crash = s.crash; lv_flag = s.lv_flag; lv_last = s.lv_last;
    lv_status = s.lv_status; lv_batch = s.lv_batch; lv_tx = tx; lv_va = va }

(** val crashed : arith -> est -> bool **)

let crashed _ s =
  match s.crash with
  | Some _ -> true
  | None -> false

(** val in_state : arith -> cstate -> cand -> bool **)

let in_state _ st c =
  cstate_eqb c.cst st

(** val is_pending : arith -> cand -> bool **)

let is_pending a c =
  (&&) (in_state a Elected c) (match c.cpend with
                               | Some b -> b
                               | None -> false)

(** val hopefuls : arith -> est -> cand list **)

let hopefuls a s =
  filter (in_state a Hopeful) s.cands

(** val electeds : arith -> est -> cand list **)

let electeds a s =
  filter (in_state a Elected) s.cands

(** val defeateds : arith -> est -> cand list **)

let defeateds a s =
  filter (in_state a Defeated) s.cands

(** val withdrawns : arith -> est -> cand list **)

let withdrawns a s =
  filter (in_state a Withdrawn) s.cands

(** val eligibles : arith -> est -> cand list **)

let eligibles a s =
  filter (fun c -> negb (in_state a Withdrawn c)) s.cands

(** val pendings : arith -> est -> cand list **)

let pendings a s =
  filter (is_pending a) s.cands

(** val nlen : 'a1 list -> Big_int_Z.big_int **)

let nlen l =
  Z.of_nat (length l)

(** val find_cand : arith -> cand list -> Big_int_Z.big_int -> cand option **)

let find_cand _ l i =
  find (fun c -> Z.eqb c.cid i) l

(** val upd_cand :
    arith -> Big_int_Z.big_int -> (cand -> cand) -> cand list -> cand list **)

let upd_cand _ i f l =
  map (fun c -> if Z.eqb c.cid i then f c else c) l

(** val upd : arith -> est -> Big_int_Z.big_int -> (cand -> cand) -> est **)

let upd a s i f =
  set_cands a s (upd_cand a i f s.cands)

(** val vote_key_lt : arith -> cand -> cand -> bool **)

let vote_key_lt a a0 b =
  if a.eqv a0.cvote b.cvote
  then Z.ltb a0.corder b.corder
  else a.ltv a0.cvote b.cvote

(** val by_vote : arith -> bool -> cand list -> cand list **)

let by_vote a reverse l =
  py_sorted (vote_key_lt a) reverse l

(** val by_tie : arith -> cand list -> cand list **)

let by_tie _ l =
  py_sorted (fun a b -> Z.ltb a.ctie b.ctie) false l

(** val by_order : arith -> cand list -> cand list **)

let by_order _ l =
  py_sorted (fun a b -> Z.ltb a.corder b.corder) false l

(** val vsum : arith -> t list -> t **)

let vsum a l =
  fold_left a.add0 l (a.of_int Big_int_Z.zero_big_int)

(** val top_rank : arith -> ballot -> Big_int_Z.big_int option **)

let top_rank _ b =
  nth_error b.brank b.bidx

(** val b_exhausted : arith -> ballot -> bool **)

let b_exhausted _ b =
  Nat.leb (length b.brank) b.bidx

(** val bvote : arith -> ballot -> t **)

let bvote a b =
  if a.eqv b.bmult (a.of_int Big_int_Z.unit_big_int)
  then b.bweight
  else a.mulv b.bweight b.bmult

type config = { cf_rule : string; cf_method : meth;
                cf_nseats : Big_int_Z.big_int;
                cf_nballots : Big_int_Z.big_int; cf_integer_quota : bool;
                cf_batch_zero : bool; cf_batch : bool; cf_warren : bool;
                cf_omega10 : Big_int_Z.big_int }

(** val v0 : arith -> t **)

let v0 a =
  a.of_int Big_int_Z.zero_big_int

(** val v1 : arith -> t **)

let v1 a =
  a.of_int Big_int_Z.unit_big_int

(** val seats_left : arith -> config -> est -> Big_int_Z.big_int **)

let seats_left a cfg s =
  Z.sub cfg.cf_nseats (nlen (electeds a s))

(** val csnap_of : arith -> cand -> csnap **)

let csnap_of _ c =
  { sn_cid = c.cid; sn_st = c.cst; sn_pend = c.cpend; sn_vote = c.cvote;
    sn_kf = c.ckf; sn_quo = c.cquo }

(** val snap_of : arith -> config -> est -> asnap **)

let snap_of a cfg s =
  { as_c = (map (csnap_of a) s.cands); as_votes =
    (match cfg.cf_method with
     | MQpq -> s.votes
     | _ -> vsum a (map (fun c -> c.cvote) (eligibles a s))); as_quota =
    s.quota; as_nt =
    (match cfg.cf_method with
     | MWigm -> Some s.exhausted
     | MMeek -> Some s.residual
     | MQpq -> None); as_surplus =
    (match cfg.cf_method with
     | MQpq -> None
     | _ -> Some s.surplus); as_ballots =
    (map (fun b -> (b.bidx, b.bweight)) s.ballots) }

(** val is_log : tag -> bool **)

let is_log = function
| TLog -> true
| _ -> false

(** val is_round : tag -> bool **)

let is_round = function
| TRound -> true
| _ -> false

(** val log_action : arith -> config -> tag -> string -> est -> est **)

let log_action a cfg t0 msg s =
  if is_log t0
  then set_actions a s ({ a_tag = t0; a_msg = msg; a_round = s.round;
         a_snap = None } :: s.actions)
  else let s1 =
         if is_round t0
         then set_rounds a s (app s.rounds (s.cands :: []))
         else s
       in
       set_actions a s1 ({ a_tag = t0; a_msg = msg; a_round = s1.round;
         a_snap = (Some (snap_of a cfg s1)) } :: s1.actions)

(** val log_msg : arith -> config -> string -> est -> est **)

let log_msg a cfg msg s =
  log_action a cfg TLog msg s

(** val new_round : arith -> config -> est -> est **)

let new_round a cfg s =
  log_action a cfg TRound "New Round"
    (set_round a s (Z.add s.round Big_int_Z.unit_big_int))

(** val elect :
    arith -> config -> Big_int_Z.big_int -> string -> bool -> est -> est **)

let elect a cfg i msg pending s =
  match find_cand a s.cands i with
  | Some c ->
    log_action a cfg TElect ((^) msg ((^) ": " c.cname))
      (upd a s i (fun c0 -> with_st a c0 Elected (Some pending)))
  | None -> set_crash a s KeyError

(** val elect_default :
    arith -> config -> Big_int_Z.big_int -> bool -> est -> est **)

let elect_default a cfg i pending s =
  elect a cfg i (if pending then "Elect, transfer pending" else "Elect")
    pending s

(** val defeat :
    arith -> config -> Big_int_Z.big_int -> string -> est -> est **)

let defeat a cfg i msg s =
  match find_cand a s.cands i with
  | Some c ->
    log_action a cfg TDefeat ((^) msg ((^) ": " c.cname))
      (upd a s i (fun c0 -> with_st a c0 Defeated c0.cpend))
  | None -> set_crash a s KeyError

(** val unpend :
    arith -> config -> Big_int_Z.big_int -> string option -> est -> est **)

let unpend a cfg i msg s =
  match find_cand a s.cands i with
  | Some c ->
    if is_pending a c
    then let s1 = upd a s i (fun c0 -> with_st a c0 Elected (Some false)) in
         (match msg with
          | Some m -> log_action a cfg TUnpend ((^) m ((^) ": " c.cname)) s1
          | None -> s1)
    else set_crash a s AssertionError
  | None -> set_crash a s KeyError

(** val unelect : arith -> Big_int_Z.big_int -> est -> est **)

let unelect a i s =
  upd a s i (fun c -> with_st a c Hopeful c.cpend)

(** val set_vote : arith -> Big_int_Z.big_int -> t -> est -> est **)

let set_vote a i v s =
  upd a s i (fun c -> with_vote a c v)

(** val add_vote : arith -> Big_int_Z.big_int -> t -> est -> est **)

let add_vote a i v s =
  upd a s i (fun c -> with_vote a c (a.add0 c.cvote v))

(** val cvote_of : arith -> est -> Big_int_Z.big_int -> t **)

let cvote_of a s i =
  match find_cand a s.cands i with
  | Some c -> c.cvote
  | None -> v0 a

(** val cname_of : arith -> est -> Big_int_Z.big_int -> string **)

let cname_of a s i =
  match find_cand a s.cands i with
  | Some c -> c.cname
  | None -> "?"

(** val join : string -> string list -> string **)

let rec join sep = function
| [] -> ""
| x :: t0 -> (match t0 with
              | [] -> x
              | _ :: _ -> (^) x ((^) sep (join sep t0)))

(** val names : arith -> cand list -> string **)

let names _ l =
  join ", " (map (fun c -> c.cname) l)

(** val break_tie :
    arith -> config -> (string -> string -> string) -> cand list -> est ->
    est * Big_int_Z.big_int option **)

let break_tie a cfg fmt tied s =
  match tied with
  | [] -> ((set_crash a s IndexError), None)
  | c :: l ->
    (match l with
     | [] -> (s, (Some c.cid))
     | _ :: _ ->
       (match by_tie a tied with
        | [] -> ((set_crash a s IndexError), None)
        | t0 :: _ ->
          ((log_action a cfg TTie (fmt (names a tied) t0.cname) s), (Some
            t0.cid))))

(** val tie_fmt : string -> string -> string -> string **)

let tie_fmt reason nm t0 =
  (^) "Break tie (" ((^) reason ((^) "): [" ((^) nm ((^) "] -> " t0))))

(** val max_vote : arith -> cand list -> t option **)

let max_vote a = function
| [] -> None
| c :: t0 ->
  Some
    (fold_left (fun m y -> if a.gtv y.cvote m then y.cvote else m) t0 c.cvote)

(** val min_vote : arith -> cand list -> t option **)

let min_vote a = function
| [] -> None
| c :: t0 ->
  Some
    (fold_left (fun m y -> if a.ltv y.cvote m then y.cvote else m) t0 c.cvote)

(** val advance_from :
    (Big_int_Z.big_int -> bool) -> Big_int_Z.big_int list -> nat -> nat **)

let rec advance_from cont r i =
  match r with
  | [] -> i
  | c :: t0 -> if cont c then i else advance_from cont t0 (S i)

(** val cont_pred :
    arith -> (cand -> bool) -> est -> Big_int_Z.big_int -> bool **)

let cont_pred a keep s i =
  match find_cand a s.cands i with
  | Some c -> keep c
  | None -> false

(** val transfer :
    arith -> (cand -> bool) -> est -> ballot -> est * ballot **)

let transfer a keep s b =
  let i = advance_from (cont_pred a keep s) (skipn b.bidx b.brank) b.bidx in
  let b' = with_bidx a b i in
  (match top_rank a b' with
   | Some c -> ((add_vote a c (bvote a b') s), b')
   | None -> ((set_exhausted a s (a.add0 s.exhausted (bvote a b'))), b'))

(** val process_ballots :
    arith -> (est -> ballot -> est * ballot) -> (ballot -> bool) -> ballot
    list -> est -> ballot list -> est * ballot list **)

let rec process_ballots a f sel bs s acc =
  match bs with
  | [] -> (s, (rev0 acc))
  | b :: t0 ->
    if crashed a s
    then (s, (app (rev0 acc) bs))
    else if sel b
         then let (s', b') = f s b in
              process_ballots a f sel t0 s' (b' :: acc)
         else process_ballots a f sel t0 s (b :: acc)

(** val for_ballots :
    arith -> (est -> ballot -> est * ballot) -> (ballot -> bool) -> est -> est **)

let for_ballots a f sel s =
  let (s', bs) = process_ballots a f sel s.ballots s [] in set_ballots a s' bs

(** val top_is : arith -> Big_int_Z.big_int -> ballot -> bool **)

let top_is a i b =
  match top_rank a b with
  | Some c -> Z.eqb c i
  | None -> false

(** val top_in : arith -> Big_int_Z.big_int list -> ballot -> bool **)

let top_in a l b =
  match top_rank a b with
  | Some c -> existsb (Z.eqb c) l
  | None -> false

(** val reweigh_transfer :
    arith -> (cand -> bool) -> (t -> t -> t -> t res) -> Big_int_Z.big_int ->
    t -> est -> ballot -> est * ballot **)

let reweigh_transfer a keep rew i surp s b =
  match rew b.bweight surp (cvote_of a s i) with
  | Ok w -> transfer a keep s (with_bweight a b w)
  | Raise e -> ((set_crash a s e), b)

(** val rew_wigm : arith -> t -> t -> t -> t res **)

let rew_wigm a w surp v =
  a.divv (a.mulv w surp) v

(** val rew_scot : arith -> t -> t -> t -> t res **)

let rew_scot a w surp v =
  a.kmuldiv w surp v false

(** val initial_count : arith -> est -> est **)

let initial_count a s =
  fold_left (fun s0 b ->
    match top_rank a b with
    | Some c -> add_vote a c (bvote a b) s0
    | None -> set_crash a s0 AttributeError) s.ballots s

(** val is_hopeful : arith -> cand -> bool **)

let is_hopeful a c =
  in_state a Hopeful c

(** val elect_with_quota :
    arith -> config -> (est -> cand -> bool) -> (est -> cand -> bool) ->
    string option -> (cand -> bool) -> est -> est **)

let elect_with_quota a cfg has_quota pend msg extra s =
  let l =
    filter (fun c -> (&&) (extra c) (has_quota s c))
      (by_vote a true (hopefuls a s))
  in
  fold_left (fun s0 c ->
    match msg with
    | Some m -> elect a cfg c.cid m (pend s0 c) s0
    | None -> elect_default a cfg c.cid (pend s0 c) s0) l s

(** val ge_quota : arith -> est -> cand -> bool **)

let ge_quota a s c =
  a.gev c.cvote s.quota

(** val has_quota_exact : arith -> est -> cand -> bool **)

let has_quota_exact a s c =
  if a.exact then a.gtv c.cvote s.quota else a.gev c.cvote s.quota

(** val transfer_high_surplus :
    arith -> config -> (cand list -> est -> est * Big_int_Z.big_int option)
    -> (t -> t -> t -> t res) -> est -> est **)

let transfer_high_surplus a cfg bt rew s =
  match max_vote a (pendings a s) with
  | Some hv ->
    let highs = filter (fun c -> a.eqv c.cvote hv) (pendings a s) in
    let (s1, o) = bt highs s in
    (match o with
     | Some h ->
       let s2 = unpend a cfg h (Some "Transfer high surplus") s1 in
       if crashed a s2
       then s2
       else let surp = a.sub0 (cvote_of a s2 h) s2.quota in
            let s3 =
              for_ballots a (reweigh_transfer a (is_hopeful a) rew h surp)
                (top_is a h) s2
            in
            if crashed a s3
            then s3
            else let s4 = set_vote a h s3.quota s3 in
                 log_action a cfg TTransfer
                   ((^) "Surplus transferred: "
                     ((^) (cname_of a s4 h) ((^) " (" ((^) (a.str surp) ")"))))
                   s4
     | None -> s1)
  | None -> set_crash a s ValueError

(** val transfer_defeated_one :
    arith -> config -> Big_int_Z.big_int -> est -> est **)

let transfer_defeated_one a cfg i s =
  let s1 = for_ballots a (transfer a (is_hopeful a)) (top_is a i) s in
  let s2 = set_vote a i (v0 a) s1 in
  log_action a cfg TTransfer ((^) "Transfer defeated: " (cname_of a s2 i)) s2

(** val low_candidates : arith -> est -> (t * cand list) option **)

let low_candidates a s =
  match min_vote a (hopefuls a s) with
  | Some lv -> Some (lv, (filter (fun c -> a.eqv c.cvote lv) (hopefuls a s)))
  | None -> None

(** val defeat_low :
    arith -> config -> (cand list -> est -> est * Big_int_Z.big_int option)
    -> string -> est -> est **)

let defeat_low a cfg bt msg s =
  match low_candidates a s with
  | Some p ->
    let (_, lows) = p in
    let (s1, o) = bt lows s in
    (match o with
     | Some l ->
       let s2 = defeat a cfg l msg s1 in
       if crashed a s2 then s2 else transfer_defeated_one a cfg l s2
     | None -> s1)
  | None -> set_crash a s ValueError

(** val unpend_all : arith -> config -> est -> est **)

let unpend_all a cfg s =
  fold_left (fun s0 c -> unpend a cfg c.cid None s0) (pendings a s) s

(** val elect_or_defeat_remaining : arith -> config -> est -> est **)

let elect_or_defeat_remaining a cfg s =
  fold_left (fun s0 c ->
    if Z.ltb (nlen (electeds a s0)) cfg.cf_nseats
    then elect a cfg c.cid "Elect remaining" false s0
    else defeat a cfg c.cid "Defeat remaining" s0) (hopefuls a s) s

(** val group_tied :
    arith -> t -> cand list -> t -> cand list -> cand list list -> cand list
    list **)

let rec group_tied a surp l vote group acc =
  match l with
  | [] -> rev0 (match group with
                | [] -> acc
                | _ :: _ -> (rev0 group) :: acc)
  | c :: t0 ->
    if a.gev (a.add0 vote surp) c.cvote
    then group_tied a surp t0 vote (c :: group) acc
    else group_tied a surp t0 c.cvote (c :: [])
           (match group with
            | [] -> acc
            | _ :: _ -> (rev0 group) :: acc)

(** val scan_groups :
    arith -> t -> Big_int_Z.big_int -> cand list list -> t ->
    Big_int_Z.big_int -> nat -> nat option -> nat option **)

let rec scan_groups a surp maxDefeat gs vote ncand g maxg =
  match gs with
  | [] -> maxg
  | grp :: t0 ->
    (match t0 with
     | [] -> maxg
     | nxt :: _ ->
       let ncand' = Z.add ncand (nlen grp) in
       if Z.ltb maxDefeat ncand'
       then maxg
       else let vote' = a.add0 vote (vsum a (map (fun c -> c.cvote) grp)) in
            let maxg' =
              match nxt with
              | [] -> maxg
              | c :: _ ->
                if a.ltv (a.add0 vote' surp) c.cvote then Some g else maxg
            in
            scan_groups a surp maxDefeat t0 vote' ncand' (S g) maxg')

(** val batch_defeat : arith -> config -> t -> est -> cand list **)

let batch_defeat a cfg surp s =
  let sorted = by_vote a false (hopefuls a s) in
  let groups = group_tied a surp sorted (v0 a) [] [] in
  let maxDefeat = Z.sub (nlen (hopefuls a s)) (seats_left a cfg s) in
  (match scan_groups a surp maxDefeat groups (v0 a) Big_int_Z.zero_big_int O
           None with
   | Some g -> concat (firstn (S g) groups)
   | None -> [])

(** val nonempty : 'a1 list -> bool **)

let nonempty = function
| [] -> false
| _ :: _ -> true

(** val guard_main : arith -> config -> est -> bool **)

let guard_main a cfg s =
  (&&) (Z.ltb (seats_left a cfg s) (nlen (hopefuls a s)))
    (Z.ltb Big_int_Z.zero_big_int (seats_left a cfg s))

(** val bt_simple :
    arith -> config -> string -> cand list -> est -> est * Big_int_Z.big_int
    option **)

let bt_simple a cfg reason tied s =
  break_tie a cfg (tie_fmt reason) tied s

(** val droop_quota_eps : arith -> config -> t res **)

let droop_quota_eps a cfg =
  let nseats = cfg.cf_nseats in
  let nballots = cfg.cf_nballots in
  (match a.divv (a.of_int nballots)
           (a.of_int (Z.add nseats Big_int_Z.unit_big_int)) with
   | Ok q0 -> Ok (a.add0 q0 a.epsilon)
   | Raise e -> Raise e)

(** val integer_droop_quota : arith -> config -> t **)

let integer_droop_quota a cfg =
  let nseats = cfg.cf_nseats in
  let nballots = cfg.cf_nballots in
  a.of_int
    (Z.add (Z.div nballots (Z.add nseats Big_int_Z.unit_big_int))
      Big_int_Z.unit_big_int)

(** val start_count : arith -> t res -> est -> est **)

let start_count a =
  let v2 = v0 a in
  (fun q0 s ->
  match q0 with
  | Ok q1 -> set_exhausted a (initial_count a (set_quota a s q1)) v2
  | Raise e -> set_crash a s e)

(** val cands_of : arith -> est -> Big_int_Z.big_int list -> cand list **)

let cands_of a s cids =
  flat_map (fun i ->
    match find_cand a s.cands i with
    | Some c -> c :: []
    | None -> []) cids

(** val transfer_batch : arith -> config -> (cand -> bool) -> est -> est **)

let transfer_batch a cfg =
  let v2 = v0 a in
  let log = log_action a cfg in
  (fun keep s ->
  let cids = s.lv_batch in
  let s1 = for_ballots a (transfer a keep) (top_in a cids) s in
  let s2 = fold_left (fun s0 i -> set_vote a i v2 s0) cids s1 in
  log TTransfer ((^) "Transfer defeated: " (names a (cands_of a s2 cids))) s2)

(** val wigm_quota : arith -> config -> t res **)

let wigm_quota a cfg =
  let nseats = cfg.cf_nseats in
  let nballots = cfg.cf_nballots in
  if cfg.cf_integer_quota
  then Ok
         (a.of_int
           (Z.add Big_int_Z.unit_big_int
             (Z.div nballots (Z.add nseats Big_int_Z.unit_big_int))))
  else if a.exact
       then a.divv (a.of_int nballots)
              (a.of_int (Z.add nseats Big_int_Z.unit_big_int))
       else droop_quota_eps a cfg

(** val wigm_defeat : arith -> config -> est -> est **)

let wigm_defeat a cfg =
  let v2 = v0 a in
  (fun s ->
  match low_candidates a s with
  | Some p ->
    let (lv, lows) = p in
    if (&&) ((&&) (a.eqv lv v2) cfg.cf_batch_zero)
         (Z.leb (seats_left a cfg s)
           (Z.sub (nlen (hopefuls a s)) (nlen lows)))
    then let s1 =
           fold_left (fun s0 c -> defeat a cfg c.cid "Defeat batch(zero)" s0)
             lows s
         in
         fold_left (fun s0 c -> transfer_defeated_one a cfg c.cid s0) lows s1
    else let (s1, o) = bt_simple a cfg "defeat" lows s in
         (match o with
          | Some l ->
            let s2 = defeat a cfg l "Defeat" s1 in
            if crashed a s2 then s2 else transfer_defeated_one a cfg l s2
          | None -> s1)
  | None -> set_crash a s ValueError)

(** val wigm : arith -> config -> est cmd **)

let wigm a cfg =
  let log = log_action a cfg in
  Seq ((Do (fun s ->
  log TBegin "Begin Count" (start_count a (wigm_quota a cfg) s))), (Seq
  ((While ((guard_main a cfg), (Seq ((Do (new_round a cfg)), (Seq ((Do
  (elect_with_quota a cfg (has_quota_exact a) (fun _ _ -> true) None
    (fun _ -> true))), (Ite ((fun s -> nonempty (pendings a s)), (Do
  (transfer_high_surplus a cfg (bt_simple a cfg "surplus") (rew_wigm a))),
  (Ite ((fun s -> nonempty (hopefuls a s)), (Do (wigm_defeat a cfg)),
  Skip)))))))))), (Seq ((Do (unpend_all a cfg)), (Do
  (elect_or_defeat_remaining a cfg)))))))

(** val pending_surplus : arith -> est -> t **)

let pending_surplus a s =
  vsum a (map (fun c -> a.sub0 c.cvote s.quota) (pendings a s))

(** val prf_find_batch : arith -> config -> est -> est **)

let prf_find_batch a cfg s =
  set_batch a s
    (if cfg.cf_batch
     then map (fun c -> c.cid) (batch_defeat a cfg (pending_surplus a s) s)
     else [])

(** val defeat_batch_in_ballot_order :
    arith -> config -> string -> est -> est **)

let defeat_batch_in_ballot_order a cfg msg s =
  fold_left (fun s0 c -> defeat a cfg c.cid msg s0)
    (by_order a (cands_of a s s.lv_batch)) s

(** val wigm_prf : arith -> config -> est cmd **)

let wigm_prf a cfg =
  let log = log_action a cfg in
  Seq ((Do (fun s ->
  log TBegin "Begin Count" (start_count a (droop_quota_eps a cfg) s))), (Seq
  ((While ((guard_main a cfg), (Seq ((Do (new_round a cfg)), (Seq ((Do
  (elect_with_quota a cfg (ge_quota a) (fun _ _ -> true) None (fun _ -> true))),
  (Seq ((Do (prf_find_batch a cfg)), (Seq ((Ite ((fun s ->
  nonempty s.lv_batch), (Seq ((Do
  (defeat_batch_in_ballot_order a cfg "Defeat sure loser")), (Seq ((Ite
  ((fun s -> Z.leb (nlen (hopefuls a s)) (seats_left a cfg s)), Break,
  Skip)), (Seq ((Do (transfer_batch a cfg (is_hopeful a))), Continue)))))),
  Skip)), (Ite ((fun s -> nonempty (pendings a s)), (Do
  (transfer_high_surplus a cfg (bt_simple a cfg "surplus") (rew_wigm a))),
  (Ite ((fun s -> nonempty (hopefuls a s)), (Do
  (defeat_low a cfg (bt_simple a cfg "defeat") "Defeat")),
  Skip)))))))))))))), (Seq ((Do (unpend_all a cfg)), (Do
  (elect_or_defeat_remaining a cfg)))))))

(** val count_complete : arith -> config -> est -> bool **)

let count_complete a cfg s =
  (||) (Z.leb (seats_left a cfg s) Big_int_Z.zero_big_int)
    (Z.leb (nlen (hopefuls a s)) (seats_left a cfg s))

(** val scot_stage_pick :
    arith -> bool -> Big_int_Z.big_int list -> cand list -> cand option **)

let scot_stage_pick a is_defeat tied_cids cN =
  let tiedCN =
    by_vote a false (filter (fun cn -> existsb (Z.eqb cn.cid) tied_cids) cN)
  in
  (match if is_defeat then hd_error tiedCN else hd_error (rev0 tiedCN) with
   | Some ref ->
     (match filter (fun cn -> a.eqv cn.cvote ref.cvote) tiedCN with
      | [] -> None
      | cn0 :: l -> (match l with
                     | [] -> Some cn0
                     | _ :: _ -> None))
   | None -> None)

(** val scot_search :
    arith -> bool -> Big_int_Z.big_int list -> cand list list -> cand option **)

let rec scot_search a is_defeat tied_cids = function
| [] -> None
| cN :: older ->
  (match scot_stage_pick a is_defeat tied_cids cN with
   | Some cn0 -> Some cn0
   | None -> scot_search a is_defeat tied_cids older)

(** val scot_break_tie :
    arith -> config -> bool -> string -> cand list -> est ->
    est * Big_int_Z.big_int option **)

let scot_break_tie a cfg =
  let log = log_action a cfg in
  (fun is_defeat reason tied s ->
  match tied with
  | [] -> ((set_crash a s IndexError), None)
  | c :: l ->
    (match l with
     | [] -> (s, (Some c.cid))
     | _ :: _ ->
       let nm = names a tied in
       let tied_cids = map (fun c0 -> c0.cid) tied in
       let stages = rev0 (firstn (Z.to_nat s.round) s.rounds) in
       (match scot_search a is_defeat tied_cids stages with
        | Some cn0 ->
          ((log TTie
             ((^) "Break tie by prior stage ("
               ((^) reason ((^) "): [" ((^) nm ((^) "] -> " cn0.cname))))) s),
            (Some cn0.cid))
        | None ->
          (match by_tie a tied with
           | [] -> ((set_crash a s IndexError), None)
           | c0 :: _ ->
             ((log TTie
                ((^) "Break tie by lot ("
                  ((^) reason ((^) "): [" ((^) nm ((^) "] -> " c0.cname)))))
                s), (Some c0.cid))))))

(** val cand_surplus : arith -> est -> cand -> t **)

let cand_surplus a =
  let v2 = v0 a in
  (fun s c -> let d = a.sub0 c.cvote s.quota in if a.ltv d v2 then v2 else d)

(** val scotland : arith -> config -> est cmd **)

let scotland a cfg =
  let log = log_action a cfg in
  Seq ((Do (fun s ->
  log TBegin "Begin Count" (start_count a (Ok (integer_droop_quota a cfg)) s))),
  (Seq ((While ((fun _ -> true), (Seq ((Do
  (elect_with_quota a cfg (ge_quota a) (fun _ _ -> true) None (fun _ -> true))),
  (Seq ((Ite ((count_complete a cfg), Break, Skip)), (Seq ((Do
  (new_round a cfg)), (Seq ((Do (fun s ->
  set_surplus a s (vsum a (map (cand_surplus a s) (pendings a s))))), (Seq
  ((Ite ((fun s -> nonempty (pendings a s)), (Seq ((Do
  (transfer_high_surplus a cfg (scot_break_tie a cfg false "largest surplus")
    (rew_scot a))), Continue)), Skip)), (Seq ((Ite ((fun s ->
  nonempty (hopefuls a s)), (Do
  (defeat_low a cfg (scot_break_tie a cfg true "defeat low candidate")
    "Defeat low candidate")), Skip)), (Ite ((count_complete a cfg), Break,
  Skip)))))))))))))))), (Seq ((Do (unpend_all a cfg)), (Seq ((Ite ((fun s ->
  Z.leb (nlen (hopefuls a s)) (seats_left a cfg s)), (Do (fun s ->
  fold_left (fun s0 c ->
    elect a cfg c.cid "Elect remaining candidates" false s0) (hopefuls a s) s)),
  Skip)), (Do (fun s ->
  fold_left (fun s0 c -> defeat a cfg c.cid "Defeat remaining candidates" s0)
    (hopefuls a s) s)))))))))

(** val gt_quota : arith -> est -> cand -> bool **)

let gt_quota a s c =
  a.gtv c.cvote s.quota

(** val cfer_scan :
    arith -> config -> est -> t -> Big_int_Z.big_int -> cand list -> t ->
    cand list -> cand list -> cand list -> cand list **)

let cfer_scan a cfg =
  let v2 = v0 a in
  let nseats = cfg.cf_nseats in
  let rec cfer_scan0 s surp nElected all lastv prefix_rev rest best =
    match rest with
    | [] -> best
    | ct :: rest' ->
      (match rest' with
       | [] -> best
       | nextc :: _ ->
         let trial = rev0 (ct :: prefix_rev) in
         if Z.ltb (Z.add (nlen rest') nElected) nseats
         then best
         else let vds = vsum a (map (fun c -> c.cvote) trial) in
              if a.gev (a.add0 vds surp) nextc.cvote
              then cfer_scan0 s surp nElected all lastv (ct :: prefix_rev)
                     rest' best
              else let cond =
                     (||)
                       ((||)
                         ((||)
                           (Z.eqb (Z.add nElected Big_int_Z.unit_big_int)
                             nseats)
                           (Z.eqb
                             (Z.add (Z.sub (nlen all) (nlen trial)) nElected)
                             nseats))
                         (a.ltv (a.add0 vds surp) (a.sub0 s.quota lastv)))
                       ((&&) (a.eqv surp v2)
                         (a.ltv (a.sub0 vds ct.cvote) (a.sub0 s.quota lastv)))
                   in
                   cfer_scan0 s surp nElected all lastv (ct :: prefix_rev)
                     rest' (if cond then trial else best))
  in cfer_scan0

(** val cfer_batch : arith -> config -> est -> cand list **)

let cfer_batch a cfg s =
  let surp = pending_surplus a s in
  let cs = by_vote a false (hopefuls a s) in
  (match rev0 cs with
   | [] -> []
   | lastc :: _ ->
     cfer_scan a cfg s surp (nlen (electeds a s)) cs lastc.cvote [] cs [])

(** val cfer_find_batch : arith -> config -> est -> est **)

let cfer_find_batch a cfg s =
  set_batch a s
    (if cfg.cf_batch then map (fun c -> c.cid) (cfer_batch a cfg s) else [])

(** val cfer_transfer_all_pending : arith -> config -> est -> est **)

let cfer_transfer_all_pending a cfg =
  let log = log_action a cfg in
  (fun s ->
  fold_left (fun s0 c ->
    if crashed a s0
    then s0
    else let h = c.cid in
         let s2 = unpend a cfg h (Some "Transfer surplus") s0 in
         if crashed a s2
         then s2
         else let surp = a.sub0 (cvote_of a s2 h) s2.quota in
              let s3 =
                for_ballots a
                  (reweigh_transfer a (is_hopeful a) (rew_wigm a) h surp)
                  (top_is a h) s2
              in
              if crashed a s3
              then s3
              else let s4 = set_vote a h s3.quota s3 in
                   log TTransfer
                     ((^) "Surplus transferred: "
                       ((^) (cname_of a s4 h)
                         ((^) " (" ((^) (a.str surp) ")")))) s4)
    (pendings a s) s)

(** val cfer_defeat_low : arith -> config -> est -> est **)

let cfer_defeat_low a cfg s =
  match low_candidates a s with
  | Some p ->
    let (_, lows) = p in
    let (s1, o) = bt_simple a cfg "defeat" lows s in
    (match o with
     | Some l -> set_batch a (defeat a cfg l "Defeat" s1) (l :: [])
     | None -> s1)
  | None -> set_crash a s ValueError

(** val cfer : arith -> config -> est cmd **)

let cfer a cfg =
  let nseats = cfg.cf_nseats in
  let log = log_action a cfg in
  Seq ((Do (fun s ->
  log TBegin "Begin Count" (start_count a (droop_quota_eps a cfg) s))),
  (While ((fun _ -> true), (Seq ((Do (new_round a cfg)), (Seq ((Ite
  ((fun s ->
  (&&) (Z.eqb s.round Big_int_Z.unit_big_int)
    (Z.leb (nlen (hopefuls a s)) nseats)), (Seq ((Do (fun s ->
  fold_left (fun s0 c -> elect a cfg c.cid "Elect all" false s0)
    (hopefuls a s) s)), Break)), Skip)), (Seq ((Do
  (elect_with_quota a cfg (ge_quota a) (gt_quota a) None (fun _ -> true))),
  (Seq ((Ite ((fun s -> Z.leb nseats (nlen (electeds a s))), (Seq ((Do
  (unpend_all a cfg)), (Seq ((Do (fun s ->
  fold_left (fun s0 c -> defeat a cfg c.cid "Defeat remaining" s0)
    (hopefuls a s) s)), Break)))), Skip)), (Seq ((Do
  (cfer_find_batch a cfg)), (Seq ((Ite ((fun s -> nonempty s.lv_batch), (Do
  (defeat_batch_in_ballot_order a cfg "Defeat batch")), (Ite ((fun s ->
  nonempty (pendings a s)), (Do (cfer_transfer_all_pending a cfg)), (Do
  (cfer_defeat_low a cfg)))))), (Ite ((fun s -> nonempty s.lv_batch), (Seq
  ((Ite ((fun s ->
  Z.leb (Z.add (nlen (hopefuls a s)) (nlen (electeds a s))) nseats), (Seq
  ((Do (fun s ->
  fold_left (fun s0 c -> elect a cfg c.cid "Elect pending" false s0)
    (pendings a s) s)), (Seq ((Do (fun s ->
  fold_left (fun s0 c -> elect a cfg c.cid "Elect remaining" false s0)
    (hopefuls a s) s)), Break)))), Skip)), (Do
  (transfer_batch a cfg (is_hopeful a))))), Skip)))))))))))))))))

(** val mpls_keep : arith -> cand -> bool **)

let mpls_keep a c =
  (||) (is_hopeful a c) (is_pending a c)

(** val mpls_surplus : arith -> bool -> est -> t **)

let mpls_surplus a only_declared s =
  vsum a
    (map (cand_surplus a s)
      (filter (fun c -> negb ((&&) only_declared c.cundecl)) s.cands))

(** val hopeful_with_quota : arith -> bool -> est -> cand list **)

let hopeful_with_quota a declared_only s =
  filter (fun c ->
    (&&) (negb ((&&) declared_only c.cundecl)) (ge_quota a s c))
    (by_vote a true (hopefuls a s))

(** val mpls_scan :
    arith -> t -> Big_int_Z.big_int -> cand list -> t -> cand list -> cand
    list -> cand list **)

let rec mpls_scan a surp maxDefeat l vote maybe_rev losers =
  match l with
  | [] -> losers
  | c :: t0 ->
    (match t0 with
     | [] -> losers
     | nxt :: _ ->
       let maybe_rev' = c :: maybe_rev in
       if Z.ltb maxDefeat (nlen maybe_rev')
       then losers
       else let vote' = a.add0 vote c.cvote in
            mpls_scan a surp maxDefeat t0 vote' maybe_rev'
              (if a.ltv (a.add0 vote' surp) nxt.cvote
               then rev0 maybe_rev'
               else losers))

(** val find_certain_losers : arith -> config -> t -> est -> cand list **)

let find_certain_losers a cfg =
  let v2 = v0 a in
  (fun surp s ->
  let sorted = by_vote a false (hopefuls a s) in
  by_order a
    (mpls_scan a surp (Z.sub (nlen (hopefuls a s)) (seats_left a cfg s))
      sorted v2 [] []))

(** val ballot_top_undeclared : arith -> est -> ballot -> bool option **)

let ballot_top_undeclared a s b =
  match top_rank a b with
  | Some c ->
    (match find_cand a s.cands c with
     | Some x -> Some x.cundecl
     | None -> None)
  | None -> None

(** val mpls_find_defeats : arith -> config -> est -> est **)

let mpls_find_defeats a cfg =
  let v2 = v0 a in
  (fun s ->
  let und =
    if Z.eqb s.round (Big_int_Z.mult_int_big_int 2 Big_int_Z.unit_big_int)
    then filter (fun c -> c.cundecl) (hopefuls a s)
    else []
  in
  let uv =
    if Z.eqb s.round (Big_int_Z.mult_int_big_int 2 Big_int_Z.unit_big_int)
    then fold_left (fun acc b ->
           match acc with
           | Ok v ->
             (match ballot_top_undeclared a s b with
              | Some b0 -> if b0 then Ok (a.add0 v (bvote a b)) else Ok v
              | None -> Raise AttributeError)
           | Raise e -> Raise e) s.ballots (Ok v2)
    else Ok v2
  in
  (match uv with
   | Ok uv0 ->
     let losers =
       find_certain_losers a cfg
         (if Z.eqb s.round (Big_int_Z.mult_int_big_int 2
               Big_int_Z.unit_big_int)
          then a.add0 s.surplus uv0
          else s.surplus) s
     in
     let losers' =
       filter (fun c -> negb (existsb (fun u -> Z.eqb u.cid c.cid) und))
         losers
     in
     set_batch a s (map (fun c -> c.cid) (app und losers'))
   | Raise e -> set_crash a s e))

(** val mpls_defeat_batch : arith -> config -> est -> est **)

let mpls_defeat_batch a cfg =
  let v2 = v0 a in
  let log = log_action a cfg in
  (fun s ->
  let cs = cands_of a s s.lv_batch in
  let s1 =
    fold_left (fun s0 c ->
      defeat a cfg c.cid
        (if c.cundecl
         then "Defeat undeclared write-in"
         else "Defeat certain loser") s0) cs s
  in
  let s2 = for_ballots a (transfer a (mpls_keep a)) (top_in a s.lv_batch) s1
  in
  let s3 = fold_left (fun s0 i -> set_vote a i v2 s0) s.lv_batch s2 in
  let s4 = set_surplus a s3 (mpls_surplus a false s3) in
  log TTransfer
    ((^) "Transfer defeated: " (names a (cands_of a s4 s.lv_batch))) s4)

(** val mpls_elect_high : arith -> config -> est -> est **)

let mpls_elect_high a cfg =
  let log = log_action a cfg in
  (fun s ->
  let hq = hopeful_with_quota a false s in
  (match max_vote a hq with
   | Some hv ->
     let highs = filter (fun c -> a.eqv c.cvote hv) hq in
     let (s1, o) = bt_simple a cfg "largest surplus" highs s in
     (match o with
      | Some h ->
        let s2 = elect a cfg h "Elect" false s1 in
        if crashed a s2
        then s2
        else let surp = a.sub0 (cvote_of a s2 h) s2.quota in
             let s3 =
               for_ballots a
                 (reweigh_transfer a (mpls_keep a) (rew_wigm a) h surp)
                 (top_is a h) s2
             in
             if crashed a s3
             then s3
             else let s4 = set_vote a h s3.quota s3 in
                  let s5 = set_surplus a s4 (mpls_surplus a false s4) in
                  log TTransfer
                    ((^) "Transfer surplus: "
                      ((^) (cname_of a s5 h)
                        ((^) " (" ((^) (a.str surp) ")")))) s5
      | None -> s1)
   | None -> set_crash a s ValueError))

(** val mpls_defeat_low : arith -> config -> est -> est **)

let mpls_defeat_low a cfg =
  let v2 = v0 a in
  let log = log_action a cfg in
  (fun s ->
  match low_candidates a s with
  | Some p ->
    let (_, lows) = p in
    let (s1, o) = bt_simple a cfg "defeat low candidate" lows s in
    (match o with
     | Some l ->
       let s2 = defeat a cfg l "Defeat low candidate" s1 in
       if crashed a s2
       then s2
       else if Z.ltb (seats_left a cfg s2) (nlen (hopefuls a s2))
            then let s3 =
                   for_ballots a (transfer a (mpls_keep a)) (top_is a l) s2
                 in
                 let s4 = set_vote a l v2 s3 in
                 let s5 = set_surplus a s4 (mpls_surplus a false s4) in
                 log TTransfer ((^) "Transfer defeated: " (cname_of a s5 l))
                   s5
            else s2
     | None -> s1)
  | None -> set_crash a s ValueError)

(** val mpls : arith -> config -> est cmd **)

let mpls a cfg =
  let nseats = cfg.cf_nseats in
  let log = log_action a cfg in
  Seq ((Do (fun s ->
  new_round a cfg (start_count a (Ok (integer_droop_quota a cfg)) s))), (Seq
  ((While ((fun _ -> true), (Seq ((Do (fun s ->
  log TCount "Count Votes" (set_surplus a s (mpls_surplus a true s)))), (Seq
  ((Ite ((fun s ->
  Z.leb nseats
    (Z.add (nlen (electeds a s)) (nlen (hopeful_with_quota a true s)))), (Seq
  ((Do (fun s ->
  fold_left (fun s0 c -> elect a cfg c.cid "Candidate at threshold" false s0)
    (hopeful_with_quota a true s) s)), Break)), Skip)), (Seq ((Do
  (new_round a cfg)), (Seq ((Do (mpls_find_defeats a cfg)), (Seq ((Ite
  ((fun s -> nonempty s.lv_batch), (Seq ((Do (mpls_defeat_batch a cfg)),
  Continue)), Skip)), (Seq ((Ite ((fun s ->
  nonempty (hopeful_with_quota a false s)), (Seq ((Do
  (mpls_elect_high a cfg)), Continue)), Skip)), (Seq ((Ite ((fun s ->
  Z.ltb (seats_left a cfg s) (nlen (hopefuls a s))), (Do
  (mpls_defeat_low a cfg)), Skip)), (Ite ((fun s ->
  Z.leb (nlen (hopefuls a s)) (seats_left a cfg s)), Break,
  Skip)))))))))))))))))), (Seq ((Ite ((fun s ->
  Z.leb (nlen (hopefuls a s)) (seats_left a cfg s)), (Do (fun s ->
  fold_left (fun s0 c ->
    elect a cfg c.cid "Elect remaining candidates" false s0) (hopefuls a s) s)),
  Skip)), (Ite ((fun s -> nonempty (hopefuls a s)), (Do (fun s ->
  fold_left (fun s0 c -> defeat a cfg c.cid "Defeat remaining candidates" s0)
    (hopefuls a s) s)), Skip)))))))

(** val nonempty' : 'a1 list -> bool **)

let nonempty' = function
| [] -> false
| _ :: _ -> true

(** val iS_none : Big_int_Z.big_int **)

let iS_none =
  Big_int_Z.zero_big_int

(** val iS_omega : Big_int_Z.big_int **)

let iS_omega =
  Big_int_Z.unit_big_int

(** val iS_batch : Big_int_Z.big_int **)

let iS_batch =
  (Big_int_Z.mult_int_big_int 2 Big_int_Z.unit_big_int)

(** val iS_elected : Big_int_Z.big_int **)

let iS_elected =
  ((fun x -> Big_int_Z.succ_big_int (Big_int_Z.mult_int_big_int 2 x))
    Big_int_Z.unit_big_int)

(** val iS_stable : Big_int_Z.big_int **)

let iS_stable =
  (Big_int_Z.mult_int_big_int 2 (Big_int_Z.mult_int_big_int 2
    Big_int_Z.unit_big_int))

(** val iS_iterate : Big_int_Z.big_int **)

let iS_iterate =
  ((fun x -> Big_int_Z.succ_big_int (Big_int_Z.mult_int_big_int 2 x))
    (Big_int_Z.mult_int_big_int 2 Big_int_Z.unit_big_int))

(** val status_name : Big_int_Z.big_int -> string **)

let status_name z0 =
  if Z.eqb z0 Big_int_Z.unit_big_int
  then "omega"
  else if Z.eqb z0 (Big_int_Z.mult_int_big_int 2 Big_int_Z.unit_big_int)
       then "batch"
       else if Z.eqb z0
                 ((fun x -> Big_int_Z.succ_big_int (Big_int_Z.mult_int_big_int 2 x))
                 Big_int_Z.unit_big_int)
            then "elected"
            else if Z.eqb z0 (Big_int_Z.mult_int_big_int 2
                      (Big_int_Z.mult_int_big_int 2 Big_int_Z.unit_big_int))
                 then "stable"
                 else if Z.eqb z0
                           ((fun x -> Big_int_Z.succ_big_int (Big_int_Z.mult_int_big_int 2 x))
                           (Big_int_Z.mult_int_big_int 2
                           Big_int_Z.unit_big_int))
                      then "iterate"
                      else "none"

(** val count_complete_m : arith -> config -> est -> bool **)

let count_complete_m a cfg s =
  (||) (Z.leb (nlen (hopefuls a s)) (seats_left a cfg s))
    (Z.leb (seats_left a cfg s) Big_int_Z.zero_big_int)

(** val omega : arith -> config -> t res **)

let omega a cfg =
  let v2 = v1 a in
  a.divv v2
    (a.of_int
      (Z.pow (Big_int_Z.mult_int_big_int 2
        ((fun x -> Big_int_Z.succ_big_int (Big_int_Z.mult_int_big_int 2 x))
        (Big_int_Z.mult_int_big_int 2 Big_int_Z.unit_big_int)))
        cfg.cf_omega10))

(** val omega_or0 : arith -> config -> t **)

let omega_or0 a cfg =
  let v2 = v0 a in (match omega a cfg with
                    | Ok o -> o
                    | Raise _ -> v2)

(** val kf_truthy : arith -> cand -> bool **)

let kf_truthy a c =
  match c.ckf with
  | Some k -> a.truth k
  | None -> false

(** val kf_of : arith -> cand -> t **)

let kf_of a =
  let v2 = v0 a in (fun c -> match c.ckf with
                             | Some k -> k
                             | None -> v2)

(** val he_cands : arith -> est -> cand list **)

let he_cands a s =
  app (hopefuls a s) (electeds a s)

(** val zero_he_votes : arith -> est -> est **)

let zero_he_votes a =
  let v2 = v0 a in
  (fun s ->
  set_cands a s
    (map (fun c ->
      if (||) (in_state a Hopeful c) (in_state a Elected c)
      then with_vote a c v2
      else c) s.cands))

(** val kw_warren : arith -> t -> t -> t * t **)

let kw_warren a kf w =
  let keep = if a.ltv kf w then kf else w in (keep, (a.sub0 w keep))

(** val kw_meek : arith -> t -> t -> t * t **)

let kw_meek a =
  let v2 = v1 a in
  (fun kf w -> ((a.kmul w kf false), (a.kmul w (a.sub0 v2 kf) false)))

(** val kt : arith -> config -> t -> t -> t * t **)

let kt a cfg kf w =
  if cfg.cf_warren then kw_warren a kf w else kw_meek a kf w

(** val dist_ballot :
    arith -> config -> cand list -> t -> Big_int_Z.big_int list -> t -> t ->
    (cand list * t) * t **)

let dist_ballot a cfg =
  let v2 = v0 a in
  let rec dist_ballot0 cs mult r w bres0 =
    match r with
    | [] -> ((cs, w), bres0)
    | i :: t0 ->
      (match find_cand a cs i with
       | Some c ->
         if kf_truthy a c
         then let (keep, w') = kt a cfg (kf_of a c) w in
              let kv = a.mulv keep mult in
              let cs' =
                upd_cand a i (fun c0 -> with_vote a c0 (a.add0 c0.cvote kv))
                  cs
              in
              let bres' = a.sub0 bres0 kv in
              if a.lev w' v2
              then ((cs', w'), bres')
              else dist_ballot0 cs' mult t0 w' bres'
         else dist_ballot0 cs mult t0 w bres0
       | None -> dist_ballot0 cs mult t0 w bres0)
  in dist_ballot0

(** val dist_eq :
    arith -> config -> Big_int_Z.big_int list -> t -> Big_int_Z.big_int list
    list -> t -> (cand list * t) res -> (cand list * t) res **)

let rec dist_eq a cfg cset mult ranks w st = match st with
| Ok _ ->
  if negb (a.truth w)
  then st
  else (match ranks with
        | [] -> st
        | rank :: deeper ->
          let cids = filter (fun i -> existsb (Z.eqb i) cset) rank in
          (match cids with
           | [] -> st
           | _ :: _ ->
             (match a.divv w (a.of_int (nlen cids)) with
              | Ok cw ->
                fold_left (fun st0 i ->
                  match st0 with
                  | Ok a0 ->
                    let (cs, bres0) = a0 in
                    (match find_cand a cs i with
                     | Some c ->
                       let (keep, w') = kt a cfg (kf_of a c) cw in
                       let kv = a.mulv keep mult in
                       let cs' =
                         upd_cand a i (fun c0 ->
                           with_vote a c0 (a.add0 c0.cvote kv)) cs
                       in
                       dist_eq a cfg cset mult deeper w' (Ok (cs',
                         (a.sub0 bres0 kv)))
                     | None -> Raise KeyError)
                  | Raise e -> Raise e) cids st
              | Raise e -> Raise e)))
| Raise e -> Raise e

(** val distribute_votes : arith -> config -> est -> est **)

let distribute_votes a cfg =
  let v2 = v0 a in
  let v3 = v1 a in
  (fun s ->
  let s0 = set_residual a (zero_he_votes a s) v2 in
  let (p, bs_rev) =
    fold_left (fun pat b ->
      let (y, acc) = pat in
      let (cs, res_) = y in
      let (p, br') = dist_ballot a cfg cs b.bmult b.brank v3 b.bmult in
      let (cs', w') = p in
      ((cs', (a.add0 res_ br')),
      ((with_bres a (with_bweight a b w') br') :: acc))) s0.ballots
      ((s0.cands, v2), [])
  in
  let (cs, res_) = p in
  let s1 =
    set_ballots a (set_residual a (set_cands a s0 cs) res_) (rev0 bs_rev)
  in
  fold_left (fun s2 eb ->
    if crashed a s2
    then s2
    else let cset = map (fun c -> c.cid) (he_cands a s2) in
         (match dist_eq a cfg cset eb.emult eb.erank v3 (Ok (s2.cands,
                  eb.emult)) with
          | Ok a0 ->
            let (cs0, br) = a0 in
            set_residual a (set_cands a s2 cs0) (a.add0 s2.residual br)
          | Raise e -> set_crash a s2 e)) s1.eballots s1)

(** val meek_quota : arith -> config -> est -> t res **)

let meek_quota a cfg =
  let nseats = cfg.cf_nseats in
  (fun s ->
  match a.divv s.votes (a.of_int (Z.add nseats Big_int_Z.unit_big_int)) with
  | Ok q0 -> Ok (if a.exact then q0 else a.add0 q0 a.epsilon)
  | Raise e -> Raise e)

(** val set_quota_r : arith -> est -> t res -> est **)

let set_quota_r a s = function
| Ok q1 -> set_quota a s q1
| Raise e -> set_crash a s e

(** val elected_surplus : arith -> est -> t **)

let elected_surplus a s =
  vsum a (map (fun c -> a.sub0 c.cvote s.quota) (electeds a s))

(** val update_kfs : arith -> bool -> est -> est **)

let update_kfs a =
  let v2 = v1 a in
  (fun clamp s ->
  fold_left (fun s0 c ->
    if crashed a s0
    then s0
    else (match a.kdiv (a.kmul (kf_of a c) s0.quota true) c.cvote true with
          | Ok k ->
            let k' = if (&&) clamp (a.gtv k v2) then v2 else k in
            upd a s0 c.cid (fun c0 -> with_kf a c0 (Some k'))
          | Raise e -> set_crash a s0 e)) (electeds a s) s)

(** val meek_iter_head : arith -> config -> est -> est **)

let meek_iter_head a cfg s =
  let s1 = distribute_votes a cfg s in
  if crashed a s1
  then s1
  else let s2 =
         set_votes a s1 (vsum a (map (fun c -> c.cvote) (he_cands a s1)))
       in
       let s3 = set_quota_r a s2 (meek_quota a cfg s2) in
       if crashed a s3
       then s3
       else let winners = filter (has_quota_exact a s3) (hopefuls a s3) in
            let s4 =
              fold_left (fun s0 c ->
                set_status a (elect a cfg c.cid "Elect" false s0) iS_elected)
                winners s3
            in
            set_surplus a s4 (elected_surplus a s4)

(** val meek_iterate : arith -> config -> est cmd **)

let meek_iterate a cfg =
  let nballots = cfg.cf_nballots in
  Seq ((Do (fun s ->
  set_batch a (set_last a (set_status a s iS_none) (a.of_int nballots)) [])),
  (While ((fun _ -> true), (Seq ((Do (meek_iter_head a cfg)), (Seq ((Ite
  ((fun s -> Z.eqb s.lv_status iS_elected), Break, Skip)), (Seq ((Ite
  ((fun s -> a.lev s.surplus (omega_or0 a cfg)), (Seq ((Do (fun s ->
  set_status a s iS_omega)), Break)), Skip)), (Seq ((Ite ((fun s ->
  a.gev s.surplus s.lv_last), (Seq ((Do (fun s ->
  set_status a
    (log_msg a cfg
      ((^) "Stable state detected (" ((^) (a.str s.surplus) ")")) s) iS_stable)),
  Break)), Skip)), (Seq ((Do (fun s ->
  set_batch a s
    (if cfg.cf_batch
     then map (fun c -> c.cid) (batch_defeat a cfg s.surplus s)
     else []))), (Seq ((Ite ((fun s -> nonempty' s.lv_batch), (Seq ((Do
  (fun s -> set_status a s iS_batch)), Break)), Skip)), (Do (fun s ->
  update_kfs a true (set_last a s s.surplus))))))))))))))))))

(** val zero_cand : arith -> Big_int_Z.big_int -> est -> est **)

let zero_cand a =
  let v2 = v0 a in
  (fun i s -> upd a s i (fun c -> with_vote a (with_kf a c (Some v2)) v2))

(** val cands_of' : arith -> est -> Big_int_Z.big_int list -> cand list **)

let cands_of' a s cids =
  flat_map (fun i ->
    match find_cand a s.cands i with
    | Some c -> c :: []
    | None -> []) cids

(** val meek_defeat_batch : arith -> config -> est -> est **)

let meek_defeat_batch a cfg s =
  fold_left (fun s0 c ->
    if crashed a s0
    then s0
    else distribute_votes a cfg
           (zero_cand a c.cid (defeat a cfg c.cid "Defeat certain loser" s0)))
    (by_order a (cands_of' a s s.lv_batch)) s

(** val low_within_surplus : arith -> est -> cand list res **)

let low_within_surplus a s =
  match map (fun c -> c.cvote) (hopefuls a s) with
  | [] -> Raise ValueError
  | x :: l ->
    let lv = a.vmin x l in
    let lows =
      filter (fun c -> a.gev (a.add0 lv s.surplus) c.cvote) (hopefuls a s)
    in
    Ok
    (match lows with
     | [] -> filter (fun c -> a.eqv c.cvote lv) (hopefuls a s)
     | _ :: _ -> lows)

(** val meek_defeat_low :
    arith -> config -> (string -> string -> string) -> bool -> est -> est **)

let meek_defeat_low a cfg tiefmt redistribute s =
  match low_within_surplus a s with
  | Ok lows ->
    let (s1, o) = break_tie a cfg tiefmt lows s in
    (match o with
     | Some l ->
       let msg =
         if Z.eqb s1.lv_status iS_omega
         then (^) "Defeat (surplus " ((^) (a.str s1.surplus) " < omega)")
         else (^) "Defeat (stable surplus " ((^) (a.str s1.surplus) ")")
       in
       let s2 = zero_cand a l (defeat a cfg l msg s1) in
       if crashed a s2
       then s2
       else if redistribute then distribute_votes a cfg s2 else s2
     | None -> s1)
  | Raise e -> set_crash a s e

(** val meek_final : arith -> config -> bool -> est -> est **)

let meek_final a cfg =
  let nseats = cfg.cf_nseats in
  let nballots = cfg.cf_nballots in
  (fun redistribute s ->
  let s1 =
    fold_left (fun s0 c ->
      if crashed a s0
      then s0
      else let s' =
             if Z.ltb (nlen (electeds a s0)) nseats
             then elect a cfg c.cid "Elect remaining" false s0
             else zero_cand a c.cid (defeat a cfg c.cid "Defeat remaining" s0)
           in
           if redistribute then distribute_votes a cfg s' else s')
      (hopefuls a s) s
  in
  let s2 = set_votes a s1 (vsum a (map (fun c -> c.cvote) (electeds a s1))) in
  set_residual a s2 (a.sub0 (a.of_int nballots) s2.votes))

(** val init_kfs : arith -> est -> est **)

let init_kfs a =
  let v2 = v1 a in
  (fun s ->
  set_cands a s
    (map (fun c -> if in_state a Hopeful c then with_kf a c (Some v2) else c)
      s.cands))

(** val meek_first_prefs : arith -> est -> est **)

let meek_first_prefs a =
  let v2 = v1 a in
  (fun s ->
  let s1 =
    fold_left (fun s0 b ->
      match top_rank a b with
      | Some c -> add_vote a c b.bmult s0
      | None -> s0) s.ballots s
  in
  fold_left (fun s0 eb ->
    if crashed a s0
    then s0
    else (match eb.erank with
          | [] -> set_crash a s0 AttributeError
          | top :: _ ->
            (match a.divv v2 (a.of_int (nlen top)) with
             | Ok q0 ->
               let v = a.mulv q0 eb.emult in
               fold_left (fun s2 i -> add_vote a i v s2) top s0
             | Raise e -> set_crash a s0 e))) s1.eballots s1)

(** val meek : arith -> config -> est cmd **)

let meek a cfg =
  let nballots = cfg.cf_nballots in
  let log = log_action a cfg in
  Seq ((Do (fun s ->
  match omega a cfg with
  | Ok _ ->
    let s1 = set_votes a s (a.of_int nballots) in
    let s2 = set_quota_r a s1 (meek_quota a cfg s1) in
    if crashed a s2
    then s2
    else log TBegin "Begin Count" (meek_first_prefs a (init_kfs a s2))
  | Raise e -> set_crash a s e)), (Seq ((While ((fun s ->
  negb (count_complete_m a cfg s)), (Seq ((Do (new_round a cfg)), (Seq
  ((meek_iterate a cfg), (Seq ((Do (fun s ->
  log TIterate ((^) "Iterate (" ((^) (status_name s.lv_status) ")")) s)),
  (Seq ((Ite ((fun s -> Z.eqb s.lv_status iS_elected), Continue, Skip)), (Seq
  ((Ite ((fun s -> Z.eqb s.lv_status iS_batch), (Seq ((Do
  (meek_defeat_batch a cfg)), Continue)), Skip)), (Ite ((fun s ->
  nonempty' (hopefuls a s)), (Do
  (meek_defeat_low a cfg (tie_fmt "defeat") true)), Skip)))))))))))))), (Do
  (meek_final a cfg true)))))

(** val dist_ballot_prf :
    arith -> cand list -> t -> Big_int_Z.big_int list -> t -> t -> (cand
    list * t) * t **)

let dist_ballot_prf a =
  let v2 = v0 a in
  let rec dist_ballot_prf0 cs mult r w bres0 =
    match r with
    | [] -> ((cs, w), bres0)
    | i :: t0 ->
      (match find_cand a cs i with
       | Some c ->
         if kf_truthy a c
         then let kw = a.kmul w (kf_of a c) true in
              let kv = a.mulv kw mult in
              let cs' =
                upd_cand a i (fun c0 -> with_vote a c0 (a.add0 c0.cvote kv))
                  cs
              in
              let w' = a.sub0 w kw in
              let bres' = a.sub0 bres0 kv in
              if a.lev w' v2
              then ((cs', w'), bres')
              else dist_ballot_prf0 cs' mult t0 w' bres'
         else dist_ballot_prf0 cs mult t0 w bres0
       | None -> dist_ballot_prf0 cs mult t0 w bres0)
  in dist_ballot_prf0

(** val prf_distribute : arith -> est -> est **)

let prf_distribute a =
  let v2 = v0 a in
  let v3 = v1 a in
  (fun s ->
  let s0 = set_residual a (zero_he_votes a s) v2 in
  let (p, bs_rev) =
    fold_left (fun pat b ->
      let (y, acc) = pat in
      let (cs, res_) = y in
      let (p, br') = dist_ballot_prf a cs b.bmult b.brank v3 b.bmult in
      let (cs', w') = p in
      ((cs', (a.add0 res_ br')),
      ((with_bres a (with_bweight a b w') br') :: acc))) s0.ballots
      ((s0.cands, v2), [])
  in
  let (cs, res_) = p in
  set_ballots a (set_residual a (set_cands a s0 cs) res_) (rev0 bs_rev))

(** val prf_quota : arith -> config -> est -> t res **)

let prf_quota a cfg =
  let nseats = cfg.cf_nseats in
  (fun s ->
  match a.floordivv s.votes (a.of_int (Z.add nseats Big_int_Z.unit_big_int)) with
  | Ok q0 -> Ok (a.add0 q0 a.epsilon)
  | Raise e -> Raise e)

(** val prf_iterate_step : arith -> config -> est -> est **)

let prf_iterate_step a cfg =
  let v2 = v0 a in
  (fun s ->
  let s1 = prf_distribute a s in
  let s2 = set_votes a s1 (vsum a (map (fun c -> c.cvote) (he_cands a s1))) in
  let s3 = set_quota_r a s2 (prf_quota a cfg s2) in
  if crashed a s3
  then s3
  else let winners = filter (ge_quota a s3) (hopefuls a s3) in
       let s4 =
         fold_left (fun s0 c ->
           set_status a (elect a cfg c.cid "Elect" false s0) iS_elected)
           winners s3
       in
       let sp = elected_surplus a s4 in
       let s5 = set_surplus a s4 (if a.ltv sp v2 then v2 else sp) in
       let s6 =
         if Z.eqb s5.lv_status iS_elected
         then s5
         else if a.ltv s5.surplus (omega_or0 a cfg)
              then set_status a s5 iS_omega
              else if a.gev s5.surplus s5.lv_last
                   then log_msg a cfg
                          ((^) "Stable state detected ("
                            ((^) (a.str s5.surplus) ")"))
                          (set_status a s5 iS_stable)
                   else s5
       in
       if Z.eqb s6.lv_status iS_iterate
       then update_kfs a false (set_last a s6 s6.surplus)
       else s6)

(** val meek_prf : arith -> config -> est cmd **)

let meek_prf a cfg =
  let nseats = cfg.cf_nseats in
  let nballots = cfg.cf_nballots in
  let log = log_action a cfg in
  Seq ((Do (fun s ->
  match omega a cfg with
  | Ok _ ->
    let s0 = init_kfs a s in
    let s1 = set_votes a s0 (a.of_int nballots) in
    (match a.divv s1.votes (a.of_int (Z.add nseats Big_int_Z.unit_big_int)) with
     | Ok q0 ->
       let s2 = set_quota a s1 (a.add0 q0 a.epsilon) in
       let s3 =
         fold_left (fun s3 b ->
           match top_rank a b with
           | Some c -> add_vote a c b.bmult s3
           | None -> set_crash a s3 AttributeError) s2.ballots s2
       in
       log TBegin "Begin Count" s3
     | Raise e -> set_crash a s1 e)
  | Raise e -> set_crash a s e)), (Seq ((While ((fun s ->
  (&&) (Z.ltb (seats_left a cfg s) (nlen (hopefuls a s)))
    (Z.ltb Big_int_Z.zero_big_int (seats_left a cfg s))), (Seq ((Do
  (new_round a cfg)), (Seq ((Do (fun s ->
  set_last a (set_status a s iS_iterate) (a.of_int nballots))), (Seq ((While
  ((fun s -> Z.eqb s.lv_status iS_iterate), (Do (prf_iterate_step a cfg)))),
  (Seq ((Ite ((fun s -> Z.eqb s.lv_status iS_elected), Continue, Skip)), (Ite
  ((fun s -> nonempty' (hopefuls a s)), (Do
  (meek_defeat_low a cfg (fun nm t0 ->
    (^) "Break tie (defeat low candidate): [" ((^) nm ((^) "] -> " t0)))
    false)), Skip)))))))))))), (Do (meek_final a cfg false)))))

(** val qpq_quota : arith -> config -> est -> t res **)

let qpq_quota a cfg =
  let nseats = cfg.cf_nseats in
  (fun s ->
  a.divv s.lv_va
    (a.sub0 (a.of_int (Z.add Big_int_Z.unit_big_int nseats)) s.lv_tx))

(** val count_complete_q : arith -> config -> est -> bool **)

let count_complete_q a cfg s =
  (||) (Z.leb (seats_left a cfg s) Big_int_Z.zero_big_int)
    (Z.leb (nlen (hopefuls a s)) (seats_left a cfg s))

(** val qpq_advance : arith -> est -> ballot -> ballot **)

let qpq_advance a s b =
  with_bidx a b
    (advance_from (cont_pred a (is_hopeful a) s) (skipn b.bidx b.brank)
      b.bidx)

(** val qpq_restart : arith -> est -> est **)

let qpq_restart a =
  let v2 = v0 a in
  (fun s ->
  let s1 = fold_left (fun s0 c -> unelect a c.cid s0) (electeds a s) s in
  set_ballots a s1
    (map (fun b ->
      qpq_advance a s1 (with_bres a (with_bweight a (with_bidx a b O) v2) v2))
      s1.ballots))

(** val qpq_tally : arith -> config -> est -> est **)

let qpq_tally a cfg =
  let v2 = v0 a in
  let v3 = v1 a in
  (fun s ->
  let s0 = set_txva a s v2 v2 in
  let s1 =
    set_cands a s0
      (map (fun c ->
        if in_state a Hopeful c then with_tc a (with_vote a c v2) v2 else c)
        s0.cands)
  in
  let s2 =
    fold_left (fun s2 b ->
      if b_exhausted a b
      then set_txva a s2 (a.add0 s2.lv_tx (a.mulv b.bweight b.bmult)) s2.lv_va
      else let s' = set_txva a s2 s2.lv_tx (a.add0 s2.lv_va b.bmult) in
           (match top_rank a b with
            | Some i ->
              upd a s' i (fun c ->
                with_vote a
                  (with_tc a c (a.add0 c.ctc (a.mulv b.bweight b.bmult)))
                  (a.add0 c.cvote b.bmult))
            | None -> s')) s1.ballots s1
  in
  let s3 =
    fold_left (fun s3 c ->
      if crashed a s3
      then s3
      else (match a.divv c.cvote (a.add0 v3 c.ctc) with
            | Ok q0 -> upd a s3 c.cid (fun c0 -> with_quo a c0 (Some q0))
            | Raise e -> set_crash a s3 e)) (hopefuls a s2) s2
  in
  if crashed a s3 then s3 else set_quota_r a s3 (qpq_quota a cfg s3))

(** val quo_of : arith -> cand -> t **)

let quo_of a =
  let v2 = v0 a in (fun c -> match c.cquo with
                             | Some q0 -> q0
                             | None -> v2)

(** val max_quo : arith -> cand list -> t option **)

let max_quo a = function
| [] -> None
| c :: t0 ->
  Some
    (fold_left (fun m y -> if a.gtv (quo_of a y) m then quo_of a y else m) t0
      (quo_of a c))

(** val min_quo : arith -> cand list -> t option **)

let min_quo a = function
| [] -> None
| c :: t0 ->
  Some
    (fold_left (fun m y -> if a.ltv (quo_of a y) m then quo_of a y else m) t0
      (quo_of a c))

(** val qpq_tie : string -> string -> string -> string **)

let qpq_tie reason nm t0 =
  (^) "Break tie by lot (" ((^) reason ((^) "): [" ((^) nm ((^) "] -> " t0))))

(** val qpq_step : arith -> config -> est -> est **)

let qpq_step a cfg =
  let v2 = v0 a in
  let v3 = v1 a in
  let log = log_action a cfg in
  (fun s ->
  match max_quo a (hopefuls a s) with
  | Some hq ->
    if a.gtv hq s.quota
    then let highs = filter (fun c -> a.eqv (quo_of a c) hq) (hopefuls a s) in
         let (s1, o) = break_tie a cfg (qpq_tie "largest quotient") highs s in
         (match o with
          | Some h ->
            let s2 = elect a cfg h "Elect high quotient" false s1 in
            if crashed a s2
            then s2
            else (match a.divv v3
                          (match find_cand a s2.cands h with
                           | Some c -> quo_of a c
                           | None -> v2) with
                  | Ok nw ->
                    let s3 =
                      set_ballots a s2
                        (map (fun b ->
                          if top_is a h b
                          then qpq_advance a s2 (with_bweight a b nw)
                          else b) s2.ballots)
                    in
                    log TTransfer
                      ((^) "Transfer elected: "
                        ((^) (cname_of a s3 h)
                          ((^) " (" ((^) (a.str hq) ")")))) s3
                  | Raise e -> set_crash a s2 e)
          | None -> s1)
    else (match min_quo a (hopefuls a s) with
          | Some lq ->
            let lows = filter (fun c -> a.eqv (quo_of a c) lq) (hopefuls a s)
            in
            let (s1, o) = break_tie a cfg (qpq_tie "smallest quotient") lows s
            in
            (match o with
             | Some l ->
               let s2 = defeat a cfg l "Defeat low quotient" s1 in
               if crashed a s2
               then s2
               else let s3 =
                      set_ballots a s2
                        (map (fun b ->
                          if top_is a l b then qpq_advance a s2 b else b)
                          s2.ballots)
                    in
                    set_flag a
                      (log TTransfer
                        ((^) "Transfer defeated: " (cname_of a s3 l)) s3) true
             | None -> s1)
          | None -> set_crash a s ValueError)
  | None -> set_crash a s ValueError)

(** val qpq : arith -> config -> est cmd **)

let qpq a cfg =
  let v2 = v0 a in
  let log = log_action a cfg in
  Seq ((Do (fun s ->
  let s1 =
    set_cands a s
      (map (fun c ->
        if in_state a Hopeful c
        then with_quo a (with_tc a c v2) (Some v2)
        else c) s.cands)
  in
  let va =
    vsum a
      (map (fun b -> b.bmult)
        (filter (fun b -> negb (b_exhausted a b)) s1.ballots))
  in
  let s2 = set_txva a s1 v2 va in
  let s3 = set_quota_r a s2 (qpq_quota a cfg s2) in
  if crashed a s3
  then s3
  else let s4 =
         set_ballots a s3 (map (fun b -> with_bweight a b v2) s3.ballots)
       in
       log TBegin "Begin Count" (set_flag a s4 true))), (Seq ((While
  ((fun s -> negb (count_complete_q a cfg s)), (Seq ((Do (new_round a cfg)),
  (Seq ((Ite ((fun s -> s.lv_flag), (Do (fun s ->
  qpq_restart a (set_flag a s false))), Skip)), (Seq ((Do (qpq_tally a cfg)),
  (Do (qpq_step a cfg)))))))))), (Seq ((Ite ((fun s ->
  Z.leb (nlen (hopefuls a s)) (seats_left a cfg s)), (Do (fun s ->
  fold_left (fun s0 c ->
    elect a cfg c.cid "Elect remaining candidates" false s0) (hopefuls a s) s)),
  Skip)), (Do (fun s ->
  fold_left (fun s0 c -> defeat a cfg c.cid "Defeat remaining candidates" s0)
    (hopefuls a s) s)))))))

type pcand = { pc_cid : Big_int_Z.big_int; pc_order : Big_int_Z.big_int;
               pc_tie : Big_int_Z.big_int; pc_name : string;
               pc_nick : string; pc_withdrawn : bool; pc_undeclared : 
               bool }

type profile = { pr_nseats : Big_int_Z.big_int;
                 pr_nballots : Big_int_Z.big_int; pr_cands : pcand list;
                 pr_ballots : (Big_int_Z.big_int * Big_int_Z.big_int list)
                              list;
                 pr_eballots : (Big_int_Z.big_int * Big_int_Z.big_int list
                               list) list }

type rule =
| RWigm
| RWigmPrf
| RScotland
| RCfer
| RMpls
| RMeek
| RMeekPrf
| RQpq

type outcome =
| Done of est * bool
| Crashed of est * exn
| OutOfFuel

(** val v0' : arith -> t **)

let v0' a =
  a.of_int Big_int_Z.zero_big_int

(** val init_cand : arith -> pcand -> cand **)

let init_cand a p =
  { cid = p.pc_cid; corder = p.pc_order; ctie = p.pc_tie; cname = p.pc_name;
    cnick = p.pc_nick; cundecl = p.pc_undeclared; cst =
    (if p.pc_withdrawn then Withdrawn else Hopeful); cpend = None; cvote =
    (v0' a); ckf = None; cquo = None; ctc = (v0' a) }

(** val init_state : arith -> config -> profile -> est **)

let init_state a cfg pr =
  let s0 = { cands = []; ballots = []; eballots = []; quota = (v0' a);
    surplus = (v0' a); votes = (v0' a); exhausted = (v0' a); residual =
    (v0' a); round = Big_int_Z.zero_big_int; rounds = []; actions = [];
    crash = None; lv_flag = false; lv_last = (v0' a); lv_status =
    Big_int_Z.zero_big_int; lv_batch = []; lv_tx = (v0' a); lv_va = (v0' a) }
  in
  let s1 =
    fold_left (fun s p ->
      let c = init_cand a p in
      let s' = set_cands a s (app s.cands (c :: [])) in
      log_msg a cfg
        ((^)
          (if p.pc_withdrawn
           then "Add withdrawn: "
           else if p.pc_undeclared
                then "Add undeclared: "
                else "Add eligible: ") p.pc_name) s') pr.pr_cands s0
  in
  let bs =
    flat_map (fun pat ->
      let (m, r) = pat in
      (match r with
       | [] -> []
       | _ :: _ ->
         { bmult = (a.of_int m); bidx = O; bweight =
           (a.of_int Big_int_Z.unit_big_int); bres = (v0' a); brank =
           r } :: [])) pr.pr_ballots
  in
  let ebs =
    flat_map (fun pat ->
      let (m, r) = pat in
      (match r with
       | [] -> []
       | _ :: _ -> { emult = (a.of_int m); eres = (v0' a); erank = r } :: []))
      pr.pr_eballots
  in
  set_eballots a (set_ballots a s1 bs) ebs

(** val rule_cmd : arith -> config -> rule -> est cmd **)

let rule_cmd a cfg = function
| RWigm -> wigm a cfg
| RWigmPrf -> wigm_prf a cfg
| RScotland -> scotland a cfg
| RCfer -> cfer a cfg
| RMpls -> mpls a cfg
| RMeek -> meek a cfg
| RMeekPrf -> meek_prf a cfg
| RQpq -> qpq a cfg

(** val count_cmd : arith -> config -> rule -> est cmd **)

let count_cmd a cfg r =
  Seq ((Do (fun s ->
    set_cands a s (map (fun c -> with_vote a c (v0' a)) s.cands))), (Seq
    ((rule_cmd a cfg r), (Do (log_action a cfg TEnd "Count Complete")))))

(** val post_check : arith -> config -> est -> bool **)

let post_check a cfg s =
  let ne = nlen (electeds a s) in
  let no_und = (=) cfg.cf_rule "mpls" in
  let electable =
    filter (fun c -> negb ((&&) no_und c.cundecl)) (eligibles a s)
  in
  (||) (Z.eqb ne cfg.cf_nseats)
    ((&&) (Z.ltb ne cfg.cf_nseats) (Z.eqb ne (nlen electable)))

(** val run_count :
    arith -> config -> Big_int_Z.big_int -> rule -> profile -> outcome **)

let run_count a cfg fuel r pr =
  match exec (crashed a) fuel (count_cmd a cfg r) (init_state a cfg pr) with
  | Some p ->
    let (s, _) = p in
    (match s.crash with
     | Some e -> Crashed (s, e)
     | None -> Done (s, (post_check a cfg s)))
  | None -> OutOfFuel

type tok =
| TI of Big_int_Z.big_int
| TS of string

(** val exn_name : exn -> string **)

let exn_name = function
| ZeroDivisionError -> "ZeroDivisionError"
| ValueError -> "ValueError"
| IndexError -> "IndexError"
| TypeError -> "TypeError"
| AttributeError -> "AttributeError"
| AssertionError -> "AssertionError"
| KeyError -> "KeyError"
| UnboundLocalError -> "UnboundLocalError"
| OverflowError -> "OverflowError"
| NotImplementedErr -> "NotImplementedError"
| UsageError -> "UsageError"
| ElectionError -> "ElectionError"
| ElectionProfileError -> "ElectionProfileError"
| ArithmeticValuesError -> "ArithmeticValuesError"

(** val space_ranges : (Big_int_Z.big_int * Big_int_Z.big_int) list **)

let space_ranges =
  (((fun x -> Big_int_Z.succ_big_int (Big_int_Z.mult_int_big_int 2 x))
    (Big_int_Z.mult_int_big_int 2 (Big_int_Z.mult_int_big_int 2
    Big_int_Z.unit_big_int))),
    ((fun x -> Big_int_Z.succ_big_int (Big_int_Z.mult_int_big_int 2 x))
    (Big_int_Z.mult_int_big_int 2
    ((fun x -> Big_int_Z.succ_big_int (Big_int_Z.mult_int_big_int 2 x))
    Big_int_Z.unit_big_int)))) :: (((Big_int_Z.mult_int_big_int 2
    (Big_int_Z.mult_int_big_int 2
    ((fun x -> Big_int_Z.succ_big_int (Big_int_Z.mult_int_big_int 2 x))
    ((fun x -> Big_int_Z.succ_big_int (Big_int_Z.mult_int_big_int 2 x))
    Big_int_Z.unit_big_int)))), (Big_int_Z.mult_int_big_int 2
    (Big_int_Z.mult_int_big_int 2 (Big_int_Z.mult_int_big_int 2
    (Big_int_Z.mult_int_big_int 2 (Big_int_Z.mult_int_big_int 2
    Big_int_Z.unit_big_int)))))) :: ((((fun x -> Big_int_Z.succ_big_int (Big_int_Z.mult_int_big_int 2 x))
    (Big_int_Z.mult_int_big_int 2
    ((fun x -> Big_int_Z.succ_big_int (Big_int_Z.mult_int_big_int 2 x))
    (Big_int_Z.mult_int_big_int 2 (Big_int_Z.mult_int_big_int 2
    (Big_int_Z.mult_int_big_int 2 (Big_int_Z.mult_int_big_int 2
    Big_int_Z.unit_big_int))))))),
    ((fun x -> Big_int_Z.succ_big_int (Big_int_Z.mult_int_big_int 2 x))
    (Big_int_Z.mult_int_big_int 2
    ((fun x -> Big_int_Z.succ_big_int (Big_int_Z.mult_int_big_int 2 x))
    (Big_int_Z.mult_int_big_int 2 (Big_int_Z.mult_int_big_int 2
    (Big_int_Z.mult_int_big_int 2 (Big_int_Z.mult_int_big_int 2
    Big_int_Z.unit_big_int)))))))) :: (((Big_int_Z.mult_int_big_int 2
    (Big_int_Z.mult_int_big_int 2 (Big_int_Z.mult_int_big_int 2
    (Big_int_Z.mult_int_big_int 2 (Big_int_Z.mult_int_big_int 2
    ((fun x -> Big_int_Z.succ_big_int (Big_int_Z.mult_int_big_int 2 x))
    (Big_int_Z.mult_int_big_int 2 Big_int_Z.unit_big_int))))))),
    (Big_int_Z.mult_int_big_int 2 (Big_int_Z.mult_int_big_int 2
    (Big_int_Z.mult_int_big_int 2 (Big_int_Z.mult_int_big_int 2
    (Big_int_Z.mult_int_big_int 2
    ((fun x -> Big_int_Z.succ_big_int (Big_int_Z.mult_int_big_int 2 x))
    (Big_int_Z.mult_int_big_int 2
    Big_int_Z.unit_big_int)))))))) :: (((Big_int_Z.mult_int_big_int 2
    (Big_int_Z.mult_int_big_int 2 (Big_int_Z.mult_int_big_int 2
    (Big_int_Z.mult_int_big_int 2 (Big_int_Z.mult_int_big_int 2
    (Big_int_Z.mult_int_big_int 2 (Big_int_Z.mult_int_big_int 2
    ((fun x -> Big_int_Z.succ_big_int (Big_int_Z.mult_int_big_int 2 x))
    (Big_int_Z.mult_int_big_int 2
    ((fun x -> Big_int_Z.succ_big_int (Big_int_Z.mult_int_big_int 2 x))
    ((fun x -> Big_int_Z.succ_big_int (Big_int_Z.mult_int_big_int 2 x))
    (Big_int_Z.mult_int_big_int 2 Big_int_Z.unit_big_int)))))))))))),
    (Big_int_Z.mult_int_big_int 2 (Big_int_Z.mult_int_big_int 2
    (Big_int_Z.mult_int_big_int 2 (Big_int_Z.mult_int_big_int 2
    (Big_int_Z.mult_int_big_int 2 (Big_int_Z.mult_int_big_int 2
    (Big_int_Z.mult_int_big_int 2
    ((fun x -> Big_int_Z.succ_big_int (Big_int_Z.mult_int_big_int 2 x))
    (Big_int_Z.mult_int_big_int 2
    ((fun x -> Big_int_Z.succ_big_int (Big_int_Z.mult_int_big_int 2 x))
    ((fun x -> Big_int_Z.succ_big_int (Big_int_Z.mult_int_big_int 2 x))
    (Big_int_Z.mult_int_big_int 2
    Big_int_Z.unit_big_int))))))))))))) :: (((Big_int_Z.mult_int_big_int 2
    (Big_int_Z.mult_int_big_int 2 (Big_int_Z.mult_int_big_int 2
    (Big_int_Z.mult_int_big_int 2 (Big_int_Z.mult_int_big_int 2
    (Big_int_Z.mult_int_big_int 2 (Big_int_Z.mult_int_big_int 2
    (Big_int_Z.mult_int_big_int 2 (Big_int_Z.mult_int_big_int 2
    (Big_int_Z.mult_int_big_int 2 (Big_int_Z.mult_int_big_int 2
    (Big_int_Z.mult_int_big_int 2 (Big_int_Z.mult_int_big_int 2
    Big_int_Z.unit_big_int))))))))))))), (Big_int_Z.mult_int_big_int 2
    ((fun x -> Big_int_Z.succ_big_int (Big_int_Z.mult_int_big_int 2 x))
    (Big_int_Z.mult_int_big_int 2
    ((fun x -> Big_int_Z.succ_big_int (Big_int_Z.mult_int_big_int 2 x))
    (Big_int_Z.mult_int_big_int 2 (Big_int_Z.mult_int_big_int 2
    (Big_int_Z.mult_int_big_int 2 (Big_int_Z.mult_int_big_int 2
    (Big_int_Z.mult_int_big_int 2 (Big_int_Z.mult_int_big_int 2
    (Big_int_Z.mult_int_big_int 2 (Big_int_Z.mult_int_big_int 2
    (Big_int_Z.mult_int_big_int 2
    Big_int_Z.unit_big_int)))))))))))))) :: (((Big_int_Z.mult_int_big_int 2
    (Big_int_Z.mult_int_big_int 2 (Big_int_Z.mult_int_big_int 2
    ((fun x -> Big_int_Z.succ_big_int (Big_int_Z.mult_int_big_int 2 x))
    (Big_int_Z.mult_int_big_int 2
    ((fun x -> Big_int_Z.succ_big_int (Big_int_Z.mult_int_big_int 2 x))
    (Big_int_Z.mult_int_big_int 2 (Big_int_Z.mult_int_big_int 2
    (Big_int_Z.mult_int_big_int 2 (Big_int_Z.mult_int_big_int 2
    (Big_int_Z.mult_int_big_int 2 (Big_int_Z.mult_int_big_int 2
    (Big_int_Z.mult_int_big_int 2 Big_int_Z.unit_big_int))))))))))))),
    ((fun x -> Big_int_Z.succ_big_int (Big_int_Z.mult_int_big_int 2 x))
    (Big_int_Z.mult_int_big_int 2 (Big_int_Z.mult_int_big_int 2
    ((fun x -> Big_int_Z.succ_big_int (Big_int_Z.mult_int_big_int 2 x))
    (Big_int_Z.mult_int_big_int 2
    ((fun x -> Big_int_Z.succ_big_int (Big_int_Z.mult_int_big_int 2 x))
    (Big_int_Z.mult_int_big_int 2 (Big_int_Z.mult_int_big_int 2
    (Big_int_Z.mult_int_big_int 2 (Big_int_Z.mult_int_big_int 2
    (Big_int_Z.mult_int_big_int 2 (Big_int_Z.mult_int_big_int 2
    (Big_int_Z.mult_int_big_int 2
    Big_int_Z.unit_big_int)))))))))))))) :: ((((fun x -> Big_int_Z.succ_big_int (Big_int_Z.mult_int_big_int 2 x))
    ((fun x -> Big_int_Z.succ_big_int (Big_int_Z.mult_int_big_int 2 x))
    ((fun x -> Big_int_Z.succ_big_int (Big_int_Z.mult_int_big_int 2 x))
    ((fun x -> Big_int_Z.succ_big_int (Big_int_Z.mult_int_big_int 2 x))
    (Big_int_Z.mult_int_big_int 2
    ((fun x -> Big_int_Z.succ_big_int (Big_int_Z.mult_int_big_int 2 x))
    (Big_int_Z.mult_int_big_int 2 (Big_int_Z.mult_int_big_int 2
    (Big_int_Z.mult_int_big_int 2 (Big_int_Z.mult_int_big_int 2
    (Big_int_Z.mult_int_big_int 2 (Big_int_Z.mult_int_big_int 2
    (Big_int_Z.mult_int_big_int 2 Big_int_Z.unit_big_int))))))))))))),
    ((fun x -> Big_int_Z.succ_big_int (Big_int_Z.mult_int_big_int 2 x))
    ((fun x -> Big_int_Z.succ_big_int (Big_int_Z.mult_int_big_int 2 x))
    ((fun x -> Big_int_Z.succ_big_int (Big_int_Z.mult_int_big_int 2 x))
    ((fun x -> Big_int_Z.succ_big_int (Big_int_Z.mult_int_big_int 2 x))
    (Big_int_Z.mult_int_big_int 2
    ((fun x -> Big_int_Z.succ_big_int (Big_int_Z.mult_int_big_int 2 x))
    (Big_int_Z.mult_int_big_int 2 (Big_int_Z.mult_int_big_int 2
    (Big_int_Z.mult_int_big_int 2 (Big_int_Z.mult_int_big_int 2
    (Big_int_Z.mult_int_big_int 2 (Big_int_Z.mult_int_big_int 2
    (Big_int_Z.mult_int_big_int 2
    Big_int_Z.unit_big_int)))))))))))))) :: ((((fun x -> Big_int_Z.succ_big_int (Big_int_Z.mult_int_big_int 2 x))
    ((fun x -> Big_int_Z.succ_big_int (Big_int_Z.mult_int_big_int 2 x))
    ((fun x -> Big_int_Z.succ_big_int (Big_int_Z.mult_int_big_int 2 x))
    ((fun x -> Big_int_Z.succ_big_int (Big_int_Z.mult_int_big_int 2 x))
    ((fun x -> Big_int_Z.succ_big_int (Big_int_Z.mult_int_big_int 2 x))
    (Big_int_Z.mult_int_big_int 2
    ((fun x -> Big_int_Z.succ_big_int (Big_int_Z.mult_int_big_int 2 x))
    (Big_int_Z.mult_int_big_int 2 (Big_int_Z.mult_int_big_int 2
    (Big_int_Z.mult_int_big_int 2 (Big_int_Z.mult_int_big_int 2
    (Big_int_Z.mult_int_big_int 2 (Big_int_Z.mult_int_big_int 2
    Big_int_Z.unit_big_int))))))))))))),
    ((fun x -> Big_int_Z.succ_big_int (Big_int_Z.mult_int_big_int 2 x))
    ((fun x -> Big_int_Z.succ_big_int (Big_int_Z.mult_int_big_int 2 x))
    ((fun x -> Big_int_Z.succ_big_int (Big_int_Z.mult_int_big_int 2 x))
    ((fun x -> Big_int_Z.succ_big_int (Big_int_Z.mult_int_big_int 2 x))
    ((fun x -> Big_int_Z.succ_big_int (Big_int_Z.mult_int_big_int 2 x))
    (Big_int_Z.mult_int_big_int 2
    ((fun x -> Big_int_Z.succ_big_int (Big_int_Z.mult_int_big_int 2 x))
    (Big_int_Z.mult_int_big_int 2 (Big_int_Z.mult_int_big_int 2
    (Big_int_Z.mult_int_big_int 2 (Big_int_Z.mult_int_big_int 2
    (Big_int_Z.mult_int_big_int 2 (Big_int_Z.mult_int_big_int 2
    Big_int_Z.unit_big_int)))))))))))))) :: (((Big_int_Z.mult_int_big_int 2
    (Big_int_Z.mult_int_big_int 2 (Big_int_Z.mult_int_big_int 2
    (Big_int_Z.mult_int_big_int 2 (Big_int_Z.mult_int_big_int 2
    (Big_int_Z.mult_int_big_int 2 (Big_int_Z.mult_int_big_int 2
    (Big_int_Z.mult_int_big_int 2 (Big_int_Z.mult_int_big_int 2
    (Big_int_Z.mult_int_big_int 2 (Big_int_Z.mult_int_big_int 2
    (Big_int_Z.mult_int_big_int 2
    ((fun x -> Big_int_Z.succ_big_int (Big_int_Z.mult_int_big_int 2 x))
    Big_int_Z.unit_big_int))))))))))))), (Big_int_Z.mult_int_big_int 2
    (Big_int_Z.mult_int_big_int 2 (Big_int_Z.mult_int_big_int 2
    (Big_int_Z.mult_int_big_int 2 (Big_int_Z.mult_int_big_int 2
    (Big_int_Z.mult_int_big_int 2 (Big_int_Z.mult_int_big_int 2
    (Big_int_Z.mult_int_big_int 2 (Big_int_Z.mult_int_big_int 2
    (Big_int_Z.mult_int_big_int 2 (Big_int_Z.mult_int_big_int 2
    (Big_int_Z.mult_int_big_int 2
    ((fun x -> Big_int_Z.succ_big_int (Big_int_Z.mult_int_big_int 2 x))
    Big_int_Z.unit_big_int)))))))))))))) :: [])))))))))

(** val linebreak_ranges : (Big_int_Z.big_int * Big_int_Z.big_int) list **)

let linebreak_ranges =
  ((Big_int_Z.mult_int_big_int 2
    ((fun x -> Big_int_Z.succ_big_int (Big_int_Z.mult_int_big_int 2 x))
    (Big_int_Z.mult_int_big_int 2 Big_int_Z.unit_big_int))),
    ((fun x -> Big_int_Z.succ_big_int (Big_int_Z.mult_int_big_int 2 x))
    (Big_int_Z.mult_int_big_int 2
    ((fun x -> Big_int_Z.succ_big_int (Big_int_Z.mult_int_big_int 2 x))
    Big_int_Z.unit_big_int)))) :: (((Big_int_Z.mult_int_big_int 2
    (Big_int_Z.mult_int_big_int 2
    ((fun x -> Big_int_Z.succ_big_int (Big_int_Z.mult_int_big_int 2 x))
    ((fun x -> Big_int_Z.succ_big_int (Big_int_Z.mult_int_big_int 2 x))
    Big_int_Z.unit_big_int)))), (Big_int_Z.mult_int_big_int 2
    ((fun x -> Big_int_Z.succ_big_int (Big_int_Z.mult_int_big_int 2 x))
    ((fun x -> Big_int_Z.succ_big_int (Big_int_Z.mult_int_big_int 2 x))
    ((fun x -> Big_int_Z.succ_big_int (Big_int_Z.mult_int_big_int 2 x))
    Big_int_Z.unit_big_int))))) :: ((((fun x -> Big_int_Z.succ_big_int (Big_int_Z.mult_int_big_int 2 x))
    (Big_int_Z.mult_int_big_int 2
    ((fun x -> Big_int_Z.succ_big_int (Big_int_Z.mult_int_big_int 2 x))
    (Big_int_Z.mult_int_big_int 2 (Big_int_Z.mult_int_big_int 2
    (Big_int_Z.mult_int_big_int 2 (Big_int_Z.mult_int_big_int 2
    Big_int_Z.unit_big_int))))))),
    ((fun x -> Big_int_Z.succ_big_int (Big_int_Z.mult_int_big_int 2 x))
    (Big_int_Z.mult_int_big_int 2
    ((fun x -> Big_int_Z.succ_big_int (Big_int_Z.mult_int_big_int 2 x))
    (Big_int_Z.mult_int_big_int 2 (Big_int_Z.mult_int_big_int 2
    (Big_int_Z.mult_int_big_int 2 (Big_int_Z.mult_int_big_int 2
    Big_int_Z.unit_big_int)))))))) :: (((Big_int_Z.mult_int_big_int 2
    (Big_int_Z.mult_int_big_int 2 (Big_int_Z.mult_int_big_int 2
    ((fun x -> Big_int_Z.succ_big_int (Big_int_Z.mult_int_big_int 2 x))
    (Big_int_Z.mult_int_big_int 2
    ((fun x -> Big_int_Z.succ_big_int (Big_int_Z.mult_int_big_int 2 x))
    (Big_int_Z.mult_int_big_int 2 (Big_int_Z.mult_int_big_int 2
    (Big_int_Z.mult_int_big_int 2 (Big_int_Z.mult_int_big_int 2
    (Big_int_Z.mult_int_big_int 2 (Big_int_Z.mult_int_big_int 2
    (Big_int_Z.mult_int_big_int 2 Big_int_Z.unit_big_int))))))))))))),
    ((fun x -> Big_int_Z.succ_big_int (Big_int_Z.mult_int_big_int 2 x))
    (Big_int_Z.mult_int_big_int 2 (Big_int_Z.mult_int_big_int 2
    ((fun x -> Big_int_Z.succ_big_int (Big_int_Z.mult_int_big_int 2 x))
    (Big_int_Z.mult_int_big_int 2
    ((fun x -> Big_int_Z.succ_big_int (Big_int_Z.mult_int_big_int 2 x))
    (Big_int_Z.mult_int_big_int 2 (Big_int_Z.mult_int_big_int 2
    (Big_int_Z.mult_int_big_int 2 (Big_int_Z.mult_int_big_int 2
    (Big_int_Z.mult_int_big_int 2 (Big_int_Z.mult_int_big_int 2
    (Big_int_Z.mult_int_big_int 2
    Big_int_Z.unit_big_int)))))))))))))) :: [])))

(** val digit_ranges :
    ((Big_int_Z.big_int * Big_int_Z.big_int) * Big_int_Z.big_int) list **)

let digit_ranges =
  (((Big_int_Z.mult_int_big_int 2 (Big_int_Z.mult_int_big_int 2
    (Big_int_Z.mult_int_big_int 2 (Big_int_Z.mult_int_big_int 2
    ((fun x -> Big_int_Z.succ_big_int (Big_int_Z.mult_int_big_int 2 x))
    Big_int_Z.unit_big_int))))),
    ((fun x -> Big_int_Z.succ_big_int (Big_int_Z.mult_int_big_int 2 x))
    (Big_int_Z.mult_int_big_int 2 (Big_int_Z.mult_int_big_int 2
    ((fun x -> Big_int_Z.succ_big_int (Big_int_Z.mult_int_big_int 2 x))
    ((fun x -> Big_int_Z.succ_big_int (Big_int_Z.mult_int_big_int 2 x))
    Big_int_Z.unit_big_int)))))),
    Big_int_Z.zero_big_int) :: ((((Big_int_Z.mult_int_big_int 2
    (Big_int_Z.mult_int_big_int 2 (Big_int_Z.mult_int_big_int 2
    (Big_int_Z.mult_int_big_int 2 (Big_int_Z.mult_int_big_int 2
    ((fun x -> Big_int_Z.succ_big_int (Big_int_Z.mult_int_big_int 2 x))
    ((fun x -> Big_int_Z.succ_big_int (Big_int_Z.mult_int_big_int 2 x))
    (Big_int_Z.mult_int_big_int 2 (Big_int_Z.mult_int_big_int 2
    ((fun x -> Big_int_Z.succ_big_int (Big_int_Z.mult_int_big_int 2 x))
    Big_int_Z.unit_big_int)))))))))),
    ((fun x -> Big_int_Z.succ_big_int (Big_int_Z.mult_int_big_int 2 x))
    (Big_int_Z.mult_int_big_int 2 (Big_int_Z.mult_int_big_int 2
    ((fun x -> Big_int_Z.succ_big_int (Big_int_Z.mult_int_big_int 2 x))
    (Big_int_Z.mult_int_big_int 2
    ((fun x -> Big_int_Z.succ_big_int (Big_int_Z.mult_int_big_int 2 x))
    ((fun x -> Big_int_Z.succ_big_int (Big_int_Z.mult_int_big_int 2 x))
    (Big_int_Z.mult_int_big_int 2 (Big_int_Z.mult_int_big_int 2
    ((fun x -> Big_int_Z.succ_big_int (Big_int_Z.mult_int_big_int 2 x))
    Big_int_Z.unit_big_int))))))))))),
    Big_int_Z.zero_big_int) :: ((((Big_int_Z.mult_int_big_int 2
    (Big_int_Z.mult_int_big_int 2 (Big_int_Z.mult_int_big_int 2
    (Big_int_Z.mult_int_big_int 2
    ((fun x -> Big_int_Z.succ_big_int (Big_int_Z.mult_int_big_int 2 x))
    ((fun x -> Big_int_Z.succ_big_int (Big_int_Z.mult_int_big_int 2 x))
    ((fun x -> Big_int_Z.succ_big_int (Big_int_Z.mult_int_big_int 2 x))
    ((fun x -> Big_int_Z.succ_big_int (Big_int_Z.mult_int_big_int 2 x))
    (Big_int_Z.mult_int_big_int 2
    ((fun x -> Big_int_Z.succ_big_int (Big_int_Z.mult_int_big_int 2 x))
    Big_int_Z.unit_big_int)))))))))),
    ((fun x -> Big_int_Z.succ_big_int (Big_int_Z.mult_int_big_int 2 x))
    (Big_int_Z.mult_int_big_int 2 (Big_int_Z.mult_int_big_int 2
    ((fun x -> Big_int_Z.succ_big_int (Big_int_Z.mult_int_big_int 2 x))
    ((fun x -> Big_int_Z.succ_big_int (Big_int_Z.mult_int_big_int 2 x))
    ((fun x -> Big_int_Z.succ_big_int (Big_int_Z.mult_int_big_int 2 x))
    ((fun x -> Big_int_Z.succ_big_int (Big_int_Z.mult_int_big_int 2 x))
    ((fun x -> Big_int_Z.succ_big_int (Big_int_Z.mult_int_big_int 2 x))
    (Big_int_Z.mult_int_big_int 2
    ((fun x -> Big_int_Z.succ_big_int (Big_int_Z.mult_int_big_int 2 x))
    Big_int_Z.unit_big_int))))))))))),
    Big_int_Z.zero_big_int) :: ((((Big_int_Z.mult_int_big_int 2
    (Big_int_Z.mult_int_big_int 2 (Big_int_Z.mult_int_big_int 2
    (Big_int_Z.mult_int_big_int 2 (Big_int_Z.mult_int_big_int 2
    (Big_int_Z.mult_int_big_int 2
    ((fun x -> Big_int_Z.succ_big_int (Big_int_Z.mult_int_big_int 2 x))
    ((fun x -> Big_int_Z.succ_big_int (Big_int_Z.mult_int_big_int 2 x))
    ((fun x -> Big_int_Z.succ_big_int (Big_int_Z.mult_int_big_int 2 x))
    ((fun x -> Big_int_Z.succ_big_int (Big_int_Z.mult_int_big_int 2 x))
    Big_int_Z.unit_big_int)))))))))),
    ((fun x -> Big_int_Z.succ_big_int (Big_int_Z.mult_int_big_int 2 x))
    (Big_int_Z.mult_int_big_int 2 (Big_int_Z.mult_int_big_int 2
    ((fun x -> Big_int_Z.succ_big_int (Big_int_Z.mult_int_big_int 2 x))
    (Big_int_Z.mult_int_big_int 2 (Big_int_Z.mult_int_big_int 2
    ((fun x -> Big_int_Z.succ_big_int (Big_int_Z.mult_int_big_int 2 x))
    ((fun x -> Big_int_Z.succ_big_int (Big_int_Z.mult_int_big_int 2 x))
    ((fun x -> Big_int_Z.succ_big_int (Big_int_Z.mult_int_big_int 2 x))
    ((fun x -> Big_int_Z.succ_big_int (Big_int_Z.mult_int_big_int 2 x))
    Big_int_Z.unit_big_int))))))))))),
    Big_int_Z.zero_big_int) :: ((((Big_int_Z.mult_int_big_int 2
    ((fun x -> Big_int_Z.succ_big_int (Big_int_Z.mult_int_big_int 2 x))
    ((fun x -> Big_int_Z.succ_big_int (Big_int_Z.mult_int_big_int 2 x))
    (Big_int_Z.mult_int_big_int 2 (Big_int_Z.mult_int_big_int 2
    ((fun x -> Big_int_Z.succ_big_int (Big_int_Z.mult_int_big_int 2 x))
    ((fun x -> Big_int_Z.succ_big_int (Big_int_Z.mult_int_big_int 2 x))
    (Big_int_Z.mult_int_big_int 2
    ((fun x -> Big_int_Z.succ_big_int (Big_int_Z.mult_int_big_int 2 x))
    (Big_int_Z.mult_int_big_int 2 (Big_int_Z.mult_int_big_int 2
    Big_int_Z.unit_big_int))))))))))),
    ((fun x -> Big_int_Z.succ_big_int (Big_int_Z.mult_int_big_int 2 x))
    ((fun x -> Big_int_Z.succ_big_int (Big_int_Z.mult_int_big_int 2 x))
    ((fun x -> Big_int_Z.succ_big_int (Big_int_Z.mult_int_big_int 2 x))
    ((fun x -> Big_int_Z.succ_big_int (Big_int_Z.mult_int_big_int 2 x))
    (Big_int_Z.mult_int_big_int 2
    ((fun x -> Big_int_Z.succ_big_int (Big_int_Z.mult_int_big_int 2 x))
    ((fun x -> Big_int_Z.succ_big_int (Big_int_Z.mult_int_big_int 2 x))
    (Big_int_Z.mult_int_big_int 2
    ((fun x -> Big_int_Z.succ_big_int (Big_int_Z.mult_int_big_int 2 x))
    (Big_int_Z.mult_int_big_int 2 (Big_int_Z.mult_int_big_int 2
    Big_int_Z.unit_big_int)))))))))))),
    Big_int_Z.zero_big_int) :: ((((Big_int_Z.mult_int_big_int 2
    ((fun x -> Big_int_Z.succ_big_int (Big_int_Z.mult_int_big_int 2 x))
    ((fun x -> Big_int_Z.succ_big_int (Big_int_Z.mult_int_big_int 2 x))
    (Big_int_Z.mult_int_big_int 2 (Big_int_Z.mult_int_big_int 2
    ((fun x -> Big_int_Z.succ_big_int (Big_int_Z.mult_int_big_int 2 x))
    ((fun x -> Big_int_Z.succ_big_int (Big_int_Z.mult_int_big_int 2 x))
    ((fun x -> Big_int_Z.succ_big_int (Big_int_Z.mult_int_big_int 2 x))
    ((fun x -> Big_int_Z.succ_big_int (Big_int_Z.mult_int_big_int 2 x))
    (Big_int_Z.mult_int_big_int 2 (Big_int_Z.mult_int_big_int 2
    Big_int_Z.unit_big_int))))))))))),
    ((fun x -> Big_int_Z.succ_big_int (Big_int_Z.mult_int_big_int 2 x))
    ((fun x -> Big_int_Z.succ_big_int (Big_int_Z.mult_int_big_int 2 x))
    ((fun x -> Big_int_Z.succ_big_int (Big_int_Z.mult_int_big_int 2 x))
    ((fun x -> Big_int_Z.succ_big_int (Big_int_Z.mult_int_big_int 2 x))
    (Big_int_Z.mult_int_big_int 2
    ((fun x -> Big_int_Z.succ_big_int (Big_int_Z.mult_int_big_int 2 x))
    ((fun x -> Big_int_Z.succ_big_int (Big_int_Z.mult_int_big_int 2 x))
    ((fun x -> Big_int_Z.succ_big_int (Big_int_Z.mult_int_big_int 2 x))
    ((fun x -> Big_int_Z.succ_big_int (Big_int_Z.mult_int_big_int 2 x))
    (Big_int_Z.mult_int_big_int 2 (Big_int_Z.mult_int_big_int 2
    Big_int_Z.unit_big_int)))))))))))),
    Big_int_Z.zero_big_int) :: ((((Big_int_Z.mult_int_big_int 2
    ((fun x -> Big_int_Z.succ_big_int (Big_int_Z.mult_int_big_int 2 x))
    ((fun x -> Big_int_Z.succ_big_int (Big_int_Z.mult_int_big_int 2 x))
    (Big_int_Z.mult_int_big_int 2 (Big_int_Z.mult_int_big_int 2
    ((fun x -> Big_int_Z.succ_big_int (Big_int_Z.mult_int_big_int 2 x))
    ((fun x -> Big_int_Z.succ_big_int (Big_int_Z.mult_int_big_int 2 x))
    (Big_int_Z.mult_int_big_int 2 (Big_int_Z.mult_int_big_int 2
    ((fun x -> Big_int_Z.succ_big_int (Big_int_Z.mult_int_big_int 2 x))
    (Big_int_Z.mult_int_big_int 2 Big_int_Z.unit_big_int))))))))))),
    ((fun x -> Big_int_Z.succ_big_int (Big_int_Z.mult_int_big_int 2 x))
    ((fun x -> Big_int_Z.succ_big_int (Big_int_Z.mult_int_big_int 2 x))
    ((fun x -> Big_int_Z.succ_big_int (Big_int_Z.mult_int_big_int 2 x))
    ((fun x -> Big_int_Z.succ_big_int (Big_int_Z.mult_int_big_int 2 x))
    (Big_int_Z.mult_int_big_int 2
    ((fun x -> Big_int_Z.succ_big_int (Big_int_Z.mult_int_big_int 2 x))
    ((fun x -> Big_int_Z.succ_big_int (Big_int_Z.mult_int_big_int 2 x))
    (Big_int_Z.mult_int_big_int 2 (Big_int_Z.mult_int_big_int 2
    ((fun x -> Big_int_Z.succ_big_int (Big_int_Z.mult_int_big_int 2 x))
    (Big_int_Z.mult_int_big_int 2 Big_int_Z.unit_big_int)))))))))))),
    Big_int_Z.zero_big_int) :: ((((Big_int_Z.mult_int_big_int 2
    ((fun x -> Big_int_Z.succ_big_int (Big_int_Z.mult_int_big_int 2 x))
    ((fun x -> Big_int_Z.succ_big_int (Big_int_Z.mult_int_big_int 2 x))
    (Big_int_Z.mult_int_big_int 2 (Big_int_Z.mult_int_big_int 2
    ((fun x -> Big_int_Z.succ_big_int (Big_int_Z.mult_int_big_int 2 x))
    ((fun x -> Big_int_Z.succ_big_int (Big_int_Z.mult_int_big_int 2 x))
    ((fun x -> Big_int_Z.succ_big_int (Big_int_Z.mult_int_big_int 2 x))
    (Big_int_Z.mult_int_big_int 2
    ((fun x -> Big_int_Z.succ_big_int (Big_int_Z.mult_int_big_int 2 x))
    (Big_int_Z.mult_int_big_int 2 Big_int_Z.unit_big_int))))))))))),
    ((fun x -> Big_int_Z.succ_big_int (Big_int_Z.mult_int_big_int 2 x))
    ((fun x -> Big_int_Z.succ_big_int (Big_int_Z.mult_int_big_int 2 x))
    ((fun x -> Big_int_Z.succ_big_int (Big_int_Z.mult_int_big_int 2 x))
    ((fun x -> Big_int_Z.succ_big_int (Big_int_Z.mult_int_big_int 2 x))
    (Big_int_Z.mult_int_big_int 2
    ((fun x -> Big_int_Z.succ_big_int (Big_int_Z.mult_int_big_int 2 x))
    ((fun x -> Big_int_Z.succ_big_int (Big_int_Z.mult_int_big_int 2 x))
    ((fun x -> Big_int_Z.succ_big_int (Big_int_Z.mult_int_big_int 2 x))
    (Big_int_Z.mult_int_big_int 2
    ((fun x -> Big_int_Z.succ_big_int (Big_int_Z.mult_int_big_int 2 x))
    (Big_int_Z.mult_int_big_int 2 Big_int_Z.unit_big_int)))))))))))),
    Big_int_Z.zero_big_int) :: ((((Big_int_Z.mult_int_big_int 2
    ((fun x -> Big_int_Z.succ_big_int (Big_int_Z.mult_int_big_int 2 x))
    ((fun x -> Big_int_Z.succ_big_int (Big_int_Z.mult_int_big_int 2 x))
    (Big_int_Z.mult_int_big_int 2 (Big_int_Z.mult_int_big_int 2
    ((fun x -> Big_int_Z.succ_big_int (Big_int_Z.mult_int_big_int 2 x))
    ((fun x -> Big_int_Z.succ_big_int (Big_int_Z.mult_int_big_int 2 x))
    (Big_int_Z.mult_int_big_int 2
    ((fun x -> Big_int_Z.succ_big_int (Big_int_Z.mult_int_big_int 2 x))
    ((fun x -> Big_int_Z.succ_big_int (Big_int_Z.mult_int_big_int 2 x))
    (Big_int_Z.mult_int_big_int 2 Big_int_Z.unit_big_int))))))))))),
    ((fun x -> Big_int_Z.succ_big_int (Big_int_Z.mult_int_big_int 2 x))
    ((fun x -> Big_int_Z.succ_big_int (Big_int_Z.mult_int_big_int 2 x))
    ((fun x -> Big_int_Z.succ_big_int (Big_int_Z.mult_int_big_int 2 x))
    ((fun x -> Big_int_Z.succ_big_int (Big_int_Z.mult_int_big_int 2 x))
    (Big_int_Z.mult_int_big_int 2
    ((fun x -> Big_int_Z.succ_big_int (Big_int_Z.mult_int_big_int 2 x))
    ((fun x -> Big_int_Z.succ_big_int (Big_int_Z.mult_int_big_int 2 x))
    (Big_int_Z.mult_int_big_int 2
    ((fun x -> Big_int_Z.succ_big_int (Big_int_Z.mult_int_big_int 2 x))
    ((fun x -> Big_int_Z.succ_big_int (Big_int_Z.mult_int_big_int 2 x))
    (Big_int_Z.mult_int_big_int 2 Big_int_Z.unit_big_int)))))))))))),
    Big_int_Z.zero_big_int) :: ((((Big_int_Z.mult_int_big_int 2
    ((fun x -> Big_int_Z.succ_big_int (Big_int_Z.mult_int_big_int 2 x))
    ((fun x -> Big_int_Z.succ_big_int (Big_int_Z.mult_int_big_int 2 x))
    (Big_int_Z.mult_int_big_int 2 (Big_int_Z.mult_int_big_int 2
    ((fun x -> Big_int_Z.succ_big_int (Big_int_Z.mult_int_big_int 2 x))
    ((fun x -> Big_int_Z.succ_big_int (Big_int_Z.mult_int_big_int 2 x))
    ((fun x -> Big_int_Z.succ_big_int (Big_int_Z.mult_int_big_int 2 x))
    ((fun x -> Big_int_Z.succ_big_int (Big_int_Z.mult_int_big_int 2 x))
    ((fun x -> Big_int_Z.succ_big_int (Big_int_Z.mult_int_big_int 2 x))
    (Big_int_Z.mult_int_big_int 2 Big_int_Z.unit_big_int))))))))))),
    ((fun x -> Big_int_Z.succ_big_int (Big_int_Z.mult_int_big_int 2 x))
    ((fun x -> Big_int_Z.succ_big_int (Big_int_Z.mult_int_big_int 2 x))
    ((fun x -> Big_int_Z.succ_big_int (Big_int_Z.mult_int_big_int 2 x))
    ((fun x -> Big_int_Z.succ_big_int (Big_int_Z.mult_int_big_int 2 x))
    (Big_int_Z.mult_int_big_int 2
    ((fun x -> Big_int_Z.succ_big_int (Big_int_Z.mult_int_big_int 2 x))
    ((fun x -> Big_int_Z.succ_big_int (Big_int_Z.mult_int_big_int 2 x))
    ((fun x -> Big_int_Z.succ_big_int (Big_int_Z.mult_int_big_int 2 x))
    ((fun x -> Big_int_Z.succ_big_int (Big_int_Z.mult_int_big_int 2 x))
    ((fun x -> Big_int_Z.succ_big_int (Big_int_Z.mult_int_big_int 2 x))
    (Big_int_Z.mult_int_big_int 2 Big_int_Z.unit_big_int)))))))))))),
    Big_int_Z.zero_big_int) :: ((((Big_int_Z.mult_int_big_int 2
    ((fun x -> Big_int_Z.succ_big_int (Big_int_Z.mult_int_big_int 2 x))
    ((fun x -> Big_int_Z.succ_big_int (Big_int_Z.mult_int_big_int 2 x))
    (Big_int_Z.mult_int_big_int 2 (Big_int_Z.mult_int_big_int 2
    ((fun x -> Big_int_Z.succ_big_int (Big_int_Z.mult_int_big_int 2 x))
    ((fun x -> Big_int_Z.succ_big_int (Big_int_Z.mult_int_big_int 2 x))
    (Big_int_Z.mult_int_big_int 2 (Big_int_Z.mult_int_big_int 2
    (Big_int_Z.mult_int_big_int 2
    ((fun x -> Big_int_Z.succ_big_int (Big_int_Z.mult_int_big_int 2 x))
    Big_int_Z.unit_big_int))))))))))),
    ((fun x -> Big_int_Z.succ_big_int (Big_int_Z.mult_int_big_int 2 x))
    ((fun x -> Big_int_Z.succ_big_int (Big_int_Z.mult_int_big_int 2 x))
    ((fun x -> Big_int_Z.succ_big_int (Big_int_Z.mult_int_big_int 2 x))
    ((fun x -> Big_int_Z.succ_big_int (Big_int_Z.mult_int_big_int 2 x))
    (Big_int_Z.mult_int_big_int 2
    ((fun x -> Big_int_Z.succ_big_int (Big_int_Z.mult_int_big_int 2 x))
    ((fun x -> Big_int_Z.succ_big_int (Big_int_Z.mult_int_big_int 2 x))
    (Big_int_Z.mult_int_big_int 2 (Big_int_Z.mult_int_big_int 2
    (Big_int_Z.mult_int_big_int 2
    ((fun x -> Big_int_Z.succ_big_int (Big_int_Z.mult_int_big_int 2 x))
    Big_int_Z.unit_big_int)))))))))))),
    Big_int_Z.zero_big_int) :: ((((Big_int_Z.mult_int_big_int 2
    ((fun x -> Big_int_Z.succ_big_int (Big_int_Z.mult_int_big_int 2 x))
    ((fun x -> Big_int_Z.succ_big_int (Big_int_Z.mult_int_big_int 2 x))
    (Big_int_Z.mult_int_big_int 2 (Big_int_Z.mult_int_big_int 2
    ((fun x -> Big_int_Z.succ_big_int (Big_int_Z.mult_int_big_int 2 x))
    ((fun x -> Big_int_Z.succ_big_int (Big_int_Z.mult_int_big_int 2 x))
    ((fun x -> Big_int_Z.succ_big_int (Big_int_Z.mult_int_big_int 2 x))
    (Big_int_Z.mult_int_big_int 2 (Big_int_Z.mult_int_big_int 2
    ((fun x -> Big_int_Z.succ_big_int (Big_int_Z.mult_int_big_int 2 x))
    Big_int_Z.unit_big_int))))))))))),
    ((fun x -> Big_int_Z.succ_big_int (Big_int_Z.mult_int_big_int 2 x))
    ((fun x -> Big_int_Z.succ_big_int (Big_int_Z.mult_int_big_int 2 x))
    ((fun x -> Big_int_Z.succ_big_int (Big_int_Z.mult_int_big_int 2 x))
    ((fun x -> Big_int_Z.succ_big_int (Big_int_Z.mult_int_big_int 2 x))
    (Big_int_Z.mult_int_big_int 2
    ((fun x -> Big_int_Z.succ_big_int (Big_int_Z.mult_int_big_int 2 x))
    ((fun x -> Big_int_Z.succ_big_int (Big_int_Z.mult_int_big_int 2 x))
    ((fun x -> Big_int_Z.succ_big_int (Big_int_Z.mult_int_big_int 2 x))
    (Big_int_Z.mult_int_big_int 2 (Big_int_Z.mult_int_big_int 2
    ((fun x -> Big_int_Z.succ_big_int (Big_int_Z.mult_int_big_int 2 x))
    Big_int_Z.unit_big_int)))))))))))),
    Big_int_Z.zero_big_int) :: ((((Big_int_Z.mult_int_big_int 2
    ((fun x -> Big_int_Z.succ_big_int (Big_int_Z.mult_int_big_int 2 x))
    ((fun x -> Big_int_Z.succ_big_int (Big_int_Z.mult_int_big_int 2 x))
    (Big_int_Z.mult_int_big_int 2 (Big_int_Z.mult_int_big_int 2
    ((fun x -> Big_int_Z.succ_big_int (Big_int_Z.mult_int_big_int 2 x))
    ((fun x -> Big_int_Z.succ_big_int (Big_int_Z.mult_int_big_int 2 x))
    (Big_int_Z.mult_int_big_int 2
    ((fun x -> Big_int_Z.succ_big_int (Big_int_Z.mult_int_big_int 2 x))
    (Big_int_Z.mult_int_big_int 2
    ((fun x -> Big_int_Z.succ_big_int (Big_int_Z.mult_int_big_int 2 x))
    Big_int_Z.unit_big_int))))))))))),
    ((fun x -> Big_int_Z.succ_big_int (Big_int_Z.mult_int_big_int 2 x))
    ((fun x -> Big_int_Z.succ_big_int (Big_int_Z.mult_int_big_int 2 x))
    ((fun x -> Big_int_Z.succ_big_int (Big_int_Z.mult_int_big_int 2 x))
    ((fun x -> Big_int_Z.succ_big_int (Big_int_Z.mult_int_big_int 2 x))
    (Big_int_Z.mult_int_big_int 2
    ((fun x -> Big_int_Z.succ_big_int (Big_int_Z.mult_int_big_int 2 x))
    ((fun x -> Big_int_Z.succ_big_int (Big_int_Z.mult_int_big_int 2 x))
    (Big_int_Z.mult_int_big_int 2
    ((fun x -> Big_int_Z.succ_big_int (Big_int_Z.mult_int_big_int 2 x))
    (Big_int_Z.mult_int_big_int 2
    ((fun x -> Big_int_Z.succ_big_int (Big_int_Z.mult_int_big_int 2 x))
    Big_int_Z.unit_big_int)))))))))))),
    Big_int_Z.zero_big_int) :: ((((Big_int_Z.mult_int_big_int 2
    ((fun x -> Big_int_Z.succ_big_int (Big_int_Z.mult_int_big_int 2 x))
    ((fun x -> Big_int_Z.succ_big_int (Big_int_Z.mult_int_big_int 2 x))
    (Big_int_Z.mult_int_big_int 2 (Big_int_Z.mult_int_big_int 2
    ((fun x -> Big_int_Z.succ_big_int (Big_int_Z.mult_int_big_int 2 x))
    ((fun x -> Big_int_Z.succ_big_int (Big_int_Z.mult_int_big_int 2 x))
    ((fun x -> Big_int_Z.succ_big_int (Big_int_Z.mult_int_big_int 2 x))
    ((fun x -> Big_int_Z.succ_big_int (Big_int_Z.mult_int_big_int 2 x))
    (Big_int_Z.mult_int_big_int 2
    ((fun x -> Big_int_Z.succ_big_int (Big_int_Z.mult_int_big_int 2 x))
    Big_int_Z.unit_big_int))))))))))),
    ((fun x -> Big_int_Z.succ_big_int (Big_int_Z.mult_int_big_int 2 x))
    ((fun x -> Big_int_Z.succ_big_int (Big_int_Z.mult_int_big_int 2 x))
    ((fun x -> Big_int_Z.succ_big_int (Big_int_Z.mult_int_big_int 2 x))
    ((fun x -> Big_int_Z.succ_big_int (Big_int_Z.mult_int_big_int 2 x))
    (Big_int_Z.mult_int_big_int 2
    ((fun x -> Big_int_Z.succ_big_int (Big_int_Z.mult_int_big_int 2 x))
    ((fun x -> Big_int_Z.succ_big_int (Big_int_Z.mult_int_big_int 2 x))
    ((fun x -> Big_int_Z.succ_big_int (Big_int_Z.mult_int_big_int 2 x))
    ((fun x -> Big_int_Z.succ_big_int (Big_int_Z.mult_int_big_int 2 x))
    (Big_int_Z.mult_int_big_int 2
    ((fun x -> Big_int_Z.succ_big_int (Big_int_Z.mult_int_big_int 2 x))
    Big_int_Z.unit_big_int)))))))))))),
    Big_int_Z.zero_big_int) :: ((((Big_int_Z.mult_int_big_int 2
    (Big_int_Z.mult_int_big_int 2 (Big_int_Z.mult_int_big_int 2
    (Big_int_Z.mult_int_big_int 2
    ((fun x -> Big_int_Z.succ_big_int (Big_int_Z.mult_int_big_int 2 x))
    (Big_int_Z.mult_int_big_int 2
    ((fun x -> Big_int_Z.succ_big_int (Big_int_Z.mult_int_big_int 2 x))
    (Big_int_Z.mult_int_big_int 2 (Big_int_Z.mult_int_big_int 2
    ((fun x -> Big_int_Z.succ_big_int (Big_int_Z.mult_int_big_int 2 x))
    ((fun x -> Big_int_Z.succ_big_int (Big_int_Z.mult_int_big_int 2 x))
    Big_int_Z.unit_big_int))))))))))),
    ((fun x -> Big_int_Z.succ_big_int (Big_int_Z.mult_int_big_int 2 x))
    (Big_int_Z.mult_int_big_int 2 (Big_int_Z.mult_int_big_int 2
    ((fun x -> Big_int_Z.succ_big_int (Big_int_Z.mult_int_big_int 2 x))
    ((fun x -> Big_int_Z.succ_big_int (Big_int_Z.mult_int_big_int 2 x))
    (Big_int_Z.mult_int_big_int 2
    ((fun x -> Big_int_Z.succ_big_int (Big_int_Z.mult_int_big_int 2 x))
    (Big_int_Z.mult_int_big_int 2 (Big_int_Z.mult_int_big_int 2
    ((fun x -> Big_int_Z.succ_big_int (Big_int_Z.mult_int_big_int 2 x))
    ((fun x -> Big_int_Z.succ_big_int (Big_int_Z.mult_int_big_int 2 x))
    Big_int_Z.unit_big_int)))))))))))),
    Big_int_Z.zero_big_int) :: ((((Big_int_Z.mult_int_big_int 2
    (Big_int_Z.mult_int_big_int 2 (Big_int_Z.mult_int_big_int 2
    (Big_int_Z.mult_int_big_int 2
    ((fun x -> Big_int_Z.succ_big_int (Big_int_Z.mult_int_big_int 2 x))
    (Big_int_Z.mult_int_big_int 2
    ((fun x -> Big_int_Z.succ_big_int (Big_int_Z.mult_int_big_int 2 x))
    ((fun x -> Big_int_Z.succ_big_int (Big_int_Z.mult_int_big_int 2 x))
    (Big_int_Z.mult_int_big_int 2
    ((fun x -> Big_int_Z.succ_big_int (Big_int_Z.mult_int_big_int 2 x))
    ((fun x -> Big_int_Z.succ_big_int (Big_int_Z.mult_int_big_int 2 x))
    Big_int_Z.unit_big_int))))))))))),
    ((fun x -> Big_int_Z.succ_big_int (Big_int_Z.mult_int_big_int 2 x))
    (Big_int_Z.mult_int_big_int 2 (Big_int_Z.mult_int_big_int 2
    ((fun x -> Big_int_Z.succ_big_int (Big_int_Z.mult_int_big_int 2 x))
    ((fun x -> Big_int_Z.succ_big_int (Big_int_Z.mult_int_big_int 2 x))
    (Big_int_Z.mult_int_big_int 2
    ((fun x -> Big_int_Z.succ_big_int (Big_int_Z.mult_int_big_int 2 x))
    ((fun x -> Big_int_Z.succ_big_int (Big_int_Z.mult_int_big_int 2 x))
    (Big_int_Z.mult_int_big_int 2
    ((fun x -> Big_int_Z.succ_big_int (Big_int_Z.mult_int_big_int 2 x))
    ((fun x -> Big_int_Z.succ_big_int (Big_int_Z.mult_int_big_int 2 x))
    Big_int_Z.unit_big_int)))))))))))),
    Big_int_Z.zero_big_int) :: ((((Big_int_Z.mult_int_big_int 2
    (Big_int_Z.mult_int_big_int 2 (Big_int_Z.mult_int_big_int 2
    (Big_int_Z.mult_int_big_int 2 (Big_int_Z.mult_int_big_int 2
    ((fun x -> Big_int_Z.succ_big_int (Big_int_Z.mult_int_big_int 2 x))
    (Big_int_Z.mult_int_big_int 2 (Big_int_Z.mult_int_big_int 2
    ((fun x -> Big_int_Z.succ_big_int (Big_int_Z.mult_int_big_int 2 x))
    ((fun x -> Big_int_Z.succ_big_int (Big_int_Z.mult_int_big_int 2 x))
    ((fun x -> Big_int_Z.succ_big_int (Big_int_Z.mult_int_big_int 2 x))
    Big_int_Z.unit_big_int))))))))))),
    ((fun x -> Big_int_Z.succ_big_int (Big_int_Z.mult_int_big_int 2 x))
    (Big_int_Z.mult_int_big_int 2 (Big_int_Z.mult_int_big_int 2
    ((fun x -> Big_int_Z.succ_big_int (Big_int_Z.mult_int_big_int 2 x))
    (Big_int_Z.mult_int_big_int 2
    ((fun x -> Big_int_Z.succ_big_int (Big_int_Z.mult_int_big_int 2 x))
    (Big_int_Z.mult_int_big_int 2 (Big_int_Z.mult_int_big_int 2
    ((fun x -> Big_int_Z.succ_big_int (Big_int_Z.mult_int_big_int 2 x))
    ((fun x -> Big_int_Z.succ_big_int (Big_int_Z.mult_int_big_int 2 x))
    ((fun x -> Big_int_Z.succ_big_int (Big_int_Z.mult_int_big_int 2 x))
    Big_int_Z.unit_big_int)))))))))))),
    Big_int_Z.zero_big_int) :: ((((Big_int_Z.mult_int_big_int 2
    (Big_int_Z.mult_int_big_int 2 (Big_int_Z.mult_int_big_int 2
    (Big_int_Z.mult_int_big_int 2 (Big_int_Z.mult_int_big_int 2
    (Big_int_Z.mult_int_big_int 2
    ((fun x -> Big_int_Z.succ_big_int (Big_int_Z.mult_int_big_int 2 x))
    (Big_int_Z.mult_int_big_int 2 (Big_int_Z.mult_int_big_int 2
    (Big_int_Z.mult_int_big_int 2 (Big_int_Z.mult_int_big_int 2
    (Big_int_Z.mult_int_big_int 2 Big_int_Z.unit_big_int)))))))))))),
    ((fun x -> Big_int_Z.succ_big_int (Big_int_Z.mult_int_big_int 2 x))
    (Big_int_Z.mult_int_big_int 2 (Big_int_Z.mult_int_big_int 2
    ((fun x -> Big_int_Z.succ_big_int (Big_int_Z.mult_int_big_int 2 x))
    (Big_int_Z.mult_int_big_int 2 (Big_int_Z.mult_int_big_int 2
    ((fun x -> Big_int_Z.succ_big_int (Big_int_Z.mult_int_big_int 2 x))
    (Big_int_Z.mult_int_big_int 2 (Big_int_Z.mult_int_big_int 2
    (Big_int_Z.mult_int_big_int 2 (Big_int_Z.mult_int_big_int 2
    (Big_int_Z.mult_int_big_int 2 Big_int_Z.unit_big_int))))))))))))),
    Big_int_Z.zero_big_int) :: ((((Big_int_Z.mult_int_big_int 2
    (Big_int_Z.mult_int_big_int 2 (Big_int_Z.mult_int_big_int 2
    (Big_int_Z.mult_int_big_int 2
    ((fun x -> Big_int_Z.succ_big_int (Big_int_Z.mult_int_big_int 2 x))
    (Big_int_Z.mult_int_big_int 2 (Big_int_Z.mult_int_big_int 2
    ((fun x -> Big_int_Z.succ_big_int (Big_int_Z.mult_int_big_int 2 x))
    (Big_int_Z.mult_int_big_int 2 (Big_int_Z.mult_int_big_int 2
    (Big_int_Z.mult_int_big_int 2 (Big_int_Z.mult_int_big_int 2
    Big_int_Z.unit_big_int)))))))))))),
    ((fun x -> Big_int_Z.succ_big_int (Big_int_Z.mult_int_big_int 2 x))
    (Big_int_Z.mult_int_big_int 2 (Big_int_Z.mult_int_big_int 2
    ((fun x -> Big_int_Z.succ_big_int (Big_int_Z.mult_int_big_int 2 x))
    ((fun x -> Big_int_Z.succ_big_int (Big_int_Z.mult_int_big_int 2 x))
    (Big_int_Z.mult_int_big_int 2 (Big_int_Z.mult_int_big_int 2
    ((fun x -> Big_int_Z.succ_big_int (Big_int_Z.mult_int_big_int 2 x))
    (Big_int_Z.mult_int_big_int 2 (Big_int_Z.mult_int_big_int 2
    (Big_int_Z.mult_int_big_int 2 (Big_int_Z.mult_int_big_int 2
    Big_int_Z.unit_big_int))))))))))))),
    Big_int_Z.zero_big_int) :: ((((Big_int_Z.mult_int_big_int 2
    (Big_int_Z.mult_int_big_int 2 (Big_int_Z.mult_int_big_int 2
    (Big_int_Z.mult_int_big_int 2 (Big_int_Z.mult_int_big_int 2
    ((fun x -> Big_int_Z.succ_big_int (Big_int_Z.mult_int_big_int 2 x))
    ((fun x -> Big_int_Z.succ_big_int (Big_int_Z.mult_int_big_int 2 x))
    ((fun x -> Big_int_Z.succ_big_int (Big_int_Z.mult_int_big_int 2 x))
    ((fun x -> Big_int_Z.succ_big_int (Big_int_Z.mult_int_big_int 2 x))
    ((fun x -> Big_int_Z.succ_big_int (Big_int_Z.mult_int_big_int 2 x))
    ((fun x -> Big_int_Z.succ_big_int (Big_int_Z.mult_int_big_int 2 x))
    (Big_int_Z.mult_int_big_int 2 Big_int_Z.unit_big_int)))))))))))),
    ((fun x -> Big_int_Z.succ_big_int (Big_int_Z.mult_int_big_int 2 x))
    (Big_int_Z.mult_int_big_int 2 (Big_int_Z.mult_int_big_int 2
    ((fun x -> Big_int_Z.succ_big_int (Big_int_Z.mult_int_big_int 2 x))
    (Big_int_Z.mult_int_big_int 2
    ((fun x -> Big_int_Z.succ_big_int (Big_int_Z.mult_int_big_int 2 x))
    ((fun x -> Big_int_Z.succ_big_int (Big_int_Z.mult_int_big_int 2 x))
    ((fun x -> Big_int_Z.succ_big_int (Big_int_Z.mult_int_big_int 2 x))
    ((fun x -> Big_int_Z.succ_big_int (Big_int_Z.mult_int_big_int 2 x))
    ((fun x -> Big_int_Z.succ_big_int (Big_int_Z.mult_int_big_int 2 x))
    ((fun x -> Big_int_Z.succ_big_int (Big_int_Z.mult_int_big_int 2 x))
    (Big_int_Z.mult_int_big_int 2 Big_int_Z.unit_big_int))))))))))))),
    Big_int_Z.zero_big_int) :: ((((Big_int_Z.mult_int_big_int 2
    (Big_int_Z.mult_int_big_int 2 (Big_int_Z.mult_int_big_int 2
    (Big_int_Z.mult_int_big_int 2
    ((fun x -> Big_int_Z.succ_big_int (Big_int_Z.mult_int_big_int 2 x))
    (Big_int_Z.mult_int_big_int 2 (Big_int_Z.mult_int_big_int 2
    (Big_int_Z.mult_int_big_int 2 (Big_int_Z.mult_int_big_int 2
    (Big_int_Z.mult_int_big_int 2 (Big_int_Z.mult_int_big_int 2
    ((fun x -> Big_int_Z.succ_big_int (Big_int_Z.mult_int_big_int 2 x))
    Big_int_Z.unit_big_int)))))))))))),
    ((fun x -> Big_int_Z.succ_big_int (Big_int_Z.mult_int_big_int 2 x))
    (Big_int_Z.mult_int_big_int 2 (Big_int_Z.mult_int_big_int 2
    ((fun x -> Big_int_Z.succ_big_int (Big_int_Z.mult_int_big_int 2 x))
    ((fun x -> Big_int_Z.succ_big_int (Big_int_Z.mult_int_big_int 2 x))
    (Big_int_Z.mult_int_big_int 2 (Big_int_Z.mult_int_big_int 2
    (Big_int_Z.mult_int_big_int 2 (Big_int_Z.mult_int_big_int 2
    (Big_int_Z.mult_int_big_int 2 (Big_int_Z.mult_int_big_int 2
    ((fun x -> Big_int_Z.succ_big_int (Big_int_Z.mult_int_big_int 2 x))
    Big_int_Z.unit_big_int))))))))))))),
    Big_int_Z.zero_big_int) :: ((((Big_int_Z.mult_int_big_int 2
    ((fun x -> Big_int_Z.succ_big_int (Big_int_Z.mult_int_big_int 2 x))
    ((fun x -> Big_int_Z.succ_big_int (Big_int_Z.mult_int_big_int 2 x))
    (Big_int_Z.mult_int_big_int 2 (Big_int_Z.mult_int_big_int 2
    (Big_int_Z.mult_int_big_int 2
    ((fun x -> Big_int_Z.succ_big_int (Big_int_Z.mult_int_big_int 2 x))
    (Big_int_Z.mult_int_big_int 2
    ((fun x -> Big_int_Z.succ_big_int (Big_int_Z.mult_int_big_int 2 x))
    (Big_int_Z.mult_int_big_int 2 (Big_int_Z.mult_int_big_int 2
    ((fun x -> Big_int_Z.succ_big_int (Big_int_Z.mult_int_big_int 2 x))
    Big_int_Z.unit_big_int)))))))))))),
    ((fun x -> Big_int_Z.succ_big_int (Big_int_Z.mult_int_big_int 2 x))
    ((fun x -> Big_int_Z.succ_big_int (Big_int_Z.mult_int_big_int 2 x))
    ((fun x -> Big_int_Z.succ_big_int (Big_int_Z.mult_int_big_int 2 x))
    ((fun x -> Big_int_Z.succ_big_int (Big_int_Z.mult_int_big_int 2 x))
    (Big_int_Z.mult_int_big_int 2 (Big_int_Z.mult_int_big_int 2
    ((fun x -> Big_int_Z.succ_big_int (Big_int_Z.mult_int_big_int 2 x))
    (Big_int_Z.mult_int_big_int 2
    ((fun x -> Big_int_Z.succ_big_int (Big_int_Z.mult_int_big_int 2 x))
    (Big_int_Z.mult_int_big_int 2 (Big_int_Z.mult_int_big_int 2
    ((fun x -> Big_int_Z.succ_big_int (Big_int_Z.mult_int_big_int 2 x))
    Big_int_Z.unit_big_int))))))))))))),
    Big_int_Z.zero_big_int) :: ((((Big_int_Z.mult_int_big_int 2
    (Big_int_Z.mult_int_big_int 2 (Big_int_Z.mult_int_big_int 2
    (Big_int_Z.mult_int_big_int 2
    ((fun x -> Big_int_Z.succ_big_int (Big_int_Z.mult_int_big_int 2 x))
    (Big_int_Z.mult_int_big_int 2
    ((fun x -> Big_int_Z.succ_big_int (Big_int_Z.mult_int_big_int 2 x))
    ((fun x -> Big_int_Z.succ_big_int (Big_int_Z.mult_int_big_int 2 x))
    ((fun x -> Big_int_Z.succ_big_int (Big_int_Z.mult_int_big_int 2 x))
    (Big_int_Z.mult_int_big_int 2 (Big_int_Z.mult_int_big_int 2
    ((fun x -> Big_int_Z.succ_big_int (Big_int_Z.mult_int_big_int 2 x))
    Big_int_Z.unit_big_int)))))))))))),
    ((fun x -> Big_int_Z.succ_big_int (Big_int_Z.mult_int_big_int 2 x))
    (Big_int_Z.mult_int_big_int 2 (Big_int_Z.mult_int_big_int 2
    ((fun x -> Big_int_Z.succ_big_int (Big_int_Z.mult_int_big_int 2 x))
    ((fun x -> Big_int_Z.succ_big_int (Big_int_Z.mult_int_big_int 2 x))
    (Big_int_Z.mult_int_big_int 2
    ((fun x -> Big_int_Z.succ_big_int (Big_int_Z.mult_int_big_int 2 x))
    ((fun x -> Big_int_Z.succ_big_int (Big_int_Z.mult_int_big_int 2 x))
    ((fun x -> Big_int_Z.succ_big_int (Big_int_Z.mult_int_big_int 2 x))
    (Big_int_Z.mult_int_big_int 2 (Big_int_Z.mult_int_big_int 2
    ((fun x -> Big_int_Z.succ_big_int (Big_int_Z.mult_int_big_int 2 x))
    Big_int_Z.unit_big_int))))))))))))),
    Big_int_Z.zero_big_int) :: ((((Big_int_Z.mult_int_big_int 2
    (Big_int_Z.mult_int_big_int 2 (Big_int_Z.mult_int_big_int 2
    (Big_int_Z.mult_int_big_int 2 (Big_int_Z.mult_int_big_int 2
    (Big_int_Z.mult_int_big_int 2 (Big_int_Z.mult_int_big_int 2
    ((fun x -> Big_int_Z.succ_big_int (Big_int_Z.mult_int_big_int 2 x))
    (Big_int_Z.mult_int_big_int 2
    ((fun x -> Big_int_Z.succ_big_int (Big_int_Z.mult_int_big_int 2 x))
    (Big_int_Z.mult_int_big_int 2
    ((fun x -> Big_int_Z.succ_big_int (Big_int_Z.mult_int_big_int 2 x))
    Big_int_Z.unit_big_int)))))))))))),
    ((fun x -> Big_int_Z.succ_big_int (Big_int_Z.mult_int_big_int 2 x))
    (Big_int_Z.mult_int_big_int 2 (Big_int_Z.mult_int_big_int 2
    ((fun x -> Big_int_Z.succ_big_int (Big_int_Z.mult_int_big_int 2 x))
    (Big_int_Z.mult_int_big_int 2 (Big_int_Z.mult_int_big_int 2
    (Big_int_Z.mult_int_big_int 2
    ((fun x -> Big_int_Z.succ_big_int (Big_int_Z.mult_int_big_int 2 x))
    (Big_int_Z.mult_int_big_int 2
    ((fun x -> Big_int_Z.succ_big_int (Big_int_Z.mult_int_big_int 2 x))
    (Big_int_Z.mult_int_big_int 2
    ((fun x -> Big_int_Z.succ_big_int (Big_int_Z.mult_int_big_int 2 x))
    Big_int_Z.unit_big_int))))))))))))),
    Big_int_Z.zero_big_int) :: ((((Big_int_Z.mult_int_big_int 2
    (Big_int_Z.mult_int_big_int 2 (Big_int_Z.mult_int_big_int 2
    (Big_int_Z.mult_int_big_int 2
    ((fun x -> Big_int_Z.succ_big_int (Big_int_Z.mult_int_big_int 2 x))
    (Big_int_Z.mult_int_big_int 2 (Big_int_Z.mult_int_big_int 2
    ((fun x -> Big_int_Z.succ_big_int (Big_int_Z.mult_int_big_int 2 x))
    (Big_int_Z.mult_int_big_int 2
    ((fun x -> Big_int_Z.succ_big_int (Big_int_Z.mult_int_big_int 2 x))
    (Big_int_Z.mult_int_big_int 2
    ((fun x -> Big_int_Z.succ_big_int (Big_int_Z.mult_int_big_int 2 x))
    Big_int_Z.unit_big_int)))))))))))),
    ((fun x -> Big_int_Z.succ_big_int (Big_int_Z.mult_int_big_int 2 x))
    (Big_int_Z.mult_int_big_int 2 (Big_int_Z.mult_int_big_int 2
    ((fun x -> Big_int_Z.succ_big_int (Big_int_Z.mult_int_big_int 2 x))
    ((fun x -> Big_int_Z.succ_big_int (Big_int_Z.mult_int_big_int 2 x))
    (Big_int_Z.mult_int_big_int 2 (Big_int_Z.mult_int_big_int 2
    ((fun x -> Big_int_Z.succ_big_int (Big_int_Z.mult_int_big_int 2 x))
    (Big_int_Z.mult_int_big_int 2
    ((fun x -> Big_int_Z.succ_big_int (Big_int_Z.mult_int_big_int 2 x))
    (Big_int_Z.mult_int_big_int 2
    ((fun x -> Big_int_Z.succ_big_int (Big_int_Z.mult_int_big_int 2 x))
    Big_int_Z.unit_big_int))))))))))))),
    Big_int_Z.zero_big_int) :: ((((Big_int_Z.mult_int_big_int 2
    (Big_int_Z.mult_int_big_int 2 (Big_int_Z.mult_int_big_int 2
    (Big_int_Z.mult_int_big_int 2
    ((fun x -> Big_int_Z.succ_big_int (Big_int_Z.mult_int_big_int 2 x))
    (Big_int_Z.mult_int_big_int 2
    ((fun x -> Big_int_Z.succ_big_int (Big_int_Z.mult_int_big_int 2 x))
    (Big_int_Z.mult_int_big_int 2
    ((fun x -> Big_int_Z.succ_big_int (Big_int_Z.mult_int_big_int 2 x))
    ((fun x -> Big_int_Z.succ_big_int (Big_int_Z.mult_int_big_int 2 x))
    (Big_int_Z.mult_int_big_int 2
    ((fun x -> Big_int_Z.succ_big_int (Big_int_Z.mult_int_big_int 2 x))
    Big_int_Z.unit_big_int)))))))))))),
    ((fun x -> Big_int_Z.succ_big_int (Big_int_Z.mult_int_big_int 2 x))
    (Big_int_Z.mult_int_big_int 2 (Big_int_Z.mult_int_big_int 2
    ((fun x -> Big_int_Z.succ_big_int (Big_int_Z.mult_int_big_int 2 x))
    ((fun x -> Big_int_Z.succ_big_int (Big_int_Z.mult_int_big_int 2 x))
    (Big_int_Z.mult_int_big_int 2
    ((fun x -> Big_int_Z.succ_big_int (Big_int_Z.mult_int_big_int 2 x))
    (Big_int_Z.mult_int_big_int 2
    ((fun x -> Big_int_Z.succ_big_int (Big_int_Z.mult_int_big_int 2 x))
    ((fun x -> Big_int_Z.succ_big_int (Big_int_Z.mult_int_big_int 2 x))
    (Big_int_Z.mult_int_big_int 2
    ((fun x -> Big_int_Z.succ_big_int (Big_int_Z.mult_int_big_int 2 x))
    Big_int_Z.unit_big_int))))))))))))),
    Big_int_Z.zero_big_int) :: ((((Big_int_Z.mult_int_big_int 2
    (Big_int_Z.mult_int_big_int 2 (Big_int_Z.mult_int_big_int 2
    (Big_int_Z.mult_int_big_int 2
    ((fun x -> Big_int_Z.succ_big_int (Big_int_Z.mult_int_big_int 2 x))
    ((fun x -> Big_int_Z.succ_big_int (Big_int_Z.mult_int_big_int 2 x))
    (Big_int_Z.mult_int_big_int 2
    ((fun x -> Big_int_Z.succ_big_int (Big_int_Z.mult_int_big_int 2 x))
    ((fun x -> Big_int_Z.succ_big_int (Big_int_Z.mult_int_big_int 2 x))
    ((fun x -> Big_int_Z.succ_big_int (Big_int_Z.mult_int_big_int 2 x))
    (Big_int_Z.mult_int_big_int 2
    ((fun x -> Big_int_Z.succ_big_int (Big_int_Z.mult_int_big_int 2 x))
    Big_int_Z.unit_big_int)))))))))))),
    ((fun x -> Big_int_Z.succ_big_int (Big_int_Z.mult_int_big_int 2 x))
    (Big_int_Z.mult_int_big_int 2 (Big_int_Z.mult_int_big_int 2
    ((fun x -> Big_int_Z.succ_big_int (Big_int_Z.mult_int_big_int 2 x))
    ((fun x -> Big_int_Z.succ_big_int (Big_int_Z.mult_int_big_int 2 x))
    ((fun x -> Big_int_Z.succ_big_int (Big_int_Z.mult_int_big_int 2 x))
    (Big_int_Z.mult_int_big_int 2
    ((fun x -> Big_int_Z.succ_big_int (Big_int_Z.mult_int_big_int 2 x))
    ((fun x -> Big_int_Z.succ_big_int (Big_int_Z.mult_int_big_int 2 x))
    ((fun x -> Big_int_Z.succ_big_int (Big_int_Z.mult_int_big_int 2 x))
    (Big_int_Z.mult_int_big_int 2
    ((fun x -> Big_int_Z.succ_big_int (Big_int_Z.mult_int_big_int 2 x))
    Big_int_Z.unit_big_int))))))))))))),
    Big_int_Z.zero_big_int) :: ((((Big_int_Z.mult_int_big_int 2
    (Big_int_Z.mult_int_big_int 2 (Big_int_Z.mult_int_big_int 2
    (Big_int_Z.mult_int_big_int 2 (Big_int_Z.mult_int_big_int 2
    (Big_int_Z.mult_int_big_int 2
    ((fun x -> Big_int_Z.succ_big_int (Big_int_Z.mult_int_big_int 2 x))
    (Big_int_Z.mult_int_big_int 2 (Big_int_Z.mult_int_big_int 2
    (Big_int_Z.mult_int_big_int 2
    ((fun x -> Big_int_Z.succ_big_int (Big_int_Z.mult_int_big_int 2 x))
    ((fun x -> Big_int_Z.succ_big_int (Big_int_Z.mult_int_big_int 2 x))
    Big_int_Z.unit_big_int)))))))))))),
    ((fun x -> Big_int_Z.succ_big_int (Big_int_Z.mult_int_big_int 2 x))
    (Big_int_Z.mult_int_big_int 2 (Big_int_Z.mult_int_big_int 2
    ((fun x -> Big_int_Z.succ_big_int (Big_int_Z.mult_int_big_int 2 x))
    (Big_int_Z.mult_int_big_int 2 (Big_int_Z.mult_int_big_int 2
    ((fun x -> Big_int_Z.succ_big_int (Big_int_Z.mult_int_big_int 2 x))
    (Big_int_Z.mult_int_big_int 2 (Big_int_Z.mult_int_big_int 2
    (Big_int_Z.mult_int_big_int 2
    ((fun x -> Big_int_Z.succ_big_int (Big_int_Z.mult_int_big_int 2 x))
    ((fun x -> Big_int_Z.succ_big_int (Big_int_Z.mult_int_big_int 2 x))
    Big_int_Z.unit_big_int))))))))))))),
    Big_int_Z.zero_big_int) :: ((((Big_int_Z.mult_int_big_int 2
    (Big_int_Z.mult_int_big_int 2 (Big_int_Z.mult_int_big_int 2
    (Big_int_Z.mult_int_big_int 2
    ((fun x -> Big_int_Z.succ_big_int (Big_int_Z.mult_int_big_int 2 x))
    (Big_int_Z.mult_int_big_int 2
    ((fun x -> Big_int_Z.succ_big_int (Big_int_Z.mult_int_big_int 2 x))
    (Big_int_Z.mult_int_big_int 2 (Big_int_Z.mult_int_big_int 2
    (Big_int_Z.mult_int_big_int 2
    ((fun x -> Big_int_Z.succ_big_int (Big_int_Z.mult_int_big_int 2 x))
    ((fun x -> Big_int_Z.succ_big_int (Big_int_Z.mult_int_big_int 2 x))
    Big_int_Z.unit_big_int)))))))))))),
    ((fun x -> Big_int_Z.succ_big_int (Big_int_Z.mult_int_big_int 2 x))
    (Big_int_Z.mult_int_big_int 2 (Big_int_Z.mult_int_big_int 2
    ((fun x -> Big_int_Z.succ_big_int (Big_int_Z.mult_int_big_int 2 x))
    ((fun x -> Big_int_Z.succ_big_int (Big_int_Z.mult_int_big_int 2 x))
    (Big_int_Z.mult_int_big_int 2
    ((fun x -> Big_int_Z.succ_big_int (Big_int_Z.mult_int_big_int 2 x))
    (Big_int_Z.mult_int_big_int 2 (Big_int_Z.mult_int_big_int 2
    (Big_int_Z.mult_int_big_int 2
    ((fun x -> Big_int_Z.succ_big_int (Big_int_Z.mult_int_big_int 2 x))
    ((fun x -> Big_int_Z.succ_big_int (Big_int_Z.mult_int_big_int 2 x))
    Big_int_Z.unit_big_int))))))))))))),
    Big_int_Z.zero_big_int) :: ((((Big_int_Z.mult_int_big_int 2
    (Big_int_Z.mult_int_big_int 2 (Big_int_Z.mult_int_big_int 2
    (Big_int_Z.mult_int_big_int 2 (Big_int_Z.mult_int_big_int 2
    ((fun x -> Big_int_Z.succ_big_int (Big_int_Z.mult_int_big_int 2 x))
    (Big_int_Z.mult_int_big_int 2 (Big_int_Z.mult_int_big_int 2
    (Big_int_Z.mult_int_big_int 2
    ((fun x -> Big_int_Z.succ_big_int (Big_int_Z.mult_int_big_int 2 x))
    ((fun x -> Big_int_Z.succ_big_int (Big_int_Z.mult_int_big_int 2 x))
    (Big_int_Z.mult_int_big_int 2 (Big_int_Z.mult_int_big_int 2
    ((fun x -> Big_int_Z.succ_big_int (Big_int_Z.mult_int_big_int 2 x))
    (Big_int_Z.mult_int_big_int 2 Big_int_Z.unit_big_int))))))))))))))),
    ((fun x -> Big_int_Z.succ_big_int (Big_int_Z.mult_int_big_int 2 x))
    (Big_int_Z.mult_int_big_int 2 (Big_int_Z.mult_int_big_int 2
    ((fun x -> Big_int_Z.succ_big_int (Big_int_Z.mult_int_big_int 2 x))
    (Big_int_Z.mult_int_big_int 2
    ((fun x -> Big_int_Z.succ_big_int (Big_int_Z.mult_int_big_int 2 x))
    (Big_int_Z.mult_int_big_int 2 (Big_int_Z.mult_int_big_int 2
    (Big_int_Z.mult_int_big_int 2
    ((fun x -> Big_int_Z.succ_big_int (Big_int_Z.mult_int_big_int 2 x))
    ((fun x -> Big_int_Z.succ_big_int (Big_int_Z.mult_int_big_int 2 x))
    (Big_int_Z.mult_int_big_int 2 (Big_int_Z.mult_int_big_int 2
    ((fun x -> Big_int_Z.succ_big_int (Big_int_Z.mult_int_big_int 2 x))
    (Big_int_Z.mult_int_big_int 2 Big_int_Z.unit_big_int)))))))))))))))),
    Big_int_Z.zero_big_int) :: ((((Big_int_Z.mult_int_big_int 2
    (Big_int_Z.mult_int_big_int 2 (Big_int_Z.mult_int_big_int 2
    (Big_int_Z.mult_int_big_int 2
    ((fun x -> Big_int_Z.succ_big_int (Big_int_Z.mult_int_big_int 2 x))
    (Big_int_Z.mult_int_big_int 2
    ((fun x -> Big_int_Z.succ_big_int (Big_int_Z.mult_int_big_int 2 x))
    ((fun x -> Big_int_Z.succ_big_int (Big_int_Z.mult_int_big_int 2 x))
    (Big_int_Z.mult_int_big_int 2 (Big_int_Z.mult_int_big_int 2
    (Big_int_Z.mult_int_big_int 2
    ((fun x -> Big_int_Z.succ_big_int (Big_int_Z.mult_int_big_int 2 x))
    (Big_int_Z.mult_int_big_int 2
    ((fun x -> Big_int_Z.succ_big_int (Big_int_Z.mult_int_big_int 2 x))
    (Big_int_Z.mult_int_big_int 2 Big_int_Z.unit_big_int))))))))))))))),
    ((fun x -> Big_int_Z.succ_big_int (Big_int_Z.mult_int_big_int 2 x))
    (Big_int_Z.mult_int_big_int 2 (Big_int_Z.mult_int_big_int 2
    ((fun x -> Big_int_Z.succ_big_int (Big_int_Z.mult_int_big_int 2 x))
    ((fun x -> Big_int_Z.succ_big_int (Big_int_Z.mult_int_big_int 2 x))
    (Big_int_Z.mult_int_big_int 2
    ((fun x -> Big_int_Z.succ_big_int (Big_int_Z.mult_int_big_int 2 x))
    ((fun x -> Big_int_Z.succ_big_int (Big_int_Z.mult_int_big_int 2 x))
    (Big_int_Z.mult_int_big_int 2 (Big_int_Z.mult_int_big_int 2
    (Big_int_Z.mult_int_big_int 2
    ((fun x -> Big_int_Z.succ_big_int (Big_int_Z.mult_int_big_int 2 x))
    (Big_int_Z.mult_int_big_int 2
    ((fun x -> Big_int_Z.succ_big_int (Big_int_Z.mult_int_big_int 2 x))
    (Big_int_Z.mult_int_big_int 2 Big_int_Z.unit_big_int)))))))))))))))),
    Big_int_Z.zero_big_int) :: ((((Big_int_Z.mult_int_big_int 2
    (Big_int_Z.mult_int_big_int 2 (Big_int_Z.mult_int_big_int 2
    (Big_int_Z.mult_int_big_int 2 (Big_int_Z.mult_int_big_int 2
    (Big_int_Z.mult_int_big_int 2 (Big_int_Z.mult_int_big_int 2
    (Big_int_Z.mult_int_big_int 2
    ((fun x -> Big_int_Z.succ_big_int (Big_int_Z.mult_int_big_int 2 x))
    (Big_int_Z.mult_int_big_int 2 (Big_int_Z.mult_int_big_int 2
    ((fun x -> Big_int_Z.succ_big_int (Big_int_Z.mult_int_big_int 2 x))
    (Big_int_Z.mult_int_big_int 2
    ((fun x -> Big_int_Z.succ_big_int (Big_int_Z.mult_int_big_int 2 x))
    (Big_int_Z.mult_int_big_int 2 Big_int_Z.unit_big_int))))))))))))))),
    ((fun x -> Big_int_Z.succ_big_int (Big_int_Z.mult_int_big_int 2 x))
    (Big_int_Z.mult_int_big_int 2 (Big_int_Z.mult_int_big_int 2
    ((fun x -> Big_int_Z.succ_big_int (Big_int_Z.mult_int_big_int 2 x))
    (Big_int_Z.mult_int_big_int 2 (Big_int_Z.mult_int_big_int 2
    (Big_int_Z.mult_int_big_int 2 (Big_int_Z.mult_int_big_int 2
    ((fun x -> Big_int_Z.succ_big_int (Big_int_Z.mult_int_big_int 2 x))
    (Big_int_Z.mult_int_big_int 2 (Big_int_Z.mult_int_big_int 2
    ((fun x -> Big_int_Z.succ_big_int (Big_int_Z.mult_int_big_int 2 x))
    (Big_int_Z.mult_int_big_int 2
    ((fun x -> Big_int_Z.succ_big_int (Big_int_Z.mult_int_big_int 2 x))
    (Big_int_Z.mult_int_big_int 2 Big_int_Z.unit_big_int)))))))))))))))),
    Big_int_Z.zero_big_int) :: ((((Big_int_Z.mult_int_big_int 2
    (Big_int_Z.mult_int_big_int 2 (Big_int_Z.mult_int_big_int 2
    (Big_int_Z.mult_int_big_int 2
    ((fun x -> Big_int_Z.succ_big_int (Big_int_Z.mult_int_big_int 2 x))
    (Big_int_Z.mult_int_big_int 2
    ((fun x -> Big_int_Z.succ_big_int (Big_int_Z.mult_int_big_int 2 x))
    ((fun x -> Big_int_Z.succ_big_int (Big_int_Z.mult_int_big_int 2 x))
    ((fun x -> Big_int_Z.succ_big_int (Big_int_Z.mult_int_big_int 2 x))
    (Big_int_Z.mult_int_big_int 2 (Big_int_Z.mult_int_big_int 2
    ((fun x -> Big_int_Z.succ_big_int (Big_int_Z.mult_int_big_int 2 x))
    (Big_int_Z.mult_int_big_int 2
    ((fun x -> Big_int_Z.succ_big_int (Big_int_Z.mult_int_big_int 2 x))
    (Big_int_Z.mult_int_big_int 2 Big_int_Z.unit_big_int))))))))))))))),
    ((fun x -> Big_int_Z.succ_big_int (Big_int_Z.mult_int_big_int 2 x))
    (Big_int_Z.mult_int_big_int 2 (Big_int_Z.mult_int_big_int 2
    ((fun x -> Big_int_Z.succ_big_int (Big_int_Z.mult_int_big_int 2 x))
    ((fun x -> Big_int_Z.succ_big_int (Big_int_Z.mult_int_big_int 2 x))
    (Big_int_Z.mult_int_big_int 2
    ((fun x -> Big_int_Z.succ_big_int (Big_int_Z.mult_int_big_int 2 x))
    ((fun x -> Big_int_Z.succ_big_int (Big_int_Z.mult_int_big_int 2 x))
    ((fun x -> Big_int_Z.succ_big_int (Big_int_Z.mult_int_big_int 2 x))
    (Big_int_Z.mult_int_big_int 2 (Big_int_Z.mult_int_big_int 2
    ((fun x -> Big_int_Z.succ_big_int (Big_int_Z.mult_int_big_int 2 x))
    (Big_int_Z.mult_int_big_int 2
    ((fun x -> Big_int_Z.succ_big_int (Big_int_Z.mult_int_big_int 2 x))
    (Big_int_Z.mult_int_big_int 2 Big_int_Z.unit_big_int)))))))))))))))),
    Big_int_Z.zero_big_int) :: ((((Big_int_Z.mult_int_big_int 2
    (Big_int_Z.mult_int_big_int 2 (Big_int_Z.mult_int_big_int 2
    (Big_int_Z.mult_int_big_int 2
    ((fun x -> Big_int_Z.succ_big_int (Big_int_Z.mult_int_big_int 2 x))
    ((fun x -> Big_int_Z.succ_big_int (Big_int_Z.mult_int_big_int 2 x))
    ((fun x -> Big_int_Z.succ_big_int (Big_int_Z.mult_int_big_int 2 x))
    ((fun x -> Big_int_Z.succ_big_int (Big_int_Z.mult_int_big_int 2 x))
    ((fun x -> Big_int_Z.succ_big_int (Big_int_Z.mult_int_big_int 2 x))
    (Big_int_Z.mult_int_big_int 2 (Big_int_Z.mult_int_big_int 2
    ((fun x -> Big_int_Z.succ_big_int (Big_int_Z.mult_int_big_int 2 x))
    (Big_int_Z.mult_int_big_int 2
    ((fun x -> Big_int_Z.succ_big_int (Big_int_Z.mult_int_big_int 2 x))
    (Big_int_Z.mult_int_big_int 2 Big_int_Z.unit_big_int))))))))))))))),
    ((fun x -> Big_int_Z.succ_big_int (Big_int_Z.mult_int_big_int 2 x))
    (Big_int_Z.mult_int_big_int 2 (Big_int_Z.mult_int_big_int 2
    ((fun x -> Big_int_Z.succ_big_int (Big_int_Z.mult_int_big_int 2 x))
    ((fun x -> Big_int_Z.succ_big_int (Big_int_Z.mult_int_big_int 2 x))
    ((fun x -> Big_int_Z.succ_big_int (Big_int_Z.mult_int_big_int 2 x))
    ((fun x -> Big_int_Z.succ_big_int (Big_int_Z.mult_int_big_int 2 x))
    ((fun x -> Big_int_Z.succ_big_int (Big_int_Z.mult_int_big_int 2 x))
    ((fun x -> Big_int_Z.succ_big_int (Big_int_Z.mult_int_big_int 2 x))
    (Big_int_Z.mult_int_big_int 2 (Big_int_Z.mult_int_big_int 2
    ((fun x -> Big_int_Z.succ_big_int (Big_int_Z.mult_int_big_int 2 x))
    (Big_int_Z.mult_int_big_int 2
    ((fun x -> Big_int_Z.succ_big_int (Big_int_Z.mult_int_big_int 2 x))
    (Big_int_Z.mult_int_big_int 2 Big_int_Z.unit_big_int)))))))))))))))),
    Big_int_Z.zero_big_int) :: ((((Big_int_Z.mult_int_big_int 2
    (Big_int_Z.mult_int_big_int 2 (Big_int_Z.mult_int_big_int 2
    (Big_int_Z.mult_int_big_int 2
    ((fun x -> Big_int_Z.succ_big_int (Big_int_Z.mult_int_big_int 2 x))
    (Big_int_Z.mult_int_big_int 2
    ((fun x -> Big_int_Z.succ_big_int (Big_int_Z.mult_int_big_int 2 x))
    (Big_int_Z.mult_int_big_int 2 (Big_int_Z.mult_int_big_int 2
    ((fun x -> Big_int_Z.succ_big_int (Big_int_Z.mult_int_big_int 2 x))
    (Big_int_Z.mult_int_big_int 2
    ((fun x -> Big_int_Z.succ_big_int (Big_int_Z.mult_int_big_int 2 x))
    (Big_int_Z.mult_int_big_int 2
    ((fun x -> Big_int_Z.succ_big_int (Big_int_Z.mult_int_big_int 2 x))
    (Big_int_Z.mult_int_big_int 2 Big_int_Z.unit_big_int))))))))))))))),
    ((fun x -> Big_int_Z.succ_big_int (Big_int_Z.mult_int_big_int 2 x))
    (Big_int_Z.mult_int_big_int 2 (Big_int_Z.mult_int_big_int 2
    ((fun x -> Big_int_Z.succ_big_int (Big_int_Z.mult_int_big_int 2 x))
    ((fun x -> Big_int_Z.succ_big_int (Big_int_Z.mult_int_big_int 2 x))
    (Big_int_Z.mult_int_big_int 2
    ((fun x -> Big_int_Z.succ_big_int (Big_int_Z.mult_int_big_int 2 x))
    (Big_int_Z.mult_int_big_int 2 (Big_int_Z.mult_int_big_int 2
    ((fun x -> Big_int_Z.succ_big_int (Big_int_Z.mult_int_big_int 2 x))
    (Big_int_Z.mult_int_big_int 2
    ((fun x -> Big_int_Z.succ_big_int (Big_int_Z.mult_int_big_int 2 x))
    (Big_int_Z.mult_int_big_int 2
    ((fun x -> Big_int_Z.succ_big_int (Big_int_Z.mult_int_big_int 2 x))
    (Big_int_Z.mult_int_big_int 2 Big_int_Z.unit_big_int)))))))))))))))),
    Big_int_Z.zero_big_int) :: ((((Big_int_Z.mult_int_big_int 2
    (Big_int_Z.mult_int_big_int 2 (Big_int_Z.mult_int_big_int 2
    (Big_int_Z.mult_int_big_int 2
    ((fun x -> Big_int_Z.succ_big_int (Big_int_Z.mult_int_big_int 2 x))
    ((fun x -> Big_int_Z.succ_big_int (Big_int_Z.mult_int_big_int 2 x))
    ((fun x -> Big_int_Z.succ_big_int (Big_int_Z.mult_int_big_int 2 x))
    ((fun x -> Big_int_Z.succ_big_int (Big_int_Z.mult_int_big_int 2 x))
    ((fun x -> Big_int_Z.succ_big_int (Big_int_Z.mult_int_big_int 2 x))
    ((fun x -> Big_int_Z.succ_big_int (Big_int_Z.mult_int_big_int 2 x))
    (Big_int_Z.mult_int_big_int 2
    ((fun x -> Big_int_Z.succ_big_int (Big_int_Z.mult_int_big_int 2 x))
    (Big_int_Z.mult_int_big_int 2
    ((fun x -> Big_int_Z.succ_big_int (Big_int_Z.mult_int_big_int 2 x))
    (Big_int_Z.mult_int_big_int 2 Big_int_Z.unit_big_int))))))))))))))),
    ((fun x -> Big_int_Z.succ_big_int (Big_int_Z.mult_int_big_int 2 x))
    (Big_int_Z.mult_int_big_int 2 (Big_int_Z.mult_int_big_int 2
    ((fun x -> Big_int_Z.succ_big_int (Big_int_Z.mult_int_big_int 2 x))
    ((fun x -> Big_int_Z.succ_big_int (Big_int_Z.mult_int_big_int 2 x))
    ((fun x -> Big_int_Z.succ_big_int (Big_int_Z.mult_int_big_int 2 x))
    ((fun x -> Big_int_Z.succ_big_int (Big_int_Z.mult_int_big_int 2 x))
    ((fun x -> Big_int_Z.succ_big_int (Big_int_Z.mult_int_big_int 2 x))
    ((fun x -> Big_int_Z.succ_big_int (Big_int_Z.mult_int_big_int 2 x))
    ((fun x -> Big_int_Z.succ_big_int (Big_int_Z.mult_int_big_int 2 x))
    (Big_int_Z.mult_int_big_int 2
    ((fun x -> Big_int_Z.succ_big_int (Big_int_Z.mult_int_big_int 2 x))
    (Big_int_Z.mult_int_big_int 2
    ((fun x -> Big_int_Z.succ_big_int (Big_int_Z.mult_int_big_int 2 x))
    (Big_int_Z.mult_int_big_int 2 Big_int_Z.unit_big_int)))))))))))))))),
    Big_int_Z.zero_big_int) :: ((((Big_int_Z.mult_int_big_int 2
    (Big_int_Z.mult_int_big_int 2 (Big_int_Z.mult_int_big_int 2
    (Big_int_Z.mult_int_big_int 2
    ((fun x -> Big_int_Z.succ_big_int (Big_int_Z.mult_int_big_int 2 x))
    (Big_int_Z.mult_int_big_int 2 (Big_int_Z.mult_int_big_int 2
    (Big_int_Z.mult_int_big_int 2
    ((fun x -> Big_int_Z.succ_big_int (Big_int_Z.mult_int_big_int 2 x))
    ((fun x -> Big_int_Z.succ_big_int (Big_int_Z.mult_int_big_int 2 x))
    ((fun x -> Big_int_Z.succ_big_int (Big_int_Z.mult_int_big_int 2 x))
    ((fun x -> Big_int_Z.succ_big_int (Big_int_Z.mult_int_big_int 2 x))
    ((fun x -> Big_int_Z.succ_big_int (Big_int_Z.mult_int_big_int 2 x))
    ((fun x -> Big_int_Z.succ_big_int (Big_int_Z.mult_int_big_int 2 x))
    ((fun x -> Big_int_Z.succ_big_int (Big_int_Z.mult_int_big_int 2 x))
    Big_int_Z.unit_big_int))))))))))))))),
    ((fun x -> Big_int_Z.succ_big_int (Big_int_Z.mult_int_big_int 2 x))
    (Big_int_Z.mult_int_big_int 2 (Big_int_Z.mult_int_big_int 2
    ((fun x -> Big_int_Z.succ_big_int (Big_int_Z.mult_int_big_int 2 x))
    ((fun x -> Big_int_Z.succ_big_int (Big_int_Z.mult_int_big_int 2 x))
    (Big_int_Z.mult_int_big_int 2 (Big_int_Z.mult_int_big_int 2
    (Big_int_Z.mult_int_big_int 2
    ((fun x -> Big_int_Z.succ_big_int (Big_int_Z.mult_int_big_int 2 x))
    ((fun x -> Big_int_Z.succ_big_int (Big_int_Z.mult_int_big_int 2 x))
    ((fun x -> Big_int_Z.succ_big_int (Big_int_Z.mult_int_big_int 2 x))
    ((fun x -> Big_int_Z.succ_big_int (Big_int_Z.mult_int_big_int 2 x))
    ((fun x -> Big_int_Z.succ_big_int (Big_int_Z.mult_int_big_int 2 x))
    ((fun x -> Big_int_Z.succ_big_int (Big_int_Z.mult_int_big_int 2 x))
    ((fun x -> Big_int_Z.succ_big_int (Big_int_Z.mult_int_big_int 2 x))
    Big_int_Z.unit_big_int)))))))))))))))),
    Big_int_Z.zero_big_int) :: ((((Big_int_Z.mult_int_big_int 2
    (Big_int_Z.mult_int_big_int 2 (Big_int_Z.mult_int_big_int 2
    (Big_int_Z.mult_int_big_int 2 (Big_int_Z.mult_int_big_int 2
    ((fun x -> Big_int_Z.succ_big_int (Big_int_Z.mult_int_big_int 2 x))
    (Big_int_Z.mult_int_big_int 2
    ((fun x -> Big_int_Z.succ_big_int (Big_int_Z.mult_int_big_int 2 x))
    (Big_int_Z.mult_int_big_int 2 (Big_int_Z.mult_int_big_int 2
    ((fun x -> Big_int_Z.succ_big_int (Big_int_Z.mult_int_big_int 2 x))
    (Big_int_Z.mult_int_big_int 2 (Big_int_Z.mult_int_big_int 2
    (Big_int_Z.mult_int_big_int 2 (Big_int_Z.mult_int_big_int 2
    (Big_int_Z.mult_int_big_int 2 Big_int_Z.unit_big_int)))))))))))))))),
    ((fun x -> Big_int_Z.succ_big_int (Big_int_Z.mult_int_big_int 2 x))
    (Big_int_Z.mult_int_big_int 2 (Big_int_Z.mult_int_big_int 2
    ((fun x -> Big_int_Z.succ_big_int (Big_int_Z.mult_int_big_int 2 x))
    (Big_int_Z.mult_int_big_int 2
    ((fun x -> Big_int_Z.succ_big_int (Big_int_Z.mult_int_big_int 2 x))
    (Big_int_Z.mult_int_big_int 2
    ((fun x -> Big_int_Z.succ_big_int (Big_int_Z.mult_int_big_int 2 x))
    (Big_int_Z.mult_int_big_int 2 (Big_int_Z.mult_int_big_int 2
    ((fun x -> Big_int_Z.succ_big_int (Big_int_Z.mult_int_big_int 2 x))
    (Big_int_Z.mult_int_big_int 2 (Big_int_Z.mult_int_big_int 2
    (Big_int_Z.mult_int_big_int 2 (Big_int_Z.mult_int_big_int 2
    (Big_int_Z.mult_int_big_int 2 Big_int_Z.unit_big_int))))))))))))))))),
    Big_int_Z.zero_big_int) :: ((((Big_int_Z.mult_int_big_int 2
    (Big_int_Z.mult_int_big_int 2 (Big_int_Z.mult_int_big_int 2
    (Big_int_Z.mult_int_big_int 2
    ((fun x -> Big_int_Z.succ_big_int (Big_int_Z.mult_int_big_int 2 x))
    ((fun x -> Big_int_Z.succ_big_int (Big_int_Z.mult_int_big_int 2 x))
    (Big_int_Z.mult_int_big_int 2 (Big_int_Z.mult_int_big_int 2
    ((fun x -> Big_int_Z.succ_big_int (Big_int_Z.mult_int_big_int 2 x))
    (Big_int_Z.mult_int_big_int 2
    ((fun x -> Big_int_Z.succ_big_int (Big_int_Z.mult_int_big_int 2 x))
    ((fun x -> Big_int_Z.succ_big_int (Big_int_Z.mult_int_big_int 2 x))
    (Big_int_Z.mult_int_big_int 2 (Big_int_Z.mult_int_big_int 2
    (Big_int_Z.mult_int_big_int 2 (Big_int_Z.mult_int_big_int 2
    Big_int_Z.unit_big_int)))))))))))))))),
    ((fun x -> Big_int_Z.succ_big_int (Big_int_Z.mult_int_big_int 2 x))
    (Big_int_Z.mult_int_big_int 2 (Big_int_Z.mult_int_big_int 2
    ((fun x -> Big_int_Z.succ_big_int (Big_int_Z.mult_int_big_int 2 x))
    ((fun x -> Big_int_Z.succ_big_int (Big_int_Z.mult_int_big_int 2 x))
    ((fun x -> Big_int_Z.succ_big_int (Big_int_Z.mult_int_big_int 2 x))
    (Big_int_Z.mult_int_big_int 2 (Big_int_Z.mult_int_big_int 2
    ((fun x -> Big_int_Z.succ_big_int (Big_int_Z.mult_int_big_int 2 x))
    (Big_int_Z.mult_int_big_int 2
    ((fun x -> Big_int_Z.succ_big_int (Big_int_Z.mult_int_big_int 2 x))
    ((fun x -> Big_int_Z.succ_big_int (Big_int_Z.mult_int_big_int 2 x))
    (Big_int_Z.mult_int_big_int 2 (Big_int_Z.mult_int_big_int 2
    (Big_int_Z.mult_int_big_int 2 (Big_int_Z.mult_int_big_int 2
    Big_int_Z.unit_big_int))))))))))))))))),
    Big_int_Z.zero_big_int) :: ((((Big_int_Z.mult_int_big_int 2
    ((fun x -> Big_int_Z.succ_big_int (Big_int_Z.mult_int_big_int 2 x))
    ((fun x -> Big_int_Z.succ_big_int (Big_int_Z.mult_int_big_int 2 x))
    (Big_int_Z.mult_int_big_int 2 (Big_int_Z.mult_int_big_int 2
    ((fun x -> Big_int_Z.succ_big_int (Big_int_Z.mult_int_big_int 2 x))
    ((fun x -> Big_int_Z.succ_big_int (Big_int_Z.mult_int_big_int 2 x))
    (Big_int_Z.mult_int_big_int 2 (Big_int_Z.mult_int_big_int 2
    (Big_int_Z.mult_int_big_int 2 (Big_int_Z.mult_int_big_int 2
    (Big_int_Z.mult_int_big_int 2
    ((fun x -> Big_int_Z.succ_big_int (Big_int_Z.mult_int_big_int 2 x))
    (Big_int_Z.mult_int_big_int 2 (Big_int_Z.mult_int_big_int 2
    (Big_int_Z.mult_int_big_int 2 Big_int_Z.unit_big_int)))))))))))))))),
    ((fun x -> Big_int_Z.succ_big_int (Big_int_Z.mult_int_big_int 2 x))
    ((fun x -> Big_int_Z.succ_big_int (Big_int_Z.mult_int_big_int 2 x))
    ((fun x -> Big_int_Z.succ_big_int (Big_int_Z.mult_int_big_int 2 x))
    ((fun x -> Big_int_Z.succ_big_int (Big_int_Z.mult_int_big_int 2 x))
    (Big_int_Z.mult_int_big_int 2
    ((fun x -> Big_int_Z.succ_big_int (Big_int_Z.mult_int_big_int 2 x))
    ((fun x -> Big_int_Z.succ_big_int (Big_int_Z.mult_int_big_int 2 x))
    (Big_int_Z.mult_int_big_int 2 (Big_int_Z.mult_int_big_int 2
    (Big_int_Z.mult_int_big_int 2 (Big_int_Z.mult_int_big_int 2
    (Big_int_Z.mult_int_big_int 2
    ((fun x -> Big_int_Z.succ_big_int (Big_int_Z.mult_int_big_int 2 x))
    (Big_int_Z.mult_int_big_int 2 (Big_int_Z.mult_int_big_int 2
    (Big_int_Z.mult_int_big_int 2 Big_int_Z.unit_big_int))))))))))))))))),
    Big_int_Z.zero_big_int) :: ((((Big_int_Z.mult_int_big_int 2
    (Big_int_Z.mult_int_big_int 2 (Big_int_Z.mult_int_big_int 2
    (Big_int_Z.mult_int_big_int 2
    ((fun x -> Big_int_Z.succ_big_int (Big_int_Z.mult_int_big_int 2 x))
    ((fun x -> Big_int_Z.succ_big_int (Big_int_Z.mult_int_big_int 2 x))
    ((fun x -> Big_int_Z.succ_big_int (Big_int_Z.mult_int_big_int 2 x))
    ((fun x -> Big_int_Z.succ_big_int (Big_int_Z.mult_int_big_int 2 x))
    (Big_int_Z.mult_int_big_int 2 (Big_int_Z.mult_int_big_int 2
    (Big_int_Z.mult_int_big_int 2 (Big_int_Z.mult_int_big_int 2
    ((fun x -> Big_int_Z.succ_big_int (Big_int_Z.mult_int_big_int 2 x))
    (Big_int_Z.mult_int_big_int 2 (Big_int_Z.mult_int_big_int 2
    (Big_int_Z.mult_int_big_int 2 Big_int_Z.unit_big_int)))))))))))))))),
    ((fun x -> Big_int_Z.succ_big_int (Big_int_Z.mult_int_big_int 2 x))
    (Big_int_Z.mult_int_big_int 2 (Big_int_Z.mult_int_big_int 2
    ((fun x -> Big_int_Z.succ_big_int (Big_int_Z.mult_int_big_int 2 x))
    ((fun x -> Big_int_Z.succ_big_int (Big_int_Z.mult_int_big_int 2 x))
    ((fun x -> Big_int_Z.succ_big_int (Big_int_Z.mult_int_big_int 2 x))
    ((fun x -> Big_int_Z.succ_big_int (Big_int_Z.mult_int_big_int 2 x))
    ((fun x -> Big_int_Z.succ_big_int (Big_int_Z.mult_int_big_int 2 x))
    (Big_int_Z.mult_int_big_int 2 (Big_int_Z.mult_int_big_int 2
    (Big_int_Z.mult_int_big_int 2 (Big_int_Z.mult_int_big_int 2
    ((fun x -> Big_int_Z.succ_big_int (Big_int_Z.mult_int_big_int 2 x))
    (Big_int_Z.mult_int_big_int 2 (Big_int_Z.mult_int_big_int 2
    (Big_int_Z.mult_int_big_int 2 Big_int_Z.unit_big_int))))))))))))))))),
    Big_int_Z.zero_big_int) :: ((((Big_int_Z.mult_int_big_int 2
    ((fun x -> Big_int_Z.succ_big_int (Big_int_Z.mult_int_big_int 2 x))
    ((fun x -> Big_int_Z.succ_big_int (Big_int_Z.mult_int_big_int 2 x))
    (Big_int_Z.mult_int_big_int 2
    ((fun x -> Big_int_Z.succ_big_int (Big_int_Z.mult_int_big_int 2 x))
    ((fun x -> Big_int_Z.succ_big_int (Big_int_Z.mult_int_big_int 2 x))
    (Big_int_Z.mult_int_big_int 2 (Big_int_Z.mult_int_big_int 2
    ((fun x -> Big_int_Z.succ_big_int (Big_int_Z.mult_int_big_int 2 x))
    (Big_int_Z.mult_int_big_int 2 (Big_int_Z.mult_int_big_int 2
    (Big_int_Z.mult_int_big_int 2
    ((fun x -> Big_int_Z.succ_big_int (Big_int_Z.mult_int_big_int 2 x))
    (Big_int_Z.mult_int_big_int 2 (Big_int_Z.mult_int_big_int 2
    (Big_int_Z.mult_int_big_int 2 Big_int_Z.unit_big_int)))))))))))))))),
    ((fun x -> Big_int_Z.succ_big_int (Big_int_Z.mult_int_big_int 2 x))
    ((fun x -> Big_int_Z.succ_big_int (Big_int_Z.mult_int_big_int 2 x))
    ((fun x -> Big_int_Z.succ_big_int (Big_int_Z.mult_int_big_int 2 x))
    ((fun x -> Big_int_Z.succ_big_int (Big_int_Z.mult_int_big_int 2 x))
    ((fun x -> Big_int_Z.succ_big_int (Big_int_Z.mult_int_big_int 2 x))
    ((fun x -> Big_int_Z.succ_big_int (Big_int_Z.mult_int_big_int 2 x))
    (Big_int_Z.mult_int_big_int 2 (Big_int_Z.mult_int_big_int 2
    ((fun x -> Big_int_Z.succ_big_int (Big_int_Z.mult_int_big_int 2 x))
    (Big_int_Z.mult_int_big_int 2 (Big_int_Z.mult_int_big_int 2
    (Big_int_Z.mult_int_big_int 2
    ((fun x -> Big_int_Z.succ_big_int (Big_int_Z.mult_int_big_int 2 x))
    (Big_int_Z.mult_int_big_int 2 (Big_int_Z.mult_int_big_int 2
    (Big_int_Z.mult_int_big_int 2 Big_int_Z.unit_big_int))))))))))))))))),
    Big_int_Z.zero_big_int) :: ((((Big_int_Z.mult_int_big_int 2
    (Big_int_Z.mult_int_big_int 2 (Big_int_Z.mult_int_big_int 2
    (Big_int_Z.mult_int_big_int 2
    ((fun x -> Big_int_Z.succ_big_int (Big_int_Z.mult_int_big_int 2 x))
    (Big_int_Z.mult_int_big_int 2
    ((fun x -> Big_int_Z.succ_big_int (Big_int_Z.mult_int_big_int 2 x))
    ((fun x -> Big_int_Z.succ_big_int (Big_int_Z.mult_int_big_int 2 x))
    ((fun x -> Big_int_Z.succ_big_int (Big_int_Z.mult_int_big_int 2 x))
    (Big_int_Z.mult_int_big_int 2 (Big_int_Z.mult_int_big_int 2
    (Big_int_Z.mult_int_big_int 2
    ((fun x -> Big_int_Z.succ_big_int (Big_int_Z.mult_int_big_int 2 x))
    (Big_int_Z.mult_int_big_int 2 (Big_int_Z.mult_int_big_int 2
    (Big_int_Z.mult_int_big_int 2 Big_int_Z.unit_big_int)))))))))))))))),
    ((fun x -> Big_int_Z.succ_big_int (Big_int_Z.mult_int_big_int 2 x))
    (Big_int_Z.mult_int_big_int 2 (Big_int_Z.mult_int_big_int 2
    ((fun x -> Big_int_Z.succ_big_int (Big_int_Z.mult_int_big_int 2 x))
    ((fun x -> Big_int_Z.succ_big_int (Big_int_Z.mult_int_big_int 2 x))
    (Big_int_Z.mult_int_big_int 2
    ((fun x -> Big_int_Z.succ_big_int (Big_int_Z.mult_int_big_int 2 x))
    ((fun x -> Big_int_Z.succ_big_int (Big_int_Z.mult_int_big_int 2 x))
    ((fun x -> Big_int_Z.succ_big_int (Big_int_Z.mult_int_big_int 2 x))
    (Big_int_Z.mult_int_big_int 2 (Big_int_Z.mult_int_big_int 2
    (Big_int_Z.mult_int_big_int 2
    ((fun x -> Big_int_Z.succ_big_int (Big_int_Z.mult_int_big_int 2 x))
    (Big_int_Z.mult_int_big_int 2 (Big_int_Z.mult_int_big_int 2
    (Big_int_Z.mult_int_big_int 2 Big_int_Z.unit_big_int))))))))))))))))),
    Big_int_Z.zero_big_int) :: ((((Big_int_Z.mult_int_big_int 2
    (Big_int_Z.mult_int_big_int 2 (Big_int_Z.mult_int_big_int 2
    (Big_int_Z.mult_int_big_int 2
    ((fun x -> Big_int_Z.succ_big_int (Big_int_Z.mult_int_big_int 2 x))
    ((fun x -> Big_int_Z.succ_big_int (Big_int_Z.mult_int_big_int 2 x))
    ((fun x -> Big_int_Z.succ_big_int (Big_int_Z.mult_int_big_int 2 x))
    ((fun x -> Big_int_Z.succ_big_int (Big_int_Z.mult_int_big_int 2 x))
    (Big_int_Z.mult_int_big_int 2
    ((fun x -> Big_int_Z.succ_big_int (Big_int_Z.mult_int_big_int 2 x))
    (Big_int_Z.mult_int_big_int 2 (Big_int_Z.mult_int_big_int 2
    ((fun x -> Big_int_Z.succ_big_int (Big_int_Z.mult_int_big_int 2 x))
    (Big_int_Z.mult_int_big_int 2 (Big_int_Z.mult_int_big_int 2
    (Big_int_Z.mult_int_big_int 2 Big_int_Z.unit_big_int)))))))))))))))),
    ((fun x -> Big_int_Z.succ_big_int (Big_int_Z.mult_int_big_int 2 x))
    (Big_int_Z.mult_int_big_int 2 (Big_int_Z.mult_int_big_int 2
    ((fun x -> Big_int_Z.succ_big_int (Big_int_Z.mult_int_big_int 2 x))
    ((fun x -> Big_int_Z.succ_big_int (Big_int_Z.mult_int_big_int 2 x))
    ((fun x -> Big_int_Z.succ_big_int (Big_int_Z.mult_int_big_int 2 x))
    ((fun x -> Big_int_Z.succ_big_int (Big_int_Z.mult_int_big_int 2 x))
    ((fun x -> Big_int_Z.succ_big_int (Big_int_Z.mult_int_big_int 2 x))
    (Big_int_Z.mult_int_big_int 2
    ((fun x -> Big_int_Z.succ_big_int (Big_int_Z.mult_int_big_int 2 x))
    (Big_int_Z.mult_int_big_int 2 (Big_int_Z.mult_int_big_int 2
    ((fun x -> Big_int_Z.succ_big_int (Big_int_Z.mult_int_big_int 2 x))
    (Big_int_Z.mult_int_big_int 2 (Big_int_Z.mult_int_big_int 2
    (Big_int_Z.mult_int_big_int 2 Big_int_Z.unit_big_int))))))))))))))))),
    Big_int_Z.zero_big_int) :: ((((Big_int_Z.mult_int_big_int 2
    (Big_int_Z.mult_int_big_int 2 (Big_int_Z.mult_int_big_int 2
    (Big_int_Z.mult_int_big_int 2
    ((fun x -> Big_int_Z.succ_big_int (Big_int_Z.mult_int_big_int 2 x))
    (Big_int_Z.mult_int_big_int 2
    ((fun x -> Big_int_Z.succ_big_int (Big_int_Z.mult_int_big_int 2 x))
    (Big_int_Z.mult_int_big_int 2 (Big_int_Z.mult_int_big_int 2
    (Big_int_Z.mult_int_big_int 2
    ((fun x -> Big_int_Z.succ_big_int (Big_int_Z.mult_int_big_int 2 x))
    (Big_int_Z.mult_int_big_int 2
    ((fun x -> Big_int_Z.succ_big_int (Big_int_Z.mult_int_big_int 2 x))
    (Big_int_Z.mult_int_big_int 2 (Big_int_Z.mult_int_big_int 2
    (Big_int_Z.mult_int_big_int 2 Big_int_Z.unit_big_int)))))))))))))))),
    ((fun x -> Big_int_Z.succ_big_int (Big_int_Z.mult_int_big_int 2 x))
    (Big_int_Z.mult_int_big_int 2 (Big_int_Z.mult_int_big_int 2
    ((fun x -> Big_int_Z.succ_big_int (Big_int_Z.mult_int_big_int 2 x))
    ((fun x -> Big_int_Z.succ_big_int (Big_int_Z.mult_int_big_int 2 x))
    (Big_int_Z.mult_int_big_int 2
    ((fun x -> Big_int_Z.succ_big_int (Big_int_Z.mult_int_big_int 2 x))
    (Big_int_Z.mult_int_big_int 2 (Big_int_Z.mult_int_big_int 2
    (Big_int_Z.mult_int_big_int 2
    ((fun x -> Big_int_Z.succ_big_int (Big_int_Z.mult_int_big_int 2 x))
    (Big_int_Z.mult_int_big_int 2
    ((fun x -> Big_int_Z.succ_big_int (Big_int_Z.mult_int_big_int 2 x))
    (Big_int_Z.mult_int_big_int 2 (Big_int_Z.mult_int_big_int 2
    (Big_int_Z.mult_int_big_int 2 Big_int_Z.unit_big_int))))))))))))))))),
    Big_int_Z.zero_big_int) :: ((((Big_int_Z.mult_int_big_int 2
    (Big_int_Z.mult_int_big_int 2 (Big_int_Z.mult_int_big_int 2
    (Big_int_Z.mult_int_big_int 2
    ((fun x -> Big_int_Z.succ_big_int (Big_int_Z.mult_int_big_int 2 x))
    (Big_int_Z.mult_int_big_int 2
    ((fun x -> Big_int_Z.succ_big_int (Big_int_Z.mult_int_big_int 2 x))
    ((fun x -> Big_int_Z.succ_big_int (Big_int_Z.mult_int_big_int 2 x))
    (Big_int_Z.mult_int_big_int 2 (Big_int_Z.mult_int_big_int 2
    ((fun x -> Big_int_Z.succ_big_int (Big_int_Z.mult_int_big_int 2 x))
    (Big_int_Z.mult_int_big_int 2
    ((fun x -> Big_int_Z.succ_big_int (Big_int_Z.mult_int_big_int 2 x))
    (Big_int_Z.mult_int_big_int 2 (Big_int_Z.mult_int_big_int 2
    (Big_int_Z.mult_int_big_int 2 Big_int_Z.unit_big_int)))))))))))))))),
    ((fun x -> Big_int_Z.succ_big_int (Big_int_Z.mult_int_big_int 2 x))
    (Big_int_Z.mult_int_big_int 2 (Big_int_Z.mult_int_big_int 2
    ((fun x -> Big_int_Z.succ_big_int (Big_int_Z.mult_int_big_int 2 x))
    ((fun x -> Big_int_Z.succ_big_int (Big_int_Z.mult_int_big_int 2 x))
    (Big_int_Z.mult_int_big_int 2
    ((fun x -> Big_int_Z.succ_big_int (Big_int_Z.mult_int_big_int 2 x))
    ((fun x -> Big_int_Z.succ_big_int (Big_int_Z.mult_int_big_int 2 x))
    (Big_int_Z.mult_int_big_int 2 (Big_int_Z.mult_int_big_int 2
    ((fun x -> Big_int_Z.succ_big_int (Big_int_Z.mult_int_big_int 2 x))
    (Big_int_Z.mult_int_big_int 2
    ((fun x -> Big_int_Z.succ_big_int (Big_int_Z.mult_int_big_int 2 x))
    (Big_int_Z.mult_int_big_int 2 (Big_int_Z.mult_int_big_int 2
    (Big_int_Z.mult_int_big_int 2 Big_int_Z.unit_big_int))))))))))))))))),
    Big_int_Z.zero_big_int) :: ((((Big_int_Z.mult_int_big_int 2
    (Big_int_Z.mult_int_big_int 2 (Big_int_Z.mult_int_big_int 2
    (Big_int_Z.mult_int_big_int 2
    ((fun x -> Big_int_Z.succ_big_int (Big_int_Z.mult_int_big_int 2 x))
    (Big_int_Z.mult_int_big_int 2
    ((fun x -> Big_int_Z.succ_big_int (Big_int_Z.mult_int_big_int 2 x))
    (Big_int_Z.mult_int_big_int 2 (Big_int_Z.mult_int_big_int 2
    ((fun x -> Big_int_Z.succ_big_int (Big_int_Z.mult_int_big_int 2 x))
    ((fun x -> Big_int_Z.succ_big_int (Big_int_Z.mult_int_big_int 2 x))
    (Big_int_Z.mult_int_big_int 2
    ((fun x -> Big_int_Z.succ_big_int (Big_int_Z.mult_int_big_int 2 x))
    (Big_int_Z.mult_int_big_int 2 (Big_int_Z.mult_int_big_int 2
    (Big_int_Z.mult_int_big_int 2 Big_int_Z.unit_big_int)))))))))))))))),
    ((fun x -> Big_int_Z.succ_big_int (Big_int_Z.mult_int_big_int 2 x))
    (Big_int_Z.mult_int_big_int 2 (Big_int_Z.mult_int_big_int 2
    ((fun x -> Big_int_Z.succ_big_int (Big_int_Z.mult_int_big_int 2 x))
    ((fun x -> Big_int_Z.succ_big_int (Big_int_Z.mult_int_big_int 2 x))
    (Big_int_Z.mult_int_big_int 2
    ((fun x -> Big_int_Z.succ_big_int (Big_int_Z.mult_int_big_int 2 x))
    (Big_int_Z.mult_int_big_int 2 (Big_int_Z.mult_int_big_int 2
    ((fun x -> Big_int_Z.succ_big_int (Big_int_Z.mult_int_big_int 2 x))
    ((fun x -> Big_int_Z.succ_big_int (Big_int_Z.mult_int_big_int 2 x))
    (Big_int_Z.mult_int_big_int 2
    ((fun x -> Big_int_Z.succ_big_int (Big_int_Z.mult_int_big_int 2 x))
    (Big_int_Z.mult_int_big_int 2 (Big_int_Z.mult_int_big_int 2
    (Big_int_Z.mult_int_big_int 2 Big_int_Z.unit_big_int))))))))))))))))),
    Big_int_Z.zero_big_int) :: ((((Big_int_Z.mult_int_big_int 2
    (Big_int_Z.mult_int_big_int 2 (Big_int_Z.mult_int_big_int 2
    (Big_int_Z.mult_int_big_int 2 (Big_int_Z.mult_int_big_int 2
    (Big_int_Z.mult_int_big_int 2
    ((fun x -> Big_int_Z.succ_big_int (Big_int_Z.mult_int_big_int 2 x))
    ((fun x -> Big_int_Z.succ_big_int (Big_int_Z.mult_int_big_int 2 x))
    (Big_int_Z.mult_int_big_int 2
    ((fun x -> Big_int_Z.succ_big_int (Big_int_Z.mult_int_big_int 2 x))
    ((fun x -> Big_int_Z.succ_big_int (Big_int_Z.mult_int_big_int 2 x))
    (Big_int_Z.mult_int_big_int 2
    ((fun x -> Big_int_Z.succ_big_int (Big_int_Z.mult_int_big_int 2 x))
    (Big_int_Z.mult_int_big_int 2 (Big_int_Z.mult_int_big_int 2
    (Big_int_Z.mult_int_big_int 2 Big_int_Z.unit_big_int)))))))))))))))),
    ((fun x -> Big_int_Z.succ_big_int (Big_int_Z.mult_int_big_int 2 x))
    (Big_int_Z.mult_int_big_int 2 (Big_int_Z.mult_int_big_int 2
    ((fun x -> Big_int_Z.succ_big_int (Big_int_Z.mult_int_big_int 2 x))
    (Big_int_Z.mult_int_big_int 2 (Big_int_Z.mult_int_big_int 2
    ((fun x -> Big_int_Z.succ_big_int (Big_int_Z.mult_int_big_int 2 x))
    ((fun x -> Big_int_Z.succ_big_int (Big_int_Z.mult_int_big_int 2 x))
    (Big_int_Z.mult_int_big_int 2
    ((fun x -> Big_int_Z.succ_big_int (Big_int_Z.mult_int_big_int 2 x))
    ((fun x -> Big_int_Z.succ_big_int (Big_int_Z.mult_int_big_int 2 x))
    (Big_int_Z.mult_int_big_int 2
    ((fun x -> Big_int_Z.succ_big_int (Big_int_Z.mult_int_big_int 2 x))
    (Big_int_Z.mult_int_big_int 2 (Big_int_Z.mult_int_big_int 2
    (Big_int_Z.mult_int_big_int 2 Big_int_Z.unit_big_int))))))))))))))))),
    Big_int_Z.zero_big_int) :: ((((Big_int_Z.mult_int_big_int 2
    (Big_int_Z.mult_int_big_int 2 (Big_int_Z.mult_int_big_int 2
    (Big_int_Z.mult_int_big_int 2
    ((fun x -> Big_int_Z.succ_big_int (Big_int_Z.mult_int_big_int 2 x))
    ((fun x -> Big_int_Z.succ_big_int (Big_int_Z.mult_int_big_int 2 x))
    (Big_int_Z.mult_int_big_int 2 (Big_int_Z.mult_int_big_int 2
    ((fun x -> Big_int_Z.succ_big_int (Big_int_Z.mult_int_big_int 2 x))
    ((fun x -> Big_int_Z.succ_big_int (Big_int_Z.mult_int_big_int 2 x))
    ((fun x -> Big_int_Z.succ_big_int (Big_int_Z.mult_int_big_int 2 x))
    (Big_int_Z.mult_int_big_int 2
    ((fun x -> Big_int_Z.succ_big_int (Big_int_Z.mult_int_big_int 2 x))
    (Big_int_Z.mult_int_big_int 2 (Big_int_Z.mult_int_big_int 2
    (Big_int_Z.mult_int_big_int 2 Big_int_Z.unit_big_int)))))))))))))))),
    ((fun x -> Big_int_Z.succ_big_int (Big_int_Z.mult_int_big_int 2 x))
    (Big_int_Z.mult_int_big_int 2 (Big_int_Z.mult_int_big_int 2
    ((fun x -> Big_int_Z.succ_big_int (Big_int_Z.mult_int_big_int 2 x))
    ((fun x -> Big_int_Z.succ_big_int (Big_int_Z.mult_int_big_int 2 x))
    ((fun x -> Big_int_Z.succ_big_int (Big_int_Z.mult_int_big_int 2 x))
    (Big_int_Z.mult_int_big_int 2 (Big_int_Z.mult_int_big_int 2
    ((fun x -> Big_int_Z.succ_big_int (Big_int_Z.mult_int_big_int 2 x))
    ((fun x -> Big_int_Z.succ_big_int (Big_int_Z.mult_int_big_int 2 x))
    ((fun x -> Big_int_Z.succ_big_int (Big_int_Z.mult_int_big_int 2 x))
    (Big_int_Z.mult_int_big_int 2
    ((fun x -> Big_int_Z.succ_big_int (Big_int_Z.mult_int_big_int 2 x))
    (Big_int_Z.mult_int_big_int 2 (Big_int_Z.mult_int_big_int 2
    (Big_int_Z.mult_int_big_int 2 Big_int_Z.unit_big_int))))))))))))))))),
    Big_int_Z.zero_big_int) :: ((((Big_int_Z.mult_int_big_int 2
    (Big_int_Z.mult_int_big_int 2 (Big_int_Z.mult_int_big_int 2
    (Big_int_Z.mult_int_big_int 2 (Big_int_Z.mult_int_big_int 2
    ((fun x -> Big_int_Z.succ_big_int (Big_int_Z.mult_int_big_int 2 x))
    ((fun x -> Big_int_Z.succ_big_int (Big_int_Z.mult_int_big_int 2 x))
    ((fun x -> Big_int_Z.succ_big_int (Big_int_Z.mult_int_big_int 2 x))
    (Big_int_Z.mult_int_big_int 2 (Big_int_Z.mult_int_big_int 2
    (Big_int_Z.mult_int_big_int 2
    ((fun x -> Big_int_Z.succ_big_int (Big_int_Z.mult_int_big_int 2 x))
    ((fun x -> Big_int_Z.succ_big_int (Big_int_Z.mult_int_big_int 2 x))
    (Big_int_Z.mult_int_big_int 2 (Big_int_Z.mult_int_big_int 2
    (Big_int_Z.mult_int_big_int 2 Big_int_Z.unit_big_int)))))))))))))))),
    ((fun x -> Big_int_Z.succ_big_int (Big_int_Z.mult_int_big_int 2 x))
    (Big_int_Z.mult_int_big_int 2 (Big_int_Z.mult_int_big_int 2
    ((fun x -> Big_int_Z.succ_big_int (Big_int_Z.mult_int_big_int 2 x))
    (Big_int_Z.mult_int_big_int 2
    ((fun x -> Big_int_Z.succ_big_int (Big_int_Z.mult_int_big_int 2 x))
    ((fun x -> Big_int_Z.succ_big_int (Big_int_Z.mult_int_big_int 2 x))
    ((fun x -> Big_int_Z.succ_big_int (Big_int_Z.mult_int_big_int 2 x))
    (Big_int_Z.mult_int_big_int 2 (Big_int_Z.mult_int_big_int 2
    (Big_int_Z.mult_int_big_int 2
    ((fun x -> Big_int_Z.succ_big_int (Big_int_Z.mult_int_big_int 2 x))
    ((fun x -> Big_int_Z.succ_big_int (Big_int_Z.mult_int_big_int 2 x))
    (Big_int_Z.mult_int_big_int 2 (Big_int_Z.mult_int_big_int 2
    (Big_int_Z.mult_int_big_int 2 Big_int_Z.unit_big_int))))))))))))))))),
    Big_int_Z.zero_big_int) :: ((((Big_int_Z.mult_int_big_int 2
    (Big_int_Z.mult_int_big_int 2 (Big_int_Z.mult_int_big_int 2
    (Big_int_Z.mult_int_big_int 2
    ((fun x -> Big_int_Z.succ_big_int (Big_int_Z.mult_int_big_int 2 x))
    (Big_int_Z.mult_int_big_int 2
    ((fun x -> Big_int_Z.succ_big_int (Big_int_Z.mult_int_big_int 2 x))
    (Big_int_Z.mult_int_big_int 2
    ((fun x -> Big_int_Z.succ_big_int (Big_int_Z.mult_int_big_int 2 x))
    (Big_int_Z.mult_int_big_int 2 (Big_int_Z.mult_int_big_int 2
    ((fun x -> Big_int_Z.succ_big_int (Big_int_Z.mult_int_big_int 2 x))
    ((fun x -> Big_int_Z.succ_big_int (Big_int_Z.mult_int_big_int 2 x))
    (Big_int_Z.mult_int_big_int 2 (Big_int_Z.mult_int_big_int 2
    (Big_int_Z.mult_int_big_int 2 Big_int_Z.unit_big_int)))))))))))))))),
    ((fun x -> Big_int_Z.succ_big_int (Big_int_Z.mult_int_big_int 2 x))
    (Big_int_Z.mult_int_big_int 2 (Big_int_Z.mult_int_big_int 2
    ((fun x -> Big_int_Z.succ_big_int (Big_int_Z.mult_int_big_int 2 x))
    ((fun x -> Big_int_Z.succ_big_int (Big_int_Z.mult_int_big_int 2 x))
    (Big_int_Z.mult_int_big_int 2
    ((fun x -> Big_int_Z.succ_big_int (Big_int_Z.mult_int_big_int 2 x))
    (Big_int_Z.mult_int_big_int 2
    ((fun x -> Big_int_Z.succ_big_int (Big_int_Z.mult_int_big_int 2 x))
    (Big_int_Z.mult_int_big_int 2 (Big_int_Z.mult_int_big_int 2
    ((fun x -> Big_int_Z.succ_big_int (Big_int_Z.mult_int_big_int 2 x))
    ((fun x -> Big_int_Z.succ_big_int (Big_int_Z.mult_int_big_int 2 x))
    (Big_int_Z.mult_int_big_int 2 (Big_int_Z.mult_int_big_int 2
    (Big_int_Z.mult_int_big_int 2 Big_int_Z.unit_big_int))))))))))))))))),
    Big_int_Z.zero_big_int) :: ((((Big_int_Z.mult_int_big_int 2
    (Big_int_Z.mult_int_big_int 2 (Big_int_Z.mult_int_big_int 2
    (Big_int_Z.mult_int_big_int 2
    ((fun x -> Big_int_Z.succ_big_int (Big_int_Z.mult_int_big_int 2 x))
    (Big_int_Z.mult_int_big_int 2
    ((fun x -> Big_int_Z.succ_big_int (Big_int_Z.mult_int_big_int 2 x))
    (Big_int_Z.mult_int_big_int 2 (Big_int_Z.mult_int_big_int 2
    (Big_int_Z.mult_int_big_int 2
    ((fun x -> Big_int_Z.succ_big_int (Big_int_Z.mult_int_big_int 2 x))
    ((fun x -> Big_int_Z.succ_big_int (Big_int_Z.mult_int_big_int 2 x))
    ((fun x -> Big_int_Z.succ_big_int (Big_int_Z.mult_int_big_int 2 x))
    (Big_int_Z.mult_int_big_int 2 (Big_int_Z.mult_int_big_int 2
    (Big_int_Z.mult_int_big_int 2 Big_int_Z.unit_big_int)))))))))))))))),
    ((fun x -> Big_int_Z.succ_big_int (Big_int_Z.mult_int_big_int 2 x))
    (Big_int_Z.mult_int_big_int 2 (Big_int_Z.mult_int_big_int 2
    ((fun x -> Big_int_Z.succ_big_int (Big_int_Z.mult_int_big_int 2 x))
    ((fun x -> Big_int_Z.succ_big_int (Big_int_Z.mult_int_big_int 2 x))
    (Big_int_Z.mult_int_big_int 2
    ((fun x -> Big_int_Z.succ_big_int (Big_int_Z.mult_int_big_int 2 x))
    (Big_int_Z.mult_int_big_int 2 (Big_int_Z.mult_int_big_int 2
    (Big_int_Z.mult_int_big_int 2
    ((fun x -> Big_int_Z.succ_big_int (Big_int_Z.mult_int_big_int 2 x))
    ((fun x -> Big_int_Z.succ_big_int (Big_int_Z.mult_int_big_int 2 x))
    ((fun x -> Big_int_Z.succ_big_int (Big_int_Z.mult_int_big_int 2 x))
    (Big_int_Z.mult_int_big_int 2 (Big_int_Z.mult_int_big_int 2
    (Big_int_Z.mult_int_big_int 2 Big_int_Z.unit_big_int))))))))))))))))),
    Big_int_Z.zero_big_int) :: ((((Big_int_Z.mult_int_big_int 2
    (Big_int_Z.mult_int_big_int 2 (Big_int_Z.mult_int_big_int 2
    (Big_int_Z.mult_int_big_int 2
    ((fun x -> Big_int_Z.succ_big_int (Big_int_Z.mult_int_big_int 2 x))
    (Big_int_Z.mult_int_big_int 2
    ((fun x -> Big_int_Z.succ_big_int (Big_int_Z.mult_int_big_int 2 x))
    (Big_int_Z.mult_int_big_int 2
    ((fun x -> Big_int_Z.succ_big_int (Big_int_Z.mult_int_big_int 2 x))
    (Big_int_Z.mult_int_big_int 2
    ((fun x -> Big_int_Z.succ_big_int (Big_int_Z.mult_int_big_int 2 x))
    ((fun x -> Big_int_Z.succ_big_int (Big_int_Z.mult_int_big_int 2 x))
    ((fun x -> Big_int_Z.succ_big_int (Big_int_Z.mult_int_big_int 2 x))
    (Big_int_Z.mult_int_big_int 2 (Big_int_Z.mult_int_big_int 2
    (Big_int_Z.mult_int_big_int 2 Big_int_Z.unit_big_int)))))))))))))))),
    ((fun x -> Big_int_Z.succ_big_int (Big_int_Z.mult_int_big_int 2 x))
    (Big_int_Z.mult_int_big_int 2 (Big_int_Z.mult_int_big_int 2
    ((fun x -> Big_int_Z.succ_big_int (Big_int_Z.mult_int_big_int 2 x))
    ((fun x -> Big_int_Z.succ_big_int (Big_int_Z.mult_int_big_int 2 x))
    (Big_int_Z.mult_int_big_int 2
    ((fun x -> Big_int_Z.succ_big_int (Big_int_Z.mult_int_big_int 2 x))
    (Big_int_Z.mult_int_big_int 2
    ((fun x -> Big_int_Z.succ_big_int (Big_int_Z.mult_int_big_int 2 x))
    (Big_int_Z.mult_int_big_int 2
    ((fun x -> Big_int_Z.succ_big_int (Big_int_Z.mult_int_big_int 2 x))
    ((fun x -> Big_int_Z.succ_big_int (Big_int_Z.mult_int_big_int 2 x))
    ((fun x -> Big_int_Z.succ_big_int (Big_int_Z.mult_int_big_int 2 x))
    (Big_int_Z.mult_int_big_int 2 (Big_int_Z.mult_int_big_int 2
    (Big_int_Z.mult_int_big_int 2 Big_int_Z.unit_big_int))))))))))))))))),
    Big_int_Z.zero_big_int) :: ((((Big_int_Z.mult_int_big_int 2
    (Big_int_Z.mult_int_big_int 2 (Big_int_Z.mult_int_big_int 2
    (Big_int_Z.mult_int_big_int 2 (Big_int_Z.mult_int_big_int 2
    ((fun x -> Big_int_Z.succ_big_int (Big_int_Z.mult_int_big_int 2 x))
    (Big_int_Z.mult_int_big_int 2
    ((fun x -> Big_int_Z.succ_big_int (Big_int_Z.mult_int_big_int 2 x))
    ((fun x -> Big_int_Z.succ_big_int (Big_int_Z.mult_int_big_int 2 x))
    (Big_int_Z.mult_int_big_int 2
    ((fun x -> Big_int_Z.succ_big_int (Big_int_Z.mult_int_big_int 2 x))
    ((fun x -> Big_int_Z.succ_big_int (Big_int_Z.mult_int_big_int 2 x))
    ((fun x -> Big_int_Z.succ_big_int (Big_int_Z.mult_int_big_int 2 x))
    (Big_int_Z.mult_int_big_int 2 (Big_int_Z.mult_int_big_int 2
    (Big_int_Z.mult_int_big_int 2 Big_int_Z.unit_big_int)))))))))))))))),
    ((fun x -> Big_int_Z.succ_big_int (Big_int_Z.mult_int_big_int 2 x))
    (Big_int_Z.mult_int_big_int 2 (Big_int_Z.mult_int_big_int 2
    ((fun x -> Big_int_Z.succ_big_int (Big_int_Z.mult_int_big_int 2 x))
    (Big_int_Z.mult_int_big_int 2
    ((fun x -> Big_int_Z.succ_big_int (Big_int_Z.mult_int_big_int 2 x))
    (Big_int_Z.mult_int_big_int 2
    ((fun x -> Big_int_Z.succ_big_int (Big_int_Z.mult_int_big_int 2 x))
    ((fun x -> Big_int_Z.succ_big_int (Big_int_Z.mult_int_big_int 2 x))
    (Big_int_Z.mult_int_big_int 2
    ((fun x -> Big_int_Z.succ_big_int (Big_int_Z.mult_int_big_int 2 x))
    ((fun x -> Big_int_Z.succ_big_int (Big_int_Z.mult_int_big_int 2 x))
    ((fun x -> Big_int_Z.succ_big_int (Big_int_Z.mult_int_big_int 2 x))
    (Big_int_Z.mult_int_big_int 2 (Big_int_Z.mult_int_big_int 2
    (Big_int_Z.mult_int_big_int 2 Big_int_Z.unit_big_int))))))))))))))))),
    Big_int_Z.zero_big_int) :: ((((Big_int_Z.mult_int_big_int 2
    (Big_int_Z.mult_int_big_int 2 (Big_int_Z.mult_int_big_int 2
    (Big_int_Z.mult_int_big_int 2
    ((fun x -> Big_int_Z.succ_big_int (Big_int_Z.mult_int_big_int 2 x))
    (Big_int_Z.mult_int_big_int 2
    ((fun x -> Big_int_Z.succ_big_int (Big_int_Z.mult_int_big_int 2 x))
    (Big_int_Z.mult_int_big_int 2
    ((fun x -> Big_int_Z.succ_big_int (Big_int_Z.mult_int_big_int 2 x))
    ((fun x -> Big_int_Z.succ_big_int (Big_int_Z.mult_int_big_int 2 x))
    ((fun x -> Big_int_Z.succ_big_int (Big_int_Z.mult_int_big_int 2 x))
    ((fun x -> Big_int_Z.succ_big_int (Big_int_Z.mult_int_big_int 2 x))
    ((fun x -> Big_int_Z.succ_big_int (Big_int_Z.mult_int_big_int 2 x))
    (Big_int_Z.mult_int_big_int 2 (Big_int_Z.mult_int_big_int 2
    (Big_int_Z.mult_int_big_int 2 Big_int_Z.unit_big_int)))))))))))))))),
    ((fun x -> Big_int_Z.succ_big_int (Big_int_Z.mult_int_big_int 2 x))
    (Big_int_Z.mult_int_big_int 2 (Big_int_Z.mult_int_big_int 2
    ((fun x -> Big_int_Z.succ_big_int (Big_int_Z.mult_int_big_int 2 x))
    ((fun x -> Big_int_Z.succ_big_int (Big_int_Z.mult_int_big_int 2 x))
    (Big_int_Z.mult_int_big_int 2
    ((fun x -> Big_int_Z.succ_big_int (Big_int_Z.mult_int_big_int 2 x))
    (Big_int_Z.mult_int_big_int 2
    ((fun x -> Big_int_Z.succ_big_int (Big_int_Z.mult_int_big_int 2 x))
    ((fun x -> Big_int_Z.succ_big_int (Big_int_Z.mult_int_big_int 2 x))
    ((fun x -> Big_int_Z.succ_big_int (Big_int_Z.mult_int_big_int 2 x))
    ((fun x -> Big_int_Z.succ_big_int (Big_int_Z.mult_int_big_int 2 x))
    ((fun x -> Big_int_Z.succ_big_int (Big_int_Z.mult_int_big_int 2 x))
    (Big_int_Z.mult_int_big_int 2 (Big_int_Z.mult_int_big_int 2
    (Big_int_Z.mult_int_big_int 2 Big_int_Z.unit_big_int))))))))))))))))),
    Big_int_Z.zero_big_int) :: ((((Big_int_Z.mult_int_big_int 2
    (Big_int_Z.mult_int_big_int 2 (Big_int_Z.mult_int_big_int 2
    (Big_int_Z.mult_int_big_int 2 (Big_int_Z.mult_int_big_int 2
    ((fun x -> Big_int_Z.succ_big_int (Big_int_Z.mult_int_big_int 2 x))
    ((fun x -> Big_int_Z.succ_big_int (Big_int_Z.mult_int_big_int 2 x))
    (Big_int_Z.mult_int_big_int 2 (Big_int_Z.mult_int_big_int 2
    ((fun x -> Big_int_Z.succ_big_int (Big_int_Z.mult_int_big_int 2 x))
    (Big_int_Z.mult_int_big_int 2
    ((fun x -> Big_int_Z.succ_big_int (Big_int_Z.mult_int_big_int 2 x))
    (Big_int_Z.mult_int_big_int 2
    ((fun x -> Big_int_Z.succ_big_int (Big_int_Z.mult_int_big_int 2 x))
    ((fun x -> Big_int_Z.succ_big_int (Big_int_Z.mult_int_big_int 2 x))
    (Big_int_Z.mult_int_big_int 2 Big_int_Z.unit_big_int)))))))))))))))),
    ((fun x -> Big_int_Z.succ_big_int (Big_int_Z.mult_int_big_int 2 x))
    (Big_int_Z.mult_int_big_int 2 (Big_int_Z.mult_int_big_int 2
    ((fun x -> Big_int_Z.succ_big_int (Big_int_Z.mult_int_big_int 2 x))
    (Big_int_Z.mult_int_big_int 2
    ((fun x -> Big_int_Z.succ_big_int (Big_int_Z.mult_int_big_int 2 x))
    ((fun x -> Big_int_Z.succ_big_int (Big_int_Z.mult_int_big_int 2 x))
    (Big_int_Z.mult_int_big_int 2 (Big_int_Z.mult_int_big_int 2
    ((fun x -> Big_int_Z.succ_big_int (Big_int_Z.mult_int_big_int 2 x))
    (Big_int_Z.mult_int_big_int 2
    ((fun x -> Big_int_Z.succ_big_int (Big_int_Z.mult_int_big_int 2 x))
    (Big_int_Z.mult_int_big_int 2
    ((fun x -> Big_int_Z.succ_big_int (Big_int_Z.mult_int_big_int 2 x))
    ((fun x -> Big_int_Z.succ_big_int (Big_int_Z.mult_int_big_int 2 x))
    (Big_int_Z.mult_int_big_int 2 Big_int_Z.unit_big_int))))))))))))))))),
    Big_int_Z.zero_big_int) :: ((((Big_int_Z.mult_int_big_int 2
    (Big_int_Z.mult_int_big_int 2 (Big_int_Z.mult_int_big_int 2
    (Big_int_Z.mult_int_big_int 2 (Big_int_Z.mult_int_big_int 2
    (Big_int_Z.mult_int_big_int 2
    ((fun x -> Big_int_Z.succ_big_int (Big_int_Z.mult_int_big_int 2 x))
    ((fun x -> Big_int_Z.succ_big_int (Big_int_Z.mult_int_big_int 2 x))
    (Big_int_Z.mult_int_big_int 2
    ((fun x -> Big_int_Z.succ_big_int (Big_int_Z.mult_int_big_int 2 x))
    (Big_int_Z.mult_int_big_int 2
    ((fun x -> Big_int_Z.succ_big_int (Big_int_Z.mult_int_big_int 2 x))
    (Big_int_Z.mult_int_big_int 2
    ((fun x -> Big_int_Z.succ_big_int (Big_int_Z.mult_int_big_int 2 x))
    ((fun x -> Big_int_Z.succ_big_int (Big_int_Z.mult_int_big_int 2 x))
    (Big_int_Z.mult_int_big_int 2 Big_int_Z.unit_big_int)))))))))))))))),
    ((fun x -> Big_int_Z.succ_big_int (Big_int_Z.mult_int_big_int 2 x))
    (Big_int_Z.mult_int_big_int 2 (Big_int_Z.mult_int_big_int 2
    ((fun x -> Big_int_Z.succ_big_int (Big_int_Z.mult_int_big_int 2 x))
    (Big_int_Z.mult_int_big_int 2 (Big_int_Z.mult_int_big_int 2
    ((fun x -> Big_int_Z.succ_big_int (Big_int_Z.mult_int_big_int 2 x))
    ((fun x -> Big_int_Z.succ_big_int (Big_int_Z.mult_int_big_int 2 x))
    (Big_int_Z.mult_int_big_int 2
    ((fun x -> Big_int_Z.succ_big_int (Big_int_Z.mult_int_big_int 2 x))
    (Big_int_Z.mult_int_big_int 2
    ((fun x -> Big_int_Z.succ_big_int (Big_int_Z.mult_int_big_int 2 x))
    (Big_int_Z.mult_int_big_int 2
    ((fun x -> Big_int_Z.succ_big_int (Big_int_Z.mult_int_big_int 2 x))
    ((fun x -> Big_int_Z.succ_big_int (Big_int_Z.mult_int_big_int 2 x))
    (Big_int_Z.mult_int_big_int 2 Big_int_Z.unit_big_int))))))))))))))))),
    Big_int_Z.zero_big_int) :: ((((Big_int_Z.mult_int_big_int 2
    (Big_int_Z.mult_int_big_int 2 (Big_int_Z.mult_int_big_int 2
    (Big_int_Z.mult_int_big_int 2
    ((fun x -> Big_int_Z.succ_big_int (Big_int_Z.mult_int_big_int 2 x))
    (Big_int_Z.mult_int_big_int 2
    ((fun x -> Big_int_Z.succ_big_int (Big_int_Z.mult_int_big_int 2 x))
    (Big_int_Z.mult_int_big_int 2
    ((fun x -> Big_int_Z.succ_big_int (Big_int_Z.mult_int_big_int 2 x))
    ((fun x -> Big_int_Z.succ_big_int (Big_int_Z.mult_int_big_int 2 x))
    (Big_int_Z.mult_int_big_int 2
    ((fun x -> Big_int_Z.succ_big_int (Big_int_Z.mult_int_big_int 2 x))
    (Big_int_Z.mult_int_big_int 2
    ((fun x -> Big_int_Z.succ_big_int (Big_int_Z.mult_int_big_int 2 x))
    ((fun x -> Big_int_Z.succ_big_int (Big_int_Z.mult_int_big_int 2 x))
    (Big_int_Z.mult_int_big_int 2 Big_int_Z.unit_big_int)))))))))))))))),
    ((fun x -> Big_int_Z.succ_big_int (Big_int_Z.mult_int_big_int 2 x))
    (Big_int_Z.mult_int_big_int 2 (Big_int_Z.mult_int_big_int 2
    ((fun x -> Big_int_Z.succ_big_int (Big_int_Z.mult_int_big_int 2 x))
    ((fun x -> Big_int_Z.succ_big_int (Big_int_Z.mult_int_big_int 2 x))
    (Big_int_Z.mult_int_big_int 2
    ((fun x -> Big_int_Z.succ_big_int (Big_int_Z.mult_int_big_int 2 x))
    (Big_int_Z.mult_int_big_int 2
    ((fun x -> Big_int_Z.succ_big_int (Big_int_Z.mult_int_big_int 2 x))
    ((fun x -> Big_int_Z.succ_big_int (Big_int_Z.mult_int_big_int 2 x))
    (Big_int_Z.mult_int_big_int 2
    ((fun x -> Big_int_Z.succ_big_int (Big_int_Z.mult_int_big_int 2 x))
    (Big_int_Z.mult_int_big_int 2
    ((fun x -> Big_int_Z.succ_big_int (Big_int_Z.mult_int_big_int 2 x))
    ((fun x -> Big_int_Z.succ_big_int (Big_int_Z.mult_int_big_int 2 x))
    (Big_int_Z.mult_int_big_int 2 Big_int_Z.unit_big_int))))))))))))))))),
    Big_int_Z.zero_big_int) :: ((((Big_int_Z.mult_int_big_int 2
    ((fun x -> Big_int_Z.succ_big_int (Big_int_Z.mult_int_big_int 2 x))
    ((fun x -> Big_int_Z.succ_big_int (Big_int_Z.mult_int_big_int 2 x))
    ((fun x -> Big_int_Z.succ_big_int (Big_int_Z.mult_int_big_int 2 x))
    (Big_int_Z.mult_int_big_int 2 (Big_int_Z.mult_int_big_int 2
    ((fun x -> Big_int_Z.succ_big_int (Big_int_Z.mult_int_big_int 2 x))
    ((fun x -> Big_int_Z.succ_big_int (Big_int_Z.mult_int_big_int 2 x))
    ((fun x -> Big_int_Z.succ_big_int (Big_int_Z.mult_int_big_int 2 x))
    ((fun x -> Big_int_Z.succ_big_int (Big_int_Z.mult_int_big_int 2 x))
    ((fun x -> Big_int_Z.succ_big_int (Big_int_Z.mult_int_big_int 2 x))
    (Big_int_Z.mult_int_big_int 2
    ((fun x -> Big_int_Z.succ_big_int (Big_int_Z.mult_int_big_int 2 x))
    (Big_int_Z.mult_int_big_int 2
    ((fun x -> Big_int_Z.succ_big_int (Big_int_Z.mult_int_big_int 2 x))
    ((fun x -> Big_int_Z.succ_big_int (Big_int_Z.mult_int_big_int 2 x))
    Big_int_Z.unit_big_int)))))))))))))))),
    ((fun x -> Big_int_Z.succ_big_int (Big_int_Z.mult_int_big_int 2 x))
    ((fun x -> Big_int_Z.succ_big_int (Big_int_Z.mult_int_big_int 2 x))
    ((fun x -> Big_int_Z.succ_big_int (Big_int_Z.mult_int_big_int 2 x))
    (Big_int_Z.mult_int_big_int 2
    ((fun x -> Big_int_Z.succ_big_int (Big_int_Z.mult_int_big_int 2 x))
    (Big_int_Z.mult_int_big_int 2
    ((fun x -> Big_int_Z.succ_big_int (Big_int_Z.mult_int_big_int 2 x))
    ((fun x -> Big_int_Z.succ_big_int (Big_int_Z.mult_int_big_int 2 x))
    ((fun x -> Big_int_Z.succ_big_int (Big_int_Z.mult_int_big_int 2 x))
    ((fun x -> Big_int_Z.succ_big_int (Big_int_Z.mult_int_big_int 2 x))
    ((fun x -> Big_int_Z.succ_big_int (Big_int_Z.mult_int_big_int 2 x))
    (Big_int_Z.mult_int_big_int 2
    ((fun x -> Big_int_Z.succ_big_int (Big_int_Z.mult_int_big_int 2 x))
    (Big_int_Z.mult_int_big_int 2
    ((fun x -> Big_int_Z.succ_big_int (Big_int_Z.mult_int_big_int 2 x))
    ((fun x -> Big_int_Z.succ_big_int (Big_int_Z.mult_int_big_int 2 x))
    Big_int_Z.unit_big_int))))))))))))))))),
    Big_int_Z.zero_big_int) :: ((((Big_int_Z.mult_int_big_int 2
    (Big_int_Z.mult_int_big_int 2 (Big_int_Z.mult_int_big_int 2
    ((fun x -> Big_int_Z.succ_big_int (Big_int_Z.mult_int_big_int 2 x))
    ((fun x -> Big_int_Z.succ_big_int (Big_int_Z.mult_int_big_int 2 x))
    (Big_int_Z.mult_int_big_int 2
    ((fun x -> Big_int_Z.succ_big_int (Big_int_Z.mult_int_big_int 2 x))
    ((fun x -> Big_int_Z.succ_big_int (Big_int_Z.mult_int_big_int 2 x))
    ((fun x -> Big_int_Z.succ_big_int (Big_int_Z.mult_int_big_int 2 x))
    ((fun x -> Big_int_Z.succ_big_int (Big_int_Z.mult_int_big_int 2 x))
    ((fun x -> Big_int_Z.succ_big_int (Big_int_Z.mult_int_big_int 2 x))
    (Big_int_Z.mult_int_big_int 2
    ((fun x -> Big_int_Z.succ_big_int (Big_int_Z.mult_int_big_int 2 x))
    (Big_int_Z.mult_int_big_int 2
    ((fun x -> Big_int_Z.succ_big_int (Big_int_Z.mult_int_big_int 2 x))
    ((fun x -> Big_int_Z.succ_big_int (Big_int_Z.mult_int_big_int 2 x))
    Big_int_Z.unit_big_int)))))))))))))))),
    ((fun x -> Big_int_Z.succ_big_int (Big_int_Z.mult_int_big_int 2 x))
    (Big_int_Z.mult_int_big_int 2 (Big_int_Z.mult_int_big_int 2
    (Big_int_Z.mult_int_big_int 2 (Big_int_Z.mult_int_big_int 2
    ((fun x -> Big_int_Z.succ_big_int (Big_int_Z.mult_int_big_int 2 x))
    ((fun x -> Big_int_Z.succ_big_int (Big_int_Z.mult_int_big_int 2 x))
    ((fun x -> Big_int_Z.succ_big_int (Big_int_Z.mult_int_big_int 2 x))
    ((fun x -> Big_int_Z.succ_big_int (Big_int_Z.mult_int_big_int 2 x))
    ((fun x -> Big_int_Z.succ_big_int (Big_int_Z.mult_int_big_int 2 x))
    ((fun x -> Big_int_Z.succ_big_int (Big_int_Z.mult_int_big_int 2 x))
    (Big_int_Z.mult_int_big_int 2
    ((fun x -> Big_int_Z.succ_big_int (Big_int_Z.mult_int_big_int 2 x))
    (Big_int_Z.mult_int_big_int 2
    ((fun x -> Big_int_Z.succ_big_int (Big_int_Z.mult_int_big_int 2 x))
    ((fun x -> Big_int_Z.succ_big_int (Big_int_Z.mult_int_big_int 2 x))
    Big_int_Z.unit_big_int))))))))))))))))),
    Big_int_Z.zero_big_int) :: ((((Big_int_Z.mult_int_big_int 2
    ((fun x -> Big_int_Z.succ_big_int (Big_int_Z.mult_int_big_int 2 x))
    (Big_int_Z.mult_int_big_int 2 (Big_int_Z.mult_int_big_int 2
    (Big_int_Z.mult_int_big_int 2
    ((fun x -> Big_int_Z.succ_big_int (Big_int_Z.mult_int_big_int 2 x))
    ((fun x -> Big_int_Z.succ_big_int (Big_int_Z.mult_int_big_int 2 x))
    ((fun x -> Big_int_Z.succ_big_int (Big_int_Z.mult_int_big_int 2 x))
    ((fun x -> Big_int_Z.succ_big_int (Big_int_Z.mult_int_big_int 2 x))
    ((fun x -> Big_int_Z.succ_big_int (Big_int_Z.mult_int_big_int 2 x))
    ((fun x -> Big_int_Z.succ_big_int (Big_int_Z.mult_int_big_int 2 x))
    (Big_int_Z.mult_int_big_int 2
    ((fun x -> Big_int_Z.succ_big_int (Big_int_Z.mult_int_big_int 2 x))
    (Big_int_Z.mult_int_big_int 2
    ((fun x -> Big_int_Z.succ_big_int (Big_int_Z.mult_int_big_int 2 x))
    ((fun x -> Big_int_Z.succ_big_int (Big_int_Z.mult_int_big_int 2 x))
    Big_int_Z.unit_big_int)))))))))))))))),
    ((fun x -> Big_int_Z.succ_big_int (Big_int_Z.mult_int_big_int 2 x))
    ((fun x -> Big_int_Z.succ_big_int (Big_int_Z.mult_int_big_int 2 x))
    (Big_int_Z.mult_int_big_int 2
    ((fun x -> Big_int_Z.succ_big_int (Big_int_Z.mult_int_big_int 2 x))
    (Big_int_Z.mult_int_big_int 2
    ((fun x -> Big_int_Z.succ_big_int (Big_int_Z.mult_int_big_int 2 x))
    ((fun x -> Big_int_Z.succ_big_int (Big_int_Z.mult_int_big_int 2 x))
    ((fun x -> Big_int_Z.succ_big_int (Big_int_Z.mult_int_big_int 2 x))
    ((fun x -> Big_int_Z.succ_big_int (Big_int_Z.mult_int_big_int 2 x))
    ((fun x -> Big_int_Z.succ_big_int (Big_int_Z.mult_int_big_int 2 x))
    ((fun x -> Big_int_Z.succ_big_int (Big_int_Z.mult_int_big_int 2 x))
    (Big_int_Z.mult_int_big_int 2
    ((fun x -> Big_int_Z.succ_big_int (Big_int_Z.mult_int_big_int 2 x))
    (Big_int_Z.mult_int_big_int 2
    ((fun x -> Big_int_Z.succ_big_int (Big_int_Z.mult_int_big_int 2 x))
    ((fun x -> Big_int_Z.succ_big_int (Big_int_Z.mult_int_big_int 2 x))
    Big_int_Z.unit_big_int))))))))))))))))),
    Big_int_Z.zero_big_int) :: ((((Big_int_Z.mult_int_big_int 2
    (Big_int_Z.mult_int_big_int 2
    ((fun x -> Big_int_Z.succ_big_int (Big_int_Z.mult_int_big_int 2 x))
    ((fun x -> Big_int_Z.succ_big_int (Big_int_Z.mult_int_big_int 2 x))
    (Big_int_Z.mult_int_big_int 2
    ((fun x -> Big_int_Z.succ_big_int (Big_int_Z.mult_int_big_int 2 x))
    ((fun x -> Big_int_Z.succ_big_int (Big_int_Z.mult_int_big_int 2 x))
    ((fun x -> Big_int_Z.succ_big_int (Big_int_Z.mult_int_big_int 2 x))
    ((fun x -> Big_int_Z.succ_big_int (Big_int_Z.mult_int_big_int 2 x))
    ((fun x -> Big_int_Z.succ_big_int (Big_int_Z.mult_int_big_int 2 x))
    ((fun x -> Big_int_Z.succ_big_int (Big_int_Z.mult_int_big_int 2 x))
    (Big_int_Z.mult_int_big_int 2
    ((fun x -> Big_int_Z.succ_big_int (Big_int_Z.mult_int_big_int 2 x))
    (Big_int_Z.mult_int_big_int 2
    ((fun x -> Big_int_Z.succ_big_int (Big_int_Z.mult_int_big_int 2 x))
    ((fun x -> Big_int_Z.succ_big_int (Big_int_Z.mult_int_big_int 2 x))
    Big_int_Z.unit_big_int)))))))))))))))),
    ((fun x -> Big_int_Z.succ_big_int (Big_int_Z.mult_int_big_int 2 x))
    (Big_int_Z.mult_int_big_int 2
    ((fun x -> Big_int_Z.succ_big_int (Big_int_Z.mult_int_big_int 2 x))
    (Big_int_Z.mult_int_big_int 2
    ((fun x -> Big_int_Z.succ_big_int (Big_int_Z.mult_int_big_int 2 x))
    ((fun x -> Big_int_Z.succ_big_int (Big_int_Z.mult_int_big_int 2 x))
    ((fun x -> Big_int_Z.succ_big_int (Big_int_Z.mult_int_big_int 2 x))
    ((fun x -> Big_int_Z.succ_big_int (Big_int_Z.mult_int_big_int 2 x))
    ((fun x -> Big_int_Z.succ_big_int (Big_int_Z.mult_int_big_int 2 x))
    ((fun x -> Big_int_Z.succ_big_int (Big_int_Z.mult_int_big_int 2 x))
    ((fun x -> Big_int_Z.succ_big_int (Big_int_Z.mult_int_big_int 2 x))
    (Big_int_Z.mult_int_big_int 2
    ((fun x -> Big_int_Z.succ_big_int (Big_int_Z.mult_int_big_int 2 x))
    (Big_int_Z.mult_int_big_int 2
    ((fun x -> Big_int_Z.succ_big_int (Big_int_Z.mult_int_big_int 2 x))
    ((fun x -> Big_int_Z.succ_big_int (Big_int_Z.mult_int_big_int 2 x))
    Big_int_Z.unit_big_int))))))))))))))))),
    Big_int_Z.zero_big_int) :: ((((Big_int_Z.mult_int_big_int 2
    ((fun x -> Big_int_Z.succ_big_int (Big_int_Z.mult_int_big_int 2 x))
    ((fun x -> Big_int_Z.succ_big_int (Big_int_Z.mult_int_big_int 2 x))
    (Big_int_Z.mult_int_big_int 2
    ((fun x -> Big_int_Z.succ_big_int (Big_int_Z.mult_int_big_int 2 x))
    ((fun x -> Big_int_Z.succ_big_int (Big_int_Z.mult_int_big_int 2 x))
    ((fun x -> Big_int_Z.succ_big_int (Big_int_Z.mult_int_big_int 2 x))
    ((fun x -> Big_int_Z.succ_big_int (Big_int_Z.mult_int_big_int 2 x))
    ((fun x -> Big_int_Z.succ_big_int (Big_int_Z.mult_int_big_int 2 x))
    ((fun x -> Big_int_Z.succ_big_int (Big_int_Z.mult_int_big_int 2 x))
    ((fun x -> Big_int_Z.succ_big_int (Big_int_Z.mult_int_big_int 2 x))
    (Big_int_Z.mult_int_big_int 2
    ((fun x -> Big_int_Z.succ_big_int (Big_int_Z.mult_int_big_int 2 x))
    (Big_int_Z.mult_int_big_int 2
    ((fun x -> Big_int_Z.succ_big_int (Big_int_Z.mult_int_big_int 2 x))
    ((fun x -> Big_int_Z.succ_big_int (Big_int_Z.mult_int_big_int 2 x))
    Big_int_Z.unit_big_int)))))))))))))))),
    ((fun x -> Big_int_Z.succ_big_int (Big_int_Z.mult_int_big_int 2 x))
    ((fun x -> Big_int_Z.succ_big_int (Big_int_Z.mult_int_big_int 2 x))
    ((fun x -> Big_int_Z.succ_big_int (Big_int_Z.mult_int_big_int 2 x))
    ((fun x -> Big_int_Z.succ_big_int (Big_int_Z.mult_int_big_int 2 x))
    ((fun x -> Big_int_Z.succ_big_int (Big_int_Z.mult_int_big_int 2 x))
    ((fun x -> Big_int_Z.succ_big_int (Big_int_Z.mult_int_big_int 2 x))
    ((fun x -> Big_int_Z.succ_big_int (Big_int_Z.mult_int_big_int 2 x))
    ((fun x -> Big_int_Z.succ_big_int (Big_int_Z.mult_int_big_int 2 x))
    ((fun x -> Big_int_Z.succ_big_int (Big_int_Z.mult_int_big_int 2 x))
    ((fun x -> Big_int_Z.succ_big_int (Big_int_Z.mult_int_big_int 2 x))
    ((fun x -> Big_int_Z.succ_big_int (Big_int_Z.mult_int_big_int 2 x))
    (Big_int_Z.mult_int_big_int 2
    ((fun x -> Big_int_Z.succ_big_int (Big_int_Z.mult_int_big_int 2 x))
    (Big_int_Z.mult_int_big_int 2
    ((fun x -> Big_int_Z.succ_big_int (Big_int_Z.mult_int_big_int 2 x))
    ((fun x -> Big_int_Z.succ_big_int (Big_int_Z.mult_int_big_int 2 x))
    Big_int_Z.unit_big_int))))))))))))))))),
    Big_int_Z.zero_big_int) :: ((((Big_int_Z.mult_int_big_int 2
    (Big_int_Z.mult_int_big_int 2 (Big_int_Z.mult_int_big_int 2
    (Big_int_Z.mult_int_big_int 2 (Big_int_Z.mult_int_big_int 2
    (Big_int_Z.mult_int_big_int 2
    ((fun x -> Big_int_Z.succ_big_int (Big_int_Z.mult_int_big_int 2 x))
    (Big_int_Z.mult_int_big_int 2
    ((fun x -> Big_int_Z.succ_big_int (Big_int_Z.mult_int_big_int 2 x))
    (Big_int_Z.mult_int_big_int 2 (Big_int_Z.mult_int_big_int 2
    (Big_int_Z.mult_int_big_int 2 (Big_int_Z.mult_int_big_int 2
    ((fun x -> Big_int_Z.succ_big_int (Big_int_Z.mult_int_big_int 2 x))
    ((fun x -> Big_int_Z.succ_big_int (Big_int_Z.mult_int_big_int 2 x))
    ((fun x -> Big_int_Z.succ_big_int (Big_int_Z.mult_int_big_int 2 x))
    Big_int_Z.unit_big_int)))))))))))))))),
    ((fun x -> Big_int_Z.succ_big_int (Big_int_Z.mult_int_big_int 2 x))
    (Big_int_Z.mult_int_big_int 2 (Big_int_Z.mult_int_big_int 2
    ((fun x -> Big_int_Z.succ_big_int (Big_int_Z.mult_int_big_int 2 x))
    (Big_int_Z.mult_int_big_int 2 (Big_int_Z.mult_int_big_int 2
    ((fun x -> Big_int_Z.succ_big_int (Big_int_Z.mult_int_big_int 2 x))
    (Big_int_Z.mult_int_big_int 2
    ((fun x -> Big_int_Z.succ_big_int (Big_int_Z.mult_int_big_int 2 x))
    (Big_int_Z.mult_int_big_int 2 (Big_int_Z.mult_int_big_int 2
    (Big_int_Z.mult_int_big_int 2 (Big_int_Z.mult_int_big_int 2
    ((fun x -> Big_int_Z.succ_big_int (Big_int_Z.mult_int_big_int 2 x))
    ((fun x -> Big_int_Z.succ_big_int (Big_int_Z.mult_int_big_int 2 x))
    ((fun x -> Big_int_Z.succ_big_int (Big_int_Z.mult_int_big_int 2 x))
    Big_int_Z.unit_big_int))))))))))))))))),
    Big_int_Z.zero_big_int) :: ((((Big_int_Z.mult_int_big_int 2
    (Big_int_Z.mult_int_big_int 2 (Big_int_Z.mult_int_big_int 2
    (Big_int_Z.mult_int_big_int 2
    ((fun x -> Big_int_Z.succ_big_int (Big_int_Z.mult_int_big_int 2 x))
    ((fun x -> Big_int_Z.succ_big_int (Big_int_Z.mult_int_big_int 2 x))
    ((fun x -> Big_int_Z.succ_big_int (Big_int_Z.mult_int_big_int 2 x))
    ((fun x -> Big_int_Z.succ_big_int (Big_int_Z.mult_int_big_int 2 x))
    (Big_int_Z.mult_int_big_int 2
    ((fun x -> Big_int_Z.succ_big_int (Big_int_Z.mult_int_big_int 2 x))
    (Big_int_Z.mult_int_big_int 2 (Big_int_Z.mult_int_big_int 2
    (Big_int_Z.mult_int_big_int 2
    ((fun x -> Big_int_Z.succ_big_int (Big_int_Z.mult_int_big_int 2 x))
    ((fun x -> Big_int_Z.succ_big_int (Big_int_Z.mult_int_big_int 2 x))
    ((fun x -> Big_int_Z.succ_big_int (Big_int_Z.mult_int_big_int 2 x))
    Big_int_Z.unit_big_int)))))))))))))))),
    ((fun x -> Big_int_Z.succ_big_int (Big_int_Z.mult_int_big_int 2 x))
    (Big_int_Z.mult_int_big_int 2 (Big_int_Z.mult_int_big_int 2
    ((fun x -> Big_int_Z.succ_big_int (Big_int_Z.mult_int_big_int 2 x))
    ((fun x -> Big_int_Z.succ_big_int (Big_int_Z.mult_int_big_int 2 x))
    ((fun x -> Big_int_Z.succ_big_int (Big_int_Z.mult_int_big_int 2 x))
    ((fun x -> Big_int_Z.succ_big_int (Big_int_Z.mult_int_big_int 2 x))
    ((fun x -> Big_int_Z.succ_big_int (Big_int_Z.mult_int_big_int 2 x))
    (Big_int_Z.mult_int_big_int 2
    ((fun x -> Big_int_Z.succ_big_int (Big_int_Z.mult_int_big_int 2 x))
    (Big_int_Z.mult_int_big_int 2 (Big_int_Z.mult_int_big_int 2
    (Big_int_Z.mult_int_big_int 2
    ((fun x -> Big_int_Z.succ_big_int (Big_int_Z.mult_int_big_int 2 x))
    ((fun x -> Big_int_Z.succ_big_int (Big_int_Z.mult_int_big_int 2 x))
    ((fun x -> Big_int_Z.succ_big_int (Big_int_Z.mult_int_big_int 2 x))
    Big_int_Z.unit_big_int))))))))))))))))),
    Big_int_Z.zero_big_int) :: ((((Big_int_Z.mult_int_big_int 2
    (Big_int_Z.mult_int_big_int 2 (Big_int_Z.mult_int_big_int 2
    (Big_int_Z.mult_int_big_int 2
    ((fun x -> Big_int_Z.succ_big_int (Big_int_Z.mult_int_big_int 2 x))
    ((fun x -> Big_int_Z.succ_big_int (Big_int_Z.mult_int_big_int 2 x))
    ((fun x -> Big_int_Z.succ_big_int (Big_int_Z.mult_int_big_int 2 x))
    ((fun x -> Big_int_Z.succ_big_int (Big_int_Z.mult_int_big_int 2 x))
    (Big_int_Z.mult_int_big_int 2 (Big_int_Z.mult_int_big_int 2
    ((fun x -> Big_int_Z.succ_big_int (Big_int_Z.mult_int_big_int 2 x))
    (Big_int_Z.mult_int_big_int 2 (Big_int_Z.mult_int_big_int 2
    ((fun x -> Big_int_Z.succ_big_int (Big_int_Z.mult_int_big_int 2 x))
    ((fun x -> Big_int_Z.succ_big_int (Big_int_Z.mult_int_big_int 2 x))
    ((fun x -> Big_int_Z.succ_big_int (Big_int_Z.mult_int_big_int 2 x))
    Big_int_Z.unit_big_int)))))))))))))))),
    ((fun x -> Big_int_Z.succ_big_int (Big_int_Z.mult_int_big_int 2 x))
    (Big_int_Z.mult_int_big_int 2 (Big_int_Z.mult_int_big_int 2
    ((fun x -> Big_int_Z.succ_big_int (Big_int_Z.mult_int_big_int 2 x))
    ((fun x -> Big_int_Z.succ_big_int (Big_int_Z.mult_int_big_int 2 x))
    ((fun x -> Big_int_Z.succ_big_int (Big_int_Z.mult_int_big_int 2 x))
    ((fun x -> Big_int_Z.succ_big_int (Big_int_Z.mult_int_big_int 2 x))
    ((fun x -> Big_int_Z.succ_big_int (Big_int_Z.mult_int_big_int 2 x))
    (Big_int_Z.mult_int_big_int 2 (Big_int_Z.mult_int_big_int 2
    ((fun x -> Big_int_Z.succ_big_int (Big_int_Z.mult_int_big_int 2 x))
    (Big_int_Z.mult_int_big_int 2 (Big_int_Z.mult_int_big_int 2
    ((fun x -> Big_int_Z.succ_big_int (Big_int_Z.mult_int_big_int 2 x))
    ((fun x -> Big_int_Z.succ_big_int (Big_int_Z.mult_int_big_int 2 x))
    ((fun x -> Big_int_Z.succ_big_int (Big_int_Z.mult_int_big_int 2 x))
    Big_int_Z.unit_big_int))))))))))))))))),
    Big_int_Z.zero_big_int) :: ((((Big_int_Z.mult_int_big_int 2
    (Big_int_Z.mult_int_big_int 2 (Big_int_Z.mult_int_big_int 2
    (Big_int_Z.mult_int_big_int 2
    ((fun x -> Big_int_Z.succ_big_int (Big_int_Z.mult_int_big_int 2 x))
    (Big_int_Z.mult_int_big_int 2
    ((fun x -> Big_int_Z.succ_big_int (Big_int_Z.mult_int_big_int 2 x))
    (Big_int_Z.mult_int_big_int 2
    ((fun x -> Big_int_Z.succ_big_int (Big_int_Z.mult_int_big_int 2 x))
    (Big_int_Z.mult_int_big_int 2 (Big_int_Z.mult_int_big_int 2
    ((fun x -> Big_int_Z.succ_big_int (Big_int_Z.mult_int_big_int 2 x))
    (Big_int_Z.mult_int_big_int 2
    ((fun x -> Big_int_Z.succ_big_int (Big_int_Z.mult_int_big_int 2 x))
    ((fun x -> Big_int_Z.succ_big_int (Big_int_Z.mult_int_big_int 2 x))
    ((fun x -> Big_int_Z.succ_big_int (Big_int_Z.mult_int_big_int 2 x))
    Big_int_Z.unit_big_int)))))))))))))))),
    ((fun x -> Big_int_Z.succ_big_int (Big_int_Z.mult_int_big_int 2 x))
    (Big_int_Z.mult_int_big_int 2 (Big_int_Z.mult_int_big_int 2
    ((fun x -> Big_int_Z.succ_big_int (Big_int_Z.mult_int_big_int 2 x))
    ((fun x -> Big_int_Z.succ_big_int (Big_int_Z.mult_int_big_int 2 x))
    (Big_int_Z.mult_int_big_int 2
    ((fun x -> Big_int_Z.succ_big_int (Big_int_Z.mult_int_big_int 2 x))
    (Big_int_Z.mult_int_big_int 2
    ((fun x -> Big_int_Z.succ_big_int (Big_int_Z.mult_int_big_int 2 x))
    (Big_int_Z.mult_int_big_int 2 (Big_int_Z.mult_int_big_int 2
    ((fun x -> Big_int_Z.succ_big_int (Big_int_Z.mult_int_big_int 2 x))
    (Big_int_Z.mult_int_big_int 2
    ((fun x -> Big_int_Z.succ_big_int (Big_int_Z.mult_int_big_int 2 x))
    ((fun x -> Big_int_Z.succ_big_int (Big_int_Z.mult_int_big_int 2 x))
    ((fun x -> Big_int_Z.succ_big_int (Big_int_Z.mult_int_big_int 2 x))
    Big_int_Z.unit_big_int))))))))))))))))),
    Big_int_Z.zero_big_int) :: ((((Big_int_Z.mult_int_big_int 2
    (Big_int_Z.mult_int_big_int 2 (Big_int_Z.mult_int_big_int 2
    (Big_int_Z.mult_int_big_int 2
    ((fun x -> Big_int_Z.succ_big_int (Big_int_Z.mult_int_big_int 2 x))
    ((fun x -> Big_int_Z.succ_big_int (Big_int_Z.mult_int_big_int 2 x))
    ((fun x -> Big_int_Z.succ_big_int (Big_int_Z.mult_int_big_int 2 x))
    ((fun x -> Big_int_Z.succ_big_int (Big_int_Z.mult_int_big_int 2 x))
    ((fun x -> Big_int_Z.succ_big_int (Big_int_Z.mult_int_big_int 2 x))
    ((fun x -> Big_int_Z.succ_big_int (Big_int_Z.mult_int_big_int 2 x))
    (Big_int_Z.mult_int_big_int 2
    ((fun x -> Big_int_Z.succ_big_int (Big_int_Z.mult_int_big_int 2 x))
    ((fun x -> Big_int_Z.succ_big_int (Big_int_Z.mult_int_big_int 2 x))
    ((fun x -> Big_int_Z.succ_big_int (Big_int_Z.mult_int_big_int 2 x))
    ((fun x -> Big_int_Z.succ_big_int (Big_int_Z.mult_int_big_int 2 x))
    ((fun x -> Big_int_Z.succ_big_int (Big_int_Z.mult_int_big_int 2 x))
    Big_int_Z.unit_big_int)))))))))))))))),
    ((fun x -> Big_int_Z.succ_big_int (Big_int_Z.mult_int_big_int 2 x))
    (Big_int_Z.mult_int_big_int 2 (Big_int_Z.mult_int_big_int 2
    ((fun x -> Big_int_Z.succ_big_int (Big_int_Z.mult_int_big_int 2 x))
    ((fun x -> Big_int_Z.succ_big_int (Big_int_Z.mult_int_big_int 2 x))
    ((fun x -> Big_int_Z.succ_big_int (Big_int_Z.mult_int_big_int 2 x))
    ((fun x -> Big_int_Z.succ_big_int (Big_int_Z.mult_int_big_int 2 x))
    ((fun x -> Big_int_Z.succ_big_int (Big_int_Z.mult_int_big_int 2 x))
    ((fun x -> Big_int_Z.succ_big_int (Big_int_Z.mult_int_big_int 2 x))
    ((fun x -> Big_int_Z.succ_big_int (Big_int_Z.mult_int_big_int 2 x))
    (Big_int_Z.mult_int_big_int 2
    ((fun x -> Big_int_Z.succ_big_int (Big_int_Z.mult_int_big_int 2 x))
    ((fun x -> Big_int_Z.succ_big_int (Big_int_Z.mult_int_big_int 2 x))
    ((fun x -> Big_int_Z.succ_big_int (Big_int_Z.mult_int_big_int 2 x))
    ((fun x -> Big_int_Z.succ_big_int (Big_int_Z.mult_int_big_int 2 x))
    ((fun x -> Big_int_Z.succ_big_int (Big_int_Z.mult_int_big_int 2 x))
    Big_int_Z.unit_big_int))))))))))))))))),
    Big_int_Z.zero_big_int) :: [])))))))))))))))))))))))))))))))))))))))))))))))))))))))))))))))))))

(** val int_max_str_digits : Big_int_Z.big_int **)

let int_max_str_digits =
  (Big_int_Z.mult_int_big_int 2 (Big_int_Z.mult_int_big_int 2
    ((fun x -> Big_int_Z.succ_big_int (Big_int_Z.mult_int_big_int 2 x))
    ((fun x -> Big_int_Z.succ_big_int (Big_int_Z.mult_int_big_int 2 x))
    (Big_int_Z.mult_int_big_int 2 (Big_int_Z.mult_int_big_int 2
    ((fun x -> Big_int_Z.succ_big_int (Big_int_Z.mult_int_big_int 2 x))
    ((fun x -> Big_int_Z.succ_big_int (Big_int_Z.mult_int_big_int 2 x))
    (Big_int_Z.mult_int_big_int 2 (Big_int_Z.mult_int_big_int 2
    (Big_int_Z.mult_int_big_int 2 (Big_int_Z.mult_int_big_int 2
    Big_int_Z.unit_big_int))))))))))))

type ustr = Big_int_Z.big_int list

(** val in_ranges :
    Big_int_Z.big_int -> (Big_int_Z.big_int * Big_int_Z.big_int) list -> bool **)

let rec in_ranges c = function
| [] -> false
| p :: t0 ->
  let (lo, hi) = p in
  if (&&) (Z.leb lo c) (Z.leb c hi) then true else in_ranges c t0

(** val digit_in :
    Big_int_Z.big_int ->
    ((Big_int_Z.big_int * Big_int_Z.big_int) * Big_int_Z.big_int) list ->
    Big_int_Z.big_int option **)

let rec digit_in c = function
| [] -> None
| p :: t0 ->
  let (p0, v2) = p in
  let (lo, hi) = p0 in
  if (&&) (Z.leb lo c) (Z.leb c hi)
  then Some (Z.add v2 (Z.sub c lo))
  else digit_in c t0

(** val is_space : Big_int_Z.big_int -> bool **)

let is_space c =
  in_ranges c space_ranges

(** val is_linebreak : Big_int_Z.big_int -> bool **)

let is_linebreak c =
  in_ranges c linebreak_ranges

(** val digit_value : Big_int_Z.big_int -> Big_int_Z.big_int option **)

let digit_value c =
  digit_in c digit_ranges

(** val is_digit : Big_int_Z.big_int -> bool **)

let is_digit c =
  match digit_value c with
  | Some _ -> true
  | None -> false

(** val ustr_eqb : ustr -> ustr -> bool **)

let rec ustr_eqb a b =
  match a with
  | [] -> (match b with
           | [] -> true
           | _ :: _ -> false)
  | x :: a' ->
    (match b with
     | [] -> false
     | y :: b' -> (&&) (Z.eqb x y) (ustr_eqb a' b'))

(** val starts_with : ustr -> ustr -> bool **)

let rec starts_with p s =
  match p with
  | [] -> true
  | x :: p' ->
    (match s with
     | [] -> false
     | y :: s' -> (&&) (Z.eqb x y) (starts_with p' s'))

(** val ends_with : ustr -> ustr -> bool **)

let ends_with p s =
  starts_with (rev0 p) (rev0 s)

(** val lstrip_c : Big_int_Z.big_int -> ustr -> ustr **)

let rec lstrip_c c s = match s with
| [] -> []
| x :: t0 -> if Z.eqb x c then lstrip_c c t0 else s

(** val rstrip_c : Big_int_Z.big_int -> ustr -> ustr **)

let rstrip_c c s =
  rev0 (lstrip_c c (rev0 s))

(** val strip_c : Big_int_Z.big_int -> ustr -> ustr **)

let strip_c c s =
  rstrip_c c (lstrip_c c s)

(** val split_on_aux : Big_int_Z.big_int -> ustr -> ustr -> ustr list **)

let rec split_on_aux c s cur =
  match s with
  | [] -> (rev0 cur) :: []
  | x :: t0 ->
    if Z.eqb x c
    then (rev0 cur) :: (split_on_aux c t0 [])
    else split_on_aux c t0 (x :: cur)

(** val split_on : Big_int_Z.big_int -> ustr -> ustr list **)

let split_on c s =
  split_on_aux c s []

(** val flush : ustr -> ustr list **)

let flush cur = match cur with
| [] -> []
| _ :: _ -> (rev0 cur) :: []

(** val split_ws_aux : ustr -> ustr -> ustr list **)

let rec split_ws_aux s cur =
  match s with
  | [] -> flush cur
  | c :: t0 ->
    if is_space c
    then app (flush cur) (split_ws_aux t0 [])
    else split_ws_aux t0 (c :: cur)

(** val split_ws : ustr -> ustr list **)

let split_ws s =
  split_ws_aux s []

(** val splitlines_aux : ustr -> ustr -> ustr list **)

let rec splitlines_aux s cur =
  match s with
  | [] -> flush cur
  | c :: t0 ->
    if is_linebreak c
    then (rev0 cur) :: (match t0 with
                        | [] -> []
                        | d :: t' ->
                          if (&&)
                               (Z.eqb c
                                 ((fun x -> Big_int_Z.succ_big_int (Big_int_Z.mult_int_big_int 2 x))
                                 (Big_int_Z.mult_int_big_int 2
                                 ((fun x -> Big_int_Z.succ_big_int (Big_int_Z.mult_int_big_int 2 x))
                                 Big_int_Z.unit_big_int))))
                               (Z.eqb d (Big_int_Z.mult_int_big_int 2
                                 ((fun x -> Big_int_Z.succ_big_int (Big_int_Z.mult_int_big_int 2 x))
                                 (Big_int_Z.mult_int_big_int 2
                                 Big_int_Z.unit_big_int))))
                          then splitlines_aux t' []
                          else splitlines_aux t0 [])
    else splitlines_aux t0 (c :: cur)

(** val splitlines : ustr -> ustr list **)

let splitlines s =
  splitlines_aux s []

(** val cQUOTE : Big_int_Z.big_int **)

let cQUOTE =
  (Big_int_Z.mult_int_big_int 2
    ((fun x -> Big_int_Z.succ_big_int (Big_int_Z.mult_int_big_int 2 x))
    (Big_int_Z.mult_int_big_int 2 (Big_int_Z.mult_int_big_int 2
    (Big_int_Z.mult_int_big_int 2 Big_int_Z.unit_big_int)))))

(** val cHASH : Big_int_Z.big_int **)

let cHASH =
  ((fun x -> Big_int_Z.succ_big_int (Big_int_Z.mult_int_big_int 2 x))
    ((fun x -> Big_int_Z.succ_big_int (Big_int_Z.mult_int_big_int 2 x))
    (Big_int_Z.mult_int_big_int 2 (Big_int_Z.mult_int_big_int 2
    (Big_int_Z.mult_int_big_int 2 Big_int_Z.unit_big_int)))))

(** val cLPAR : Big_int_Z.big_int **)

let cLPAR =
  (Big_int_Z.mult_int_big_int 2 (Big_int_Z.mult_int_big_int 2
    (Big_int_Z.mult_int_big_int 2
    ((fun x -> Big_int_Z.succ_big_int (Big_int_Z.mult_int_big_int 2 x))
    (Big_int_Z.mult_int_big_int 2 Big_int_Z.unit_big_int)))))

(** val cRPAR : Big_int_Z.big_int **)

let cRPAR =
  ((fun x -> Big_int_Z.succ_big_int (Big_int_Z.mult_int_big_int 2 x))
    (Big_int_Z.mult_int_big_int 2 (Big_int_Z.mult_int_big_int 2
    ((fun x -> Big_int_Z.succ_big_int (Big_int_Z.mult_int_big_int 2 x))
    (Big_int_Z.mult_int_big_int 2 Big_int_Z.unit_big_int)))))

(** val cSTAR : Big_int_Z.big_int **)

let cSTAR =
  (Big_int_Z.mult_int_big_int 2
    ((fun x -> Big_int_Z.succ_big_int (Big_int_Z.mult_int_big_int 2 x))
    (Big_int_Z.mult_int_big_int 2
    ((fun x -> Big_int_Z.succ_big_int (Big_int_Z.mult_int_big_int 2 x))
    (Big_int_Z.mult_int_big_int 2 Big_int_Z.unit_big_int)))))

(** val cMINUS : Big_int_Z.big_int **)

let cMINUS =
  ((fun x -> Big_int_Z.succ_big_int (Big_int_Z.mult_int_big_int 2 x))
    (Big_int_Z.mult_int_big_int 2
    ((fun x -> Big_int_Z.succ_big_int (Big_int_Z.mult_int_big_int 2 x))
    ((fun x -> Big_int_Z.succ_big_int (Big_int_Z.mult_int_big_int 2 x))
    (Big_int_Z.mult_int_big_int 2 Big_int_Z.unit_big_int)))))

(** val cSLASH : Big_int_Z.big_int **)

let cSLASH =
  ((fun x -> Big_int_Z.succ_big_int (Big_int_Z.mult_int_big_int 2 x))
    ((fun x -> Big_int_Z.succ_big_int (Big_int_Z.mult_int_big_int 2 x))
    ((fun x -> Big_int_Z.succ_big_int (Big_int_Z.mult_int_big_int 2 x))
    ((fun x -> Big_int_Z.succ_big_int (Big_int_Z.mult_int_big_int 2 x))
    (Big_int_Z.mult_int_big_int 2 Big_int_Z.unit_big_int)))))

(** val cZERO : Big_int_Z.big_int **)

let cZERO =
  (Big_int_Z.mult_int_big_int 2 (Big_int_Z.mult_int_big_int 2
    (Big_int_Z.mult_int_big_int 2 (Big_int_Z.mult_int_big_int 2
    ((fun x -> Big_int_Z.succ_big_int (Big_int_Z.mult_int_big_int 2 x))
    Big_int_Z.unit_big_int)))))

(** val cEQ : Big_int_Z.big_int **)

let cEQ =
  ((fun x -> Big_int_Z.succ_big_int (Big_int_Z.mult_int_big_int 2 x))
    (Big_int_Z.mult_int_big_int 2
    ((fun x -> Big_int_Z.succ_big_int (Big_int_Z.mult_int_big_int 2 x))
    ((fun x -> Big_int_Z.succ_big_int (Big_int_Z.mult_int_big_int 2 x))
    ((fun x -> Big_int_Z.succ_big_int (Big_int_Z.mult_int_big_int 2 x))
    Big_int_Z.unit_big_int)))))

(** val cLBRK : Big_int_Z.big_int **)

let cLBRK =
  ((fun x -> Big_int_Z.succ_big_int (Big_int_Z.mult_int_big_int 2 x))
    ((fun x -> Big_int_Z.succ_big_int (Big_int_Z.mult_int_big_int 2 x))
    (Big_int_Z.mult_int_big_int 2
    ((fun x -> Big_int_Z.succ_big_int (Big_int_Z.mult_int_big_int 2 x))
    ((fun x -> Big_int_Z.succ_big_int (Big_int_Z.mult_int_big_int 2 x))
    (Big_int_Z.mult_int_big_int 2 Big_int_Z.unit_big_int))))))

(** val cRBRK : Big_int_Z.big_int **)

let cRBRK =
  ((fun x -> Big_int_Z.succ_big_int (Big_int_Z.mult_int_big_int 2 x))
    (Big_int_Z.mult_int_big_int 2
    ((fun x -> Big_int_Z.succ_big_int (Big_int_Z.mult_int_big_int 2 x))
    ((fun x -> Big_int_Z.succ_big_int (Big_int_Z.mult_int_big_int 2 x))
    ((fun x -> Big_int_Z.succ_big_int (Big_int_Z.mult_int_big_int 2 x))
    (Big_int_Z.mult_int_big_int 2 Big_int_Z.unit_big_int))))))

(** val cSP : Big_int_Z.big_int **)

let cSP =
  (Big_int_Z.mult_int_big_int 2 (Big_int_Z.mult_int_big_int 2
    (Big_int_Z.mult_int_big_int 2 (Big_int_Z.mult_int_big_int 2
    (Big_int_Z.mult_int_big_int 2 Big_int_Z.unit_big_int)))))

(** val all_digits : ustr -> bool **)

let all_digits s = match s with
| [] -> false
| _ :: _ -> forallb is_digit s

(** val is_sdigits : ustr -> bool **)

let is_sdigits s = match s with
| [] -> false
| c :: r -> if Z.eqb c cMINUS then all_digits r else all_digits s

(** val digit_or0 : Big_int_Z.big_int -> Big_int_Z.big_int **)

let digit_or0 c =
  match digit_value c with
  | Some v -> v
  | None -> Big_int_Z.zero_big_int

(** val int_of_digits : ustr -> Big_int_Z.big_int **)

let int_of_digits s =
  fold_left (fun acc c ->
    Z.add
      (Z.mul acc (Big_int_Z.mult_int_big_int 2
        ((fun x -> Big_int_Z.succ_big_int (Big_int_Z.mult_int_big_int 2 x))
        (Big_int_Z.mult_int_big_int 2 Big_int_Z.unit_big_int)))) (digit_or0 c))
    s Big_int_Z.zero_big_int

(** val py_int : ustr -> Big_int_Z.big_int res **)

let py_int s = match s with
| [] ->
  let neg = false in
  if Z.ltb int_max_str_digits (Z.of_nat (length s))
  then Raise ValueError
  else Ok (if neg then Z.opp (int_of_digits s) else int_of_digits s)
| c :: r ->
  if Z.eqb c cMINUS
  then let neg = true in
       if Z.ltb int_max_str_digits (Z.of_nat (length r))
       then Raise ValueError
       else Ok (if neg then Z.opp (int_of_digits r) else int_of_digits r)
  else let neg = false in
       if Z.ltb int_max_str_digits (Z.of_nat (length s))
       then Raise ValueError
       else Ok (if neg then Z.opp (int_of_digits s) else int_of_digits s)

(** val p_int : ustr -> Big_int_Z.big_int res **)

let p_int s =
  match py_int s with
  | Ok a -> Ok a
  | Raise e ->
    (match e with
     | ValueError -> Raise ElectionProfileError
     | x -> Raise x)

(** val zmem : Big_int_Z.big_int -> Big_int_Z.big_int list -> bool **)

let rec zmem c = function
| [] -> false
| x :: t0 -> if Z.eqb x c then true else zmem c t0

(** val zset_add :
    Big_int_Z.big_int -> Big_int_Z.big_int list -> Big_int_Z.big_int list **)

let rec zset_add c l = match l with
| [] -> c :: []
| x :: t0 ->
  if Z.ltb c x then c :: l else if Z.eqb c x then l else x :: (zset_add c t0)

(** val zmap_set :
    Big_int_Z.big_int -> 'a1 -> (Big_int_Z.big_int * 'a1) list ->
    (Big_int_Z.big_int * 'a1) list **)

let rec zmap_set k v l = match l with
| [] -> (k, v) :: []
| p :: t0 ->
  let (k', v') = p in
  if Z.ltb k k'
  then (k, v) :: l
  else if Z.eqb k k' then (k, v) :: t0 else (k', v') :: (zmap_set k v t0)

(** val smap_get :
    ustr -> (ustr * Big_int_Z.big_int) list -> Big_int_Z.big_int option **)

let rec smap_get k = function
| [] -> None
| p :: t0 ->
  let (k', v) = p in if ustr_eqb k' k then Some v else smap_get k t0

(** val smem : ustr -> ustr list -> bool **)

let rec smem k = function
| [] -> false
| x :: t0 -> if ustr_eqb x k then true else smem k t0

(** val has_dup : Big_int_Z.big_int list -> bool **)

let rec has_dup = function
| [] -> false
| x :: t0 -> if zmem x t0 then true else has_dup t0

type tk_act =
| TYield
| TSkip
| TBreak

(** val tok_step :
    ustr -> Big_int_Z.big_int -> bool -> (tk_act * Big_int_Z.big_int) * bool **)

let tok_step t0 ic iq =
  let iq1 =
    if (&&) (Z.eqb ic Big_int_Z.zero_big_int) (starts_with (cQUOTE :: []) t0)
    then true
    else iq
  in
  if (&&) iq1 (ends_with (cQUOTE :: []) t0)
  then ((TYield, ic), false)
  else let ic1 =
         if (&&) (negb iq1) (starts_with (cSLASH :: (cSTAR :: [])) t0)
         then Z.add ic Big_int_Z.unit_big_int
         else ic
       in
       if negb (Z.eqb ic1 Big_int_Z.zero_big_int)
       then ((TSkip,
              (if ends_with (cSTAR :: (cSLASH :: [])) t0
               then Z.sub ic1 Big_int_Z.unit_big_int
               else ic1)), iq1)
       else if (&&) (negb iq1) (starts_with (cHASH :: []) t0)
            then ((TBreak, ic1), iq1)
            else ((TYield, ic1), iq1)

(** val tok_line :
    ustr list -> Big_int_Z.big_int -> bool -> (ustr
    list * Big_int_Z.big_int) * bool **)

let rec tok_line toks ic iq =
  match toks with
  | [] -> (([], ic), iq)
  | t0 :: rest ->
    let (p, iq') = tok_step t0 ic iq in
    let (t1, ic') = p in
    (match t1 with
     | TYield ->
       let (p0, iq'') = tok_line rest ic' iq' in
       let (out, ic'') = p0 in (((t0 :: out), ic''), iq'')
     | TSkip -> tok_line rest ic' iq'
     | TBreak -> (([], ic'), iq'))

(** val tok_lines : ustr list -> Big_int_Z.big_int -> bool -> ustr list **)

let rec tok_lines lines ic iq =
  match lines with
  | [] -> []
  | l :: ls ->
    let (p, iq') = tok_line (split_ws l) ic iq in
    let (out, ic') = p in app out (tok_lines ls ic' iq')

(** val tokenize : ustr -> ustr list **)

let tokenize text =
  tok_lines (splitlines text) Big_int_Z.zero_big_int false

type 'a pres =
| POk of 'a
| PStop
| PRaise of exn

(** val pbind : 'a1 pres -> ('a1 -> 'a2 pres) -> 'a2 pres **)

let pbind r f =
  match r with
  | POk a -> f a
  | PStop -> PStop
  | PRaise e -> PRaise e

(** val lift : 'a1 res -> 'a1 pres **)

let lift = function
| Ok a -> POk a
| Raise e -> PRaise e

(** val ePE : 'a1 pres **)

let ePE =
  PRaise ElectionProfileError

type pst = { s_nCand : Big_int_Z.big_int; s_nSeats : Big_int_Z.big_int;
             s_withdrawn : Big_int_Z.big_int list;
             s_undeclared : Big_int_Z.big_int list;
             s_tieOrder : (Big_int_Z.big_int * Big_int_Z.big_int) list;
             s_nickName : (Big_int_Z.big_int * ustr) list;
             s_nickCid : (ustr * Big_int_Z.big_int) list;
             s_options : ustr list; s_nBallots : Big_int_Z.big_int;
             s_lines : (Big_int_Z.big_int * Big_int_Z.big_int list) list;
             s_linesEq : (Big_int_Z.big_int * Big_int_Z.big_int list list)
                         list; s_ballotIDs : ustr list }

(** val init_pst : Big_int_Z.big_int -> Big_int_Z.big_int -> pst **)

let init_pst nc ns =
  { s_nCand = nc; s_nSeats = ns; s_withdrawn = []; s_undeclared = [];
    s_tieOrder = []; s_nickName = []; s_nickCid = []; s_options = [];
    s_nBallots = Big_int_Z.zero_big_int; s_lines = []; s_linesEq = [];
    s_ballotIDs = [] }

(** val set_withdrawn : pst -> Big_int_Z.big_int list -> pst **)

let set_withdrawn st w =
  { s_nCand = st.s_nCand; s_nSeats = st.s_nSeats; s_withdrawn = w;
    s_undeclared = st.s_undeclared; s_tieOrder = st.s_tieOrder; s_nickName =
    st.s_nickName; s_nickCid = st.s_nickCid; s_options = st.s_options;
    s_nBallots = st.s_nBallots; s_lines = st.s_lines; s_linesEq =
    st.s_linesEq; s_ballotIDs = st.s_ballotIDs }

(** val set_undeclared : pst -> Big_int_Z.big_int list -> pst **)

let set_undeclared st u =
  { s_nCand = st.s_nCand; s_nSeats = st.s_nSeats; s_withdrawn =
    st.s_withdrawn; s_undeclared = u; s_tieOrder = st.s_tieOrder;
    s_nickName = st.s_nickName; s_nickCid = st.s_nickCid; s_options =
    st.s_options; s_nBallots = st.s_nBallots; s_lines = st.s_lines;
    s_linesEq = st.s_linesEq; s_ballotIDs = st.s_ballotIDs }

(** val set_tie :
    pst -> (Big_int_Z.big_int * Big_int_Z.big_int) list -> pst **)

let set_tie st t0 =
  { s_nCand = st.s_nCand; s_nSeats = st.s_nSeats; s_withdrawn =
    st.s_withdrawn; s_undeclared = st.s_undeclared; s_tieOrder = t0;
    s_nickName = st.s_nickName; s_nickCid = st.s_nickCid; s_options =
    st.s_options; s_nBallots = st.s_nBallots; s_lines = st.s_lines;
    s_linesEq = st.s_linesEq; s_ballotIDs = st.s_ballotIDs }

(** val set_nick :
    pst -> (Big_int_Z.big_int * ustr) list -> (ustr * Big_int_Z.big_int) list
    -> pst **)

let set_nick st nn nc =
  { s_nCand = st.s_nCand; s_nSeats = st.s_nSeats; s_withdrawn =
    st.s_withdrawn; s_undeclared = st.s_undeclared; s_tieOrder =
    st.s_tieOrder; s_nickName = nn; s_nickCid = nc; s_options = st.s_options;
    s_nBallots = st.s_nBallots; s_lines = st.s_lines; s_linesEq =
    st.s_linesEq; s_ballotIDs = st.s_ballotIDs }

(** val set_options : pst -> ustr list -> pst **)

let set_options st o =
  { s_nCand = st.s_nCand; s_nSeats = st.s_nSeats; s_withdrawn =
    st.s_withdrawn; s_undeclared = st.s_undeclared; s_tieOrder =
    st.s_tieOrder; s_nickName = st.s_nickName; s_nickCid = st.s_nickCid;
    s_options = o; s_nBallots = st.s_nBallots; s_lines = st.s_lines;
    s_linesEq = st.s_linesEq; s_ballotIDs = st.s_ballotIDs }

(** val add_line :
    pst -> Big_int_Z.big_int -> Big_int_Z.big_int list -> pst **)

let add_line st m r =
  { s_nCand = st.s_nCand; s_nSeats = st.s_nSeats; s_withdrawn =
    st.s_withdrawn; s_undeclared = st.s_undeclared; s_tieOrder =
    st.s_tieOrder; s_nickName = st.s_nickName; s_nickCid = st.s_nickCid;
    s_options = st.s_options; s_nBallots = (Z.add st.s_nBallots m); s_lines =
    (app st.s_lines ((m, r) :: [])); s_linesEq = st.s_linesEq; s_ballotIDs =
    st.s_ballotIDs }

(** val add_lineEq :
    pst -> Big_int_Z.big_int -> Big_int_Z.big_int list list -> pst **)

let add_lineEq st m r =
  { s_nCand = st.s_nCand; s_nSeats = st.s_nSeats; s_withdrawn =
    st.s_withdrawn; s_undeclared = st.s_undeclared; s_tieOrder =
    st.s_tieOrder; s_nickName = st.s_nickName; s_nickCid = st.s_nickCid;
    s_options = st.s_options; s_nBallots = (Z.add st.s_nBallots m); s_lines =
    st.s_lines; s_linesEq = (app st.s_linesEq ((m, r) :: [])); s_ballotIDs =
    st.s_ballotIDs }

(** val add_ballotID : pst -> ustr -> pst **)

let add_ballotID st b =
  { s_nCand = st.s_nCand; s_nSeats = st.s_nSeats; s_withdrawn =
    st.s_withdrawn; s_undeclared = st.s_undeclared; s_tieOrder =
    st.s_tieOrder; s_nickName = st.s_nickName; s_nickCid = st.s_nickCid;
    s_options = st.s_options; s_nBallots = st.s_nBallots; s_lines =
    st.s_lines; s_linesEq = st.s_linesEq; s_ballotIDs =
    (b :: st.s_ballotIDs) }

(** val getCid : pst -> ustr -> Big_int_Z.big_int res **)

let getCid st nick =
  if all_digits nick
  then bind (p_int nick) (fun n0 ->
         if (&&) (Z.ltb Big_int_Z.zero_big_int n0) (Z.leb n0 st.s_nCand)
         then Ok n0
         else Raise ElectionProfileError)
  else (match st.s_nickCid with
        | [] -> Raise ElectionProfileError
        | _ :: _ ->
          (match smap_get nick st.s_nickCid with
           | Some c -> Ok c
           | None -> Raise ElectionProfileError))

(** val map_res : ('a1 -> 'a2 res) -> 'a1 list -> 'a2 list res **)

let rec map_res f = function
| [] -> Ok []
| x :: t0 ->
  bind (f x) (fun y -> bind (map_res f t0) (fun ys -> Ok (y :: ys)))

(** val tie_loop :
    pst -> ustr list -> Big_int_Z.big_int ->
    (Big_int_Z.big_int * Big_int_Z.big_int) list ->
    (Big_int_Z.big_int * Big_int_Z.big_int) list res **)

let rec tie_loop st l o acc =
  match l with
  | [] -> Ok acc
  | t0 :: rest ->
    bind (getCid st t0) (fun cid0 ->
      tie_loop st rest (Z.add o Big_int_Z.unit_big_int)
        (zmap_set cid0 (Z.add o Big_int_Z.unit_big_int) acc))

(** val option_tie : pst -> ustr list -> pst res **)

let option_tie st l =
  bind (tie_loop st l Big_int_Z.zero_big_int []) (fun acc ->
    if Z.eqb (Z.of_nat (length acc)) st.s_nCand
    then Ok (set_tie st acc)
    else Raise ElectionProfileError)

(** val nick_loop :
    ustr list -> Big_int_Z.big_int -> (Big_int_Z.big_int * ustr) list ->
    (ustr * Big_int_Z.big_int) list -> ((Big_int_Z.big_int * ustr)
    list * (ustr * Big_int_Z.big_int) list) res **)

let rec nick_loop l cid0 nn nc =
  match l with
  | [] -> Ok (nn, nc)
  | nick :: rest ->
    (match smap_get nick nc with
     | Some _ -> Raise ElectionProfileError
     | None ->
       nick_loop rest (Z.add cid0 Big_int_Z.unit_big_int)
         (app nn (((Z.add cid0 Big_int_Z.unit_big_int), nick) :: [])) ((nick,
         (Z.add cid0 Big_int_Z.unit_big_int)) :: nc))

(** val option_nick : pst -> ustr list -> pst res **)

let option_nick st l =
  if negb (Z.eqb (Z.of_nat (length l)) st.s_nCand)
  then Raise ElectionProfileError
  else bind (nick_loop l Big_int_Z.zero_big_int [] []) (fun x ->
         let (nn, nc) = x in Ok (set_nick st nn nc))

(** val cidset_loop :
    pst -> ustr list -> Big_int_Z.big_int list -> Big_int_Z.big_int list res **)

let rec cidset_loop st l acc =
  match l with
  | [] -> Ok acc
  | t0 :: rest ->
    bind (getCid st t0) (fun cid0 ->
      if zmem cid0 acc
      then Raise ElectionProfileError
      else cidset_loop st rest (zset_add cid0 acc))

(** val s_tie : Big_int_Z.big_int list **)

let s_tie =
  (Big_int_Z.mult_int_big_int 2 (Big_int_Z.mult_int_big_int 2
    ((fun x -> Big_int_Z.succ_big_int (Big_int_Z.mult_int_big_int 2 x))
    (Big_int_Z.mult_int_big_int 2
    ((fun x -> Big_int_Z.succ_big_int (Big_int_Z.mult_int_big_int 2 x))
    ((fun x -> Big_int_Z.succ_big_int (Big_int_Z.mult_int_big_int 2 x))
    Big_int_Z.unit_big_int)))))) :: (((fun x -> Big_int_Z.succ_big_int (Big_int_Z.mult_int_big_int 2 x))
    (Big_int_Z.mult_int_big_int 2 (Big_int_Z.mult_int_big_int 2
    ((fun x -> Big_int_Z.succ_big_int (Big_int_Z.mult_int_big_int 2 x))
    (Big_int_Z.mult_int_big_int 2
    ((fun x -> Big_int_Z.succ_big_int (Big_int_Z.mult_int_big_int 2 x))
    Big_int_Z.unit_big_int)))))) :: (((fun x -> Big_int_Z.succ_big_int (Big_int_Z.mult_int_big_int 2 x))
    (Big_int_Z.mult_int_big_int 2
    ((fun x -> Big_int_Z.succ_big_int (Big_int_Z.mult_int_big_int 2 x))
    (Big_int_Z.mult_int_big_int 2 (Big_int_Z.mult_int_big_int 2
    ((fun x -> Big_int_Z.succ_big_int (Big_int_Z.mult_int_big_int 2 x))
    Big_int_Z.unit_big_int)))))) :: []))

(** val s_nick : Big_int_Z.big_int list **)

let s_nick =
  (Big_int_Z.mult_int_big_int 2
    ((fun x -> Big_int_Z.succ_big_int (Big_int_Z.mult_int_big_int 2 x))
    ((fun x -> Big_int_Z.succ_big_int (Big_int_Z.mult_int_big_int 2 x))
    ((fun x -> Big_int_Z.succ_big_int (Big_int_Z.mult_int_big_int 2 x))
    (Big_int_Z.mult_int_big_int 2
    ((fun x -> Big_int_Z.succ_big_int (Big_int_Z.mult_int_big_int 2 x))
    Big_int_Z.unit_big_int)))))) :: (((fun x -> Big_int_Z.succ_big_int (Big_int_Z.mult_int_big_int 2 x))
    (Big_int_Z.mult_int_big_int 2 (Big_int_Z.mult_int_big_int 2
    ((fun x -> Big_int_Z.succ_big_int (Big_int_Z.mult_int_big_int 2 x))
    (Big_int_Z.mult_int_big_int 2
    ((fun x -> Big_int_Z.succ_big_int (Big_int_Z.mult_int_big_int 2 x))
    Big_int_Z.unit_big_int)))))) :: (((fun x -> Big_int_Z.succ_big_int (Big_int_Z.mult_int_big_int 2 x))
    ((fun x -> Big_int_Z.succ_big_int (Big_int_Z.mult_int_big_int 2 x))
    (Big_int_Z.mult_int_big_int 2 (Big_int_Z.mult_int_big_int 2
    (Big_int_Z.mult_int_big_int 2
    ((fun x -> Big_int_Z.succ_big_int (Big_int_Z.mult_int_big_int 2 x))
    Big_int_Z.unit_big_int)))))) :: (((fun x -> Big_int_Z.succ_big_int (Big_int_Z.mult_int_big_int 2 x))
    ((fun x -> Big_int_Z.succ_big_int (Big_int_Z.mult_int_big_int 2 x))
    (Big_int_Z.mult_int_big_int 2
    ((fun x -> Big_int_Z.succ_big_int (Big_int_Z.mult_int_big_int 2 x))
    (Big_int_Z.mult_int_big_int 2
    ((fun x -> Big_int_Z.succ_big_int (Big_int_Z.mult_int_big_int 2 x))
    Big_int_Z.unit_big_int)))))) :: [])))

(** val s_droop : Big_int_Z.big_int list **)

let s_droop =
  (Big_int_Z.mult_int_big_int 2 (Big_int_Z.mult_int_big_int 2
    ((fun x -> Big_int_Z.succ_big_int (Big_int_Z.mult_int_big_int 2 x))
    (Big_int_Z.mult_int_big_int 2 (Big_int_Z.mult_int_big_int 2
    ((fun x -> Big_int_Z.succ_big_int (Big_int_Z.mult_int_big_int 2 x))
    Big_int_Z.unit_big_int)))))) :: ((Big_int_Z.mult_int_big_int 2
    ((fun x -> Big_int_Z.succ_big_int (Big_int_Z.mult_int_big_int 2 x))
    (Big_int_Z.mult_int_big_int 2 (Big_int_Z.mult_int_big_int 2
    ((fun x -> Big_int_Z.succ_big_int (Big_int_Z.mult_int_big_int 2 x))
    ((fun x -> Big_int_Z.succ_big_int (Big_int_Z.mult_int_big_int 2 x))
    Big_int_Z.unit_big_int)))))) :: (((fun x -> Big_int_Z.succ_big_int (Big_int_Z.mult_int_big_int 2 x))
    ((fun x -> Big_int_Z.succ_big_int (Big_int_Z.mult_int_big_int 2 x))
    ((fun x -> Big_int_Z.succ_big_int (Big_int_Z.mult_int_big_int 2 x))
    ((fun x -> Big_int_Z.succ_big_int (Big_int_Z.mult_int_big_int 2 x))
    (Big_int_Z.mult_int_big_int 2
    ((fun x -> Big_int_Z.succ_big_int (Big_int_Z.mult_int_big_int 2 x))
    Big_int_Z.unit_big_int)))))) :: (((fun x -> Big_int_Z.succ_big_int (Big_int_Z.mult_int_big_int 2 x))
    ((fun x -> Big_int_Z.succ_big_int (Big_int_Z.mult_int_big_int 2 x))
    ((fun x -> Big_int_Z.succ_big_int (Big_int_Z.mult_int_big_int 2 x))
    ((fun x -> Big_int_Z.succ_big_int (Big_int_Z.mult_int_big_int 2 x))
    (Big_int_Z.mult_int_big_int 2
    ((fun x -> Big_int_Z.succ_big_int (Big_int_Z.mult_int_big_int 2 x))
    Big_int_Z.unit_big_int)))))) :: ((Big_int_Z.mult_int_big_int 2
    (Big_int_Z.mult_int_big_int 2 (Big_int_Z.mult_int_big_int 2
    (Big_int_Z.mult_int_big_int 2
    ((fun x -> Big_int_Z.succ_big_int (Big_int_Z.mult_int_big_int 2 x))
    ((fun x -> Big_int_Z.succ_big_int (Big_int_Z.mult_int_big_int 2 x))
    Big_int_Z.unit_big_int)))))) :: []))))

(** val s_withdrawn_kw : Big_int_Z.big_int list **)

let s_withdrawn_kw =
  ((fun x -> Big_int_Z.succ_big_int (Big_int_Z.mult_int_big_int 2 x))
    ((fun x -> Big_int_Z.succ_big_int (Big_int_Z.mult_int_big_int 2 x))
    ((fun x -> Big_int_Z.succ_big_int (Big_int_Z.mult_int_big_int 2 x))
    (Big_int_Z.mult_int_big_int 2
    ((fun x -> Big_int_Z.succ_big_int (Big_int_Z.mult_int_big_int 2 x))
    ((fun x -> Big_int_Z.succ_big_int (Big_int_Z.mult_int_big_int 2 x))
    Big_int_Z.unit_big_int)))))) :: (((fun x -> Big_int_Z.succ_big_int (Big_int_Z.mult_int_big_int 2 x))
    (Big_int_Z.mult_int_big_int 2 (Big_int_Z.mult_int_big_int 2
    ((fun x -> Big_int_Z.succ_big_int (Big_int_Z.mult_int_big_int 2 x))
    (Big_int_Z.mult_int_big_int 2
    ((fun x -> Big_int_Z.succ_big_int (Big_int_Z.mult_int_big_int 2 x))
    Big_int_Z.unit_big_int)))))) :: ((Big_int_Z.mult_int_big_int 2
    (Big_int_Z.mult_int_big_int 2
    ((fun x -> Big_int_Z.succ_big_int (Big_int_Z.mult_int_big_int 2 x))
    (Big_int_Z.mult_int_big_int 2
    ((fun x -> Big_int_Z.succ_big_int (Big_int_Z.mult_int_big_int 2 x))
    ((fun x -> Big_int_Z.succ_big_int (Big_int_Z.mult_int_big_int 2 x))
    Big_int_Z.unit_big_int)))))) :: ((Big_int_Z.mult_int_big_int 2
    (Big_int_Z.mult_int_big_int 2 (Big_int_Z.mult_int_big_int 2
    ((fun x -> Big_int_Z.succ_big_int (Big_int_Z.mult_int_big_int 2 x))
    (Big_int_Z.mult_int_big_int 2
    ((fun x -> Big_int_Z.succ_big_int (Big_int_Z.mult_int_big_int 2 x))
    Big_int_Z.unit_big_int)))))) :: ((Big_int_Z.mult_int_big_int 2
    (Big_int_Z.mult_int_big_int 2
    ((fun x -> Big_int_Z.succ_big_int (Big_int_Z.mult_int_big_int 2 x))
    (Big_int_Z.mult_int_big_int 2 (Big_int_Z.mult_int_big_int 2
    ((fun x -> Big_int_Z.succ_big_int (Big_int_Z.mult_int_big_int 2 x))
    Big_int_Z.unit_big_int)))))) :: ((Big_int_Z.mult_int_big_int 2
    ((fun x -> Big_int_Z.succ_big_int (Big_int_Z.mult_int_big_int 2 x))
    (Big_int_Z.mult_int_big_int 2 (Big_int_Z.mult_int_big_int 2
    ((fun x -> Big_int_Z.succ_big_int (Big_int_Z.mult_int_big_int 2 x))
    ((fun x -> Big_int_Z.succ_big_int (Big_int_Z.mult_int_big_int 2 x))
    Big_int_Z.unit_big_int)))))) :: (((fun x -> Big_int_Z.succ_big_int (Big_int_Z.mult_int_big_int 2 x))
    (Big_int_Z.mult_int_big_int 2 (Big_int_Z.mult_int_big_int 2
    (Big_int_Z.mult_int_big_int 2 (Big_int_Z.mult_int_big_int 2
    ((fun x -> Big_int_Z.succ_big_int (Big_int_Z.mult_int_big_int 2 x))
    Big_int_Z.unit_big_int)))))) :: (((fun x -> Big_int_Z.succ_big_int (Big_int_Z.mult_int_big_int 2 x))
    ((fun x -> Big_int_Z.succ_big_int (Big_int_Z.mult_int_big_int 2 x))
    ((fun x -> Big_int_Z.succ_big_int (Big_int_Z.mult_int_big_int 2 x))
    (Big_int_Z.mult_int_big_int 2
    ((fun x -> Big_int_Z.succ_big_int (Big_int_Z.mult_int_big_int 2 x))
    ((fun x -> Big_int_Z.succ_big_int (Big_int_Z.mult_int_big_int 2 x))
    Big_int_Z.unit_big_int)))))) :: ((Big_int_Z.mult_int_big_int 2
    ((fun x -> Big_int_Z.succ_big_int (Big_int_Z.mult_int_big_int 2 x))
    ((fun x -> Big_int_Z.succ_big_int (Big_int_Z.mult_int_big_int 2 x))
    ((fun x -> Big_int_Z.succ_big_int (Big_int_Z.mult_int_big_int 2 x))
    (Big_int_Z.mult_int_big_int 2
    ((fun x -> Big_int_Z.succ_big_int (Big_int_Z.mult_int_big_int 2 x))
    Big_int_Z.unit_big_int)))))) :: []))))))))

(** val s_undeclared_kw : Big_int_Z.big_int list **)

let s_undeclared_kw =
  ((fun x -> Big_int_Z.succ_big_int (Big_int_Z.mult_int_big_int 2 x))
    (Big_int_Z.mult_int_big_int 2
    ((fun x -> Big_int_Z.succ_big_int (Big_int_Z.mult_int_big_int 2 x))
    (Big_int_Z.mult_int_big_int 2
    ((fun x -> Big_int_Z.succ_big_int (Big_int_Z.mult_int_big_int 2 x))
    ((fun x -> Big_int_Z.succ_big_int (Big_int_Z.mult_int_big_int 2 x))
    Big_int_Z.unit_big_int)))))) :: ((Big_int_Z.mult_int_big_int 2
    ((fun x -> Big_int_Z.succ_big_int (Big_int_Z.mult_int_big_int 2 x))
    ((fun x -> Big_int_Z.succ_big_int (Big_int_Z.mult_int_big_int 2 x))
    ((fun x -> Big_int_Z.succ_big_int (Big_int_Z.mult_int_big_int 2 x))
    (Big_int_Z.mult_int_big_int 2
    ((fun x -> Big_int_Z.succ_big_int (Big_int_Z.mult_int_big_int 2 x))
    Big_int_Z.unit_big_int)))))) :: ((Big_int_Z.mult_int_big_int 2
    (Big_int_Z.mult_int_big_int 2
    ((fun x -> Big_int_Z.succ_big_int (Big_int_Z.mult_int_big_int 2 x))
    (Big_int_Z.mult_int_big_int 2 (Big_int_Z.mult_int_big_int 2
    ((fun x -> Big_int_Z.succ_big_int (Big_int_Z.mult_int_big_int 2 x))
    Big_int_Z.unit_big_int)))))) :: (((fun x -> Big_int_Z.succ_big_int (Big_int_Z.mult_int_big_int 2 x))
    (Big_int_Z.mult_int_big_int 2
    ((fun x -> Big_int_Z.succ_big_int (Big_int_Z.mult_int_big_int 2 x))
    (Big_int_Z.mult_int_big_int 2 (Big_int_Z.mult_int_big_int 2
    ((fun x -> Big_int_Z.succ_big_int (Big_int_Z.mult_int_big_int 2 x))
    Big_int_Z.unit_big_int)))))) :: (((fun x -> Big_int_Z.succ_big_int (Big_int_Z.mult_int_big_int 2 x))
    ((fun x -> Big_int_Z.succ_big_int (Big_int_Z.mult_int_big_int 2 x))
    (Big_int_Z.mult_int_big_int 2 (Big_int_Z.mult_int_big_int 2
    (Big_int_Z.mult_int_big_int 2
    ((fun x -> Big_int_Z.succ_big_int (Big_int_Z.mult_int_big_int 2 x))
    Big_int_Z.unit_big_int)))))) :: ((Big_int_Z.mult_int_big_int 2
    (Big_int_Z.mult_int_big_int 2
    ((fun x -> Big_int_Z.succ_big_int (Big_int_Z.mult_int_big_int 2 x))
    ((fun x -> Big_int_Z.succ_big_int (Big_int_Z.mult_int_big_int 2 x))
    (Big_int_Z.mult_int_big_int 2
    ((fun x -> Big_int_Z.succ_big_int (Big_int_Z.mult_int_big_int 2 x))
    Big_int_Z.unit_big_int)))))) :: (((fun x -> Big_int_Z.succ_big_int (Big_int_Z.mult_int_big_int 2 x))
    (Big_int_Z.mult_int_big_int 2 (Big_int_Z.mult_int_big_int 2
    (Big_int_Z.mult_int_big_int 2 (Big_int_Z.mult_int_big_int 2
    ((fun x -> Big_int_Z.succ_big_int (Big_int_Z.mult_int_big_int 2 x))
    Big_int_Z.unit_big_int)))))) :: ((Big_int_Z.mult_int_big_int 2
    ((fun x -> Big_int_Z.succ_big_int (Big_int_Z.mult_int_big_int 2 x))
    (Big_int_Z.mult_int_big_int 2 (Big_int_Z.mult_int_big_int 2
    ((fun x -> Big_int_Z.succ_big_int (Big_int_Z.mult_int_big_int 2 x))
    ((fun x -> Big_int_Z.succ_big_int (Big_int_Z.mult_int_big_int 2 x))
    Big_int_Z.unit_big_int)))))) :: (((fun x -> Big_int_Z.succ_big_int (Big_int_Z.mult_int_big_int 2 x))
    (Big_int_Z.mult_int_big_int 2
    ((fun x -> Big_int_Z.succ_big_int (Big_int_Z.mult_int_big_int 2 x))
    (Big_int_Z.mult_int_big_int 2 (Big_int_Z.mult_int_big_int 2
    ((fun x -> Big_int_Z.succ_big_int (Big_int_Z.mult_int_big_int 2 x))
    Big_int_Z.unit_big_int)))))) :: ((Big_int_Z.mult_int_big_int 2
    (Big_int_Z.mult_int_big_int 2
    ((fun x -> Big_int_Z.succ_big_int (Big_int_Z.mult_int_big_int 2 x))
    (Big_int_Z.mult_int_big_int 2 (Big_int_Z.mult_int_big_int 2
    ((fun x -> Big_int_Z.succ_big_int (Big_int_Z.mult_int_big_int 2 x))
    Big_int_Z.unit_big_int)))))) :: [])))))))))

(** val apply_option : pst -> ustr -> ustr list -> pst res **)

let apply_option st name l =
  if ustr_eqb name s_tie
  then option_tie st l
  else if ustr_eqb name s_nick
       then option_nick st l
       else if ustr_eqb name s_droop
            then Ok (set_options st (app st.s_options l))
            else if ustr_eqb name s_withdrawn_kw
                 then bind (cidset_loop st l st.s_withdrawn) (fun w -> Ok
                        (set_withdrawn st w))
                 else if ustr_eqb name s_undeclared_kw
                      then bind (cidset_loop st l st.s_undeclared) (fun u ->
                             Ok (set_undeclared st u))
                      else Raise ElectionProfileError

type omode =
| ONone
| OCollect of ustr * ustr list

(** val opts : ustr list -> pst -> omode -> (pst * ustr list) pres **)

let rec opts toks st m =
  match toks with
  | [] -> PStop
  | tok0 :: rest ->
    (match m with
     | ONone ->
       if starts_with (cLBRK :: []) tok0
       then let name = lstrip_c cLBRK tok0 in
            if ends_with (cRBRK :: []) name
            then pbind (lift (apply_option st (rstrip_c cRBRK name) []))
                   (fun st' -> opts rest st' ONone)
            else opts rest st (OCollect (name, []))
       else if starts_with (cLPAR :: []) tok0
            then POk (st, toks)
            else if is_sdigits tok0
                 then pbind (lift (p_int tok0)) (fun v ->
                        let wd = Z.opp v in
                        if Z.leb wd Big_int_Z.zero_big_int
                        then POk (st, toks)
                        else if Z.ltb st.s_nCand wd
                             then ePE
                             else if zmem wd st.s_withdrawn
                                  then ePE
                                  else opts rest
                                         (set_withdrawn st
                                           (zset_add wd st.s_withdrawn)) ONone)
                 else ePE
     | OCollect (name, acc) ->
       let acc' =
         if ustr_eqb tok0 (cRBRK :: [])
         then acc
         else app acc ((rstrip_c cRBRK tok0) :: [])
       in
       if ends_with (cRBRK :: []) tok0
       then pbind (lift (apply_option st name acc')) (fun st' ->
              opts rest st' ONone)
       else opts rest st (OCollect (name, acc')))

(** val array_max : Big_int_Z.big_int -> Big_int_Z.big_int **)

let array_max nCand =
  if Z.ltb nCand (Big_int_Z.mult_int_big_int 2 (Big_int_Z.mult_int_big_int 2
       (Big_int_Z.mult_int_big_int 2 (Big_int_Z.mult_int_big_int 2
       (Big_int_Z.mult_int_big_int 2 (Big_int_Z.mult_int_big_int 2
       (Big_int_Z.mult_int_big_int 2 (Big_int_Z.mult_int_big_int 2
       Big_int_Z.unit_big_int))))))))
  then ((fun x -> Big_int_Z.succ_big_int (Big_int_Z.mult_int_big_int 2 x))
         ((fun x -> Big_int_Z.succ_big_int (Big_int_Z.mult_int_big_int 2 x))
         ((fun x -> Big_int_Z.succ_big_int (Big_int_Z.mult_int_big_int 2 x))
         ((fun x -> Big_int_Z.succ_big_int (Big_int_Z.mult_int_big_int 2 x))
         ((fun x -> Big_int_Z.succ_big_int (Big_int_Z.mult_int_big_int 2 x))
         ((fun x -> Big_int_Z.succ_big_int (Big_int_Z.mult_int_big_int 2 x))
         ((fun x -> Big_int_Z.succ_big_int (Big_int_Z.mult_int_big_int 2 x))
         Big_int_Z.unit_big_int)))))))
  else if Z.ltb nCand (Big_int_Z.mult_int_big_int 2
            (Big_int_Z.mult_int_big_int 2 (Big_int_Z.mult_int_big_int 2
            (Big_int_Z.mult_int_big_int 2 (Big_int_Z.mult_int_big_int 2
            (Big_int_Z.mult_int_big_int 2 (Big_int_Z.mult_int_big_int 2
            (Big_int_Z.mult_int_big_int 2 (Big_int_Z.mult_int_big_int 2
            (Big_int_Z.mult_int_big_int 2 (Big_int_Z.mult_int_big_int 2
            (Big_int_Z.mult_int_big_int 2 (Big_int_Z.mult_int_big_int 2
            (Big_int_Z.mult_int_big_int 2 (Big_int_Z.mult_int_big_int 2
            (Big_int_Z.mult_int_big_int 2
            Big_int_Z.unit_big_int))))))))))))))))
       then ((fun x -> Big_int_Z.succ_big_int (Big_int_Z.mult_int_big_int 2 x))
              ((fun x -> Big_int_Z.succ_big_int (Big_int_Z.mult_int_big_int 2 x))
              ((fun x -> Big_int_Z.succ_big_int (Big_int_Z.mult_int_big_int 2 x))
              ((fun x -> Big_int_Z.succ_big_int (Big_int_Z.mult_int_big_int 2 x))
              ((fun x -> Big_int_Z.succ_big_int (Big_int_Z.mult_int_big_int 2 x))
              ((fun x -> Big_int_Z.succ_big_int (Big_int_Z.mult_int_big_int 2 x))
              ((fun x -> Big_int_Z.succ_big_int (Big_int_Z.mult_int_big_int 2 x))
              ((fun x -> Big_int_Z.succ_big_int (Big_int_Z.mult_int_big_int 2 x))
              ((fun x -> Big_int_Z.succ_big_int (Big_int_Z.mult_int_big_int 2 x))
              ((fun x -> Big_int_Z.succ_big_int (Big_int_Z.mult_int_big_int 2 x))
              ((fun x -> Big_int_Z.succ_big_int (Big_int_Z.mult_int_big_int 2 x))
              ((fun x -> Big_int_Z.succ_big_int (Big_int_Z.mult_int_big_int 2 x))
              ((fun x -> Big_int_Z.succ_big_int (Big_int_Z.mult_int_big_int 2 x))
              ((fun x -> Big_int_Z.succ_big_int (Big_int_Z.mult_int_big_int 2 x))
              ((fun x -> Big_int_Z.succ_big_int (Big_int_Z.mult_int_big_int 2 x))
              Big_int_Z.unit_big_int)))))))))))))))
       else ((fun x -> Big_int_Z.succ_big_int (Big_int_Z.mult_int_big_int 2 x))
              ((fun x -> Big_int_Z.succ_big_int (Big_int_Z.mult_int_big_int 2 x))
              ((fun x -> Big_int_Z.succ_big_int (Big_int_Z.mult_int_big_int 2 x))
              ((fun x -> Big_int_Z.succ_big_int (Big_int_Z.mult_int_big_int 2 x))
              ((fun x -> Big_int_Z.succ_big_int (Big_int_Z.mult_int_big_int 2 x))
              ((fun x -> Big_int_Z.succ_big_int (Big_int_Z.mult_int_big_int 2 x))
              ((fun x -> Big_int_Z.succ_big_int (Big_int_Z.mult_int_big_int 2 x))
              ((fun x -> Big_int_Z.succ_big_int (Big_int_Z.mult_int_big_int 2 x))
              ((fun x -> Big_int_Z.succ_big_int (Big_int_Z.mult_int_big_int 2 x))
              ((fun x -> Big_int_Z.succ_big_int (Big_int_Z.mult_int_big_int 2 x))
              ((fun x -> Big_int_Z.succ_big_int (Big_int_Z.mult_int_big_int 2 x))
              ((fun x -> Big_int_Z.succ_big_int (Big_int_Z.mult_int_big_int 2 x))
              ((fun x -> Big_int_Z.succ_big_int (Big_int_Z.mult_int_big_int 2 x))
              ((fun x -> Big_int_Z.succ_big_int (Big_int_Z.mult_int_big_int 2 x))
              ((fun x -> Big_int_Z.succ_big_int (Big_int_Z.mult_int_big_int 2 x))
              ((fun x -> Big_int_Z.succ_big_int (Big_int_Z.mult_int_big_int 2 x))
              ((fun x -> Big_int_Z.succ_big_int (Big_int_Z.mult_int_big_int 2 x))
              ((fun x -> Big_int_Z.succ_big_int (Big_int_Z.mult_int_big_int 2 x))
              ((fun x -> Big_int_Z.succ_big_int (Big_int_Z.mult_int_big_int 2 x))
              ((fun x -> Big_int_Z.succ_big_int (Big_int_Z.mult_int_big_int 2 x))
              ((fun x -> Big_int_Z.succ_big_int (Big_int_Z.mult_int_big_int 2 x))
              ((fun x -> Big_int_Z.succ_big_int (Big_int_Z.mult_int_big_int 2 x))
              ((fun x -> Big_int_Z.succ_big_int (Big_int_Z.mult_int_big_int 2 x))
              ((fun x -> Big_int_Z.succ_big_int (Big_int_Z.mult_int_big_int 2 x))
              ((fun x -> Big_int_Z.succ_big_int (Big_int_Z.mult_int_big_int 2 x))
              ((fun x -> Big_int_Z.succ_big_int (Big_int_Z.mult_int_big_int 2 x))
              ((fun x -> Big_int_Z.succ_big_int (Big_int_Z.mult_int_big_int 2 x))
              ((fun x -> Big_int_Z.succ_big_int (Big_int_Z.mult_int_big_int 2 x))
              ((fun x -> Big_int_Z.succ_big_int (Big_int_Z.mult_int_big_int 2 x))
              ((fun x -> Big_int_Z.succ_big_int (Big_int_Z.mult_int_big_int 2 x))
              ((fun x -> Big_int_Z.succ_big_int (Big_int_Z.mult_int_big_int 2 x))
              ((fun x -> Big_int_Z.succ_big_int (Big_int_Z.mult_int_big_int 2 x))
              ((fun x -> Big_int_Z.succ_big_int (Big_int_Z.mult_int_big_int 2 x))
              ((fun x -> Big_int_Z.succ_big_int (Big_int_Z.mult_int_big_int 2 x))
              ((fun x -> Big_int_Z.succ_big_int (Big_int_Z.mult_int_big_int 2 x))
              ((fun x -> Big_int_Z.succ_big_int (Big_int_Z.mult_int_big_int 2 x))
              ((fun x -> Big_int_Z.succ_big_int (Big_int_Z.mult_int_big_int 2 x))
              ((fun x -> Big_int_Z.succ_big_int (Big_int_Z.mult_int_big_int 2 x))
              ((fun x -> Big_int_Z.succ_big_int (Big_int_Z.mult_int_big_int 2 x))
              ((fun x -> Big_int_Z.succ_big_int (Big_int_Z.mult_int_big_int 2 x))
              ((fun x -> Big_int_Z.succ_big_int (Big_int_Z.mult_int_big_int 2 x))
              ((fun x -> Big_int_Z.succ_big_int (Big_int_Z.mult_int_big_int 2 x))
              ((fun x -> Big_int_Z.succ_big_int (Big_int_Z.mult_int_big_int 2 x))
              ((fun x -> Big_int_Z.succ_big_int (Big_int_Z.mult_int_big_int 2 x))
              ((fun x -> Big_int_Z.succ_big_int (Big_int_Z.mult_int_big_int 2 x))
              ((fun x -> Big_int_Z.succ_big_int (Big_int_Z.mult_int_big_int 2 x))
              ((fun x -> Big_int_Z.succ_big_int (Big_int_Z.mult_int_big_int 2 x))
              ((fun x -> Big_int_Z.succ_big_int (Big_int_Z.mult_int_big_int 2 x))
              ((fun x -> Big_int_Z.succ_big_int (Big_int_Z.mult_int_big_int 2 x))
              ((fun x -> Big_int_Z.succ_big_int (Big_int_Z.mult_int_big_int 2 x))
              ((fun x -> Big_int_Z.succ_big_int (Big_int_Z.mult_int_big_int 2 x))
              ((fun x -> Big_int_Z.succ_big_int (Big_int_Z.mult_int_big_int 2 x))
              ((fun x -> Big_int_Z.succ_big_int (Big_int_Z.mult_int_big_int 2 x))
              ((fun x -> Big_int_Z.succ_big_int (Big_int_Z.mult_int_big_int 2 x))
              ((fun x -> Big_int_Z.succ_big_int (Big_int_Z.mult_int_big_int 2 x))
              ((fun x -> Big_int_Z.succ_big_int (Big_int_Z.mult_int_big_int 2 x))
              ((fun x -> Big_int_Z.succ_big_int (Big_int_Z.mult_int_big_int 2 x))
              ((fun x -> Big_int_Z.succ_big_int (Big_int_Z.mult_int_big_int 2 x))
              ((fun x -> Big_int_Z.succ_big_int (Big_int_Z.mult_int_big_int 2 x))
              ((fun x -> Big_int_Z.succ_big_int (Big_int_Z.mult_int_big_int 2 x))
              ((fun x -> Big_int_Z.succ_big_int (Big_int_Z.mult_int_big_int 2 x))
              ((fun x -> Big_int_Z.succ_big_int (Big_int_Z.mult_int_big_int 2 x))
              ((fun x -> Big_int_Z.succ_big_int (Big_int_Z.mult_int_big_int 2 x))
              Big_int_Z.unit_big_int)))))))))))))))))))))))))))))))))))))))))))))))))))))))))))))))

(** val ballot_line :
    pst -> Big_int_Z.big_int -> Big_int_Z.big_int list list -> pst res **)

let ballot_line st m ranking =
  let ranks1 = map (filter (fun c -> negb (zmem c st.s_withdrawn))) ranking in
  let equal_rank =
    existsb (fun r -> Z.ltb Big_int_Z.unit_big_int (Z.of_nat (length r)))
      ranks1
  in
  let ranks2 =
    filter (fun r -> match r with
                     | [] -> false
                     | _ :: _ -> true) ranks1
  in
  (match ranks2 with
   | [] -> Ok st
   | _ :: _ ->
     if equal_rank
     then Ok (add_lineEq st m ranks2)
     else let flat = map (fun r -> hd Big_int_Z.zero_big_int r) ranks2 in
          if existsb (fun c ->
               (||) (Z.ltb c Big_int_Z.zero_big_int)
                 (Z.ltb (array_max st.s_nCand) c)) flat
          then Raise OverflowError
          else Ok (add_line st m flat))

(** val finish_bid : pst -> ustr -> pst res **)

let finish_bid st bid =
  let b = strip_c cSP (rstrip_c cRPAR (lstrip_c cLPAR bid)) in
  if smem b st.s_ballotIDs
  then Raise ElectionProfileError
  else Ok (add_ballotID st b)

type bmode =
| BHead
| BBid of ustr
| BRank of Big_int_Z.big_int * Big_int_Z.big_int list list

(** val ballots0 : ustr list -> pst -> bmode -> (pst * ustr list) pres **)

let rec ballots0 toks st m =
  match toks with
  | [] -> PStop
  | tok0 :: rest ->
    (match m with
     | BHead ->
       if starts_with (cLPAR :: []) tok0
       then if ends_with (cRPAR :: []) tok0
            then pbind (lift (finish_bid st tok0)) (fun st' ->
                   ballots0 rest st' (BRank (Big_int_Z.unit_big_int, [])))
            else ballots0 rest st (BBid tok0)
       else if all_digits tok0
            then pbind (lift (p_int tok0)) (fun mult ->
                   if Z.eqb mult Big_int_Z.zero_big_int
                   then POk (st, rest)
                   else ballots0 rest st (BRank (mult, [])))
            else ePE
     | BBid bid ->
       let bid' = app bid (cSP :: tok0) in
       if ends_with (cRPAR :: []) bid'
       then pbind (lift (finish_bid st bid')) (fun st' ->
              ballots0 rest st' (BRank (Big_int_Z.unit_big_int, [])))
       else ballots0 rest st (BBid bid')
     | BRank (mult, ranking) ->
       if ustr_eqb tok0 (cZERO :: [])
       then pbind
              (lift
                (match ranking with
                 | [] -> Ok st
                 | _ :: _ -> ballot_line st mult ranking)) (fun st' ->
              ballots0 rest st' BHead)
       else pbind (lift (map_res (getCid st) (split_on cEQ tok0)))
              (fun cids ->
              ballots0 rest st (BRank (mult, (app ranking (cids :: []))))))

(** val names0 :
    ustr list -> Big_int_Z.big_int -> Big_int_Z.big_int -> ustr option ->
    (Big_int_Z.big_int * ustr) list -> ((Big_int_Z.big_int * ustr)
    list * ustr list) pres **)

let rec names0 toks nCand cid0 cur acc =
  match cur with
  | Some name ->
    (match toks with
     | [] -> PStop
     | t0 :: rest ->
       let name' = app name (cSP :: t0) in
       if ends_with (cQUOTE :: []) name'
       then names0 rest nCand (Z.add cid0 Big_int_Z.unit_big_int) None
              (app acc ((cid0, (strip_c cQUOTE name')) :: []))
       else names0 rest nCand cid0 (Some name') acc)
  | None ->
    if Z.ltb nCand cid0
    then POk (acc, toks)
    else (match toks with
          | [] -> ePE
          | t0 :: rest ->
            if negb (starts_with (cQUOTE :: []) t0)
            then ePE
            else if ends_with (cQUOTE :: []) t0
                 then names0 rest nCand (Z.add cid0 Big_int_Z.unit_big_int)
                        None (app acc ((cid0, (strip_c cQUOTE t0)) :: []))
                 else names0 rest nCand cid0 (Some t0) acc)

(** val read_quoted : ustr list -> ustr -> (ustr * ustr list) option **)

let rec read_quoted toks s =
  if ends_with (cQUOTE :: []) s
  then Some (s, toks)
  else (match toks with
        | [] -> None
        | t0 :: rest -> read_quoted rest (app s (cSP :: t0)))

(** val unquote : ustr -> ustr **)

let unquote s =
  strip_c cSP (strip_c cQUOTE s)

(** val opt_string : ustr list -> (ustr * ustr list) option pres **)

let opt_string = function
| [] -> POk None
| tok0 :: rest ->
  if negb (starts_with (cQUOTE :: []) tok0)
  then POk None
  else (match read_quoted rest tok0 with
        | Some p -> let (s, rest') = p in POk (Some ((unquote s), rest'))
        | None -> ePE)

type profile0 = { p_nCand : Big_int_Z.big_int; p_nSeats : Big_int_Z.big_int;
                  p_title : ustr; p_source : ustr option;
                  p_comment : ustr option; p_nBallots : Big_int_Z.big_int;
                  p_eligible : Big_int_Z.big_int list;
                  p_withdrawn : Big_int_Z.big_int list;
                  p_undeclared : Big_int_Z.big_int list;
                  p_candName : (Big_int_Z.big_int * ustr) list;
                  p_candOrder : (Big_int_Z.big_int * Big_int_Z.big_int) list;
                  p_lines : (Big_int_Z.big_int * Big_int_Z.big_int list) list;
                  p_linesEq : (Big_int_Z.big_int * Big_int_Z.big_int list
                              list) list;
                  p_tieOrder : (Big_int_Z.big_int * Big_int_Z.big_int) list;
                  p_nickName : (Big_int_Z.big_int * ustr) list;
                  p_options : ustr list }

type parsed = { r_st : pst; r_names : (Big_int_Z.big_int * ustr) list;
                r_title : ustr; r_source : ustr option;
                r_comment : ustr option }

(** val parse_tail : pst -> ustr list -> parsed pres **)

let parse_tail st toks =
  if (&&) (match st.s_ballotIDs with
           | [] -> false
           | _ :: _ -> true)
       (negb (Nat.eqb (length st.s_ballotIDs) (length st.s_lines)))
  then ePE
  else pbind (names0 toks st.s_nCand Big_int_Z.unit_big_int None [])
         (fun pat ->
         let (nm, toks1) = pat in
         (match toks1 with
          | [] -> PStop
          | tok0 :: rest ->
            if negb (starts_with (cQUOTE :: []) tok0)
            then ePE
            else (match read_quoted rest tok0 with
                  | Some p ->
                    let (s, toks2) = p in
                    let title = unquote s in
                    pbind (opt_string toks2) (fun so ->
                      match so with
                      | Some p0 ->
                        let (src, toks3) = p0 in
                        pbind (opt_string toks3) (fun co ->
                          match co with
                          | Some p1 ->
                            let (com, _) = p1 in
                            POk { r_st = st; r_names = nm; r_title = title;
                            r_source = (Some src); r_comment = (Some com) }
                          | None ->
                            POk { r_st = st; r_names = nm; r_title = title;
                              r_source = (Some src); r_comment = None })
                      | None ->
                        POk { r_st = st; r_names = nm; r_title = title;
                          r_source = None; r_comment = None })
                  | None -> ePE)))

(** val blt_parse_raw : ustr list -> parsed pres **)

let blt_parse_raw = function
| [] -> PStop
| t1 :: r1 ->
  if negb (all_digits t1)
  then ePE
  else pbind (lift (p_int t1)) (fun nc ->
         match r1 with
         | [] -> PStop
         | t2 :: r2 ->
           if negb (all_digits t2)
           then ePE
           else pbind (lift (p_int t2)) (fun ns ->
                  pbind (opts r2 (init_pst nc ns) ONone) (fun pat ->
                    let (st1, toks1) = pat in
                    pbind (ballots0 toks1 st1 BHead) (fun pat0 ->
                      let (st2, toks2) = pat0 in parse_tail st2 toks2))))

(** val blt_parse : ustr list -> parsed res **)

let blt_parse toks =
  match blt_parse_raw toks with
  | POk r -> Ok r
  | PStop -> Raise ElectionProfileError
  | PRaise e -> Raise e

(** val validate : pst -> Big_int_Z.big_int list -> unit res **)

let validate st eligible =
  let ne = Z.of_nat (length eligible) in
  if (||) (Z.eqb st.s_nSeats Big_int_Z.zero_big_int) (Z.ltb ne st.s_nSeats)
  then Raise ElectionProfileError
  else if Z.ltb st.s_nBallots ne
       then Raise ElectionProfileError
       else if existsb (fun bl -> has_dup (snd bl)) st.s_lines
            then Raise ElectionProfileError
            else if existsb (fun bl -> has_dup (concat (snd bl))) st.s_linesEq
                 then Raise ElectionProfileError
                 else Ok ()

(** val ustr_of_string : string -> ustr **)

let ustr_of_string s =
  map (fun a -> Z.of_N (n_of_ascii a))
    ((fun s ->
      Array.to_list (Array.init (String.length s) (fun i -> s.[i])))
      s)

(** val ustr_of_Z : Big_int_Z.big_int -> ustr **)

let ustr_of_Z z0 =
  ustr_of_string (string_of_Z z0)

(** val cids_upto : Big_int_Z.big_int -> Big_int_Z.big_int list **)

let cids_upto n0 =
  map Z.of_nat (seq (S O) (Z.to_nat n0))

(** val finish : parsed -> profile0 res **)

let finish r =
  let st = r.r_st in
  let eligible =
    filter (fun c -> negb (zmem c st.s_withdrawn)) (map fst r.r_names)
  in
  bind (validate st eligible) (fun _ ->
    let nick =
      match st.s_nickCid with
      | [] -> map (fun c -> (c, (ustr_of_Z c))) (cids_upto st.s_nCand)
      | _ :: _ -> st.s_nickName
    in
    let tie =
      match st.s_tieOrder with
      | [] -> map (fun c -> (c, c)) (cids_upto st.s_nCand)
      | _ :: _ -> st.s_tieOrder
    in
    Ok { p_nCand = st.s_nCand; p_nSeats = st.s_nSeats; p_title = r.r_title;
    p_source = r.r_source; p_comment = r.r_comment; p_nBallots =
    st.s_nBallots; p_eligible = eligible; p_withdrawn = st.s_withdrawn;
    p_undeclared = st.s_undeclared; p_candName = r.r_names; p_candOrder =
    (map (fun nm -> ((fst nm), (fst nm))) r.r_names); p_lines = st.s_lines;
    p_linesEq = st.s_linesEq; p_tieOrder = tie; p_nickName = nick;
    p_options = st.s_options })

(** val parse_tokens : ustr list -> profile0 res **)

let parse_tokens toks =
  bind (blt_parse toks) finish

(** val parse : ustr -> profile0 res **)

let parse text = match text with
| [] -> Raise ElectionProfileError
| _ :: _ -> parse_tokens (tokenize text)

(** val strip_bom : ustr -> ustr **)

let strip_bom text = match text with
| [] -> []
| c :: t0 ->
  if Z.eqb c
       ((fun x -> Big_int_Z.succ_big_int (Big_int_Z.mult_int_big_int 2 x))
       ((fun x -> Big_int_Z.succ_big_int (Big_int_Z.mult_int_big_int 2 x))
       ((fun x -> Big_int_Z.succ_big_int (Big_int_Z.mult_int_big_int 2 x))
       ((fun x -> Big_int_Z.succ_big_int (Big_int_Z.mult_int_big_int 2 x))
       ((fun x -> Big_int_Z.succ_big_int (Big_int_Z.mult_int_big_int 2 x))
       ((fun x -> Big_int_Z.succ_big_int (Big_int_Z.mult_int_big_int 2 x))
       ((fun x -> Big_int_Z.succ_big_int (Big_int_Z.mult_int_big_int 2 x))
       ((fun x -> Big_int_Z.succ_big_int (Big_int_Z.mult_int_big_int 2 x))
       (Big_int_Z.mult_int_big_int 2
       ((fun x -> Big_int_Z.succ_big_int (Big_int_Z.mult_int_big_int 2 x))
       ((fun x -> Big_int_Z.succ_big_int (Big_int_Z.mult_int_big_int 2 x))
       ((fun x -> Big_int_Z.succ_big_int (Big_int_Z.mult_int_big_int 2 x))
       ((fun x -> Big_int_Z.succ_big_int (Big_int_Z.mult_int_big_int 2 x))
       ((fun x -> Big_int_Z.succ_big_int (Big_int_Z.mult_int_big_int 2 x))
       ((fun x -> Big_int_Z.succ_big_int (Big_int_Z.mult_int_big_int 2 x))
       Big_int_Z.unit_big_int)))))))))))))))
  then t0
  else text

(** val parse_file : ustr -> profile0 res **)

let parse_file text =
  parse (strip_bom text)

(** val nl0 : string **)

let nl0 =
  (* If this appears, you're using String internals. Please don't *)
  (fun (c, s) -> String.make 1 c ^ s)

    ((ascii_of_nat (S (S (S (S (S (S (S (S (S (S O))))))))))), "")

(** val show_zs : Big_int_Z.big_int list -> string **)

let show_zs l =
  fold_right (fun c acc -> (^) " " ((^) (string_of_Z c) acc)) "" l

(** val show_opt : ustr option -> string **)

let show_opt = function
| Some s -> (^) " some" (show_zs s)
| None -> " none"

(** val show_lines : ('a1 -> string) -> 'a1 list -> string **)

let show_lines f l =
  fold_right (fun x acc -> (^) (f x) ((^) nl0 acc)) "" l

(** val show_ranks : Big_int_Z.big_int list list -> string **)

let show_ranks r =
  fold_right (fun g acc -> (^) " |" ((^) (show_zs g) acc)) "" r

(** val show_profile : profile0 -> string **)

let show_profile p =
  (^) "nCand "
    ((^) (string_of_Z p.p_nCand)
      ((^) nl0
        ((^) "nSeats "
          ((^) (string_of_Z p.p_nSeats)
            ((^) nl0
              ((^) "title"
                ((^) (show_zs p.p_title)
                  ((^) nl0
                    ((^) "source"
                      ((^) (show_opt p.p_source)
                        ((^) nl0
                          ((^) "comment"
                            ((^) (show_opt p.p_comment)
                              ((^) nl0
                                ((^) "nBallots "
                                  ((^) (string_of_Z p.p_nBallots)
                                    ((^) nl0
                                      ((^) "eligible"
                                        ((^) (show_zs p.p_eligible)
                                          ((^) nl0
                                            ((^) "withdrawn"
                                              ((^) (show_zs p.p_withdrawn)
                                                ((^) nl0
                                                  ((^) "undeclared"
                                                    ((^)
                                                      (show_zs p.p_undeclared)
                                                      ((^) nl0
                                                        ((^)
                                                          (show_lines
                                                            (fun pat ->
                                                            let (c, n0) = pat
                                                            in
                                                            (^) "name "
                                                              ((^)
                                                                (string_of_Z
                                                                  c)
                                                                ((^) " :"
                                                                  (show_zs n0))))
                                                            p.p_candName)
                                                          ((^)
                                                            (show_lines
                                                              (fun pat ->
                                                              let (c, o) = pat
                                                              in
                                                              (^) "order "
                                                                ((^)
                                                                  (string_of_Z
                                                                    c)
                                                                  ((^) " "
                                                                    (string_of_Z
                                                                    o))))
                                                              p.p_candOrder)
                                                            ((^)
                                                              (show_lines
                                                                (fun pat ->
                                                                let (
                                                                  m, r) = pat
                                                                in
                                                                (^) "ballot "
                                                                  ((^)
                                                                    (string_of_Z
                                                                    m)
                                                                    ((^) " :"
                                                                    (show_zs
                                                                    r))))
                                                                p.p_lines)
                                                              ((^)
                                                                (show_lines
                                                                  (fun pat ->
                                                                  let (
                                                                    m, r) =
                                                                    pat
                                                                  in
                                                                  (^)
                                                                    "eballot "
                                                                    ((^)
                                                                    (string_of_Z
                                                                    m)
                                                                    ((^) " :"
                                                                    (show_ranks
                                                                    r))))
                                                                  p.p_linesEq)
                                                                ((^)
                                                                  (show_lines
                                                                    (fun pat ->
                                                                    let (
                                                                    c, o) =
                                                                    pat
                                                                    in
                                                                    (^)
                                                                    "tie "
                                                                    ((^)
                                                                    (string_of_Z
                                                                    c)
                                                                    ((^) " "
                                                                    (string_of_Z
                                                                    o))))
                                                                    p.p_tieOrder)
                                                                  ((^)
                                                                    (show_lines
                                                                    (fun pat ->
                                                                    let (
                                                                    c, n0) =
                                                                    pat
                                                                    in
                                                                    (^)
                                                                    "nick "
                                                                    ((^)
                                                                    (string_of_Z
                                                                    c)
                                                                    ((^) " :"
                                                                    (show_zs
                                                                    n0))))
                                                                    p.p_nickName)
                                                                    ((^)
                                                                    (show_lines
                                                                    (fun o ->
                                                                    (^)
                                                                    "option"
                                                                    (show_zs
                                                                    o))
                                                                    p.p_options)
                                                                    "end")))))))))))))))))))))))))))))))))

(** val show_parse : profile0 res -> string **)

let show_parse = function
| Ok p -> show_profile p
| Raise e -> (^) "Raise " (exn_name e)

(** val toks_zs : tok list -> Big_int_Z.big_int list **)

let rec toks_zs = function
| [] -> []
| t0 :: t1 -> (match t0 with
               | TI z0 -> z0 :: (toks_zs t1)
               | TS _ -> toks_zs t1)

(** val run_parse : tok list -> string **)

let run_parse = function
| [] -> "badparse"
| t0 :: rest ->
  (match t0 with
   | TI z0 ->
     ((fun fO fp fn z -> let s = Big_int_Z.sign_big_int z in
  if s = 0 then fO () else if s > 0 then fp z
  else fn (Big_int_Z.minus_big_int z))
        (fun _ -> show_parse (parse (toks_zs rest)))
        (fun p ->
        (fun f2p1 f2p f1 p ->
  if Big_int_Z.le_big_int p Big_int_Z.unit_big_int then f1 () else
  let (q,r) = Big_int_Z.quomod_big_int p (Big_int_Z.big_int_of_int 2) in
  if Big_int_Z.eq_big_int r Big_int_Z.zero_big_int then f2p q else f2p1 q)
          (fun _ -> "badparse")
          (fun p0 ->
          (fun f2p1 f2p f1 p ->
  if Big_int_Z.le_big_int p Big_int_Z.unit_big_int then f1 () else
  let (q,r) = Big_int_Z.quomod_big_int p (Big_int_Z.big_int_of_int 2) in
  if Big_int_Z.eq_big_int r Big_int_Z.zero_big_int then f2p q else f2p1 q)
            (fun _ -> "badparse")
            (fun _ -> "badparse")
            (fun _ ->
            (^)
              (show_lines (fun t1 -> (^) "tok" (show_zs t1))
                (tokenize (toks_zs rest))) "end")
            p0)
          (fun _ -> show_parse (parse_file (toks_zs rest)))
          p)
        (fun _ -> "badparse")
        z0)
   | TS _ -> "badparse")

(** val rd_int : tok list -> (Big_int_Z.big_int * tok list) option **)

let rd_int = function
| [] -> None
| t0 :: t1 -> (match t0 with
               | TI z0 -> Some (z0, t1)
               | TS _ -> None)

(** val rd_str : tok list -> (string * tok list) option **)

let rd_str = function
| [] -> None
| t0 :: t1 -> (match t0 with
               | TI _ -> None
               | TS x -> Some (x, t1))

(** val rd_ints :
    nat -> tok list -> (Big_int_Z.big_int list * tok list) option **)

let rec rd_ints n0 l =
  match n0 with
  | O -> Some ([], l)
  | S k ->
    (match rd_int l with
     | Some p ->
       let (z0, t0) = p in
       (match rd_ints k t0 with
        | Some p0 -> let (zs, t') = p0 in Some ((z0 :: zs), t')
        | None -> None)
     | None -> None)

(** val rd_cand : tok list -> (pcand * tok list) option **)

let rd_cand = function
| [] -> None
| t0 :: l0 ->
  (match t0 with
   | TI c ->
     (match l0 with
      | [] -> None
      | t1 :: l1 ->
        (match t1 with
         | TI o ->
           (match l1 with
            | [] -> None
            | t2 :: l2 ->
              (match t2 with
               | TI ti ->
                 (match l2 with
                  | [] -> None
                  | t3 :: l3 ->
                    (match t3 with
                     | TI _ -> None
                     | TS nm ->
                       (match l3 with
                        | [] -> None
                        | t4 :: l4 ->
                          (match t4 with
                           | TI _ -> None
                           | TS nk ->
                             (match l4 with
                              | [] -> None
                              | t5 :: l5 ->
                                (match t5 with
                                 | TI w ->
                                   (match l5 with
                                    | [] -> None
                                    | t6 :: t7 ->
                                      (match t6 with
                                       | TI u ->
                                         Some ({ pc_cid = c; pc_order = o;
                                           pc_tie = ti; pc_name = nm;
                                           pc_nick = nk; pc_withdrawn =
                                           (negb
                                             (Z.eqb w Big_int_Z.zero_big_int));
                                           pc_undeclared =
                                           (negb
                                             (Z.eqb u Big_int_Z.zero_big_int)) },
                                           t7)
                                       | TS _ -> None))
                                 | TS _ -> None))))))
               | TS _ -> None))
         | TS _ -> None))
   | TS _ -> None)

(** val rd_many :
    (tok list -> ('a1 * tok list) option) -> nat -> tok list -> ('a1
    list * tok list) option **)

let rec rd_many rd n0 l =
  match n0 with
  | O -> Some ([], l)
  | S k ->
    (match rd l with
     | Some p ->
       let (x, t0) = p in
       (match rd_many rd k t0 with
        | Some p0 -> let (xs, t') = p0 in Some ((x :: xs), t')
        | None -> None)
     | None -> None)

(** val rd_ballot :
    tok list -> ((Big_int_Z.big_int * Big_int_Z.big_int list) * tok list)
    option **)

let rd_ballot = function
| [] -> None
| t0 :: l0 ->
  (match t0 with
   | TI m ->
     (match l0 with
      | [] -> None
      | t1 :: t2 ->
        (match t1 with
         | TI n0 ->
           (match rd_ints (Z.to_nat n0) t2 with
            | Some p -> let (r, t') = p in Some ((m, r), t')
            | None -> None)
         | TS _ -> None))
   | TS _ -> None)

(** val rd_rank : tok list -> (Big_int_Z.big_int list * tok list) option **)

let rd_rank = function
| [] -> None
| t0 :: t1 -> (match t0 with
               | TI n0 -> rd_ints (Z.to_nat n0) t1
               | TS _ -> None)

(** val rd_eballot :
    tok list -> ((Big_int_Z.big_int * Big_int_Z.big_int list list) * tok
    list) option **)

let rd_eballot = function
| [] -> None
| t0 :: l0 ->
  (match t0 with
   | TI m ->
     (match l0 with
      | [] -> None
      | t1 :: t2 ->
        (match t1 with
         | TI n0 ->
           (match rd_many rd_rank (Z.to_nat n0) t2 with
            | Some p -> let (r, t') = p in Some ((m, r), t')
            | None -> None)
         | TS _ -> None))
   | TS _ -> None)

(** val tag_name : tag -> string **)

let tag_name = function
| TBegin -> "begin"
| TCount -> "count"
| TLog -> "log"
| TRound -> "round"
| TTie -> "tie"
| TElect -> "elect"
| TDefeat -> "defeat"
| TIterate -> "iterate"
| TUnpend -> "unpend"
| TTransfer -> "transfer"
| TEnd -> "end"

(** val state_name : cstate -> string **)

let state_name = function
| Hopeful -> "hopeful"
| Elected -> "elected"
| Defeated -> "defeated"
| Withdrawn -> "withdrawn"

(** val is_wigm : meth -> bool **)

let is_wigm = function
| MWigm -> true
| _ -> false

(** val code_of : meth -> cstate -> bool option -> string **)

let code_of m c p =
  match c with
  | Hopeful -> "H"
  | Elected ->
    if (&&) (is_wigm m) (match p with
                         | Some b -> b
                         | None -> false)
    then "e"
    else "E"
  | Defeated -> "D"
  | Withdrawn -> "W"

(** val lf : string **)

let lf =
  (* If this appears, you're using String internals. Please don't *)
  (fun (c, s) -> String.make 1 c ^ s)

    ((ascii_of_nat (S (S (S (S (S (S (S (S (S (S O))))))))))), "")

(** val rule_of : Big_int_Z.big_int -> rule **)

let rule_of z0 =
  (fun fO fp fn z -> let s = Big_int_Z.sign_big_int z in
  if s = 0 then fO () else if s > 0 then fp z
  else fn (Big_int_Z.minus_big_int z))
    (fun _ -> RWigm)
    (fun p ->
    (fun f2p1 f2p f1 p ->
  if Big_int_Z.le_big_int p Big_int_Z.unit_big_int then f1 () else
  let (q,r) = Big_int_Z.quomod_big_int p (Big_int_Z.big_int_of_int 2) in
  if Big_int_Z.eq_big_int r Big_int_Z.zero_big_int then f2p q else f2p1 q)
      (fun p0 ->
      (fun f2p1 f2p f1 p ->
  if Big_int_Z.le_big_int p Big_int_Z.unit_big_int then f1 () else
  let (q,r) = Big_int_Z.quomod_big_int p (Big_int_Z.big_int_of_int 2) in
  if Big_int_Z.eq_big_int r Big_int_Z.zero_big_int then f2p q else f2p1 q)
        (fun _ -> RQpq)
        (fun p1 ->
        (fun f2p1 f2p f1 p ->
  if Big_int_Z.le_big_int p Big_int_Z.unit_big_int then f1 () else
  let (q,r) = Big_int_Z.quomod_big_int p (Big_int_Z.big_int_of_int 2) in
  if Big_int_Z.eq_big_int r Big_int_Z.zero_big_int then f2p q else f2p1 q)
          (fun _ -> RQpq)
          (fun _ -> RQpq)
          (fun _ -> RMeek)
          p1)
        (fun _ -> RCfer)
        p0)
      (fun p0 ->
      (fun f2p1 f2p f1 p ->
  if Big_int_Z.le_big_int p Big_int_Z.unit_big_int then f1 () else
  let (q,r) = Big_int_Z.quomod_big_int p (Big_int_Z.big_int_of_int 2) in
  if Big_int_Z.eq_big_int r Big_int_Z.zero_big_int then f2p q else f2p1 q)
        (fun p1 ->
        (fun f2p1 f2p f1 p ->
  if Big_int_Z.le_big_int p Big_int_Z.unit_big_int then f1 () else
  let (q,r) = Big_int_Z.quomod_big_int p (Big_int_Z.big_int_of_int 2) in
  if Big_int_Z.eq_big_int r Big_int_Z.zero_big_int then f2p q else f2p1 q)
          (fun _ -> RQpq)
          (fun _ -> RQpq)
          (fun _ -> RMeekPrf)
          p1)
        (fun p1 ->
        (fun f2p1 f2p f1 p ->
  if Big_int_Z.le_big_int p Big_int_Z.unit_big_int then f1 () else
  let (q,r) = Big_int_Z.quomod_big_int p (Big_int_Z.big_int_of_int 2) in
  if Big_int_Z.eq_big_int r Big_int_Z.zero_big_int then f2p q else f2p1 q)
          (fun _ -> RQpq)
          (fun _ -> RQpq)
          (fun _ -> RMpls)
          p1)
        (fun _ -> RScotland)
        p0)
      (fun _ -> RWigmPrf)
      p)
    (fun _ -> RQpq)
    z0

(** val meth_of : rule -> meth **)

let meth_of = function
| RMeek -> MMeek
| RMeekPrf -> MMeek
| RQpq -> MQpq
| _ -> MWigm

type count_case = { cc_rule : rule; cc_cfg : config;
                    cc_fuel : Big_int_Z.big_int; cc_profile : profile;
                    cc_ar : Big_int_Z.big_int; cc_p : Big_int_Z.big_int;
                    cc_g : Big_int_Z.big_int; cc_d : Big_int_Z.big_int;
                    cc_stale : Big_int_Z.big_int }

(** val parse_count_case : tok list -> (string, count_case) sum **)

let parse_count_case = function
| [] -> Inl "badcount"
| t0 :: l0 ->
  (match t0 with
   | TI _ -> Inl "badcount"
   | TS rname ->
     (match l0 with
      | [] -> Inl "badcount"
      | t1 :: l1 ->
        (match t1 with
         | TI rl ->
           (match l1 with
            | [] -> Inl "badcount"
            | t2 :: l2 ->
              (match t2 with
               | TI ar ->
                 (match l2 with
                  | [] -> Inl "badcount"
                  | t3 :: l3 ->
                    (match t3 with
                     | TI p ->
                       (match l3 with
                        | [] -> Inl "badcount"
                        | t4 :: l4 ->
                          (match t4 with
                           | TI g ->
                             (match l4 with
                              | [] -> Inl "badcount"
                              | t5 :: l5 ->
                                (match t5 with
                                 | TI d ->
                                   (match l5 with
                                    | [] -> Inl "badcount"
                                    | t6 :: l6 ->
                                      (match t6 with
                                       | TI stale ->
                                         (match l6 with
                                          | [] -> Inl "badcount"
                                          | t7 :: l7 ->
                                            (match t7 with
                                             | TI om ->
                                               (match l7 with
                                                | [] -> Inl "badcount"
                                                | t8 :: l8 ->
                                                  (match t8 with
                                                   | TI iq ->
                                                     (match l8 with
                                                      | [] -> Inl "badcount"
                                                      | t9 :: l9 ->
                                                        (match t9 with
                                                         | TI bz ->
                                                           (match l9 with
                                                            | [] ->
                                                              Inl "badcount"
                                                            | t10 :: l10 ->
                                                              (match t10 with
                                                               | TI bt ->
                                                                 (match l10 with
                                                                  | [] ->
                                                                    Inl
                                                                    "badcount"
                                                                  | t11 :: l11 ->
                                                                    (match t11 with
                                                                    | TI wa ->
                                                                    (match l11 with
                                                                    | [] ->
                                                                    Inl
                                                                    "badcount"
                                                                    | t12 :: l12 ->
                                                                    (match t12 with
                                                                    | TI fb ->
                                                                    (match l12 with
                                                                    | [] ->
                                                                    Inl
                                                                    "badcount"
                                                                    | t13 :: l13 ->
                                                                    (match t13 with
                                                                    | TI ns ->
                                                                    (match l13 with
                                                                    | [] ->
                                                                    Inl
                                                                    "badcount"
                                                                    | t14 :: l14 ->
                                                                    (match t14 with
                                                                    | TI nb ->
                                                                    (match l14 with
                                                                    | [] ->
                                                                    Inl
                                                                    "badcount"
                                                                    | t15 :: rest ->
                                                                    (match t15 with
                                                                    | TI nc ->
                                                                    (match 
                                                                    rd_many
                                                                    rd_cand
                                                                    (Z.to_nat
                                                                    nc) rest with
                                                                    | Some p0 ->
                                                                    let (
                                                                    cs, rest1) =
                                                                    p0
                                                                    in
                                                                    (
                                                                    match rest1 with
                                                                    | [] ->
                                                                    Inl
                                                                    "badballots"
                                                                    | t16 :: rest2 ->
                                                                    (match t16 with
                                                                    | TI nbl ->
                                                                    (match 
                                                                    rd_many
                                                                    rd_ballot
                                                                    (Z.to_nat
                                                                    nbl) rest2 with
                                                                    | Some p1 ->
                                                                    let (
                                                                    bs, rest3) =
                                                                    p1
                                                                    in
                                                                    (
                                                                    match rest3 with
                                                                    | [] ->
                                                                    Inl
                                                                    "badeballots"
                                                                    | t17 :: rest4 ->
                                                                    (match t17 with
                                                                    | TI nebl ->
                                                                    (match 
                                                                    rd_many
                                                                    rd_eballot
                                                                    (Z.to_nat
                                                                    nebl)
                                                                    rest4 with
                                                                    | Some p2 ->
                                                                    let (
                                                                    ebs, _) =
                                                                    p2
                                                                    in
                                                                    let r =
                                                                    rule_of rl
                                                                    in
                                                                    let cfg =
                                                                    { cf_rule =
                                                                    rname;
                                                                    cf_method =
                                                                    (meth_of
                                                                    r);
                                                                    cf_nseats =
                                                                    ns;
                                                                    cf_nballots =
                                                                    nb;
                                                                    cf_integer_quota =
                                                                    (negb
                                                                    (Z.eqb iq
                                                                    Big_int_Z.zero_big_int));
                                                                    cf_batch_zero =
                                                                    (negb
                                                                    (Z.eqb bz
                                                                    Big_int_Z.zero_big_int));
                                                                    cf_batch =
                                                                    (negb
                                                                    (Z.eqb bt
                                                                    Big_int_Z.zero_big_int));
                                                                    cf_warren =
                                                                    (negb
                                                                    (Z.eqb wa
                                                                    Big_int_Z.zero_big_int));
                                                                    cf_omega10 =
                                                                    om }
                                                                    in
                                                                    let pr =
                                                                    { pr_nseats =
                                                                    ns;
                                                                    pr_nballots =
                                                                    nb;
                                                                    pr_cands =
                                                                    cs;
                                                                    pr_ballots =
                                                                    bs;
                                                                    pr_eballots =
                                                                    ebs }
                                                                    in
                                                                    let fuel =
                                                                    Coq_Pos.pow
                                                                    (Big_int_Z.mult_int_big_int 2
                                                                    Big_int_Z.unit_big_int)
                                                                    (Z.to_pos
                                                                    fb)
                                                                    in
                                                                    Inr
                                                                    { cc_rule =
                                                                    r;
                                                                    cc_cfg =
                                                                    cfg;
                                                                    cc_fuel =
                                                                    fuel;
                                                                    cc_profile =
                                                                    pr;
                                                                    cc_ar =
                                                                    ar;
                                                                    cc_p = p;
                                                                    cc_g = g;
                                                                    cc_d = d;
                                                                    cc_stale =
                                                                    stale }
                                                                    | None ->
                                                                    Inl
                                                                    "badeballots")
                                                                    | TS _ ->
                                                                    Inl
                                                                    "badeballots"))
                                                                    | None ->
                                                                    Inl
                                                                    "badballots")
                                                                    | TS _ ->
                                                                    Inl
                                                                    "badballots"))
                                                                    | None ->
                                                                    Inl
                                                                    "badcands")
                                                                    | TS _ ->
                                                                    Inl
                                                                    "badcount"))
                                                                    | TS _ ->
                                                                    Inl
                                                                    "badcount"))
                                                                    | TS _ ->
                                                                    Inl
                                                                    "badcount"))
                                                                    | TS _ ->
                                                                    Inl
                                                                    "badcount"))
                                                                    | TS _ ->
                                                                    Inl
                                                                    "badcount"))
                                                               | TS _ ->
                                                                 Inl
                                                                   "badcount"))
                                                         | TS _ ->
                                                           Inl "badcount"))
                                                   | TS _ -> Inl "badcount"))
                                             | TS _ -> Inl "badcount"))
                                       | TS _ -> Inl "badcount"))
                                 | TS _ -> Inl "badcount"))
                           | TS _ -> Inl "badcount"))
                     | TS _ -> Inl "badcount"))
               | TS _ -> Inl "badcount"))
         | TS _ -> Inl "badcount")))

type json =
| JNull
| JBool of bool
| JInt of Big_int_Z.big_int
| JStr of string
| JList of json list
| JObj of (string * json) list

type header = { h_title : string; h_droop_name : string;
                h_droop_version : string; h_rule_info : string;
                h_arith_info : string; h_unused : string list;
                h_overridden : string list; h_quota_name : string;
                h_omega : string option; h_source : string option;
                h_comment : string option; h_maxdiff : string;
                h_mindiff : string; h_options : json }

(** val z_of_ascii : char -> Big_int_Z.big_int **)

let z_of_ascii c =
  Z.of_nat (nat_of_ascii c)

(** val ascii_of_Z : Big_int_Z.big_int -> char **)

let ascii_of_Z z0 =
  ascii_of_nat (Z.to_nat z0)

(** val str1 : Big_int_Z.big_int -> string **)

let str1 z0 =
  (* If this appears, you're using String internals. Please don't *)
  (fun (c, s) -> String.make 1 c ^ s)

    ((ascii_of_Z z0), "")

(** val utf8_decode : Big_int_Z.big_int list -> Big_int_Z.big_int list **)

let rec utf8_decode = function
| [] -> []
| b :: t0 ->
  if Z.ltb b (Big_int_Z.mult_int_big_int 2 (Big_int_Z.mult_int_big_int 2
       (Big_int_Z.mult_int_big_int 2 (Big_int_Z.mult_int_big_int 2
       (Big_int_Z.mult_int_big_int 2 (Big_int_Z.mult_int_big_int 2
       (Big_int_Z.mult_int_big_int 2 Big_int_Z.unit_big_int)))))))
  then b :: (utf8_decode t0)
  else if (&&)
            (Z.leb (Big_int_Z.mult_int_big_int 2
              (Big_int_Z.mult_int_big_int 2 (Big_int_Z.mult_int_big_int 2
              (Big_int_Z.mult_int_big_int 2 (Big_int_Z.mult_int_big_int 2
              (Big_int_Z.mult_int_big_int 2
              ((fun x -> Big_int_Z.succ_big_int (Big_int_Z.mult_int_big_int 2 x))
              Big_int_Z.unit_big_int))))))) b)
            (Z.ltb b (Big_int_Z.mult_int_big_int 2
              (Big_int_Z.mult_int_big_int 2 (Big_int_Z.mult_int_big_int 2
              (Big_int_Z.mult_int_big_int 2 (Big_int_Z.mult_int_big_int 2
              ((fun x -> Big_int_Z.succ_big_int (Big_int_Z.mult_int_big_int 2 x))
              ((fun x -> Big_int_Z.succ_big_int (Big_int_Z.mult_int_big_int 2 x))
              Big_int_Z.unit_big_int))))))))
       then (match t0 with
             | [] -> b :: (utf8_decode t0)
             | b1 :: t1 ->
               (Z.add
                 (Z.mul
                   (Z.sub b (Big_int_Z.mult_int_big_int 2
                     (Big_int_Z.mult_int_big_int 2
                     (Big_int_Z.mult_int_big_int 2
                     (Big_int_Z.mult_int_big_int 2
                     (Big_int_Z.mult_int_big_int 2
                     (Big_int_Z.mult_int_big_int 2
                     ((fun x -> Big_int_Z.succ_big_int (Big_int_Z.mult_int_big_int 2 x))
                     Big_int_Z.unit_big_int))))))))
                   (Big_int_Z.mult_int_big_int 2
                   (Big_int_Z.mult_int_big_int 2
                   (Big_int_Z.mult_int_big_int 2
                   (Big_int_Z.mult_int_big_int 2
                   (Big_int_Z.mult_int_big_int 2
                   (Big_int_Z.mult_int_big_int 2 Big_int_Z.unit_big_int)))))))
                 (Z.sub b1 (Big_int_Z.mult_int_big_int 2
                   (Big_int_Z.mult_int_big_int 2
                   (Big_int_Z.mult_int_big_int 2
                   (Big_int_Z.mult_int_big_int 2
                   (Big_int_Z.mult_int_big_int 2
                   (Big_int_Z.mult_int_big_int 2
                   (Big_int_Z.mult_int_big_int 2
                   Big_int_Z.unit_big_int))))))))) :: (utf8_decode t1))
       else if (&&)
                 (Z.leb (Big_int_Z.mult_int_big_int 2
                   (Big_int_Z.mult_int_big_int 2
                   (Big_int_Z.mult_int_big_int 2
                   (Big_int_Z.mult_int_big_int 2
                   (Big_int_Z.mult_int_big_int 2
                   ((fun x -> Big_int_Z.succ_big_int (Big_int_Z.mult_int_big_int 2 x))
                   ((fun x -> Big_int_Z.succ_big_int (Big_int_Z.mult_int_big_int 2 x))
                   Big_int_Z.unit_big_int))))))) b)
                 (Z.ltb b (Big_int_Z.mult_int_big_int 2
                   (Big_int_Z.mult_int_big_int 2
                   (Big_int_Z.mult_int_big_int 2
                   (Big_int_Z.mult_int_big_int 2
                   ((fun x -> Big_int_Z.succ_big_int (Big_int_Z.mult_int_big_int 2 x))
                   ((fun x -> Big_int_Z.succ_big_int (Big_int_Z.mult_int_big_int 2 x))
                   ((fun x -> Big_int_Z.succ_big_int (Big_int_Z.mult_int_big_int 2 x))
                   Big_int_Z.unit_big_int))))))))
            then (match t0 with
                  | [] -> b :: (utf8_decode t0)
                  | b1 :: l0 ->
                    (match l0 with
                     | [] -> b :: (utf8_decode t0)
                     | b2 :: t2 ->
                       (Z.add
                         (Z.add
                           (Z.mul
                             (Z.sub b (Big_int_Z.mult_int_big_int 2
                               (Big_int_Z.mult_int_big_int 2
                               (Big_int_Z.mult_int_big_int 2
                               (Big_int_Z.mult_int_big_int 2
                               (Big_int_Z.mult_int_big_int 2
                               ((fun x -> Big_int_Z.succ_big_int (Big_int_Z.mult_int_big_int 2 x))
                               ((fun x -> Big_int_Z.succ_big_int (Big_int_Z.mult_int_big_int 2 x))
                               Big_int_Z.unit_big_int))))))))
                             (Big_int_Z.mult_int_big_int 2
                             (Big_int_Z.mult_int_big_int 2
                             (Big_int_Z.mult_int_big_int 2
                             (Big_int_Z.mult_int_big_int 2
                             (Big_int_Z.mult_int_big_int 2
                             (Big_int_Z.mult_int_big_int 2
                             (Big_int_Z.mult_int_big_int 2
                             (Big_int_Z.mult_int_big_int 2
                             (Big_int_Z.mult_int_big_int 2
                             (Big_int_Z.mult_int_big_int 2
                             (Big_int_Z.mult_int_big_int 2
                             (Big_int_Z.mult_int_big_int 2
                             Big_int_Z.unit_big_int)))))))))))))
                           (Z.mul
                             (Z.sub b1 (Big_int_Z.mult_int_big_int 2
                               (Big_int_Z.mult_int_big_int 2
                               (Big_int_Z.mult_int_big_int 2
                               (Big_int_Z.mult_int_big_int 2
                               (Big_int_Z.mult_int_big_int 2
                               (Big_int_Z.mult_int_big_int 2
                               (Big_int_Z.mult_int_big_int 2
                               Big_int_Z.unit_big_int))))))))
                             (Big_int_Z.mult_int_big_int 2
                             (Big_int_Z.mult_int_big_int 2
                             (Big_int_Z.mult_int_big_int 2
                             (Big_int_Z.mult_int_big_int 2
                             (Big_int_Z.mult_int_big_int 2
                             (Big_int_Z.mult_int_big_int 2
                             Big_int_Z.unit_big_int))))))))
                         (Z.sub b2 (Big_int_Z.mult_int_big_int 2
                           (Big_int_Z.mult_int_big_int 2
                           (Big_int_Z.mult_int_big_int 2
                           (Big_int_Z.mult_int_big_int 2
                           (Big_int_Z.mult_int_big_int 2
                           (Big_int_Z.mult_int_big_int 2
                           (Big_int_Z.mult_int_big_int 2
                           Big_int_Z.unit_big_int))))))))) :: (utf8_decode t2)))
            else if Z.leb (Big_int_Z.mult_int_big_int 2
                      (Big_int_Z.mult_int_big_int 2
                      (Big_int_Z.mult_int_big_int 2
                      (Big_int_Z.mult_int_big_int 2
                      ((fun x -> Big_int_Z.succ_big_int (Big_int_Z.mult_int_big_int 2 x))
                      ((fun x -> Big_int_Z.succ_big_int (Big_int_Z.mult_int_big_int 2 x))
                      ((fun x -> Big_int_Z.succ_big_int (Big_int_Z.mult_int_big_int 2 x))
                      Big_int_Z.unit_big_int))))))) b
                 then (match t0 with
                       | [] -> b :: (utf8_decode t0)
                       | b1 :: l0 ->
                         (match l0 with
                          | [] -> b :: (utf8_decode t0)
                          | b2 :: l1 ->
                            (match l1 with
                             | [] -> b :: (utf8_decode t0)
                             | b3 :: t3 ->
                               (Z.add
                                 (Z.add
                                   (Z.add
                                     (Z.mul
                                       (Z.sub b (Big_int_Z.mult_int_big_int 2
                                         (Big_int_Z.mult_int_big_int 2
                                         (Big_int_Z.mult_int_big_int 2
                                         (Big_int_Z.mult_int_big_int 2
                                         ((fun x -> Big_int_Z.succ_big_int (Big_int_Z.mult_int_big_int 2 x))
                                         ((fun x -> Big_int_Z.succ_big_int (Big_int_Z.mult_int_big_int 2 x))
                                         ((fun x -> Big_int_Z.succ_big_int (Big_int_Z.mult_int_big_int 2 x))
                                         Big_int_Z.unit_big_int))))))))
                                       (Big_int_Z.mult_int_big_int 2
                                       (Big_int_Z.mult_int_big_int 2
                                       (Big_int_Z.mult_int_big_int 2
                                       (Big_int_Z.mult_int_big_int 2
                                       (Big_int_Z.mult_int_big_int 2
                                       (Big_int_Z.mult_int_big_int 2
                                       (Big_int_Z.mult_int_big_int 2
                                       (Big_int_Z.mult_int_big_int 2
                                       (Big_int_Z.mult_int_big_int 2
                                       (Big_int_Z.mult_int_big_int 2
                                       (Big_int_Z.mult_int_big_int 2
                                       (Big_int_Z.mult_int_big_int 2
                                       (Big_int_Z.mult_int_big_int 2
                                       (Big_int_Z.mult_int_big_int 2
                                       (Big_int_Z.mult_int_big_int 2
                                       (Big_int_Z.mult_int_big_int 2
                                       (Big_int_Z.mult_int_big_int 2
                                       (Big_int_Z.mult_int_big_int 2
                                       Big_int_Z.unit_big_int)))))))))))))))))))
                                     (Z.mul
                                       (Z.sub b1
                                         (Big_int_Z.mult_int_big_int 2
                                         (Big_int_Z.mult_int_big_int 2
                                         (Big_int_Z.mult_int_big_int 2
                                         (Big_int_Z.mult_int_big_int 2
                                         (Big_int_Z.mult_int_big_int 2
                                         (Big_int_Z.mult_int_big_int 2
                                         (Big_int_Z.mult_int_big_int 2
                                         Big_int_Z.unit_big_int))))))))
                                       (Big_int_Z.mult_int_big_int 2
                                       (Big_int_Z.mult_int_big_int 2
                                       (Big_int_Z.mult_int_big_int 2
                                       (Big_int_Z.mult_int_big_int 2
                                       (Big_int_Z.mult_int_big_int 2
                                       (Big_int_Z.mult_int_big_int 2
                                       (Big_int_Z.mult_int_big_int 2
                                       (Big_int_Z.mult_int_big_int 2
                                       (Big_int_Z.mult_int_big_int 2
                                       (Big_int_Z.mult_int_big_int 2
                                       (Big_int_Z.mult_int_big_int 2
                                       (Big_int_Z.mult_int_big_int 2
                                       Big_int_Z.unit_big_int))))))))))))))
                                   (Z.mul
                                     (Z.sub b2 (Big_int_Z.mult_int_big_int 2
                                       (Big_int_Z.mult_int_big_int 2
                                       (Big_int_Z.mult_int_big_int 2
                                       (Big_int_Z.mult_int_big_int 2
                                       (Big_int_Z.mult_int_big_int 2
                                       (Big_int_Z.mult_int_big_int 2
                                       (Big_int_Z.mult_int_big_int 2
                                       Big_int_Z.unit_big_int))))))))
                                     (Big_int_Z.mult_int_big_int 2
                                     (Big_int_Z.mult_int_big_int 2
                                     (Big_int_Z.mult_int_big_int 2
                                     (Big_int_Z.mult_int_big_int 2
                                     (Big_int_Z.mult_int_big_int 2
                                     (Big_int_Z.mult_int_big_int 2
                                     Big_int_Z.unit_big_int))))))))
                                 (Z.sub b3 (Big_int_Z.mult_int_big_int 2
                                   (Big_int_Z.mult_int_big_int 2
                                   (Big_int_Z.mult_int_big_int 2
                                   (Big_int_Z.mult_int_big_int 2
                                   (Big_int_Z.mult_int_big_int 2
                                   (Big_int_Z.mult_int_big_int 2
                                   (Big_int_Z.mult_int_big_int 2
                                   Big_int_Z.unit_big_int))))))))) :: 
                                 (utf8_decode t3))))
                 else b :: (utf8_decode t0)

(** val hexdigit : Big_int_Z.big_int -> string **)

let hexdigit z0 =
  if Z.ltb z0 (Big_int_Z.mult_int_big_int 2
       ((fun x -> Big_int_Z.succ_big_int (Big_int_Z.mult_int_big_int 2 x))
       (Big_int_Z.mult_int_big_int 2 Big_int_Z.unit_big_int)))
  then str1
         (Z.add (Big_int_Z.mult_int_big_int 2 (Big_int_Z.mult_int_big_int 2
           (Big_int_Z.mult_int_big_int 2 (Big_int_Z.mult_int_big_int 2
           ((fun x -> Big_int_Z.succ_big_int (Big_int_Z.mult_int_big_int 2 x))
           Big_int_Z.unit_big_int))))) z0)
  else str1
         (Z.add
           ((fun x -> Big_int_Z.succ_big_int (Big_int_Z.mult_int_big_int 2 x))
           ((fun x -> Big_int_Z.succ_big_int (Big_int_Z.mult_int_big_int 2 x))
           ((fun x -> Big_int_Z.succ_big_int (Big_int_Z.mult_int_big_int 2 x))
           (Big_int_Z.mult_int_big_int 2
           ((fun x -> Big_int_Z.succ_big_int (Big_int_Z.mult_int_big_int 2 x))
           (Big_int_Z.mult_int_big_int 2 Big_int_Z.unit_big_int)))))) z0)

(** val hex4 : Big_int_Z.big_int -> string **)

let hex4 z0 =
  (^)
    (hexdigit
      (Z.modulo
        (Z.div z0 (Big_int_Z.mult_int_big_int 2 (Big_int_Z.mult_int_big_int 2
          (Big_int_Z.mult_int_big_int 2 (Big_int_Z.mult_int_big_int 2
          (Big_int_Z.mult_int_big_int 2 (Big_int_Z.mult_int_big_int 2
          (Big_int_Z.mult_int_big_int 2 (Big_int_Z.mult_int_big_int 2
          (Big_int_Z.mult_int_big_int 2 (Big_int_Z.mult_int_big_int 2
          (Big_int_Z.mult_int_big_int 2 (Big_int_Z.mult_int_big_int 2
          Big_int_Z.unit_big_int))))))))))))) (Big_int_Z.mult_int_big_int 2
        (Big_int_Z.mult_int_big_int 2 (Big_int_Z.mult_int_big_int 2
        (Big_int_Z.mult_int_big_int 2 Big_int_Z.unit_big_int))))))
    ((^)
      (hexdigit
        (Z.modulo
          (Z.div z0 (Big_int_Z.mult_int_big_int 2
            (Big_int_Z.mult_int_big_int 2 (Big_int_Z.mult_int_big_int 2
            (Big_int_Z.mult_int_big_int 2 (Big_int_Z.mult_int_big_int 2
            (Big_int_Z.mult_int_big_int 2 (Big_int_Z.mult_int_big_int 2
            (Big_int_Z.mult_int_big_int 2 Big_int_Z.unit_big_int)))))))))
          (Big_int_Z.mult_int_big_int 2 (Big_int_Z.mult_int_big_int 2
          (Big_int_Z.mult_int_big_int 2 (Big_int_Z.mult_int_big_int 2
          Big_int_Z.unit_big_int))))))
      ((^)
        (hexdigit
          (Z.modulo
            (Z.div z0 (Big_int_Z.mult_int_big_int 2
              (Big_int_Z.mult_int_big_int 2 (Big_int_Z.mult_int_big_int 2
              (Big_int_Z.mult_int_big_int 2 Big_int_Z.unit_big_int)))))
            (Big_int_Z.mult_int_big_int 2 (Big_int_Z.mult_int_big_int 2
            (Big_int_Z.mult_int_big_int 2 (Big_int_Z.mult_int_big_int 2
            Big_int_Z.unit_big_int))))))
        (hexdigit
          (Z.modulo z0 (Big_int_Z.mult_int_big_int 2
            (Big_int_Z.mult_int_big_int 2 (Big_int_Z.mult_int_big_int 2
            (Big_int_Z.mult_int_big_int 2 Big_int_Z.unit_big_int))))))))

(** val bslash : string **)

let bslash =
  str1 (Big_int_Z.mult_int_big_int 2 (Big_int_Z.mult_int_big_int 2
    ((fun x -> Big_int_Z.succ_big_int (Big_int_Z.mult_int_big_int 2 x))
    ((fun x -> Big_int_Z.succ_big_int (Big_int_Z.mult_int_big_int 2 x))
    ((fun x -> Big_int_Z.succ_big_int (Big_int_Z.mult_int_big_int 2 x))
    (Big_int_Z.mult_int_big_int 2 Big_int_Z.unit_big_int))))))

(** val dquote : string **)

let dquote =
  str1 (Big_int_Z.mult_int_big_int 2
    ((fun x -> Big_int_Z.succ_big_int (Big_int_Z.mult_int_big_int 2 x))
    (Big_int_Z.mult_int_big_int 2 (Big_int_Z.mult_int_big_int 2
    (Big_int_Z.mult_int_big_int 2 Big_int_Z.unit_big_int)))))

(** val esc_cp : Big_int_Z.big_int -> string **)

let esc_cp cp =
  if Z.eqb cp (Big_int_Z.mult_int_big_int 2
       ((fun x -> Big_int_Z.succ_big_int (Big_int_Z.mult_int_big_int 2 x))
       (Big_int_Z.mult_int_big_int 2 (Big_int_Z.mult_int_big_int 2
       (Big_int_Z.mult_int_big_int 2 Big_int_Z.unit_big_int)))))
  then (^) bslash dquote
  else if Z.eqb cp (Big_int_Z.mult_int_big_int 2
            (Big_int_Z.mult_int_big_int 2
            ((fun x -> Big_int_Z.succ_big_int (Big_int_Z.mult_int_big_int 2 x))
            ((fun x -> Big_int_Z.succ_big_int (Big_int_Z.mult_int_big_int 2 x))
            ((fun x -> Big_int_Z.succ_big_int (Big_int_Z.mult_int_big_int 2 x))
            (Big_int_Z.mult_int_big_int 2 Big_int_Z.unit_big_int))))))
       then (^) bslash bslash
       else if Z.eqb cp (Big_int_Z.mult_int_big_int 2
                 ((fun x -> Big_int_Z.succ_big_int (Big_int_Z.mult_int_big_int 2 x))
                 (Big_int_Z.mult_int_big_int 2 Big_int_Z.unit_big_int)))
            then (^) bslash "n"
            else if Z.eqb cp
                      ((fun x -> Big_int_Z.succ_big_int (Big_int_Z.mult_int_big_int 2 x))
                      (Big_int_Z.mult_int_big_int 2
                      ((fun x -> Big_int_Z.succ_big_int (Big_int_Z.mult_int_big_int 2 x))
                      Big_int_Z.unit_big_int)))
                 then (^) bslash "r"
                 else if Z.eqb cp
                           ((fun x -> Big_int_Z.succ_big_int (Big_int_Z.mult_int_big_int 2 x))
                           (Big_int_Z.mult_int_big_int 2
                           (Big_int_Z.mult_int_big_int 2
                           Big_int_Z.unit_big_int)))
                      then (^) bslash "t"
                      else if Z.eqb cp (Big_int_Z.mult_int_big_int 2
                                (Big_int_Z.mult_int_big_int 2
                                (Big_int_Z.mult_int_big_int 2
                                Big_int_Z.unit_big_int)))
                           then (^) bslash "b"
                           else if Z.eqb cp (Big_int_Z.mult_int_big_int 2
                                     (Big_int_Z.mult_int_big_int 2
                                     ((fun x -> Big_int_Z.succ_big_int (Big_int_Z.mult_int_big_int 2 x))
                                     Big_int_Z.unit_big_int)))
                                then (^) bslash "f"
                                else if (&&)
                                          (Z.leb
                                            (Big_int_Z.mult_int_big_int 2
                                            (Big_int_Z.mult_int_big_int 2
                                            (Big_int_Z.mult_int_big_int 2
                                            (Big_int_Z.mult_int_big_int 2
                                            (Big_int_Z.mult_int_big_int 2
                                            Big_int_Z.unit_big_int))))) cp)
                                          (Z.leb cp
                                            (Big_int_Z.mult_int_big_int 2
                                            ((fun x -> Big_int_Z.succ_big_int (Big_int_Z.mult_int_big_int 2 x))
                                            ((fun x -> Big_int_Z.succ_big_int (Big_int_Z.mult_int_big_int 2 x))
                                            ((fun x -> Big_int_Z.succ_big_int (Big_int_Z.mult_int_big_int 2 x))
                                            ((fun x -> Big_int_Z.succ_big_int (Big_int_Z.mult_int_big_int 2 x))
                                            ((fun x -> Big_int_Z.succ_big_int (Big_int_Z.mult_int_big_int 2 x))
                                            Big_int_Z.unit_big_int)))))))
                                     then str1 cp
                                     else if Z.ltb cp
                                               (Big_int_Z.mult_int_big_int 2
                                               (Big_int_Z.mult_int_big_int 2
                                               (Big_int_Z.mult_int_big_int 2
                                               (Big_int_Z.mult_int_big_int 2
                                               (Big_int_Z.mult_int_big_int 2
                                               (Big_int_Z.mult_int_big_int 2
                                               (Big_int_Z.mult_int_big_int 2
                                               (Big_int_Z.mult_int_big_int 2
                                               (Big_int_Z.mult_int_big_int 2
                                               (Big_int_Z.mult_int_big_int 2
                                               (Big_int_Z.mult_int_big_int 2
                                               (Big_int_Z.mult_int_big_int 2
                                               (Big_int_Z.mult_int_big_int 2
                                               (Big_int_Z.mult_int_big_int 2
                                               (Big_int_Z.mult_int_big_int 2
                                               (Big_int_Z.mult_int_big_int 2
                                               Big_int_Z.unit_big_int))))))))))))))))
                                          then (^) bslash ((^) "u" (hex4 cp))
                                          else let n0 =
                                                 Z.sub cp
                                                   (Big_int_Z.mult_int_big_int 2
                                                   (Big_int_Z.mult_int_big_int 2
                                                   (Big_int_Z.mult_int_big_int 2
                                                   (Big_int_Z.mult_int_big_int 2
                                                   (Big_int_Z.mult_int_big_int 2
                                                   (Big_int_Z.mult_int_big_int 2
                                                   (Big_int_Z.mult_int_big_int 2
                                                   (Big_int_Z.mult_int_big_int 2
                                                   (Big_int_Z.mult_int_big_int 2
                                                   (Big_int_Z.mult_int_big_int 2
                                                   (Big_int_Z.mult_int_big_int 2
                                                   (Big_int_Z.mult_int_big_int 2
                                                   (Big_int_Z.mult_int_big_int 2
                                                   (Big_int_Z.mult_int_big_int 2
                                                   (Big_int_Z.mult_int_big_int 2
                                                   (Big_int_Z.mult_int_big_int 2
                                                   Big_int_Z.unit_big_int))))))))))))))))
                                               in
                                               (^) bslash
                                                 ((^) "u"
                                                   ((^)
                                                     (hex4
                                                       (Z.add
                                                         (Big_int_Z.mult_int_big_int 2
                                                         (Big_int_Z.mult_int_big_int 2
                                                         (Big_int_Z.mult_int_big_int 2
                                                         (Big_int_Z.mult_int_big_int 2
                                                         (Big_int_Z.mult_int_big_int 2
                                                         (Big_int_Z.mult_int_big_int 2
                                                         (Big_int_Z.mult_int_big_int 2
                                                         (Big_int_Z.mult_int_big_int 2
                                                         (Big_int_Z.mult_int_big_int 2
                                                         (Big_int_Z.mult_int_big_int 2
                                                         (Big_int_Z.mult_int_big_int 2
                                                         ((fun x -> Big_int_Z.succ_big_int (Big_int_Z.mult_int_big_int 2 x))
                                                         ((fun x -> Big_int_Z.succ_big_int (Big_int_Z.mult_int_big_int 2 x))
                                                         (Big_int_Z.mult_int_big_int 2
                                                         ((fun x -> Big_int_Z.succ_big_int (Big_int_Z.mult_int_big_int 2 x))
                                                         Big_int_Z.unit_big_int)))))))))))))))
                                                         (Z.modulo
                                                           (Z.div n0
                                                             (Big_int_Z.mult_int_big_int 2
                                                             (Big_int_Z.mult_int_big_int 2
                                                             (Big_int_Z.mult_int_big_int 2
                                                             (Big_int_Z.mult_int_big_int 2
                                                             (Big_int_Z.mult_int_big_int 2
                                                             (Big_int_Z.mult_int_big_int 2
                                                             (Big_int_Z.mult_int_big_int 2
                                                             (Big_int_Z.mult_int_big_int 2
                                                             (Big_int_Z.mult_int_big_int 2
                                                             (Big_int_Z.mult_int_big_int 2
                                                             Big_int_Z.unit_big_int)))))))))))
                                                           (Big_int_Z.mult_int_big_int 2
                                                           (Big_int_Z.mult_int_big_int 2
                                                           (Big_int_Z.mult_int_big_int 2
                                                           (Big_int_Z.mult_int_big_int 2
                                                           (Big_int_Z.mult_int_big_int 2
                                                           (Big_int_Z.mult_int_big_int 2
                                                           (Big_int_Z.mult_int_big_int 2
                                                           (Big_int_Z.mult_int_big_int 2
                                                           (Big_int_Z.mult_int_big_int 2
                                                           (Big_int_Z.mult_int_big_int 2
                                                           Big_int_Z.unit_big_int)))))))))))))
                                                     ((^) bslash
                                                       ((^) "u"
                                                         (hex4
                                                           (Z.add
                                                             (Big_int_Z.mult_int_big_int 2
                                                             (Big_int_Z.mult_int_big_int 2
                                                             (Big_int_Z.mult_int_big_int 2
                                                             (Big_int_Z.mult_int_big_int 2
                                                             (Big_int_Z.mult_int_big_int 2
                                                             (Big_int_Z.mult_int_big_int 2
                                                             (Big_int_Z.mult_int_big_int 2
                                                             (Big_int_Z.mult_int_big_int 2
                                                             (Big_int_Z.mult_int_big_int 2
                                                             (Big_int_Z.mult_int_big_int 2
                                                             ((fun x -> Big_int_Z.succ_big_int (Big_int_Z.mult_int_big_int 2 x))
                                                             ((fun x -> Big_int_Z.succ_big_int (Big_int_Z.mult_int_big_int 2 x))
                                                             ((fun x -> Big_int_Z.succ_big_int (Big_int_Z.mult_int_big_int 2 x))
                                                             (Big_int_Z.mult_int_big_int 2
                                                             ((fun x -> Big_int_Z.succ_big_int (Big_int_Z.mult_int_big_int 2 x))
                                                             Big_int_Z.unit_big_int)))))))))))))))
                                                             (Z.modulo n0
                                                               (Big_int_Z.mult_int_big_int 2
                                                               (Big_int_Z.mult_int_big_int 2
                                                               (Big_int_Z.mult_int_big_int 2
                                                               (Big_int_Z.mult_int_big_int 2
                                                               (Big_int_Z.mult_int_big_int 2
                                                               (Big_int_Z.mult_int_big_int 2
                                                               (Big_int_Z.mult_int_big_int 2
                                                               (Big_int_Z.mult_int_big_int 2
                                                               (Big_int_Z.mult_int_big_int 2
                                                               (Big_int_Z.mult_int_big_int 2
                                                               Big_int_Z.unit_big_int)))))))))))))))))

(** val json_string : string -> string **)

let json_string s =
  (^) dquote
    ((^)
      (String.concat ""
        (map esc_cp
          (utf8_decode
            (map z_of_ascii
              ((fun s ->
      Array.to_list (Array.init (String.length s) (fun i -> s.[i])))
                s))))) dquote)

(** val spaces : nat -> string **)

let rec spaces = function
| O -> ""
| S k ->
  (* If this appears, you're using String internals. Please don't *)
  (fun (c, s) -> String.make 1 c ^ s)

    (' ', (spaces k))

(** val nlind : nat -> string **)

let nlind n0 =
  (^) nl (spaces (mul (S (S O)) n0))

(** val json_pieces : nat -> json -> string list **)

let rec json_pieces ind = function
| JNull -> "null" :: []
| JBool b -> if b then "true" :: [] else "false" :: []
| JInt z0 -> (string_of_Z z0) :: []
| JStr s -> (json_string s) :: []
| JList l ->
  (match l with
   | [] -> "[]" :: []
   | _ :: _ ->
     "[" :: ((nlind (S ind)) :: (app
                                  (let rec items = function
                                   | [] -> []
                                   | x :: t0 ->
                                     app (json_pieces (S ind) x)
                                       (match t0 with
                                        | [] -> []
                                        | _ :: _ ->
                                          "," :: ((nlind (S ind)) :: 
                                            (items t0)))
                                   in items l) ((nlind ind) :: ("]" :: [])))))
| JObj l ->
  (match l with
   | [] -> "{}" :: []
   | _ :: _ ->
     "{" :: ((nlind (S ind)) :: (app
                                  (let rec items = function
                                   | [] -> []
                                   | p :: t0 ->
                                     let (k, x) = p in
                                     (json_string k) :: (": " :: (app
                                                                   (json_pieces
                                                                    (S ind) x)
                                                                   (match t0 with
                                                                    | [] -> []
                                                                    | _ :: _ ->
                                                                    "," :: (
                                                                    (nlind (S
                                                                    ind)) :: 
                                                                    (items t0)))))
                                   in items l) ((nlind ind) :: ("}" :: [])))))

(** val json_text_of : json -> string **)

let json_text_of j =
  String.concat "" (json_pieces O j)

(** val is_short_tag : tag -> bool **)

let is_short_tag = function
| TLog -> true
| TRound -> true
| TIterate -> true
| _ -> false

(** val is_fill_tag : tag -> bool **)

let is_fill_tag = function
| TBegin -> true
| TCount -> true
| TRound -> true
| _ -> false

(** val is_end_tag : tag -> bool **)

let is_end_tag = function
| TEnd -> true
| _ -> false

(** val lists_cands : tag -> bool **)

let lists_cands = function
| TLog -> false
| TRound -> false
| TTie -> false
| TIterate -> false
| TUnpend -> false
| _ -> true

(** val qpq_own : tag -> bool **)

let qpq_own = function
| TCount -> false
| TLog -> false
| TRound -> false
| TIterate -> false
| TUnpend -> false
| _ -> true

(** val is_tie : tag -> bool **)

let is_tie = function
| TTie -> true
| _ -> false

(** val pend_true : bool option -> bool **)

let pend_true = function
| Some b -> b
| None -> false

(** val sv : arith -> t -> string **)

let sv a v =
  a.str v

(** val sov : arith -> t option -> string **)

let sov a = function
| Some v -> a.str v
| None -> "None"

(** val lookup_sn :
    arith -> csnap list -> Big_int_Z.big_int -> csnap option **)

let lookup_sn _ l i =
  find (fun c -> Z.eqb c.sn_cid i) l

(** val name_of : arith -> cand list -> Big_int_Z.big_int -> string **)

let name_of a cs i =
  match find_cand a cs i with
  | Some c -> c.cname
  | None -> "?"

(** val all_cids : arith -> est -> Big_int_Z.big_int list **)

let all_cids a s =
  map (fun c -> c.cid) (by_order a s.cands)

(** val elig_cids : arith -> est -> Big_int_Z.big_int list **)

let elig_cids a s =
  map (fun c -> c.cid) (by_order a (eligibles a s))

(** val record_actions : arith -> est -> action list **)

let record_actions _ s =
  rev0 s.actions

(** val fill_quota : arith -> est -> t **)

let fill_quota a s =
  match find (fun a0 -> is_fill_tag a0.a_tag) (record_actions a s) with
  | Some a0 -> (match a0.a_snap with
                | Some sn -> sn.as_quota
                | None -> s.quota)
  | None -> s.quota

(** val arith_report :
    arith -> arith_meta -> header -> est -> string option **)

let arith_report _ m h s =
  let r = m.areport h.h_maxdiff h.h_mindiff in
  if (&&) (existsb (fun a -> is_end_tag a.a_tag) s.actions) (negb ((=) r ""))
  then Some r
  else None

(** val dump_rule_header : config -> string list **)

let dump_rule_header cfg =
  match cfg.cf_method with
  | MWigm -> "Non-Transferable" :: []
  | MMeek -> "Votes" :: ("Surplus" :: ("Residual" :: []))
  | MQpq -> []

(** val dump_cid_header : config -> Big_int_Z.big_int -> string list **)

let dump_cid_header cfg i =
  let c = string_of_Z i in
  app (((^) c ".name") :: (((^) c ".state") :: []))
    (match cfg.cf_method with
     | MWigm -> ((^) c ".vote") :: []
     | MMeek -> ((^) c ".vote") :: (((^) c ".kf") :: [])
     | MQpq -> ((^) c ".quotient") :: [])

(** val dump_header : config -> Big_int_Z.big_int list -> string list **)

let dump_header cfg ecids =
  app ("R" :: ("Action" :: ("Quota" :: [])))
    (app (dump_rule_header cfg) (flat_map (dump_cid_header cfg) ecids))

(** val dump_rule_cells : arith -> config -> asnap -> string list **)

let dump_rule_cells a cfg sn =
  match cfg.cf_method with
  | MWigm -> (sov a sn.as_nt) :: []
  | MMeek ->
    (sv a sn.as_votes) :: ((sov a sn.as_surplus) :: ((sov a sn.as_nt) :: []))
  | MQpq -> []

(** val dump_value_cells : arith -> config -> csnap -> string list **)

let dump_value_cells a cfg c =
  match cfg.cf_method with
  | MWigm -> (sv a c.sn_vote) :: []
  | MMeek -> (sv a c.sn_vote) :: ((sov a c.sn_kf) :: [])
  | MQpq -> (sov a c.sn_quo) :: []

(** val dump_missing_cells : config -> string list **)

let dump_missing_cells cfg =
  match cfg.cf_method with
  | MMeek -> "?" :: ("?" :: [])
  | _ -> "?" :: []

(** val dump_cand_cells :
    arith -> config -> cand list -> asnap -> Big_int_Z.big_int -> string list **)

let dump_cand_cells a cfg cs sn i =
  match lookup_sn a sn.as_c i with
  | Some c ->
    app
      ((name_of a cs i) :: ((code_of cfg.cf_method c.sn_st c.sn_pend) :: []))
      (dump_value_cells a cfg c)
  | None -> app ((name_of a cs i) :: ("?" :: [])) (dump_missing_cells cfg)

(** val dump_short_row : arith -> action -> string list **)

let dump_short_row _ a =
  (string_of_Z a.a_round) :: ((tag_name a.a_tag) :: (a.a_msg :: []))

(** val dump_row :
    arith -> config -> cand list -> Big_int_Z.big_int list -> action ->
    string list **)

let dump_row a cfg cs ecids a0 =
  if is_short_tag a0.a_tag
  then dump_short_row a a0
  else (match a0.a_snap with
        | Some sn ->
          app
            ((if is_end_tag a0.a_tag then "X" else string_of_Z a0.a_round) :: (
            (tag_name a0.a_tag) :: ((sv a sn.as_quota) :: [])))
            (app (dump_rule_cells a cfg sn)
              (flat_map (dump_cand_cells a cfg cs sn) ecids))
        | None -> dump_short_row a a0)

(** val dump_table : arith -> config -> est -> string list list **)

let dump_table a cfg s =
  (dump_header cfg (elig_cids a s)) :: (map
                                         (dump_row a cfg s.cands
                                           (elig_cids a s))
                                         (record_actions a s))

(** val dump_line : string list -> string **)

let dump_line r =
  (^) (String.concat tab r) nl

(** val dump_text : arith -> config -> est -> string **)

let dump_text a cfg s =
  String.concat "" (map dump_line (dump_table a cfg s))

(** val ordered_snaps :
    arith -> Big_int_Z.big_int list -> asnap -> csnap list **)

let ordered_snaps a cids sn =
  flat_map (fun i ->
    match lookup_sn a sn.as_c i with
    | Some c -> c :: []
    | None -> []) cids

(** val sn_in : arith -> cstate -> csnap -> bool **)

let sn_in _ st c =
  cstate_eqb c.sn_st st

(** val cand_line :
    arith -> cand list -> string -> (csnap -> string) -> csnap -> string **)

let cand_line a cs label val0 c =
  (^) tab
    ((^) label
      ((^) (name_of a cs c.sn_cid) ((^) " (" ((^) (val0 c) ((^) ")" nl)))))

(** val vote_str : arith -> csnap -> string **)

let vote_str a c =
  sv a c.sn_vote

(** val quo_str : arith -> csnap -> string **)

let quo_str a c =
  sov a c.sn_quo

(** val elected_np : arith -> csnap list -> csnap list **)

let elected_np a l =
  filter (fun c -> (&&) (sn_in a Elected c) (negb (pend_true c.sn_pend))) l

(** val elected_p : arith -> csnap list -> csnap list **)

let elected_p a l =
  filter (fun c -> (&&) (sn_in a Elected c) (pend_true c.sn_pend)) l

(** val hopeful_sn : arith -> csnap list -> csnap list **)

let hopeful_sn a l =
  filter (sn_in a Hopeful) l

(** val defeated_sn : arith -> csnap list -> csnap list **)

let defeated_sn a l =
  filter (sn_in a Defeated) l

(** val defeated_pos : arith -> csnap list -> csnap list **)

let defeated_pos a l =
  filter (fun c -> a.gtv c.sn_vote (a.of_int Big_int_Z.zero_big_int))
    (defeated_sn a l)

(** val defeated_zero : arith -> csnap list -> csnap list **)

let defeated_zero a l =
  filter (fun c -> a.eqv c.sn_vote (a.of_int Big_int_Z.zero_big_int))
    (defeated_sn a l)

(** val zero_defeated_line : arith -> cand list -> csnap list -> string **)

let zero_defeated_line a cs z0 =
  (^) tab
    ((^) "Defeated: "
      ((^) (String.concat ", " (map (fun c -> name_of a cs c.sn_cid) z0))
        ((^) " (" ((^) (sv a (a.of_int Big_int_Z.zero_big_int)) ((^) ")" nl)))))

(** val default_cand_lines :
    arith -> cand list -> csnap list -> string list **)

let default_cand_lines a cs l =
  app (map (cand_line a cs "Elected:  " (vote_str a)) (elected_np a l))
    (app (map (cand_line a cs "Pending:  " (vote_str a)) (elected_p a l))
      (app (map (cand_line a cs "Hopeful:  " (vote_str a)) (hopeful_sn a l))
        (app
          (map (cand_line a cs "Defeated: " (vote_str a)) (defeated_pos a l))
          (match defeated_zero a l with
           | [] -> []
           | c :: l0 -> (zero_defeated_line a cs (c :: l0)) :: []))))

(** val wigm_append :
    arith -> config -> t -> string -> csnap list -> string list **)

let wigm_append a cfg nt surp l =
  let votes_of = fun x -> vsum a (map (fun c -> c.sn_vote) x) in
  let h_votes = votes_of (hopeful_sn a l) in
  let d_votes = votes_of (defeated_sn a l) in
  let e_votes = votes_of (elected_np a l) in
  let p_votes = votes_of (elected_p a l) in
  let total =
    a.add0 (a.add0 (a.add0 (a.add0 e_votes p_votes) h_votes) d_votes) nt
  in
  let resid = a.sub0 (a.of_int cfg.cf_nballots) total in
  app (((^) tab ((^) "Elected votes: " ((^) (sv a e_votes) nl))) :: [])
    (app
      (if a.truth p_votes
       then ((^) tab ((^) "Pending votes: " ((^) (sv a p_votes) nl))) :: []
       else [])
      (app (((^) tab ((^) "Hopeful votes: " ((^) (sv a h_votes) nl))) :: [])
        (app
          (if a.truth d_votes
           then ((^) tab ((^) "Defeated votes: " ((^) (sv a d_votes) nl))) :: []
           else [])
          (((^) tab ((^) "Nontransferable votes: " ((^) (sv a nt) nl))) :: (
          ((^) tab ((^) "Residual: " ((^) (sv a resid) nl))) :: (((^) tab
                                                                   ((^)
                                                                    "Total: "
                                                                    ((^)
                                                                    (sv a
                                                                    (a.add0
                                                                    total
                                                                    resid))
                                                                    nl))) :: (
          ((^) tab ((^) "Surplus: " ((^) surp nl))) :: [])))))))

(** val meek_append : arith -> header -> asnap -> string list **)

let meek_append a h sn =
  ((^) tab ((^) h.h_quota_name ((^) ": " ((^) (sv a sn.as_quota) nl)))) :: (
    ((^) tab ((^) "Votes: " ((^) (sv a sn.as_votes) nl))) :: (((^) tab
                                                                ((^)
                                                                  "Residual: "
                                                                  ((^)
                                                                    (sov a
                                                                    sn.as_nt)
                                                                    nl))) :: (
    ((^) tab
      ((^) "Total: "
        ((^)
          (match sn.as_nt with
           | Some r -> sv a (a.add0 sn.as_votes r)
           | None -> "None") nl))) :: (((^) tab
                                         ((^) "Surplus: "
                                           ((^) (sov a sn.as_surplus) nl))) :: []))))

(** val action_append :
    arith -> config -> header -> asnap -> csnap list -> string list **)

let action_append a cfg h sn l =
  match cfg.cf_method with
  | MWigm ->
    wigm_append a cfg
      (match sn.as_nt with
       | Some v -> v
       | None -> a.of_int Big_int_Z.zero_big_int) (sov a sn.as_surplus) l
  | MMeek -> meek_append a h sn
  | MQpq -> []

(** val qpq_cand_lines : arith -> cand list -> csnap list -> string list **)

let qpq_cand_lines a cs l =
  app
    (map (cand_line a cs "Elected:  " (quo_str a))
      (filter (sn_in a Elected) l))
    (app (map (cand_line a cs "Hopeful:  " (quo_str a)) (hopeful_sn a l))
      (map (cand_line a cs "Defeated: " (quo_str a)) (defeated_sn a l)))

(** val qpq_section : config -> tag -> bool **)

let qpq_section cfg t0 =
  match cfg.cf_method with
  | MQpq -> qpq_own t0
  | _ -> false

(** val block_cand_lines :
    arith -> config -> cand list -> Big_int_Z.big_int list -> action -> asnap
    -> string list **)

let block_cand_lines a cfg cs cids a0 sn =
  let l = ordered_snaps a cids sn in
  if qpq_section cfg a0.a_tag
  then if is_tie a0.a_tag then [] else qpq_cand_lines a cs l
  else if lists_cands a0.a_tag then default_cand_lines a cs l else []

(** val report_action :
    arith -> config -> header -> cand list -> Big_int_Z.big_int list ->
    action -> string list **)

let report_action a cfg h cs cids a0 =
  match a0.a_tag with
  | TLog -> ((^) tab ((^) a0.a_msg nl)) :: []
  | TRound -> ((^) "Round " ((^) (string_of_Z a0.a_round) ((^) ":" nl))) :: []
  | _ ->
    (match a0.a_snap with
     | Some sn ->
       app (((^) "Action: " ((^) a0.a_msg nl)) :: [])
         (app (block_cand_lines a cfg cs cids a0 sn)
           (if qpq_section cfg a0.a_tag
            then ((^) tab
                   ((^) h.h_quota_name ((^) ": " ((^) (sv a sn.as_quota) nl)))) :: []
            else action_append a cfg h sn (ordered_snaps a cids sn)))
     | None -> ((^) "Action: " ((^) a0.a_msg nl)) :: [])

(** val opt_line : string -> string option -> string -> string list **)

let opt_line pre o post =
  match o with
  | Some x -> ((^) pre ((^) x post)) :: []
  | None -> []

(** val report_header : arith -> config -> header -> est -> string list **)

let report_header a cfg h s =
  app
    (((^) nl ((^) "Election: " ((^) h.h_title ((^) nl nl)))) :: (((^) tab
                                                                   ((^)
                                                                    "Droop package: "
                                                                    ((^)
                                                                    h.h_droop_name
                                                                    ((^) " v"
                                                                    ((^)
                                                                    h.h_droop_version
                                                                    nl))))) :: (
    ((^) tab ((^) "Rule: " ((^) h.h_rule_info nl))) :: (((^) tab
                                                          ((^) "Arithmetic: "
                                                            ((^)
                                                              h.h_arith_info
                                                              nl))) :: []))))
    (app
      (match h.h_unused with
       | [] -> []
       | s0 :: l ->
         ((^) tab
           ((^) "Unused options: " ((^) (String.concat ", " (s0 :: l)) nl))) :: [])
      (app
        (match h.h_overridden with
         | [] -> []
         | s0 :: l ->
           ((^) tab
             ((^) "Overridden options: "
               ((^) (String.concat ", " (s0 :: l)) nl))) :: [])
        (app
          (((^) tab ((^) "Seats: " ((^) (string_of_Z cfg.cf_nseats) nl))) :: (
          ((^) tab ((^) "Ballots: " ((^) (string_of_Z cfg.cf_nballots) nl))) :: (
          ((^) tab
            ((^) h.h_quota_name ((^) ": " ((^) (sv a (fill_quota a s)) nl)))) :: [])))
          (app
            (match cfg.cf_method with
             | MMeek ->
               ((^) tab
                 ((^) "Omega: "
                   ((^) (match h.h_omega with
                         | Some o -> o
                         | None -> "None") nl))) :: []
             | _ -> [])
            (app (opt_line "Source: " h.h_source nl)
              (app (opt_line "{" h.h_comment ((^) "}" nl)) (nl :: [])))))))

(** val report_pieces :
    arith -> arith_meta -> config -> header -> bool -> est -> string list **)

let report_pieces a m cfg h intr s =
  app (report_header a cfg h s)
    (app (opt_line "" (arith_report a m h s) "")
      (app
        (if intr
         then ((^) tab
                ((^) "** Count terminated prematurely by user interrupt **"
                  ((^) nl nl))) :: []
         else [])
        (flat_map (report_action a cfg h s.cands (all_cids a s))
          (record_actions a s))))

(** val report_text :
    arith -> arith_meta -> config -> header -> bool -> est -> string **)

let report_text a m cfg h intr s =
  String.concat "" (report_pieces a m cfg h intr s)

(** val jov : arith -> string -> t option -> (string * json) list **)

let jov a k = function
| Some v -> (k, (JStr (sv a v))) :: []
| None -> []

(** val json_cstate_entry : arith -> config -> csnap -> json **)

let json_cstate_entry a cfg c =
  match c.sn_st with
  | Withdrawn ->
    JObj (("code", (JStr
      (code_of cfg.cf_method Withdrawn c.sn_pend))) :: (("state", (JStr
      (state_name Withdrawn))) :: []))
  | x ->
    JObj
      (app (("code", (JStr (code_of cfg.cf_method x c.sn_pend))) :: [])
        (app (jov a "kf" c.sn_kf)
          (app
            (match c.sn_pend with
             | Some b -> ("pending", (JBool b)) :: []
             | None -> [])
            (app (jov a "quotient" c.sn_quo) (("state", (JStr
              (state_name x))) :: (("vote", (JStr (sv a c.sn_vote))) :: []))))))

(** val json_cstate : arith -> config -> csnap list -> json **)

let json_cstate a cfg l =
  JObj
    (map (fun c -> ((string_of_Z c.sn_cid), (json_cstate_entry a cfg c))) l)

(** val json_action : arith -> config -> action -> json **)

let json_action a cfg a0 =
  match a0.a_snap with
  | Some sn ->
    JObj
      (app (("cstate", (json_cstate a cfg sn.as_c)) :: (("msg", (JStr
        a0.a_msg)) :: []))
        (app
          (match cfg.cf_method with
           | MWigm -> jov a "nt_votes" sn.as_nt
           | _ -> [])
          (app (("quota", (JStr (sv a sn.as_quota))) :: [])
            (app
              (match cfg.cf_method with
               | MMeek -> jov a "residual" sn.as_nt
               | _ -> [])
              (app (("round", (JInt a0.a_round)) :: [])
                (app (jov a "surplus" sn.as_surplus) (("tag", (JStr
                  (tag_name a0.a_tag))) :: (("votes", (JStr
                  (sv a sn.as_votes))) :: []))))))))
  | None ->
    JObj (("msg", (JStr a0.a_msg)) :: (("round", (JInt
      a0.a_round)) :: (("tag", (JStr (tag_name a0.a_tag))) :: [])))

(** val json_cdict_entry : arith -> cand -> json **)

let json_cdict_entry _ c =
  JObj (("ballot_order", (JInt c.corder)) :: (("cid", (JInt
    c.cid)) :: (("name", (JStr c.cname)) :: (("nick", (JStr
    c.cnick)) :: (("tie_order", (JInt c.ctie)) :: [])))))

(** val jos : string -> string option -> (string * json) list **)

let jos k = function
| Some x -> (k, (JStr x)) :: []
| None -> []

(** val method_name : config -> string **)

let method_name cfg =
  match cfg.cf_method with
  | MWigm -> "wigm"
  | MMeek -> "meek"
  | MQpq -> "qpq"

(** val json_tree : arith -> arith_meta -> config -> header -> est -> json **)

let json_tree a m cfg h s =
  JObj
    (app (("actions", (JList
      (map (json_action a cfg) (record_actions a s)))) :: (("arithmetic_info",
      (JStr h.h_arith_info)) :: (("arithmetic_name", (JStr m.aname)) :: [])))
      (app (jos "arithmetic_report" (arith_report a m h s))
        (app (("cdict", (JObj
          (map (fun c -> ((string_of_Z c.cid), (json_cdict_entry a c)))
            s.cands))) :: (("cids", (JList
          (map (fun x -> JInt x) (all_cids a s)))) :: (("droop_name", (JStr
          h.h_droop_name)) :: (("droop_version", (JStr
          h.h_droop_version)) :: (("ecids", (JList
          (map (fun x -> JInt x) (elig_cids a s)))) :: (("method", (JStr
          (method_name cfg))) :: (("nballots", (JInt
          cfg.cf_nballots)) :: [])))))))
          (app
            (match cfg.cf_method with
             | MMeek ->
               ("omega",
                 (match h.h_omega with
                  | Some o -> JStr o
                  | None -> JNull)) :: []
             | _ -> [])
            (app (("options", h.h_options) :: [])
              (app (jos "profile_comment" h.h_comment)
                (app (jos "profile_source" h.h_source) (("quota", (JStr
                  (sv a (fill_quota a s)))) :: (("rule_info", (JStr
                  h.h_rule_info)) :: (("rule_name", (JStr
                  cfg.cf_rule)) :: (("seats", (JInt
                  cfg.cf_nseats)) :: (("title", (JStr h.h_title)) :: []))))))))))))

(** val json_text :
    arith -> arith_meta -> config -> header -> est -> string **)

let json_text a m cfg h s =
  json_text_of (json_tree a m cfg h s)

(** val rd_strs : nat -> tok list -> (string list * tok list) option **)

let rec rd_strs n0 l =
  match n0 with
  | O -> Some ([], l)
  | S k ->
    (match rd_str l with
     | Some p ->
       let (x, t0) = p in
       (match rd_strs k t0 with
        | Some p0 -> let (xs, t') = p0 in Some ((x :: xs), t')
        | None -> None)
     | None -> None)

(** val rd_json : nat -> tok list -> (json * tok list) option **)

let rec rd_json fuel l =
  match fuel with
  | O -> None
  | S f ->
    (match l with
     | [] -> None
     | t0 :: t1 ->
       (match t0 with
        | TI z0 ->
          ((fun fO fp fn z -> let s = Big_int_Z.sign_big_int z in
  if s = 0 then fO () else if s > 0 then fp z
  else fn (Big_int_Z.minus_big_int z))
             (fun _ -> Some (JNull, t1))
             (fun p ->
             (fun f2p1 f2p f1 p ->
  if Big_int_Z.le_big_int p Big_int_Z.unit_big_int then f1 () else
  let (q,r) = Big_int_Z.quomod_big_int p (Big_int_Z.big_int_of_int 2) in
  if Big_int_Z.eq_big_int r Big_int_Z.zero_big_int then f2p q else f2p1 q)
               (fun p0 ->
               (fun f2p1 f2p f1 p ->
  if Big_int_Z.le_big_int p Big_int_Z.unit_big_int then f1 () else
  let (q,r) = Big_int_Z.quomod_big_int p (Big_int_Z.big_int_of_int 2) in
  if Big_int_Z.eq_big_int r Big_int_Z.zero_big_int then f2p q else f2p1 q)
                 (fun _ -> None)
                 (fun p1 ->
                 (fun f2p1 f2p f1 p ->
  if Big_int_Z.le_big_int p Big_int_Z.unit_big_int then f1 () else
  let (q,r) = Big_int_Z.quomod_big_int p (Big_int_Z.big_int_of_int 2) in
  if Big_int_Z.eq_big_int r Big_int_Z.zero_big_int then f2p q else f2p1 q)
                   (fun _ -> None)
                   (fun _ -> None)
                   (fun _ ->
                   match t1 with
                   | [] -> None
                   | t2 :: t3 ->
                     (match t2 with
                      | TI n0 ->
                        let rec items k l0 =
                          match k with
                          | O -> Some ((JObj []), l0)
                          | S k' ->
                            (match l0 with
                             | [] -> None
                             | t4 :: l1 ->
                               (match t4 with
                                | TI _ -> None
                                | TS key ->
                                  (match rd_json f l1 with
                                   | Some p2 ->
                                     let (x, t5) = p2 in
                                     (match items k' t5 with
                                      | Some p3 ->
                                        let (j, t6) = p3 in
                                        (match j with
                                         | JObj xs ->
                                           Some ((JObj ((key, x) :: xs)), t6)
                                         | _ -> None)
                                      | None -> None)
                                   | None -> None)))
                        in items (Z.to_nat n0) t3
                      | TS _ -> None))
                   p1)
                 (fun _ ->
                 match t1 with
                 | [] -> None
                 | t2 :: t3 ->
                   (match t2 with
                    | TI _ -> None
                    | TS x -> Some ((JStr x), t3)))
                 p0)
               (fun p0 ->
               (fun f2p1 f2p f1 p ->
  if Big_int_Z.le_big_int p Big_int_Z.unit_big_int then f1 () else
  let (q,r) = Big_int_Z.quomod_big_int p (Big_int_Z.big_int_of_int 2) in
  if Big_int_Z.eq_big_int r Big_int_Z.zero_big_int then f2p q else f2p1 q)
                 (fun _ -> None)
                 (fun p1 ->
                 (fun f2p1 f2p f1 p ->
  if Big_int_Z.le_big_int p Big_int_Z.unit_big_int then f1 () else
  let (q,r) = Big_int_Z.quomod_big_int p (Big_int_Z.big_int_of_int 2) in
  if Big_int_Z.eq_big_int r Big_int_Z.zero_big_int then f2p q else f2p1 q)
                   (fun _ -> None)
                   (fun _ -> None)
                   (fun _ ->
                   match t1 with
                   | [] -> None
                   | t2 :: t3 ->
                     (match t2 with
                      | TI n0 ->
                        let rec items k l0 =
                          match k with
                          | O -> Some ((JList []), l0)
                          | S k' ->
                            (match rd_json f l0 with
                             | Some p2 ->
                               let (x, t4) = p2 in
                               (match items k' t4 with
                                | Some p3 ->
                                  let (j, t5) = p3 in
                                  (match j with
                                   | JList xs -> Some ((JList (x :: xs)), t5)
                                   | _ -> None)
                                | None -> None)
                             | None -> None)
                        in items (Z.to_nat n0) t3
                      | TS _ -> None))
                   p1)
                 (fun _ ->
                 match t1 with
                 | [] -> None
                 | t2 :: t3 ->
                   (match t2 with
                    | TI z1 -> Some ((JInt z1), t3)
                    | TS _ -> None))
                 p0)
               (fun _ ->
               match t1 with
               | [] -> None
               | t2 :: t3 ->
                 (match t2 with
                  | TI b ->
                    Some ((JBool (negb (Z.eqb b Big_int_Z.zero_big_int))), t3)
                  | TS _ -> None))
               p)
             (fun _ -> None)
             z0)
        | TS _ -> None))

(** val rd_opt_str : tok list -> (string option * tok list) option **)

let rd_opt_str = function
| [] -> None
| t0 :: l0 ->
  (match t0 with
   | TI b ->
     (match l0 with
      | [] -> None
      | t1 :: t2 ->
        (match t1 with
         | TI _ -> None
         | TS x ->
           Some ((if Z.eqb b Big_int_Z.zero_big_int then None else Some x),
             t2)))
   | TS _ -> None)

(** val rd_header : tok list -> ((bool * header) * tok list) option **)

let rd_header = function
| [] -> None
| t0 :: l0 ->
  (match t0 with
   | TI intr ->
     (match l0 with
      | [] -> None
      | t1 :: l1 ->
        (match t1 with
         | TI _ -> None
         | TS title ->
           (match l1 with
            | [] -> None
            | t2 :: l2 ->
              (match t2 with
               | TI _ -> None
               | TS dn ->
                 (match l2 with
                  | [] -> None
                  | t3 :: l3 ->
                    (match t3 with
                     | TI _ -> None
                     | TS dv ->
                       (match l3 with
                        | [] -> None
                        | t4 :: l4 ->
                          (match t4 with
                           | TI _ -> None
                           | TS ri ->
                             (match l4 with
                              | [] -> None
                              | t5 :: l5 ->
                                (match t5 with
                                 | TI _ -> None
                                 | TS ai ->
                                   (match l5 with
                                    | [] -> None
                                    | t6 :: t7 ->
                                      (match t6 with
                                       | TI nu ->
                                         (match rd_strs (Z.to_nat nu) t7 with
                                          | Some p ->
                                            let (unused0, l6) = p in
                                            (match l6 with
                                             | [] -> None
                                             | t8 :: t9 ->
                                               (match t8 with
                                                | TI no ->
                                                  (match rd_strs
                                                           (Z.to_nat no) t9 with
                                                   | Some p0 ->
                                                     let (over, l7) = p0 in
                                                     (match l7 with
                                                      | [] -> None
                                                      | t10 :: t11 ->
                                                        (match t10 with
                                                         | TI _ -> None
                                                         | TS qn ->
                                                           (match rd_opt_str
                                                                    t11 with
                                                            | Some p1 ->
                                                              let (omega0, t12) =
                                                                p1
                                                              in
                                                              (match 
                                                               rd_opt_str t12 with
                                                               | Some p2 ->
                                                                 let (
                                                                   src, t13) =
                                                                   p2
                                                                 in
                                                                 (match 
                                                                  rd_opt_str
                                                                    t13 with
                                                                  | Some p3 ->
                                                                    let (
                                                                    com, l8) =
                                                                    p3
                                                                    in
                                                                    (
                                                                    match l8 with
                                                                    | [] ->
                                                                    None
                                                                    | t14 :: l9 ->
                                                                    (match t14 with
                                                                    | TI _ ->
                                                                    None
                                                                    | TS maxd ->
                                                                    (match l9 with
                                                                    | [] ->
                                                                    None
                                                                    | t15 :: t16 ->
                                                                    (match t15 with
                                                                    | TI _ ->
                                                                    None
                                                                    | TS mind ->
                                                                    (match 
                                                                    rd_json
                                                                    (S
                                                                    (length
                                                                    t16)) t16 with
                                                                    | Some p4 ->
                                                                    let (
                                                                    opts0, t17) =
                                                                    p4
                                                                    in
                                                                    Some
                                                                    ((
                                                                    (negb
                                                                    (Z.eqb
                                                                    intr
                                                                    Big_int_Z.zero_big_int)),
                                                                    { h_title =
                                                                    title;
                                                                    h_droop_name =
                                                                    dn;
                                                                    h_droop_version =
                                                                    dv;
                                                                    h_rule_info =
                                                                    ri;
                                                                    h_arith_info =
                                                                    ai;
                                                                    h_unused =
                                                                    unused0;
                                                                    h_overridden =
                                                                    over;
                                                                    h_quota_name =
                                                                    qn;
                                                                    h_omega =
                                                                    omega0;
                                                                    h_source =
                                                                    src;
                                                                    h_comment =
                                                                    com;
                                                                    h_maxdiff =
                                                                    maxd;
                                                                    h_mindiff =
                                                                    mind;
                                                                    h_options =
                                                                    opts0 }),
                                                                    t17)
                                                                    | None ->
                                                                    None)))))
                                                                  | None ->
                                                                    None)
                                                               | None -> None)
                                                            | None -> None)))
                                                   | None -> None)
                                                | TS _ -> None))
                                          | None -> None)
                                       | TS _ -> None))))))))))))
   | TS _ -> None)

(** val mark_report : string **)

let mark_report =
  (^) "=== RENDER-REPORT ===" nl

(** val mark_dump : string **)

let mark_dump =
  (^) "=== RENDER-DUMP ===" nl

(** val mark_json : string **)

let mark_json =
  (^) "=== RENDER-JSON ===" nl

(** val show_render :
    arith -> arith_meta -> config -> header -> bool -> outcome -> string **)

let show_render a m cfg h intr = function
| Done (s, _) ->
  String.concat ""
    (mark_report :: ((report_text a m cfg h intr s) :: (mark_dump :: (
    (dump_text a cfg s) :: (mark_json :: ((json_text a m cfg h s) :: []))))))
| Crashed (s, _) ->
  String.concat ""
    (mark_report :: ((report_text a m cfg h intr s) :: (mark_dump :: (
    (dump_text a cfg s) :: (mark_json :: ((json_text a m cfg h s) :: []))))))
| OutOfFuel -> "X OutOfFuel"

(** val run_render : tok list -> string **)

let run_render l =
  match rd_header l with
  | Some p ->
    let (p0, l0) = p in
    let (intr, h) = p0 in
    (match l0 with
     | [] -> "badheader-count"
     | t0 :: rest ->
       (match t0 with
        | TI _ -> "badheader-count"
        | TS s ->
          ((* If this appears, you're using String internals. Please don't *)
 (fun f0 f1 s ->
    let l = String.length s in
    if l = 0 then f0 () else f1 (String.get s 0) (String.sub s 1 (l-1)))

             (fun _ -> "badheader-count")
             (fun a s0 ->
             (* If this appears, you're using Ascii internals. Please don't *)
 (fun f c ->
  let n = Char.code c in
  let h i = (n land (1 lsl i)) <> 0 in
  f (h 0) (h 1) (h 2) (h 3) (h 4) (h 5) (h 6) (h 7))
               (fun b b0 b1 b2 b3 b4 b5 b6 ->
               if b
               then if b0
                    then if b1
                         then "badheader-count"
                         else if b2
                              then "badheader-count"
                              else if b3
                                   then "badheader-count"
                                   else if b4
                                        then if b5
                                             then if b6
                                                  then "badheader-count"
                                                  else ((* If this appears, you're using String internals. Please don't *)
 (fun f0 f1 s ->
    let l = String.length s in
    if l = 0 then f0 () else f1 (String.get s 0) (String.sub s 1 (l-1)))

                                                          (fun _ ->
                                                          "badheader-count")
                                                          (fun a0 s1 ->
                                                          (* If this appears, you're using Ascii internals. Please don't *)
 (fun f c ->
  let n = Char.code c in
  let h i = (n land (1 lsl i)) <> 0 in
  f (h 0) (h 1) (h 2) (h 3) (h 4) (h 5) (h 6) (h 7))
                                                            (fun b7 b8 b9 b10 b11 b12 b13 b14 ->
                                                            if b7
                                                            then if b8
                                                                 then 
                                                                   if b9
                                                                   then 
                                                                    if b10
                                                                    then 
                                                                    if b11
                                                                    then 
                                                                    "badheader-count"
                                                                    else 
                                                                    if b12
                                                                    then 
                                                                    if b13
                                                                    then 
                                                                    if b14
                                                                    then 
                                                                    "badheader-count"
                                                                    else 
                                                                    ((* If this appears, you're using String internals. Please don't *)
 (fun f0 f1 s ->
    let l = String.length s in
    if l = 0 then f0 () else f1 (String.get s 0) (String.sub s 1 (l-1)))

                                                                    (fun _ ->
                                                                    "badheader-count")
                                                                    (fun a1 s2 ->
                                                                    (* If this appears, you're using Ascii internals. Please don't *)
 (fun f c ->
  let n = Char.code c in
  let h i = (n land (1 lsl i)) <> 0 in
  f (h 0) (h 1) (h 2) (h 3) (h 4) (h 5) (h 6) (h 7))
                                                                    (fun b15 b16 b17 b18 b19 b20 b21 b22 ->
                                                                    if b15
                                                                    then 
                                                                    if b16
                                                                    then 
                                                                    "badheader-count"
                                                                    else 
                                                                    if b17
                                                                    then 
                                                                    if b18
                                                                    then 
                                                                    "badheader-count"
                                                                    else 
                                                                    if b19
                                                                    then 
                                                                    if b20
                                                                    then 
                                                                    if b21
                                                                    then 
                                                                    if b22
                                                                    then 
                                                                    "badheader-count"
                                                                    else 
                                                                    ((* If this appears, you're using String internals. Please don't *)
 (fun f0 f1 s ->
    let l = String.length s in
    if l = 0 then f0 () else f1 (String.get s 0) (String.sub s 1 (l-1)))

                                                                    (fun _ ->
                                                                    "badheader-count")
                                                                    (fun a2 s3 ->
                                                                    (* If this appears, you're using Ascii internals. Please don't *)
 (fun f c ->
  let n = Char.code c in
  let h i = (n land (1 lsl i)) <> 0 in
  f (h 0) (h 1) (h 2) (h 3) (h 4) (h 5) (h 6) (h 7))
                                                                    (fun b23 b24 b25 b26 b27 b28 b29 b30 ->
                                                                    if b23
                                                                    then 
                                                                    "badheader-count"
                                                                    else 
                                                                    if b24
                                                                    then 
                                                                    if b25
                                                                    then 
                                                                    if b26
                                                                    then 
                                                                    if b27
                                                                    then 
                                                                    "badheader-count"
                                                                    else 
                                                                    if b28
                                                                    then 
                                                                    if b29
                                                                    then 
                                                                    if b30
                                                                    then 
                                                                    "badheader-count"
                                                                    else 
                                                                    ((* If this appears, you're using String internals. Please don't *)
 (fun f0 f1 s ->
    let l = String.length s in
    if l = 0 then f0 () else f1 (String.get s 0) (String.sub s 1 (l-1)))

                                                                    (fun _ ->
                                                                    "badheader-count")
                                                                    (fun a3 s4 ->
                                                                    (* If this appears, you're using Ascii internals. Please don't *)
 (fun f c ->
  let n = Char.code c in
  let h i = (n land (1 lsl i)) <> 0 in
  f (h 0) (h 1) (h 2) (h 3) (h 4) (h 5) (h 6) (h 7))
                                                                    (fun b31 b32 b33 b34 b35 b36 b37 b38 ->
                                                                    if b31
                                                                    then 
                                                                    "badheader-count"
                                                                    else 
                                                                    if b32
                                                                    then 
                                                                    "badheader-count"
                                                                    else 
                                                                    if b33
                                                                    then 
                                                                    if b34
                                                                    then 
                                                                    "badheader-count"
                                                                    else 
                                                                    if b35
                                                                    then 
                                                                    if b36
                                                                    then 
                                                                    if b37
                                                                    then 
                                                                    if b38
                                                                    then 
                                                                    "badheader-count"
                                                                    else 
                                                                    ((* If this appears, you're using String internals. Please don't *)
 (fun f0 f1 s ->
    let l = String.length s in
    if l = 0 then f0 () else f1 (String.get s 0) (String.sub s 1 (l-1)))

                                                                    (fun _ ->
                                                                    match 
                                                                    parse_count_case
                                                                    rest with
                                                                    | Inl e ->
                                                                    e
                                                                    | Inr c ->
                                                                    let r =
                                                                    c.cc_rule
                                                                    in
                                                                    let cfg =
                                                                    c.cc_cfg
                                                                    in
                                                                    let fuel =
                                                                    c.cc_fuel
                                                                    in
                                                                    let pr =
                                                                    c.cc_profile
                                                                    in
                                                                    let p1 =
                                                                    c.cc_p
                                                                    in
                                                                    let g =
                                                                    c.cc_g
                                                                    in
                                                                    let d =
                                                                    c.cc_d
                                                                    in
                                                                    let stale =
                                                                    c.cc_stale
                                                                    in
                                                                    if 
                                                                    Z.eqb
                                                                    c.cc_ar
                                                                    Big_int_Z.zero_big_int
                                                                    then 
                                                                    show_render
                                                                    (fixed p1
                                                                    d)
                                                                    (fixedMeta
                                                                    p1 d) cfg
                                                                    h intr
                                                                    (run_count
                                                                    (fixed p1
                                                                    d) cfg
                                                                    fuel r pr)
                                                                    else 
                                                                    if 
                                                                    Z.eqb
                                                                    c.cc_ar
                                                                    Big_int_Z.unit_big_int
                                                                    then 
                                                                    show_render
                                                                    (guarded
                                                                    p1 g d
                                                                    stale)
                                                                    (guardedMeta
                                                                    p1 g d
                                                                    stale)
                                                                    cfg h
                                                                    intr
                                                                    (run_count
                                                                    (guarded
                                                                    p1 g d
                                                                    stale)
                                                                    cfg fuel
                                                                    r pr)
                                                                    else 
                                                                    show_render
                                                                    (rational
                                                                    d)
                                                                    rationalMeta
                                                                    cfg h
                                                                    intr
                                                                    (run_count
                                                                    (rational
                                                                    d) cfg
                                                                    fuel r pr))
                                                                    (fun _ _ ->
                                                                    "badheader-count")
                                                                    s4)
                                                                    else 
                                                                    "badheader-count"
                                                                    else 
                                                                    "badheader-count"
                                                                    else 
                                                                    "badheader-count"
                                                                    else 
                                                                    "badheader-count")
                                                                    a3)
                                                                    s3)
                                                                    else 
                                                                    "badheader-count"
                                                                    else 
                                                                    "badheader-count"
                                                                    else 
                                                                    "badheader-count"
                                                                    else 
                                                                    "badheader-count"
                                                                    else 
                                                                    "badheader-count")
                                                                    a2)
                                                                    s2)
                                                                    else 
                                                                    "badheader-count"
                                                                    else 
                                                                    "badheader-count"
                                                                    else 
                                                                    "badheader-count"
                                                                    else 
                                                                    "badheader-count"
                                                                    else 
                                                                    "badheader-count")
                                                                    a1)
                                                                    s1)
                                                                    else 
                                                                    "badheader-count"
                                                                    else 
                                                                    "badheader-count"
                                                                    else 
                                                                    "badheader-count"
                                                                   else 
                                                                    "badheader-count"
                                                                 else 
                                                                   "badheader-count"
                                                            else "badheader-count")
                                                            a0)
                                                          s0)
                                             else "badheader-count"
                                        else "badheader-count"
                    else "badheader-count"
               else "badheader-count")
               a)
             s)))
  | None -> "badheader"

type oval =
| VNone
| VBool of bool
| VInt of Big_int_Z.big_int
| VStr of string

(** val oval_num : oval -> Big_int_Z.big_int option **)

let oval_num = function
| VBool b ->
  Some (if b then Big_int_Z.unit_big_int else Big_int_Z.zero_big_int)
| VInt z0 -> Some z0
| _ -> None

(** val oval_eqb : oval -> oval -> bool **)

let oval_eqb a b =
  match a with
  | VNone ->
    (match b with
     | VNone -> true
     | _ ->
       (match oval_num a with
        | Some x ->
          (match oval_num b with
           | Some y -> Z.eqb x y
           | None -> false)
        | None -> false))
  | VStr s ->
    (match b with
     | VStr t0 -> (=) s t0
     | _ ->
       (match oval_num a with
        | Some x ->
          (match oval_num b with
           | Some y -> Z.eqb x y
           | None -> false)
        | None -> false))
  | _ ->
    (match oval_num a with
     | Some x -> (match oval_num b with
                  | Some y -> Z.eqb x y
                  | None -> false)
     | None -> false)

(** val is_none : oval -> bool **)

let is_none = function
| VNone -> true
| _ -> false

(** val py_str : oval -> string **)

let py_str = function
| VNone -> "None"
| VBool b -> if b then "True" else "False"
| VInt z0 -> string_of_Z z0
| VStr s -> s

(** val is_digit0 : char -> bool **)

let is_digit0 c =
  match digit_of c with
  | Some _ -> true
  | None -> false

(** val nl_char : char **)

let nl_char =
  ascii_of_nat (S (S (S (S (S (S (S (S (S (S O))))))))))

(** val digits_value : string -> Big_int_Z.big_int -> Big_int_Z.big_int **)

let rec digits_value s acc =
  (* If this appears, you're using String internals. Please don't *)
 (fun f0 f1 s ->
    let l = String.length s in
    if l = 0 then f0 () else f1 (String.get s 0) (String.sub s 1 (l-1)))

    (fun _ -> acc)
    (fun c t0 ->
    match digit_of c with
    | Some d ->
      digits_value t0
        (Z.add
          (Z.mul acc (Big_int_Z.mult_int_big_int 2
            ((fun x -> Big_int_Z.succ_big_int (Big_int_Z.mult_int_big_int 2 x))
            (Big_int_Z.mult_int_big_int 2 Big_int_Z.unit_big_int)))) d)
    | None -> acc)
    s

(** val digits_then_end : string -> bool -> bool **)

let rec digits_then_end s seen =
  (* If this appears, you're using String internals. Please don't *)
 (fun f0 f1 s ->
    let l = String.length s in
    if l = 0 then f0 () else f1 (String.get s 0) (String.sub s 1 (l-1)))

    (fun _ -> seen)
    (fun c t0 ->
    if is_digit0 c
    then digits_then_end t0 true
    else (&&) ((&&) seen ((=) c nl_char))
           ((* If this appears, you're using String internals. Please don't *)
 (fun f0 f1 s ->
    let l = String.length s in
    if l = 0 then f0 () else f1 (String.get s 0) (String.sub s 1 (l-1)))

              (fun _ -> true)
              (fun _ _ -> false)
              t0))
    s

(** val matches_digits : string -> bool **)

let matches_digits s =
  digits_then_end s false

(** val normalize_val : oval -> oval **)

let normalize_val v = match v with
| VStr s ->
  if matches_digits s then VInt (digits_value s Big_int_Z.zero_big_int) else v
| _ -> v

(** val is_space0 : char -> bool **)

let is_space0 c =
  let n0 = nat_of_ascii c in
  (||)
    ((&&) (Nat.leb (S (S (S (S (S (S (S (S (S O))))))))) n0)
      (Nat.leb n0 (S (S (S (S (S (S (S (S (S (S (S (S (S O)))))))))))))))
    ((&&)
      (Nat.leb (S (S (S (S (S (S (S (S (S (S (S (S (S (S (S (S (S (S (S (S (S
        (S (S (S (S (S (S (S O)))))))))))))))))))))))))))) n0)
      (Nat.leb n0 (S (S (S (S (S (S (S (S (S (S (S (S (S (S (S (S (S (S (S (S
        (S (S (S (S (S (S (S (S (S (S (S (S O))))))))))))))))))))))))))))))))))

(** val lstrip : string -> string **)

let rec lstrip s =
  (* If this appears, you're using String internals. Please don't *)
 (fun f0 f1 s ->
    let l = String.length s in
    if l = 0 then f0 () else f1 (String.get s 0) (String.sub s 1 (l-1)))

    (fun _ -> s)
    (fun c t0 -> if is_space0 c then lstrip t0 else s)
    s

(** val rstrip : string -> string **)

let rec rstrip s =
  (* If this appears, you're using String internals. Please don't *)
 (fun f0 f1 s ->
    let l = String.length s in
    if l = 0 then f0 () else f1 (String.get s 0) (String.sub s 1 (l-1)))

    (fun _ -> "")
    (fun c t0 ->
    (* If this appears, you're using String internals. Please don't *)
 (fun f0 f1 s ->
    let l = String.length s in
    if l = 0 then f0 () else f1 (String.get s 0) (String.sub s 1 (l-1)))

      (fun _ ->
      if is_space0 c
      then ""
      else (* If this appears, you're using String internals. Please don't *)
  (fun (c, s) -> String.make 1 c ^ s)

             (c, ""))
      (fun a s0 ->
      (* If this appears, you're using String internals. Please don't *)
  (fun (c, s) -> String.make 1 c ^ s)

      (c,
      ((* If this appears, you're using String internals. Please don't *)
  (fun (c, s) -> String.make 1 c ^ s)

      (a, s0))))
      (rstrip t0))
    s

(** val int_body :
    string -> Big_int_Z.big_int -> bool -> Big_int_Z.big_int option **)

let rec int_body s acc prev_digit =
  (* If this appears, you're using String internals. Please don't *)
 (fun f0 f1 s ->
    let l = String.length s in
    if l = 0 then f0 () else f1 (String.get s 0) (String.sub s 1 (l-1)))

    (fun _ -> if prev_digit then Some acc else None)
    (fun c t0 ->
    match digit_of c with
    | Some d ->
      int_body t0
        (Z.add
          (Z.mul acc (Big_int_Z.mult_int_big_int 2
            ((fun x -> Big_int_Z.succ_big_int (Big_int_Z.mult_int_big_int 2 x))
            (Big_int_Z.mult_int_big_int 2 Big_int_Z.unit_big_int)))) d) true
    | None ->
      if (&&) ((=) c '_') prev_digit then int_body t0 acc false else None)
    s

(** val py_int_str : string -> Big_int_Z.big_int option **)

let py_int_str s0 =
  let s = rstrip (lstrip s0) in
  ((* If this appears, you're using String internals. Please don't *)
 (fun f0 f1 s ->
    let l = String.length s in
    if l = 0 then f0 () else f1 (String.get s 0) (String.sub s 1 (l-1)))

     (fun _ -> None)
     (fun c t0 ->
     if (=) c '-'
     then option_map Z.opp (int_body t0 Big_int_Z.zero_big_int false)
     else if (=) c '+'
          then int_body t0 Big_int_Z.zero_big_int false
          else int_body s Big_int_Z.zero_big_int false)
     s)

(** val py_int0 : oval -> Big_int_Z.big_int res **)

let py_int0 = function
| VNone -> Raise TypeError
| VBool b -> Ok (if b then Big_int_Z.unit_big_int else Big_int_Z.zero_big_int)
| VInt z0 -> Ok z0
| VStr s ->
  (match py_int_str s with
   | Some z0 -> Ok z0
   | None -> Raise ValueError)

(** val py_floordiv_int : oval -> Big_int_Z.big_int -> oval res **)

let py_floordiv_int v k =
  match oval_num v with
  | Some z0 -> Ok (VInt (Z.div z0 k))
  | None -> Raise TypeError

(** val py_mul2_floordiv3 : oval -> oval res **)

let py_mul2_floordiv3 v =
  match oval_num v with
  | Some z0 ->
    Ok (VInt
      (Z.div (Z.mul z0 (Big_int_Z.mult_int_big_int 2 Big_int_Z.unit_big_int))
        ((fun x -> Big_int_Z.succ_big_int (Big_int_Z.mult_int_big_int 2 x))
        Big_int_Z.unit_big_int)))
  | None -> Raise TypeError

(** val str_endswith_aux : string -> string -> nat -> bool **)

let rec str_endswith_aux s suf = function
| O -> (=) s suf
| S k ->
  ((* If this appears, you're using String internals. Please don't *)
 (fun f0 f1 s ->
    let l = String.length s in
    if l = 0 then f0 () else f1 (String.get s 0) (String.sub s 1 (l-1)))

     (fun _ -> false)
     (fun _ t0 -> str_endswith_aux t0 suf k)
     s)

(** val str_endswith : string -> string -> bool **)

let str_endswith s suf =
  (&&) (Nat.leb (length0 suf) (length0 s))
    (str_endswith_aux s suf (sub (length0 s) (length0 suf)))

(** val lower_char : char -> char **)

let lower_char c =
  let n0 = nat_of_ascii c in
  if (&&)
       (Nat.leb (S (S (S (S (S (S (S (S (S (S (S (S (S (S (S (S (S (S (S (S
         (S (S (S (S (S (S (S (S (S (S (S (S (S (S (S (S (S (S (S (S (S (S (S
         (S (S (S (S (S (S (S (S (S (S (S (S (S (S (S (S (S (S (S (S (S (S
         O)))))))))))))))))))))))))))))))))))))))))))))))))))))))))))))))))
         n0)
       (Nat.leb n0 (S (S (S (S (S (S (S (S (S (S (S (S (S (S (S (S (S (S (S
         (S (S (S (S (S (S (S (S (S (S (S (S (S (S (S (S (S (S (S (S (S (S (S
         (S (S (S (S (S (S (S (S (S (S (S (S (S (S (S (S (S (S (S (S (S (S (S
         (S (S (S (S (S (S (S (S (S (S (S (S (S (S (S (S (S (S (S (S (S (S (S
         (S (S
         O)))))))))))))))))))))))))))))))))))))))))))))))))))))))))))))))))))))))))))))))))))))))))))
  then ascii_of_nat
         (add n0 (S (S (S (S (S (S (S (S (S (S (S (S (S (S (S (S (S (S (S (S
           (S (S (S (S (S (S (S (S (S (S (S (S
           O)))))))))))))))))))))))))))))))))
  else c

(** val str_lower : string -> string **)

let rec str_lower s =
  (* If this appears, you're using String internals. Please don't *)
 (fun f0 f1 s ->
    let l = String.length s in
    if l = 0 then f0 () else f1 (String.get s 0) (String.sub s 1 (l-1)))

    (fun _ -> "")
    (fun c t0 ->
    (* If this appears, you're using String internals. Please don't *)
  (fun (c, s) -> String.make 1 c ^ s)

    ((lower_char c), (str_lower t0)))
    s

(** val split_eq : string -> string -> string list **)

let rec split_eq s cur =
  (* If this appears, you're using String internals. Please don't *)
 (fun f0 f1 s ->
    let l = String.length s in
    if l = 0 then f0 () else f1 (String.get s 0) (String.sub s 1 (l-1)))

    (fun _ -> cur :: [])
    (fun c t0 ->
    if (=) c '='
    then cur :: (split_eq t0 "")
    else split_eq t0
           ((^) cur
             ((* If this appears, you're using String internals. Please don't *)
  (fun (c, s) -> String.make 1 c ^ s)

             (c, ""))))
    s

(** val insert_sorted : string -> string list -> string list **)

let rec insert_sorted x l = match l with
| [] -> x :: []
| y :: t0 ->
  (match compare1 x y with
   | Eq -> l
   | Lt -> x :: l
   | Gt -> y :: (insert_sorted x t0))

(** val sort_set : string list -> string list **)

let sort_set l =
  fold_right insert_sorted [] l

type 'v dict = (string * 'v) list

(** val dget : string -> 'a1 dict -> 'a1 option **)

let rec dget k = function
| [] -> None
| p :: t0 -> let (k', v) = p in if (=) k k' then Some v else dget k t0

(** val dmem : string -> 'a1 dict -> bool **)

let dmem k d =
  match dget k d with
  | Some _ -> true
  | None -> false

(** val dset : string -> 'a1 -> 'a1 dict -> 'a1 dict **)

let rec dset k v = function
| [] -> (k, v) :: []
| p :: t0 ->
  let (k', v') = p in
  if (=) k k' then (k', v) :: t0 else (k', v') :: (dset k v t0)

(** val dsetdefault : string -> 'a1 -> 'a1 dict -> 'a1 dict **)

let dsetdefault k v d =
  if dmem k d then d else dset k v d

(** val dkeys : 'a1 dict -> string list **)

let dkeys d =
  map fst d

(** val dupdate : 'a1 dict -> 'a1 dict -> 'a1 dict **)

let dupdate d e =
  fold_left (fun acc kv -> dset (fst kv) (snd kv) acc) e d

(** val dget_or : string -> 'a1 dict -> 'a1 -> 'a1 **)

let dget_or k d dflt =
  match dget k d with
  | Some v -> v
  | None -> dflt

(** val dict_of_list : (string * 'a1) list -> 'a1 dict **)

let dict_of_list l =
  dupdate [] l

type store = { o_cmd : oval dict; o_file : oval dict; o_default : oval dict;
               o_force : oval dict; o_allowed : oval list dict }

(** val set_cmd : store -> oval dict -> store **)

let set_cmd o d =
  { o_cmd = d; o_file = o.o_file; o_default = o.o_default; o_force =
    o.o_force; o_allowed = o.o_allowed }

(** val set_file : store -> oval dict -> store **)

let set_file o d =
  { o_cmd = o.o_cmd; o_file = d; o_default = o.o_default; o_force =
    o.o_force; o_allowed = o.o_allowed }

(** val set_default : store -> oval dict -> store **)

let set_default o d =
  { o_cmd = o.o_cmd; o_file = o.o_file; o_default = d; o_force = o.o_force;
    o_allowed = o.o_allowed }

(** val set_force : store -> oval dict -> store **)

let set_force o d =
  { o_cmd = o.o_cmd; o_file = o.o_file; o_default = o.o_default; o_force = d;
    o_allowed = o.o_allowed }

(** val set_allowed : store -> oval list dict -> store **)

let set_allowed o d =
  { o_cmd = o.o_cmd; o_file = o.o_file; o_default = o.o_default; o_force =
    o.o_force; o_allowed = d }

(** val normalize_dict : oval dict -> oval dict **)

let normalize_dict d =
  map (fun kv -> ((fst kv), (normalize_val (snd kv)))) d

(** val new_options : oval dict -> store **)

let new_options cmd0 =
  { o_cmd = (normalize_dict cmd0); o_file = []; o_default = []; o_force = [];
    o_allowed = [] }

(** val update1 : store -> string -> oval -> bool -> store **)

let update1 o k v = function
| true -> set_file o (dset k (normalize_val v) o.o_file)
| false -> set_cmd o (dset k (normalize_val v) o.o_cmd)

(** val update_dict : store -> oval dict -> bool -> store **)

let update_dict o d file_options =
  fold_left (fun acc kv -> update1 acc (fst kv) (snd kv) file_options) d o

(** val getopt : store -> string -> oval **)

let getopt o k =
  let v = dget_or k o.o_default VNone in
  let v2 = dget_or k o.o_file v in
  let v3 = dget_or k o.o_cmd v2 in dget_or k o.o_force v3

(** val setopt_store : store -> string -> oval -> bool -> store **)

let setopt_store o k dflt force =
  let d = normalize_val dflt in
  let o1 = set_default o (dsetdefault k d o.o_default) in
  if force then set_force o1 (dset k d o1.o_force) else o1

(** val setopt :
    string -> oval -> bool -> oval list -> store -> oval res * store **)

let setopt k dflt force allowed o =
  let o2 = setopt_store o k dflt force in
  let v = getopt o2 k in
  (match allowed with
   | [] -> ((Ok v), o2)
   | _ :: _ ->
     let o3 = set_allowed o2 (dset k allowed o2.o_allowed) in
     if negb (existsb (fun x -> oval_eqb x v) allowed)
     then ((Raise UsageError), o3)
     else ((Ok v), o3))

(** val str_in : string -> string list -> bool **)

let str_in x l =
  existsb ((=) x) l

(** val unused : store -> string list **)

let unused o =
  let opts0 = app (dkeys o.o_file) (dkeys o.o_cmd) in
  let opts1 =
    filter (fun k -> negb (str_in k ("rule" :: ("path" :: [])))) opts0
  in
  let opts2 = filter (fun k -> negb (dmem k o.o_default)) opts1 in
  sort_set opts2

(** val overrides : store -> string list **)

let overrides o =
  let opts0 = dupdate o.o_file o.o_cmd in
  let overridden =
    filter (fun kv ->
      match dget (fst kv) opts0 with
      | Some v -> negb (oval_eqb v (snd kv))
      | None -> false) o.o_force
  in
  sort_set (map fst overridden)

type orecord = { rec_cmd : oval dict; rec_file : oval dict;
                 rec_default : oval dict; rec_force : oval dict;
                 rec_allowed : oval list dict; rec_options : oval dict }

(** val record : store -> orecord **)

let record o =
  let effective = dupdate [] o.o_default in
  let effective0 = dupdate effective o.o_file in
  let effective1 = dupdate effective0 o.o_cmd in
  let effective2 = dupdate effective1 o.o_force in
  { rec_cmd = o.o_cmd; rec_file = o.o_file; rec_default = o.o_default;
  rec_force = o.o_force; rec_allowed = o.o_allowed; rec_options = effective2 }

(** val arithmetic_names : string list **)

let arithmetic_names =
  "fixed" :: ("integer" :: ("rational" :: ("guarded" :: [])))

(** val rule_names : string list **)

let rule_names =
  "cfer" :: ("cfer-batch" :: ("meek" :: ("meek-prf" :: ("mpls" :: ("qpq" :: ("scotland" :: ("warren" :: ("wigm" :: ("wigm-prf" :: ("wigm-prf-batch" :: []))))))))))

(** val str_truthy : string -> bool **)

let str_truthy s =
  (* If this appears, you're using String internals. Please don't *)
 (fun f0 f1 s ->
    let l = String.length s in
    if l = 0 then f0 () else f1 (String.get s 0) (String.sub s 1 (l-1)))

    (fun _ -> false)
    (fun _ _ -> true)
    s

(** val parse_step :
    (oval dict * string option) -> string -> (oval dict * string option) res **)

let parse_step acc opt =
  let (options, path) = acc in
  (match split_eq opt "" with
   | [] -> Ok acc
   | a :: l ->
     (match l with
      | [] ->
        if str_in a arithmetic_names
        then Ok ((dset "arithmetic" (VStr a) options), path)
        else if str_in a rule_names
             then Ok ((dset "rule" (VStr a) options), path)
             else if str_in a ("report" :: ("dump" :: ("json" :: [])))
                  then Ok ((dset a (VBool true) options), path)
                  else (match path with
                        | Some p ->
                          if str_truthy p
                          then Raise UsageError
                          else Ok ((dset "path" (VStr a) options), (Some a))
                        | None ->
                          Ok ((dset "path" (VStr a) options), (Some a)))
      | b :: _ ->
        let lb = str_lower b in
        if str_in lb ("false" :: ("no" :: []))
        then Ok ((dset a (VBool false) options), path)
        else if str_in lb ("true" :: ("yes" :: []))
             then Ok ((dset a (VBool true) options), path)
             else Ok ((dset a (VStr b) options), path)))

(** val parse_loop :
    string list -> (oval dict * string option) -> oval dict res **)

let rec parse_loop opts0 acc =
  match opts0 with
  | [] -> Ok (fst acc)
  | opt :: t0 ->
    (match parse_step acc opt with
     | Ok acc' -> parse_loop t0 acc'
     | Raise e -> Raise e)

(** val parse0 : string list -> oval dict res **)

let parse0 opts0 =
  parse_loop opts0 ([], None)

type ('s, 'a) sM = 's -> 'a res * 's

(** val sret : 'a2 -> ('a1, 'a2) sM **)

let sret a s =
  ((Ok a), s)

(** val sbind : ('a1, 'a2) sM -> ('a2 -> ('a1, 'a3) sM) -> ('a1, 'a3) sM **)

let sbind m f s =
  let (r, s') = m s in
  (match r with
   | Ok a -> f a s'
   | Raise e -> ((Raise e), s'))

(** val slift : 'a2 res -> ('a1, 'a2) sM **)

let slift r s =
  (r, s)

(** val sget : ('a1 -> 'a2) -> ('a1, 'a2) sM **)

let sget f s =
  ((Ok (f s)), s)

type ruleparams = { rp_name : oval option; rp_integer_quota : oval option;
                    rp_defeat_batch : oval option; rp_warren : oval option;
                    rp_omega10 : oval option }

type rulecls =
| KWigm
| KWigmPrf
| KCfer
| KScotland
| KMpls
| KMeek
| KMeekPrf
| KQpq

(** val rule_by_name : string -> rulecls option **)

let rule_by_name s =
  if str_in s ("wigm" :: [])
  then Some KWigm
  else if str_in s ("wigm-prf" :: ("wigm-prf-batch" :: []))
       then Some KWigmPrf
       else if str_in s ("cfer" :: ("cfer-batch" :: []))
            then Some KCfer
            else if str_in s ("scotland" :: [])
                 then Some KScotland
                 else if str_in s ("mpls" :: [])
                      then Some KMpls
                      else if str_in s ("meek" :: ("warren" :: []))
                           then Some KMeek
                           else if str_in s ("meek-prf" :: [])
                                then Some KMeekPrf
                                else if str_in s ("qpq" :: [])
                                     then Some KQpq
                                     else None

(** val getopt_m : string -> (store, oval) sM **)

let getopt_m k =
  sget (fun o -> getopt o k)

(** val endswith_batch : oval -> oval res **)

let endswith_batch = function
| VStr s -> Ok (VBool (str_endswith s "batch"))
| _ -> Raise AttributeError

(** val vs : string -> oval **)

let vs s =
  VStr s

(** val wigm_options : (store, ruleparams) sM **)

let wigm_options =
  sbind (setopt "arithmetic" (vs "guarded") false []) (fun a ->
    sbind
      (if oval_eqb a (vs "guarded")
       then sbind
              (setopt "precision" (VInt (Big_int_Z.mult_int_big_int 2
                ((fun x -> Big_int_Z.succ_big_int (Big_int_Z.mult_int_big_int 2 x))
                (Big_int_Z.mult_int_big_int 2 (Big_int_Z.mult_int_big_int 2
                Big_int_Z.unit_big_int))))) false []) (fun _ ->
              sbind (getopt_m "precision") (fun p ->
                sbind
                  (slift
                    (py_floordiv_int p (Big_int_Z.mult_int_big_int 2
                      Big_int_Z.unit_big_int))) (fun h ->
                  sbind (setopt "guard" h false []) (fun _ -> sret ()))))
       else sbind (getopt_m "arithmetic") (fun a2 ->
              if oval_eqb a2 (vs "fixed")
              then sbind
                     (setopt "precision" (VInt
                       ((fun x -> Big_int_Z.succ_big_int (Big_int_Z.mult_int_big_int 2 x))
                       (Big_int_Z.mult_int_big_int 2
                       (Big_int_Z.mult_int_big_int 2
                       Big_int_Z.unit_big_int)))) false []) (fun _ -> 
                     sret ())
              else sret ())) (fun _ ->
      sbind
        (setopt "integer_quota" (VBool false) false ((VBool true) :: ((VBool
          false) :: []))) (fun iq ->
        sbind
          (setopt "defeat_batch" (vs "none") false
            ((vs "none") :: ((vs "zero") :: []))) (fun db ->
          sret { rp_name = (Some (vs "wigm")); rp_integer_quota = (Some iq);
            rp_defeat_batch = (Some db); rp_warren = None; rp_omega10 = None }))))

(** val prf_options : Big_int_Z.big_int -> (store, ruleparams) sM **)

let prf_options precision =
  sbind (getopt_m "rule") (fun name ->
    sbind (slift (endswith_batch name)) (fun db ->
      sbind (setopt "arithmetic" (vs "fixed") true []) (fun _ ->
        sbind (setopt "precision" (VInt precision) true []) (fun _ ->
          sbind (setopt "display" (VInt precision) true []) (fun _ ->
            sret { rp_name = (Some name); rp_integer_quota = None;
              rp_defeat_batch = (Some db); rp_warren = None; rp_omega10 =
              None })))))

(** val statute_fixed_options :
    string -> Big_int_Z.big_int -> (store, ruleparams) sM **)

let statute_fixed_options rname precision =
  sbind (setopt "arithmetic" (vs "fixed") true []) (fun _ ->
    sbind (setopt "precision" (VInt precision) true []) (fun _ ->
      sbind (setopt "display" (VInt precision) true []) (fun _ ->
        sret { rp_name = (Some (vs rname)); rp_integer_quota = None;
          rp_defeat_batch = None; rp_warren = None; rp_omega10 = None })))

(** val meek_options : (store, ruleparams) sM **)

let meek_options =
  sbind (getopt_m "rule") (fun name ->
    let warren = VBool (oval_eqb name (vs "warren")) in
    sbind (setopt "arithmetic" (vs "guarded") false []) (fun a ->
      sbind
        (if oval_eqb a (vs "guarded")
         then sbind
                (setopt "precision" (VInt (Big_int_Z.mult_int_big_int 2
                  ((fun x -> Big_int_Z.succ_big_int (Big_int_Z.mult_int_big_int 2 x))
                  (Big_int_Z.mult_int_big_int 2 (Big_int_Z.mult_int_big_int 2
                  Big_int_Z.unit_big_int))))) false []) (fun p ->
                sbind
                  (slift
                    (py_floordiv_int p (Big_int_Z.mult_int_big_int 2
                      Big_int_Z.unit_big_int))) (fun h ->
                  sbind (setopt "guard" h false []) (fun _ ->
                    sbind
                      (slift
                        (py_floordiv_int p (Big_int_Z.mult_int_big_int 2
                          Big_int_Z.unit_big_int))) (fun h2 ->
                      setopt "omega" h2 false []))))
         else if oval_eqb a (vs "fixed")
              then sbind
                     (setopt "precision" (VInt
                       ((fun x -> Big_int_Z.succ_big_int (Big_int_Z.mult_int_big_int 2 x))
                       (Big_int_Z.mult_int_big_int 2
                       (Big_int_Z.mult_int_big_int 2
                       Big_int_Z.unit_big_int)))) false []) (fun p ->
                     sbind (slift (py_mul2_floordiv3 p)) (fun h ->
                       setopt "omega" h false []))
              else if oval_eqb a (vs "rational")
                   then setopt "omega" (VInt (Big_int_Z.mult_int_big_int 2
                          ((fun x -> Big_int_Z.succ_big_int (Big_int_Z.mult_int_big_int 2 x))
                          (Big_int_Z.mult_int_big_int 2
                          Big_int_Z.unit_big_int)))) false []
                   else sret VNone) (fun om ->
        sbind
          (setopt "defeat_batch" (vs "safe") false
            ((vs "none") :: ((vs "safe") :: []))) (fun db ->
          sret { rp_name = (Some name); rp_integer_quota = None;
            rp_defeat_batch = (Some db); rp_warren = (Some warren);
            rp_omega10 = (Some om) }))))

(** val meek_prf_options : (store, ruleparams) sM **)

let meek_prf_options =
  sbind (setopt "arithmetic" (vs "fixed") true []) (fun _ ->
    sbind
      (setopt "precision" (VInt
        ((fun x -> Big_int_Z.succ_big_int (Big_int_Z.mult_int_big_int 2 x))
        (Big_int_Z.mult_int_big_int 2 (Big_int_Z.mult_int_big_int 2
        Big_int_Z.unit_big_int)))) true []) (fun _ ->
      sbind
        (setopt "display" (VInt
          ((fun x -> Big_int_Z.succ_big_int (Big_int_Z.mult_int_big_int 2 x))
          (Big_int_Z.mult_int_big_int 2 (Big_int_Z.mult_int_big_int 2
          Big_int_Z.unit_big_int)))) true []) (fun _ ->
        sbind
          (setopt "omega" (VInt (Big_int_Z.mult_int_big_int 2
            ((fun x -> Big_int_Z.succ_big_int (Big_int_Z.mult_int_big_int 2 x))
            Big_int_Z.unit_big_int))) true []) (fun _ ->
          sret { rp_name = (Some (vs "meek-prf")); rp_integer_quota = None;
            rp_defeat_batch = None; rp_warren = None; rp_omega10 = (Some
            (VInt (Big_int_Z.mult_int_big_int 2
            ((fun x -> Big_int_Z.succ_big_int (Big_int_Z.mult_int_big_int 2 x))
            Big_int_Z.unit_big_int)))) }))))

(** val qpq_options : (store, ruleparams) sM **)

let qpq_options =
  sbind (setopt "arithmetic" (vs "guarded") true []) (fun _ ->
    sbind
      (setopt "precision" (VInt
        ((fun x -> Big_int_Z.succ_big_int (Big_int_Z.mult_int_big_int 2 x))
        (Big_int_Z.mult_int_big_int 2 (Big_int_Z.mult_int_big_int 2
        Big_int_Z.unit_big_int)))) true []) (fun _ ->
      sbind
        (setopt "guard" (VInt
          ((fun x -> Big_int_Z.succ_big_int (Big_int_Z.mult_int_big_int 2 x))
          (Big_int_Z.mult_int_big_int 2 (Big_int_Z.mult_int_big_int 2
          Big_int_Z.unit_big_int)))) true []) (fun _ ->
        sbind
          (setopt "display" (VInt
            ((fun x -> Big_int_Z.succ_big_int (Big_int_Z.mult_int_big_int 2 x))
            (Big_int_Z.mult_int_big_int 2 (Big_int_Z.mult_int_big_int 2
            Big_int_Z.unit_big_int)))) true []) (fun _ ->
          sret { rp_name = (Some (vs "qpq")); rp_integer_quota = None;
            rp_defeat_batch = None; rp_warren = None; rp_omega10 = None }))))

(** val rule_options : rulecls -> (store, ruleparams) sM **)

let rule_options = function
| KWigm -> wigm_options
| KWigmPrf ->
  prf_options (Big_int_Z.mult_int_big_int 2 (Big_int_Z.mult_int_big_int 2
    Big_int_Z.unit_big_int))
| KCfer ->
  prf_options
    ((fun x -> Big_int_Z.succ_big_int (Big_int_Z.mult_int_big_int 2 x))
    (Big_int_Z.mult_int_big_int 2 Big_int_Z.unit_big_int))
| KScotland ->
  statute_fixed_options "scotland"
    ((fun x -> Big_int_Z.succ_big_int (Big_int_Z.mult_int_big_int 2 x))
    (Big_int_Z.mult_int_big_int 2 Big_int_Z.unit_big_int))
| KMpls ->
  statute_fixed_options "mpls" (Big_int_Z.mult_int_big_int 2
    (Big_int_Z.mult_int_big_int 2 Big_int_Z.unit_big_int))
| KMeek -> meek_options
| KMeekPrf -> meek_prf_options
| KQpq -> qpq_options

type acls =
| AFixed
| AGuarded
| ARational

(** val arithmetic_dispatch : oval -> acls res **)

let arithmetic_dispatch a =
  if oval_eqb a (vs "rational")
  then Ok ARational
  else if (||) (oval_eqb a (vs "fixed")) (oval_eqb a (vs "integer"))
       then Ok AFixed
       else if oval_eqb a (vs "guarded")
            then Ok AGuarded
            else Raise ArithmeticValuesError

type field =
| FxName
| FxInfo
| FxEpsilon
| FxPrecision
| FxDisplay
| FxScale
| FxDfmt
| FxScaled
| FxScaledd
| FxScaledr
| GdPrecision
| GdGuard
| GdDisplay
| GdScale
| GdScalep
| GdScaleg
| GdScaled
| GdScaledd
| GdScaledr
| GdScaledg
| GdGeps
| GdMaxDiff
| GdMinDiff
| GdDfmt
| GdInfo
| GdQuasiExact
| GdExact
| GdEpsilon
| RtDp
| RtDps
| RtDpr
| RtDfmt

(** val all_fields : field list **)

let all_fields =
  FxName :: (FxInfo :: (FxEpsilon :: (FxPrecision :: (FxDisplay :: (FxScale :: (FxDfmt :: (FxScaled :: (FxScaledd :: (FxScaledr :: (GdPrecision :: (GdGuard :: (GdDisplay :: (GdScale :: (GdScalep :: (GdScaleg :: (GdScaled :: (GdScaledd :: (GdScaledr :: (GdScaledg :: (GdGeps :: (GdMaxDiff :: (GdMinDiff :: (GdDfmt :: (GdInfo :: (GdQuasiExact :: (GdExact :: (GdEpsilon :: (RtDp :: (RtDps :: (RtDpr :: (RtDfmt :: [])))))))))))))))))))))))))))))))

(** val field_idx : field -> Big_int_Z.big_int **)

let field_idx = function
| FxName -> Big_int_Z.zero_big_int
| FxInfo -> Big_int_Z.unit_big_int
| FxEpsilon -> (Big_int_Z.mult_int_big_int 2 Big_int_Z.unit_big_int)
| FxPrecision ->
  ((fun x -> Big_int_Z.succ_big_int (Big_int_Z.mult_int_big_int 2 x))
    Big_int_Z.unit_big_int)
| FxDisplay ->
  (Big_int_Z.mult_int_big_int 2 (Big_int_Z.mult_int_big_int 2
    Big_int_Z.unit_big_int))
| FxScale ->
  ((fun x -> Big_int_Z.succ_big_int (Big_int_Z.mult_int_big_int 2 x))
    (Big_int_Z.mult_int_big_int 2 Big_int_Z.unit_big_int))
| FxDfmt ->
  (Big_int_Z.mult_int_big_int 2
    ((fun x -> Big_int_Z.succ_big_int (Big_int_Z.mult_int_big_int 2 x))
    Big_int_Z.unit_big_int))
| FxScaled ->
  ((fun x -> Big_int_Z.succ_big_int (Big_int_Z.mult_int_big_int 2 x))
    ((fun x -> Big_int_Z.succ_big_int (Big_int_Z.mult_int_big_int 2 x))
    Big_int_Z.unit_big_int))
| FxScaledd ->
  (Big_int_Z.mult_int_big_int 2 (Big_int_Z.mult_int_big_int 2
    (Big_int_Z.mult_int_big_int 2 Big_int_Z.unit_big_int)))
| FxScaledr ->
  ((fun x -> Big_int_Z.succ_big_int (Big_int_Z.mult_int_big_int 2 x))
    (Big_int_Z.mult_int_big_int 2 (Big_int_Z.mult_int_big_int 2
    Big_int_Z.unit_big_int)))
| GdPrecision ->
  (Big_int_Z.mult_int_big_int 2
    ((fun x -> Big_int_Z.succ_big_int (Big_int_Z.mult_int_big_int 2 x))
    (Big_int_Z.mult_int_big_int 2 Big_int_Z.unit_big_int)))
| GdGuard ->
  ((fun x -> Big_int_Z.succ_big_int (Big_int_Z.mult_int_big_int 2 x))
    ((fun x -> Big_int_Z.succ_big_int (Big_int_Z.mult_int_big_int 2 x))
    (Big_int_Z.mult_int_big_int 2 Big_int_Z.unit_big_int)))
| GdDisplay ->
  (Big_int_Z.mult_int_big_int 2 (Big_int_Z.mult_int_big_int 2
    ((fun x -> Big_int_Z.succ_big_int (Big_int_Z.mult_int_big_int 2 x))
    Big_int_Z.unit_big_int)))
| GdScale ->
  ((fun x -> Big_int_Z.succ_big_int (Big_int_Z.mult_int_big_int 2 x))
    (Big_int_Z.mult_int_big_int 2
    ((fun x -> Big_int_Z.succ_big_int (Big_int_Z.mult_int_big_int 2 x))
    Big_int_Z.unit_big_int)))
| GdScalep ->
  (Big_int_Z.mult_int_big_int 2
    ((fun x -> Big_int_Z.succ_big_int (Big_int_Z.mult_int_big_int 2 x))
    ((fun x -> Big_int_Z.succ_big_int (Big_int_Z.mult_int_big_int 2 x))
    Big_int_Z.unit_big_int)))
| GdScaleg ->
  ((fun x -> Big_int_Z.succ_big_int (Big_int_Z.mult_int_big_int 2 x))
    ((fun x -> Big_int_Z.succ_big_int (Big_int_Z.mult_int_big_int 2 x))
    ((fun x -> Big_int_Z.succ_big_int (Big_int_Z.mult_int_big_int 2 x))
    Big_int_Z.unit_big_int)))
| GdScaled ->
  (Big_int_Z.mult_int_big_int 2 (Big_int_Z.mult_int_big_int 2
    (Big_int_Z.mult_int_big_int 2 (Big_int_Z.mult_int_big_int 2
    Big_int_Z.unit_big_int))))
| GdScaledd ->
  ((fun x -> Big_int_Z.succ_big_int (Big_int_Z.mult_int_big_int 2 x))
    (Big_int_Z.mult_int_big_int 2 (Big_int_Z.mult_int_big_int 2
    (Big_int_Z.mult_int_big_int 2 Big_int_Z.unit_big_int))))
| GdScaledr ->
  (Big_int_Z.mult_int_big_int 2
    ((fun x -> Big_int_Z.succ_big_int (Big_int_Z.mult_int_big_int 2 x))
    (Big_int_Z.mult_int_big_int 2 (Big_int_Z.mult_int_big_int 2
    Big_int_Z.unit_big_int))))
| GdScaledg ->
  ((fun x -> Big_int_Z.succ_big_int (Big_int_Z.mult_int_big_int 2 x))
    ((fun x -> Big_int_Z.succ_big_int (Big_int_Z.mult_int_big_int 2 x))
    (Big_int_Z.mult_int_big_int 2 (Big_int_Z.mult_int_big_int 2
    Big_int_Z.unit_big_int))))
| GdGeps ->
  (Big_int_Z.mult_int_big_int 2 (Big_int_Z.mult_int_big_int 2
    ((fun x -> Big_int_Z.succ_big_int (Big_int_Z.mult_int_big_int 2 x))
    (Big_int_Z.mult_int_big_int 2 Big_int_Z.unit_big_int))))
| GdMaxDiff ->
  ((fun x -> Big_int_Z.succ_big_int (Big_int_Z.mult_int_big_int 2 x))
    (Big_int_Z.mult_int_big_int 2
    ((fun x -> Big_int_Z.succ_big_int (Big_int_Z.mult_int_big_int 2 x))
    (Big_int_Z.mult_int_big_int 2 Big_int_Z.unit_big_int))))
| GdMinDiff ->
  (Big_int_Z.mult_int_big_int 2
    ((fun x -> Big_int_Z.succ_big_int (Big_int_Z.mult_int_big_int 2 x))
    ((fun x -> Big_int_Z.succ_big_int (Big_int_Z.mult_int_big_int 2 x))
    (Big_int_Z.mult_int_big_int 2 Big_int_Z.unit_big_int))))
| GdDfmt ->
  ((fun x -> Big_int_Z.succ_big_int (Big_int_Z.mult_int_big_int 2 x))
    ((fun x -> Big_int_Z.succ_big_int (Big_int_Z.mult_int_big_int 2 x))
    ((fun x -> Big_int_Z.succ_big_int (Big_int_Z.mult_int_big_int 2 x))
    (Big_int_Z.mult_int_big_int 2 Big_int_Z.unit_big_int))))
| GdInfo ->
  (Big_int_Z.mult_int_big_int 2 (Big_int_Z.mult_int_big_int 2
    (Big_int_Z.mult_int_big_int 2
    ((fun x -> Big_int_Z.succ_big_int (Big_int_Z.mult_int_big_int 2 x))
    Big_int_Z.unit_big_int))))
| GdQuasiExact ->
  ((fun x -> Big_int_Z.succ_big_int (Big_int_Z.mult_int_big_int 2 x))
    (Big_int_Z.mult_int_big_int 2 (Big_int_Z.mult_int_big_int 2
    ((fun x -> Big_int_Z.succ_big_int (Big_int_Z.mult_int_big_int 2 x))
    Big_int_Z.unit_big_int))))
| GdExact ->
  (Big_int_Z.mult_int_big_int 2
    ((fun x -> Big_int_Z.succ_big_int (Big_int_Z.mult_int_big_int 2 x))
    (Big_int_Z.mult_int_big_int 2
    ((fun x -> Big_int_Z.succ_big_int (Big_int_Z.mult_int_big_int 2 x))
    Big_int_Z.unit_big_int))))
| GdEpsilon ->
  ((fun x -> Big_int_Z.succ_big_int (Big_int_Z.mult_int_big_int 2 x))
    ((fun x -> Big_int_Z.succ_big_int (Big_int_Z.mult_int_big_int 2 x))
    (Big_int_Z.mult_int_big_int 2
    ((fun x -> Big_int_Z.succ_big_int (Big_int_Z.mult_int_big_int 2 x))
    Big_int_Z.unit_big_int))))
| RtDp ->
  (Big_int_Z.mult_int_big_int 2 (Big_int_Z.mult_int_big_int 2
    ((fun x -> Big_int_Z.succ_big_int (Big_int_Z.mult_int_big_int 2 x))
    ((fun x -> Big_int_Z.succ_big_int (Big_int_Z.mult_int_big_int 2 x))
    Big_int_Z.unit_big_int))))
| RtDps ->
  ((fun x -> Big_int_Z.succ_big_int (Big_int_Z.mult_int_big_int 2 x))
    (Big_int_Z.mult_int_big_int 2
    ((fun x -> Big_int_Z.succ_big_int (Big_int_Z.mult_int_big_int 2 x))
    ((fun x -> Big_int_Z.succ_big_int (Big_int_Z.mult_int_big_int 2 x))
    Big_int_Z.unit_big_int))))
| RtDpr ->
  (Big_int_Z.mult_int_big_int 2
    ((fun x -> Big_int_Z.succ_big_int (Big_int_Z.mult_int_big_int 2 x))
    ((fun x -> Big_int_Z.succ_big_int (Big_int_Z.mult_int_big_int 2 x))
    ((fun x -> Big_int_Z.succ_big_int (Big_int_Z.mult_int_big_int 2 x))
    Big_int_Z.unit_big_int))))
| RtDfmt ->
  ((fun x -> Big_int_Z.succ_big_int (Big_int_Z.mult_int_big_int 2 x))
    ((fun x -> Big_int_Z.succ_big_int (Big_int_Z.mult_int_big_int 2 x))
    ((fun x -> Big_int_Z.succ_big_int (Big_int_Z.mult_int_big_int 2 x))
    ((fun x -> Big_int_Z.succ_big_int (Big_int_Z.mult_int_big_int 2 x))
    Big_int_Z.unit_big_int))))

(** val field_eqb : field -> field -> bool **)

let field_eqb a b =
  Z.eqb (field_idx a) (field_idx b)

type fv =
| FZ of Big_int_Z.big_int
| FS of string
| FB of bool
| FO of oval
| FFloat

type gstate = field -> fv option

(** val g_init : gstate **)

let g_init _ =
  None

(** val gset : field -> fv -> gstate -> gstate **)

let gset f v g f' =
  if field_eqb f f' then Some v else g f'

type wlog = (field * fv) list

(** val apply_log : wlog -> gstate -> gstate **)

let apply_log l g =
  fold_left (fun g0 fv0 -> gset (fst fv0) (snd fv0) g0) l g

(** val getZ : gstate -> field -> Big_int_Z.big_int **)

let getZ g f =
  match g f with
  | Some f0 -> (match f0 with
                | FZ z0 -> z0
                | _ -> Big_int_Z.zero_big_int)
  | None -> Big_int_Z.zero_big_int

(** val getS : gstate -> field -> string **)

let getS g f =
  match g f with
  | Some f0 -> (match f0 with
                | FS s -> s
                | _ -> "")
  | None -> ""

(** val getB : gstate -> field -> bool **)

let getB g f =
  match g f with
  | Some f0 -> (match f0 with
                | FB b -> b
                | _ -> true)
  | None -> true

type 'a wM = store -> ('a res * store) * wlog

(** val wret : 'a1 -> 'a1 wM **)

let wret a o =
  (((Ok a), o), [])

(** val wraise : exn -> 'a1 wM **)

let wraise e o =
  (((Raise e), o), [])

(** val wbind : 'a1 wM -> ('a1 -> 'a2 wM) -> 'a2 wM **)

let wbind m k o =
  let (p, l) = m o in
  let (r, o') = p in
  (match r with
   | Ok a -> let (p0, l') = k a o' in (p0, (app l l'))
   | Raise e -> (((Raise e), o'), l))

(** val w_op : (store, 'a1) sM -> 'a1 wM **)

let w_op m o =
  (((fst (m o)), (snd (m o))), [])

(** val wlift : 'a1 res -> 'a1 wM **)

let wlift r o =
  ((r, o), [])

(** val wr : field -> fv -> unit wM **)

let wr f v o =
  (((Ok ()), o), ((f, v) :: []))

(** val wtell : wlog -> unit wM **)

let wtell l o =
  (((Ok ()), o), l)

(** val wwhen_raise : bool -> exn -> unit wM **)

let wwhen_raise b e =
  if b then wraise e else wret ()

type world = store * gstate

(** val run_w : 'a1 wM -> world -> 'a1 res * world **)

let run_w m w =
  let (p, l) = m (fst w) in
  let (r, o') = p in (r, (o', (apply_log l (snd w))))

(** val usage_int : oval -> Big_int_Z.big_int res **)

let usage_int v =
  match py_int0 v with
  | Ok a -> Ok a
  | Raise e -> (match e with
                | ValueError -> Raise UsageError
                | x -> Raise x)

(** val fixed_tail :
    string -> Big_int_Z.big_int -> Big_int_Z.big_int -> wlog **)

let fixed_tail name p display =
  (FxScale, (FZ
    (Z.pow (Big_int_Z.mult_int_big_int 2
      ((fun x -> Big_int_Z.succ_big_int (Big_int_Z.mult_int_big_int 2 x))
      (Big_int_Z.mult_int_big_int 2 Big_int_Z.unit_big_int))) p))) :: ((FxDisplay,
    (FZ display)) :: ((FxScaled, (FZ
    (Z.pow (Big_int_Z.mult_int_big_int 2
      ((fun x -> Big_int_Z.succ_big_int (Big_int_Z.mult_int_big_int 2 x))
      (Big_int_Z.mult_int_big_int 2 Big_int_Z.unit_big_int))) display))) :: ((FxScaledd,
    (FZ
    (Z.pow (Big_int_Z.mult_int_big_int 2
      ((fun x -> Big_int_Z.succ_big_int (Big_int_Z.mult_int_big_int 2 x))
      (Big_int_Z.mult_int_big_int 2 Big_int_Z.unit_big_int)))
      (Z.sub p display)))) :: ((FxScaledr, (FZ
    (Z.div
      (Z.pow (Big_int_Z.mult_int_big_int 2
        ((fun x -> Big_int_Z.succ_big_int (Big_int_Z.mult_int_big_int 2 x))
        (Big_int_Z.mult_int_big_int 2 Big_int_Z.unit_big_int)))
        (Z.sub p display)) (Big_int_Z.mult_int_big_int 2
      Big_int_Z.unit_big_int)))) :: ((FxEpsilon, (FZ
    Big_int_Z.unit_big_int)) :: ((FxDfmt, (FS
    ((^) "%d.%0" ((^) (string_of_Z display) "d")))) :: ((FxInfo, (FS
    (if (=) name "integer"
     then "integer arithmetic"
     else if negb (Z.eqb display p)
          then (^) "fixed-point decimal arithmetic ("
                 ((^) (string_of_Z p)
                   ((^) " places, " ((^) (string_of_Z display) " displayed)")))
          else (^) "fixed-point decimal arithmetic ("
                 ((^) (string_of_Z p) " places)")))) :: [])))))))

(** val initialize_fixed : unit wM **)

let initialize_fixed =
  wbind (w_op (getopt_m "arithmetic")) (fun arithmetic ->
    wbind
      (wwhen_raise
        (negb
          ((||) (oval_eqb arithmetic (vs "fixed"))
            (oval_eqb arithmetic (vs "integer")))) UsageError) (fun _ ->
      wbind
        (if oval_eqb arithmetic (vs "integer")
         then w_op (setopt "precision" (VInt Big_int_Z.zero_big_int) true [])
         else w_op (getopt_m "precision")) (fun precision ->
        let name =
          if oval_eqb precision (VInt Big_int_Z.zero_big_int)
          then "integer"
          else "fixed"
        in
        wbind (wr FxName (FS name)) (fun _ ->
          wbind (wlift (usage_int precision)) (fun p ->
            wbind (wr FxPrecision (FZ p)) (fun _ ->
              wbind
                (wwhen_raise
                  ((||) (Z.ltb p Big_int_Z.zero_big_int)
                    (negb ((=) (string_of_Z p) (py_str precision))))
                  UsageError) (fun _ ->
                wbind (w_op (getopt_m "display")) (fun d0 ->
                  wbind
                    (if is_none d0
                     then wbind (w_op (setopt "display" (VInt p) false []))
                            (fun _ -> wret ())
                     else wret ()) (fun _ ->
                    wbind (w_op (getopt_m "display")) (fun display ->
                      wbind (wlift (usage_int display)) (fun display0 ->
                        let display1 =
                          if (||) (Z.ltb display0 Big_int_Z.zero_big_int)
                               (Z.ltb p display0)
                          then p
                          else display0
                        in
                        wtell (fixed_tail name p display1))))))))))))

(** val checked_int_attr : field -> oval -> Big_int_Z.big_int wM **)

let checked_int_attr f v =
  wbind (wlift (usage_int v)) (fun x ->
    wbind (wr f (FZ x)) (fun _ ->
      wbind
        (wwhen_raise
          ((||) (Z.ltb x Big_int_Z.zero_big_int)
            (negb ((=) (string_of_Z x) (py_str v)))) UsageError) (fun _ ->
        wret x)))

(** val guarded_tail :
    Big_int_Z.big_int -> Big_int_Z.big_int -> Big_int_Z.big_int -> wlog **)

let guarded_tail p gd d1 =
  let d = if Z.ltb (Z.add p gd) d1 then Z.add p gd else d1 in
  let geps =
    Z.div
      (Z.pow (Big_int_Z.mult_int_big_int 2
        ((fun x -> Big_int_Z.succ_big_int (Big_int_Z.mult_int_big_int 2 x))
        (Big_int_Z.mult_int_big_int 2 Big_int_Z.unit_big_int))) gd)
      (Big_int_Z.mult_int_big_int 2 Big_int_Z.unit_big_int)
  in
  app ((GdScalep, (FZ
    (Z.pow (Big_int_Z.mult_int_big_int 2
      ((fun x -> Big_int_Z.succ_big_int (Big_int_Z.mult_int_big_int 2 x))
      (Big_int_Z.mult_int_big_int 2 Big_int_Z.unit_big_int))) p))) :: ((GdScaleg,
    (FZ
    (Z.pow (Big_int_Z.mult_int_big_int 2
      ((fun x -> Big_int_Z.succ_big_int (Big_int_Z.mult_int_big_int 2 x))
      (Big_int_Z.mult_int_big_int 2 Big_int_Z.unit_big_int))) gd))) :: ((GdScale,
    (FZ
    (Z.pow (Big_int_Z.mult_int_big_int 2
      ((fun x -> Big_int_Z.succ_big_int (Big_int_Z.mult_int_big_int 2 x))
      (Big_int_Z.mult_int_big_int 2 Big_int_Z.unit_big_int))) (Z.add p gd)))) :: [])))
    (app
      (if Z.ltb (Z.add p gd) d1
       then (GdDisplay, (FZ (Z.add p gd))) :: []
       else [])
      (app ((GdScaledd, (FZ
        (Z.pow (Big_int_Z.mult_int_big_int 2
          ((fun x -> Big_int_Z.succ_big_int (Big_int_Z.mult_int_big_int 2 x))
          (Big_int_Z.mult_int_big_int 2 Big_int_Z.unit_big_int)))
          (Z.sub (Z.add gd p) d)))) :: ((GdScaledr, (FZ
        (Z.div
          (Z.pow (Big_int_Z.mult_int_big_int 2
            ((fun x -> Big_int_Z.succ_big_int (Big_int_Z.mult_int_big_int 2 x))
            (Big_int_Z.mult_int_big_int 2 Big_int_Z.unit_big_int)))
            (Z.sub (Z.add gd p) d)) (Big_int_Z.mult_int_big_int 2
          Big_int_Z.unit_big_int)))) :: ((GdScaled, (FZ
        (Z.pow (Big_int_Z.mult_int_big_int 2
          ((fun x -> Big_int_Z.succ_big_int (Big_int_Z.mult_int_big_int 2 x))
          (Big_int_Z.mult_int_big_int 2 Big_int_Z.unit_big_int))) d))) :: [])))
        (app
          (if Z.ltb p d
           then (GdScaledg, (FZ
                  (Z.pow (Big_int_Z.mult_int_big_int 2
                    ((fun x -> Big_int_Z.succ_big_int (Big_int_Z.mult_int_big_int 2 x))
                    (Big_int_Z.mult_int_big_int 2 Big_int_Z.unit_big_int)))
                    (Z.sub d p)))) :: []
           else [])
          (app ((GdGeps, (FZ geps)) :: [])
            (app
              (if Z.eqb geps Big_int_Z.zero_big_int
               then (GdGeps, (FZ Big_int_Z.unit_big_int)) :: []
               else [])
              (app ((GdMaxDiff, (FZ Big_int_Z.zero_big_int)) :: ((GdMinDiff,
                (FZ
                (Z.mul
                  (Z.pow (Big_int_Z.mult_int_big_int 2
                    ((fun x -> Big_int_Z.succ_big_int (Big_int_Z.mult_int_big_int 2 x))
                    (Big_int_Z.mult_int_big_int 2 Big_int_Z.unit_big_int)))
                    (Z.add p gd)) (Big_int_Z.mult_int_big_int 2
                  (Big_int_Z.mult_int_big_int 2
                  ((fun x -> Big_int_Z.succ_big_int (Big_int_Z.mult_int_big_int 2 x))
                  (Big_int_Z.mult_int_big_int 2 (Big_int_Z.mult_int_big_int 2
                  ((fun x -> Big_int_Z.succ_big_int (Big_int_Z.mult_int_big_int 2 x))
                  Big_int_Z.unit_big_int))))))))) :: []))
                (app ((GdDfmt, (FS
                  (if Z.leb d p
                   then (^) "%d.%0" ((^) (string_of_Z d) "d")
                   else (^) "%d.%0"
                          ((^) (string_of_Z p)
                            ((^) "d_%0" ((^) (string_of_Z (Z.sub d p)) "d")))))) :: [])
                  (app ((GdInfo, (FS
                    (if negb (Z.eqb d p)
                     then (^)
                            "guarded-precision fixed-point decimal arithmetic ("
                            ((^) (string_of_Z p)
                              ((^) "+"
                                ((^) (string_of_Z gd)
                                  ((^) " places; "
                                    ((^) (string_of_Z d) " displayed)")))))
                     else (^)
                            "guarded-precision fixed-point decimal arithmetic ("
                            ((^) (string_of_Z p)
                              ((^) "+" ((^) (string_of_Z gd) " places)")))))) :: [])
                    (if Z.eqb gd Big_int_Z.zero_big_int
                     then (GdQuasiExact, (FB false)) :: ((GdExact, (FB
                            false)) :: ((GdEpsilon, (FZ
                            Big_int_Z.unit_big_int)) :: []))
                     else (GdQuasiExact, (FB true)) :: ((GdExact, (FB
                            true)) :: []))))))))))

(** val initialize_guarded : unit wM **)

let initialize_guarded =
  wbind (w_op (getopt_m "arithmetic")) (fun arithmetic ->
    wbind
      (wwhen_raise (negb (oval_eqb arithmetic (vs "guarded"))) UsageError)
      (fun _ ->
      wbind (w_op (getopt_m "precision")) (fun precision ->
        wbind (checked_int_attr GdPrecision precision) (fun p ->
          wbind (w_op (getopt_m "guard")) (fun g0 ->
            wbind
              (if is_none g0
               then wbind (w_op (setopt "guard" (VInt p) false [])) (fun _ ->
                      wret ())
               else wret ()) (fun _ ->
              wbind (w_op (getopt_m "guard")) (fun guard ->
                wbind (checked_int_attr GdGuard guard) (fun gd ->
                  wbind (w_op (getopt_m "display")) (fun d0 ->
                    wbind
                      (if is_none d0
                       then wbind (w_op (setopt "display" (VInt p) false []))
                              (fun _ -> wret ())
                       else wret ()) (fun _ ->
                      wbind (w_op (getopt_m "display")) (fun display ->
                        wbind (checked_int_attr GdDisplay display) (fun d1 ->
                          wtell (guarded_tail p gd d1)))))))))))))

(** val pow10_oval : oval -> fv res **)

let pow10_oval v =
  match oval_num v with
  | Some z0 ->
    if Z.ltb z0 Big_int_Z.zero_big_int
    then Ok FFloat
    else Ok (FZ
           (Z.pow (Big_int_Z.mult_int_big_int 2
             ((fun x -> Big_int_Z.succ_big_int (Big_int_Z.mult_int_big_int 2 x))
             (Big_int_Z.mult_int_big_int 2 Big_int_Z.unit_big_int))) z0))
  | None -> Raise TypeError

(** val initialize_rational : unit wM **)

let initialize_rational =
  wbind (w_op (getopt_m "display")) (fun d0 ->
    wbind
      (if is_none d0
       then wbind
              (w_op
                (setopt "display" (VInt (Big_int_Z.mult_int_big_int 2
                  (Big_int_Z.mult_int_big_int 2
                  ((fun x -> Big_int_Z.succ_big_int (Big_int_Z.mult_int_big_int 2 x))
                  Big_int_Z.unit_big_int)))) false [])) (fun _ -> wret ())
       else wret ()) (fun _ ->
      wbind (w_op (getopt_m "display")) (fun dp ->
        wbind (wr RtDp (FO dp)) (fun _ ->
          wbind (wlift (pow10_oval dp)) (fun dps ->
            wbind (wr RtDps dps) (fun _ ->
              match dps with
              | FZ n0 ->
                wbind
                  (wr RtDpr (FZ
                    (Z.mul n0 (Big_int_Z.mult_int_big_int 2
                      Big_int_Z.unit_big_int)))) (fun _ ->
                  wr RtDfmt (FS ((^) "%d.%0" ((^) (py_str dp) "d"))))
              | _ -> wraise TypeError))))))

(** val arithmetic_class : acls wM **)

let arithmetic_class =
  wbind (w_op (setopt "arithmetic" (vs "guarded") false [])) (fun a ->
    wbind (wlift (arithmetic_dispatch a)) (fun c ->
      match c with
      | AFixed -> wbind initialize_fixed (fun _ -> wret AFixed)
      | AGuarded -> wbind initialize_guarded (fun _ -> wret AGuarded)
      | ARational -> wbind initialize_rational (fun _ -> wret ARational)))

(** val election_setup_w : ((rulecls * ruleparams) * acls) wM **)

let election_setup_w =
  wbind (w_op (getopt_m "rule")) (fun rulename ->
    wbind (wwhen_raise (is_none rulename) ElectionError) (fun _ ->
      match match rulename with
            | VNone -> None
            | VBool _ -> None
            | VInt _ -> None
            | VStr s -> rule_by_name s with
      | Some k ->
        wbind (w_op (rule_options k)) (fun params ->
          wbind arithmetic_class (fun c -> wret ((k, params), c)))
      | None -> wraise ElectionError))

(** val election_setup :
    world -> ((rulecls * ruleparams) * acls) res * world **)

let election_setup w =
  run_w election_setup_w w

(** val fixed_cls_of : gstate -> fixed_cls **)

let fixed_cls_of g =
  { f_precision = (getZ g FxPrecision); f_display = (getZ g FxDisplay);
    f_scale = (getZ g FxScale); f_scaled = (getZ g FxScaled); f_scaledd =
    (getZ g FxScaledd); f_scaledr = (getZ g FxScaledr) }

(** val guarded_cls_of : gstate -> guarded_cls **)

let guarded_cls_of g =
  { g_precision = (getZ g GdPrecision); g_guard = (getZ g GdGuard);
    g_display = (getZ g GdDisplay); g_scale = (getZ g GdScale); g_scalep =
    (getZ g GdScalep); g_scaleg = (getZ g GdScaleg); g_scaled =
    (getZ g GdScaled); g_scaledd = (getZ g GdScaledd); g_scaledr =
    (getZ g GdScaledr); g_scaledg = (getZ g GdScaledg); g_geps =
    (getZ g GdGeps) }

(** val is_fx : field -> bool **)

let is_fx f =
  Z.ltb (field_idx f) (Big_int_Z.mult_int_big_int 2
    ((fun x -> Big_int_Z.succ_big_int (Big_int_Z.mult_int_big_int 2 x))
    (Big_int_Z.mult_int_big_int 2 Big_int_Z.unit_big_int)))

(** val is_gd : field -> bool **)

let is_gd f =
  (&&)
    (Z.leb (Big_int_Z.mult_int_big_int 2
      ((fun x -> Big_int_Z.succ_big_int (Big_int_Z.mult_int_big_int 2 x))
      (Big_int_Z.mult_int_big_int 2 Big_int_Z.unit_big_int))) (field_idx f))
    (Z.ltb (field_idx f) (Big_int_Z.mult_int_big_int 2
      (Big_int_Z.mult_int_big_int 2
      ((fun x -> Big_int_Z.succ_big_int (Big_int_Z.mult_int_big_int 2 x))
      ((fun x -> Big_int_Z.succ_big_int (Big_int_Z.mult_int_big_int 2 x))
      Big_int_Z.unit_big_int)))))

(** val is_rt : field -> bool **)

let is_rt f =
  Z.leb (Big_int_Z.mult_int_big_int 2 (Big_int_Z.mult_int_big_int 2
    ((fun x -> Big_int_Z.succ_big_int (Big_int_Z.mult_int_big_int 2 x))
    ((fun x -> Big_int_Z.succ_big_int (Big_int_Z.mult_int_big_int 2 x))
    Big_int_Z.unit_big_int)))) (field_idx f)

(** val reads : acls -> gstate -> field -> bool **)

let reads c g f =
  match c with
  | AFixed -> is_fx f
  | AGuarded ->
    (match f with
     | GdScaledg -> Z.ltb (getZ g GdPrecision) (getZ g GdDisplay)
     | GdEpsilon -> negb (getB g GdExact)
     | _ -> is_gd f)
  | ARational -> is_rt f

(** val hex_digit : nat -> char **)

let hex_digit n0 =
  ascii_of_nat
    (if Nat.ltb n0 (S (S (S (S (S (S (S (S (S (S O))))))))))
     then add (S (S (S (S (S (S (S (S (S (S (S (S (S (S (S (S (S (S (S (S (S
            (S (S (S (S (S (S (S (S (S (S (S (S (S (S (S (S (S (S (S (S (S (S
            (S (S (S (S (S O))))))))))))))))))))))))))))))))))))))))))))))))
            n0
     else add (S (S (S (S (S (S (S (S (S (S (S (S (S (S (S (S (S (S (S (S (S
            (S (S (S (S (S (S (S (S (S (S (S (S (S (S (S (S (S (S (S (S (S (S
            (S (S (S (S (S (S (S (S (S (S (S (S (S (S (S (S (S (S (S (S (S (S
            (S (S (S (S (S (S (S (S (S (S (S (S (S (S (S (S (S (S (S (S (S (S
            O)))))))))))))))))))))))))))))))))))))))))))))))))))))))))))))))))))))))))))))))))))))))
            n0)

(** val hex_of : string -> string **)

let rec hex_of s =
  (* If this appears, you're using String internals. Please don't *)
 (fun f0 f1 s ->
    let l = String.length s in
    if l = 0 then f0 () else f1 (String.get s 0) (String.sub s 1 (l-1)))

    (fun _ -> "")
    (fun c t0 ->
    let n0 = nat_of_ascii c in
    (* If this appears, you're using String internals. Please don't *)
  (fun (c, s) -> String.make 1 c ^ s)

    ((hex_digit
       (Nat.div n0 (S (S (S (S (S (S (S (S (S (S (S (S (S (S (S (S
         O)))))))))))))))))),
    ((* If this appears, you're using String internals. Please don't *)
  (fun (c, s) -> String.make 1 c ^ s)

    ((hex_digit
       (Nat.modulo n0 (S (S (S (S (S (S (S (S (S (S (S (S (S (S (S (S
         O)))))))))))))))))), (hex_of t0)))))
    s

(** val show_oval : oval -> string **)

let show_oval = function
| VNone -> "N"
| VBool b -> if b then "B1" else "B0"
| VInt z0 -> (^) "I" (string_of_Z z0)
| VStr s -> (^) "S" (hex_of s)

(** val show_ooval : oval option -> string **)

let show_ooval = function
| Some x -> show_oval x
| None -> "-"

(** val join0 : string -> string list -> string **)

let rec join0 sep = function
| [] -> ""
| x :: t0 ->
  (match t0 with
   | [] -> x
   | _ :: _ -> (^) x ((^) sep (join0 sep t0)))

(** val show_dict : ('a1 -> string) -> 'a1 dict -> string **)

let show_dict sh d =
  join0 ";"
    (map (fun k ->
      (^) k ((^) "=" (match dget k d with
                      | Some v -> sh v
                      | None -> "?"))) (sort_set (dkeys d)))

(** val show_tuple : oval list -> string **)

let show_tuple l =
  (^) "(" ((^) (join0 "," (map show_oval l)) ")")

(** val lf1 : string **)

let lf1 =
  (* If this appears, you're using String internals. Please don't *)
  (fun (c, s) -> String.make 1 c ^ s)

    ((ascii_of_nat (S (S (S (S (S (S (S (S (S (S O))))))))))), "")

(** val known_keys : string list **)

let known_keys =
  "arithmetic" :: ("precision" :: ("guard" :: ("display" :: ("omega" :: ("integer_quota" :: ("defeat_batch" :: ("rule" :: ("path" :: []))))))))

(** val show_store : store -> string **)

let show_store o =
  let keys =
    sort_set
      (app known_keys
        (app (dkeys o.o_cmd)
          (app (dkeys o.o_file) (app (dkeys o.o_default) (dkeys o.o_force)))))
  in
  (^) "cmd: "
    ((^) (show_dict show_oval o.o_cmd)
      ((^) lf1
        ((^) "file: "
          ((^) (show_dict show_oval o.o_file)
            ((^) lf1
              ((^) "default: "
                ((^) (show_dict show_oval o.o_default)
                  ((^) lf1
                    ((^) "force: "
                      ((^) (show_dict show_oval o.o_force)
                        ((^) lf1
                          ((^) "allowed: "
                            ((^) (show_dict show_tuple o.o_allowed)
                              ((^) lf1
                                ((^) "getopt: "
                                  ((^)
                                    (join0 ";"
                                      (map (fun k ->
                                        (^) k
                                          ((^) "=" (show_oval (getopt o k))))
                                        keys))
                                    ((^) lf1
                                      ((^) "unused: "
                                        ((^) (join0 "," (unused o))
                                          ((^) lf1
                                            ((^) "overrides: "
                                              ((^) (join0 "," (overrides o))
                                                ((^) lf1
                                                  ((^) "effective: "
                                                    ((^)
                                                      (show_dict show_oval
                                                        (record o).rec_options)
                                                      lf1)))))))))))))))))))))))))

(** val field_name : field -> string **)

let field_name = function
| FxName -> "Fixed.name"
| FxInfo -> "Fixed.info"
| FxEpsilon -> "Fixed.epsilon"
| FxPrecision -> "Fixed.precision"
| FxDisplay -> "Fixed.display"
| FxScale -> "Fixed.__scale"
| FxDfmt -> "Fixed.__dfmt"
| FxScaled -> "Fixed.__scaled"
| FxScaledd -> "Fixed.__scaledd"
| FxScaledr -> "Fixed.__scaledr"
| GdPrecision -> "Guarded.precision"
| GdGuard -> "Guarded.guard"
| GdDisplay -> "Guarded.display"
| GdScale -> "Guarded.__scale"
| GdScalep -> "Guarded.__scalep"
| GdScaleg -> "Guarded.__scaleg"
| GdScaled -> "Guarded.__scaled"
| GdScaledd -> "Guarded.__scaledd"
| GdScaledr -> "Guarded.__scaledr"
| GdScaledg -> "Guarded.__scaledg"
| GdGeps -> "Guarded.__geps"
| GdMaxDiff -> "Guarded.maxDiff"
| GdMinDiff -> "Guarded.minDiff"
| GdDfmt -> "Guarded.__dfmt"
| GdInfo -> "Guarded.info"
| GdQuasiExact -> "Guarded.quasi_exact"
| GdExact -> "Guarded.exact"
| GdEpsilon -> "Guarded.epsilon"
| RtDp -> "Rational.dp"
| RtDps -> "Rational._dps"
| RtDpr -> "Rational._dpr"
| RtDfmt -> "Rational._dfmt"

(** val body_default : field -> string **)

let body_default = function
| FxScaledd -> "<unset>"
| GdScaledg -> "<unset>"
| GdGeps -> "<unset>"
| GdMaxDiff -> "<unset>"
| GdMinDiff -> "<unset>"
| GdQuasiExact -> "B1"
| GdExact -> "B1"
| GdEpsilon -> "<unset>"
| _ -> "N"

(** val show_fv : field -> fv -> string **)

let show_fv f = function
| FZ z0 ->
  (match f with
   | FxEpsilon -> (^) "V" (string_of_Z z0)
   | GdEpsilon -> (^) "V" (string_of_Z z0)
   | RtDpr -> (^) "1/" (string_of_Z z0)
   | _ -> (^) "I" (string_of_Z z0))
| FS s -> (^) "S" (hex_of s)
| FB b -> if b then "B1" else "B0"
| FO v2 -> show_oval v2
| FFloat -> "<float>"

(** val show_field : gstate -> field -> string **)

let show_field g f =
  (^) (field_name f)
    ((^) "=" (match g f with
              | Some v -> show_fv f v
              | None -> body_default f))

(** val acls_name : acls -> string **)

let acls_name = function
| AFixed -> "Fixed"
| AGuarded -> "Guarded"
| ARational -> "Rational"

(** val rulecls_name : rulecls -> string **)

let rulecls_name = function
| KWigm -> "wigm"
| KWigmPrf -> "wigm_prf"
| KCfer -> "cfer"
| KScotland -> "scotland"
| KMpls -> "mpls"
| KMeek -> "meek"
| KMeekPrf -> "meek_prf"
| KQpq -> "qpq"

(** val showb01 : bool -> string **)

let showb01 = function
| true -> "B1"
| false -> "B0"

(** val show_arith : acls -> gstate -> string **)

let show_arith c g =
  (^) "arith: cls="
    ((^) (acls_name c)
      ((^)
        (match c with
         | AFixed ->
           (^) " name="
             ((^) (hex_of (getS g FxName))
               ((^) " info="
                 ((^) (hex_of (getS g FxInfo))
                   ((^) " exact=B0 quasi_exact=B0 epsilon=V"
                     (string_of_Z (getZ g FxEpsilon))))))
         | AGuarded ->
           (^) " name="
             ((^) (hex_of "guarded")
               ((^) " info="
                 ((^) (hex_of (getS g GdInfo))
                   ((^) " exact="
                     ((^) (showb01 (getB g GdExact))
                       ((^) " quasi_exact="
                         ((^) (showb01 (getB g GdQuasiExact))
                           ((^) " epsilon="
                             (if getB g GdExact
                              then "-"
                              else (^) "V" (string_of_Z (getZ g GdEpsilon)))))))))))
         | ARational ->
           (^) " name="
             ((^) (hex_of "rational")
               ((^) " info="
                 ((^) (hex_of "rational arithmetic")
                   " exact=B1 quasi_exact=B0 epsilon=-")))) lf1))

(** val show_resZ_o : Big_int_Z.big_int res -> string **)

let show_resZ_o = function
| Ok z0 -> string_of_Z z0
| Raise e -> (^) "exn " (exn_name e)

(** val show_probe :
    acls -> gstate -> (Big_int_Z.big_int * Big_int_Z.big_int) -> string **)

let show_probe c g = function
| (num, den) ->
  (^) "probe "
    ((^) (string_of_Z num)
      ((^) "/"
        ((^) (string_of_Z den)
          ((^) ": "
            ((^)
              (match c with
               | AFixed ->
                 let st = fixed_cls_of g in
                 (match dunder_truediv st (init st (OInt num) false) (OVal
                          (init st (OInt den) false)) with
                  | Ok r ->
                    (^) "raw="
                      ((^) (string_of_Z r) ((^) " str=" (fixed_str st r)))
                  | Raise e -> (^) "exn " (exn_name e))
               | AGuarded ->
                 let st = guarded_cls_of g in
                 (match dunder_truediv0 st (init0 st (OInt num) false) (OVal
                          (init0 st (OInt den) false)) with
                  | Ok r ->
                    (^) "raw="
                      ((^) (string_of_Z r) ((^) " str=" (guarded_str st r)))
                  | Raise e -> (^) "exn " (exn_name e))
               | ARational ->
                 (match q_div (inject_Z num) (inject_Z den) with
                  | Ok q0 ->
                    (^) "raw="
                      ((^)
                        ((rational Big_int_Z.zero_big_int).raw_repr
                          (Obj.magic q0))
                        ((^) " str="
                          (match g RtDp with
                           | Some f ->
                             (match f with
                              | FO v ->
                                (match v with
                                 | VBool b ->
                                   if b
                                   then "exn ValueError"
                                   else (match rational_fmt
                                                 Big_int_Z.zero_big_int q0 with
                                         | Fmt2 (a, _) ->
                                           (^) (string_of_Z a)
                                             ".0.000000alsed"
                                         | FmtNeg f0 ->
                                           (match f0 with
                                            | Fmt2 (a, _) ->
                                              (^) "-"
                                                ((^) (string_of_Z a)
                                                  ".0.000000alsed")
                                            | _ -> "?")
                                         | _ -> "?")
                                 | VInt d -> rational_str d q0
                                 | _ -> "exn ValueError")
                              | _ -> "exn ValueError")
                           | None -> "exn ValueError")))
                  | Raise e -> (^) "exn " (exn_name e))) lf1)))))

(** val show_report : acls -> gstate -> string **)

let show_report c g =
  (^) "report: "
    ((^)
      (match c with
       | AGuarded ->
         guarded_report (guarded_cls_of g) (string_of_Z (getZ g GdMaxDiff))
           (string_of_Z (getZ g GdMinDiff))
       | _ -> "") lf1)

(** val show_params : rulecls -> ruleparams -> string **)

let show_params k p =
  (^) "rule: cls="
    ((^) (rulecls_name k)
      ((^) " name="
        ((^) (show_ooval p.rp_name)
          ((^) " integer_quota="
            ((^) (show_ooval p.rp_integer_quota)
              ((^) " defeat_batch="
                ((^) (show_ooval p.rp_defeat_batch)
                  ((^) " warren="
                    ((^) (show_ooval p.rp_warren)
                      ((^) " omega10=" ((^) (show_ooval p.rp_omega10) lf1)))))))))))

(** val rd_value : tok list -> (oval * tok list) option **)

let rd_value = function
| [] -> None
| t0 :: t1 ->
  (match t0 with
   | TI z0 ->
     ((fun fO fp fn z -> let s = Big_int_Z.sign_big_int z in
  if s = 0 then fO () else if s > 0 then fp z
  else fn (Big_int_Z.minus_big_int z))
        (fun _ -> Some (VNone, t1))
        (fun p ->
        (fun f2p1 f2p f1 p ->
  if Big_int_Z.le_big_int p Big_int_Z.unit_big_int then f1 () else
  let (q,r) = Big_int_Z.quomod_big_int p (Big_int_Z.big_int_of_int 2) in
  if Big_int_Z.eq_big_int r Big_int_Z.zero_big_int then f2p q else f2p1 q)
          (fun p0 ->
          (fun f2p1 f2p f1 p ->
  if Big_int_Z.le_big_int p Big_int_Z.unit_big_int then f1 () else
  let (q,r) = Big_int_Z.quomod_big_int p (Big_int_Z.big_int_of_int 2) in
  if Big_int_Z.eq_big_int r Big_int_Z.zero_big_int then f2p q else f2p1 q)
            (fun _ -> None)
            (fun _ -> None)
            (fun _ ->
            match t1 with
            | [] -> None
            | t2 :: t3 ->
              (match t2 with
               | TI _ -> None
               | TS s -> Some ((VStr s), t3)))
            p0)
          (fun p0 ->
          (fun f2p1 f2p f1 p ->
  if Big_int_Z.le_big_int p Big_int_Z.unit_big_int then f1 () else
  let (q,r) = Big_int_Z.quomod_big_int p (Big_int_Z.big_int_of_int 2) in
  if Big_int_Z.eq_big_int r Big_int_Z.zero_big_int then f2p q else f2p1 q)
            (fun _ -> None)
            (fun _ -> None)
            (fun _ ->
            match t1 with
            | [] -> None
            | t2 :: t3 ->
              (match t2 with
               | TI z1 -> Some ((VInt z1), t3)
               | TS _ -> None))
            p0)
          (fun _ ->
          match t1 with
          | [] -> None
          | t2 :: t3 ->
            (match t2 with
             | TI b ->
               Some ((VBool (negb (Z.eqb b Big_int_Z.zero_big_int))), t3)
             | TS _ -> None))
          p)
        (fun _ -> None)
        z0)
   | TS _ -> None)

(** val rd_n :
    (tok list -> ('a1 * tok list) option) -> nat -> tok list -> ('a1
    list * tok list) option **)

let rec rd_n rd n0 l =
  match n0 with
  | O -> Some ([], l)
  | S k ->
    (match rd l with
     | Some p ->
       let (x, t0) = p in
       (match rd_n rd k t0 with
        | Some p0 -> let (xs, t') = p0 in Some ((x :: xs), t')
        | None -> None)
     | None -> None)

(** val rd_counted :
    (tok list -> ('a1 * tok list) option) -> tok list -> ('a1 list * tok
    list) option **)

let rd_counted rd = function
| [] -> None
| t0 :: t1 -> (match t0 with
               | TI n0 -> rd_n rd (Z.to_nat n0) t1
               | TS _ -> None)

(** val rd_kv : tok list -> ((string * oval) * tok list) option **)

let rd_kv = function
| [] -> None
| t0 :: t1 ->
  (match t0 with
   | TI _ -> None
   | TS k ->
     (match rd_value t1 with
      | Some p -> let (v, t') = p in Some ((k, v), t')
      | None -> None))

(** val rd_dict : tok list -> (oval dict * tok list) option **)

let rd_dict l =
  match rd_counted rd_kv l with
  | Some p -> let (kvs, t0) = p in Some ((dict_of_list kvs), t0)
  | None -> None

(** val rd_s : tok list -> (string * tok list) option **)

let rd_s = function
| [] -> None
| t0 :: t1 -> (match t0 with
               | TI _ -> None
               | TS s -> Some (s, t1))

(** val rd_nd :
    tok list -> ((Big_int_Z.big_int * Big_int_Z.big_int) * tok list) option **)

let rd_nd = function
| [] -> None
| t0 :: l0 ->
  (match t0 with
   | TI a ->
     (match l0 with
      | [] -> None
      | t1 :: t2 -> (match t1 with
                     | TI b -> Some ((a, b), t2)
                     | TS _ -> None))
   | TS _ -> None)

type filespec =
| FDict of oval dict
| FStrs of string list

(** val rd_config : tok list -> ((oval dict * filespec) * tok list) option **)

let rd_config l =
  match rd_dict l with
  | Some p ->
    let (cmd0, l0) = p in
    (match l0 with
     | [] -> None
     | t0 :: t1 ->
       (match t0 with
        | TI z0 ->
          ((fun fO fp fn z -> let s = Big_int_Z.sign_big_int z in
  if s = 0 then fO () else if s > 0 then fp z
  else fn (Big_int_Z.minus_big_int z))
             (fun _ ->
             match rd_dict t1 with
             | Some p0 -> let (f, t') = p0 in Some ((cmd0, (FDict f)), t')
             | None -> None)
             (fun p0 ->
             (fun f2p1 f2p f1 p ->
  if Big_int_Z.le_big_int p Big_int_Z.unit_big_int then f1 () else
  let (q,r) = Big_int_Z.quomod_big_int p (Big_int_Z.big_int_of_int 2) in
  if Big_int_Z.eq_big_int r Big_int_Z.zero_big_int then f2p q else f2p1 q)
               (fun _ -> None)
               (fun _ -> None)
               (fun _ ->
               match rd_counted rd_s t1 with
               | Some p1 -> let (ss, t') = p1 in Some ((cmd0, (FStrs ss)), t')
               | None -> None)
               p0)
             (fun _ -> None)
             z0)
        | TS _ -> None))
  | None -> None

(** val build_store : (oval dict * filespec) -> store res * store **)

let build_store c =
  let o = new_options (fst c) in
  (match snd c with
   | FDict f -> ((Ok (update_dict o f true)), o)
   | FStrs ss ->
     (match parse0 ss with
      | Ok f -> ((Ok (update_dict o f true)), o)
      | Raise e -> ((Raise e), o)))

(** val run_one :
    (oval dict * filespec) -> gstate -> (((rulecls * ruleparams) * acls)
    res * store) * gstate **)

let run_one c g =
  let (r, o) = build_store c in
  (match r with
   | Ok o0 ->
     let r0 = election_setup (o0, g) in
     (((fst r0), (fst (snd r0))), (snd (snd r0)))
   | Raise e -> (((Raise e), o), g))

(** val show_hist_outcome :
    nat -> ((rulecls * ruleparams) * acls) res -> string **)

let show_hist_outcome i r =
  (^) "hist "
    ((^) (string_of_Z (Z.of_nat i))
      ((^) ": "
        ((^)
          (match r with
           | Ok a -> let (_, c) = a in (^) "ok " (acls_name c)
           | Raise e -> (^) "exn " (exn_name e)) lf1)))

(** val run_hist :
    nat -> (oval dict * filespec) list -> gstate -> string -> string * gstate **)

let rec run_hist i h g acc =
  match h with
  | [] -> (acc, g)
  | c :: t0 ->
    let (p, g') = run_one c g in
    let (r, _) = p in run_hist (S i) t0 g' ((^) acc (show_hist_outcome i r))

(** val run_setup :
    (Big_int_Z.big_int * Big_int_Z.big_int) list -> (oval dict * filespec)
    list -> (oval dict * filespec) -> string **)

let run_setup probes h c =
  let (htxt, g1) = run_hist O h g_init "" in
  let (p, g2) = run_one c g1 in
  let (r, o) = p in
  (^) htxt
    ((^) "outcome: "
      ((^) (match r with
            | Ok _ -> "ok"
            | Raise e -> (^) "exn " (exn_name e))
        ((^) lf1
          ((^) (show_store o)
            ((^)
              (match r with
               | Ok a0 ->
                 let (p0, a) = a0 in
                 let (k, p1) = p0 in
                 (^) (show_params k p1)
                   ((^) (show_arith a g2)
                     ((^) "read: "
                       ((^)
                         (join0 ";"
                           (map (show_field g2)
                             (filter (reads a g2) all_fields)))
                         ((^) lf1
                           ((^)
                             (fold_right (fun nd acc ->
                               (^) (show_probe a g2 nd) acc) "" probes)
                             (show_report a g2))))))
               | Raise _ -> "")
              ((^) "state: " (join0 ";" (map (show_field g2) all_fields))))))))

(** val show_res_dict : oval dict res -> string **)

let show_res_dict = function
| Ok d -> (^) "ok " (show_dict show_oval d)
| Raise e -> (^) "exn " (exn_name e)

(** val run_options : tok list -> string **)

let run_options = function
| [] -> "badoptionscase"
| t0 :: t1 ->
  (match t0 with
   | TI _ -> "badoptionscase"
   | TS s ->
     ((* If this appears, you're using String internals. Please don't *)
 (fun f0 f1 s ->
    let l = String.length s in
    if l = 0 then f0 () else f1 (String.get s 0) (String.sub s 1 (l-1)))

        (fun _ -> "badoptionscase")
        (fun a s0 ->
        (* If this appears, you're using Ascii internals. Please don't *)
 (fun f c ->
  let n = Char.code c in
  let h i = (n land (1 lsl i)) <> 0 in
  f (h 0) (h 1) (h 2) (h 3) (h 4) (h 5) (h 6) (h 7))
          (fun b b0 b1 b2 b3 b4 b5 b6 ->
          if b
          then if b0
               then if b1
                    then "badoptionscase"
                    else if b2
                         then "badoptionscase"
                         else if b3
                              then if b4
                                   then if b5
                                        then if b6
                                             then "badoptionscase"
                                             else ((* If this appears, you're using String internals. Please don't *)
 (fun f0 f1 s ->
    let l = String.length s in
    if l = 0 then f0 () else f1 (String.get s 0) (String.sub s 1 (l-1)))

                                                     (fun _ ->
                                                     "badoptionscase")
                                                     (fun a0 s1 ->
                                                     (* If this appears, you're using Ascii internals. Please don't *)
 (fun f c ->
  let n = Char.code c in
  let h i = (n land (1 lsl i)) <> 0 in
  f (h 0) (h 1) (h 2) (h 3) (h 4) (h 5) (h 6) (h 7))
                                                       (fun b7 b8 b9 b10 b11 b12 b13 b14 ->
                                                       if b7
                                                       then if b8
                                                            then "badoptionscase"
                                                            else if b9
                                                                 then 
                                                                   if b10
                                                                   then 
                                                                    "badoptionscase"
                                                                   else 
                                                                    if b11
                                                                    then 
                                                                    "badoptionscase"
                                                                    else 
                                                                    if b12
                                                                    then 
                                                                    if b13
                                                                    then 
                                                                    if b14
                                                                    then 
                                                                    "badoptionscase"
                                                                    else 
                                                                    ((* If this appears, you're using String internals. Please don't *)
 (fun f0 f1 s ->
    let l = String.length s in
    if l = 0 then f0 () else f1 (String.get s 0) (String.sub s 1 (l-1)))

                                                                    (fun _ ->
                                                                    "badoptionscase")
                                                                    (fun a1 s2 ->
                                                                    (* If this appears, you're using Ascii internals. Please don't *)
 (fun f c ->
  let n = Char.code c in
  let h i = (n land (1 lsl i)) <> 0 in
  f (h 0) (h 1) (h 2) (h 3) (h 4) (h 5) (h 6) (h 7))
                                                                    (fun b15 b16 b17 b18 b19 b20 b21 b22 ->
                                                                    if b15
                                                                    then 
                                                                    "badoptionscase"
                                                                    else 
                                                                    if b16
                                                                    then 
                                                                    "badoptionscase"
                                                                    else 
                                                                    if b17
                                                                    then 
                                                                    if b18
                                                                    then 
                                                                    "badoptionscase"
                                                                    else 
                                                                    if b19
                                                                    then 
                                                                    if b20
                                                                    then 
                                                                    if b21
                                                                    then 
                                                                    if b22
                                                                    then 
                                                                    "badoptionscase"
                                                                    else 
                                                                    ((* If this appears, you're using String internals. Please don't *)
 (fun f0 f1 s ->
    let l = String.length s in
    if l = 0 then f0 () else f1 (String.get s 0) (String.sub s 1 (l-1)))

                                                                    (fun _ ->
                                                                    "badoptionscase")
                                                                    (fun a2 s3 ->
                                                                    (* If this appears, you're using Ascii internals. Please don't *)
 (fun f c ->
  let n = Char.code c in
  let h i = (n land (1 lsl i)) <> 0 in
  f (h 0) (h 1) (h 2) (h 3) (h 4) (h 5) (h 6) (h 7))
                                                                    (fun b23 b24 b25 b26 b27 b28 b29 b30 ->
                                                                    if b23
                                                                    then 
                                                                    if b24
                                                                    then 
                                                                    "badoptionscase"
                                                                    else 
                                                                    if b25
                                                                    then 
                                                                    if b26
                                                                    then 
                                                                    "badoptionscase"
                                                                    else 
                                                                    if b27
                                                                    then 
                                                                    if b28
                                                                    then 
                                                                    if b29
                                                                    then 
                                                                    if b30
                                                                    then 
                                                                    "badoptionscase"
                                                                    else 
                                                                    ((* If this appears, you're using String internals. Please don't *)
 (fun f0 f1 s ->
    let l = String.length s in
    if l = 0 then f0 () else f1 (String.get s 0) (String.sub s 1 (l-1)))

                                                                    (fun _ ->
                                                                    "badoptionscase")
                                                                    (fun a3 s4 ->
                                                                    (* If this appears, you're using Ascii internals. Please don't *)
 (fun f c ->
  let n = Char.code c in
  let h i = (n land (1 lsl i)) <> 0 in
  f (h 0) (h 1) (h 2) (h 3) (h 4) (h 5) (h 6) (h 7))
                                                                    (fun b31 b32 b33 b34 b35 b36 b37 b38 ->
                                                                    if b31
                                                                    then 
                                                                    "badoptionscase"
                                                                    else 
                                                                    if b32
                                                                    then 
                                                                    "badoptionscase"
                                                                    else 
                                                                    if b33
                                                                    then 
                                                                    "badoptionscase"
                                                                    else 
                                                                    if b34
                                                                    then 
                                                                    "badoptionscase"
                                                                    else 
                                                                    if b35
                                                                    then 
                                                                    if b36
                                                                    then 
                                                                    if b37
                                                                    then 
                                                                    if b38
                                                                    then 
                                                                    "badoptionscase"
                                                                    else 
                                                                    ((* If this appears, you're using String internals. Please don't *)
 (fun f0 f1 s ->
    let l = String.length s in
    if l = 0 then f0 () else f1 (String.get s 0) (String.sub s 1 (l-1)))

                                                                    (fun _ ->
                                                                    match 
                                                                    rd_counted
                                                                    rd_nd t1 with
                                                                    | Some p ->
                                                                    let (
                                                                    probes, t2) =
                                                                    p
                                                                    in
                                                                    (
                                                                    match 
                                                                    rd_counted
                                                                    rd_config
                                                                    t2 with
                                                                    | Some p0 ->
                                                                    let (
                                                                    h, t3) =
                                                                    p0
                                                                    in
                                                                    (
                                                                    match 
                                                                    rd_config
                                                                    t3 with
                                                                    | Some p1 ->
                                                                    let (
                                                                    c, _) = p1
                                                                    in
                                                                    run_setup
                                                                    probes h c
                                                                    | None ->
                                                                    "badconfig")
                                                                    | None ->
                                                                    "badhistory")
                                                                    | None ->
                                                                    "badprobes")
                                                                    (fun _ _ ->
                                                                    "badoptionscase")
                                                                    s4)
                                                                    else 
                                                                    "badoptionscase"
                                                                    else 
                                                                    "badoptionscase"
                                                                    else 
                                                                    "badoptionscase")
                                                                    a3)
                                                                    s3)
                                                                    else 
                                                                    "badoptionscase"
                                                                    else 
                                                                    "badoptionscase"
                                                                    else 
                                                                    "badoptionscase"
                                                                    else 
                                                                    "badoptionscase"
                                                                    else 
                                                                    "badoptionscase")
                                                                    a2)
                                                                    s2)
                                                                    else 
                                                                    "badoptionscase"
                                                                    else 
                                                                    "badoptionscase"
                                                                    else 
                                                                    "badoptionscase"
                                                                    else 
                                                                    "badoptionscase")
                                                                    a1)
                                                                    s1)
                                                                    else 
                                                                    "badoptionscase"
                                                                    else 
                                                                    "badoptionscase"
                                                                 else 
                                                                   "badoptionscase"
                                                       else "badoptionscase")
                                                       a0)
                                                     s0)
                                        else "badoptionscase"
                                   else "badoptionscase"
                              else "badoptionscase"
               else if b1
                    then "badoptionscase"
                    else if b2
                         then if b3
                              then "badoptionscase"
                              else if b4
                                   then if b5
                                        then if b6
                                             then "badoptionscase"
                                             else ((* If this appears, you're using String internals. Please don't *)
 (fun f0 f1 s ->
    let l = String.length s in
    if l = 0 then f0 () else f1 (String.get s 0) (String.sub s 1 (l-1)))

                                                     (fun _ ->
                                                     "badoptionscase")
                                                     (fun a0 s1 ->
                                                     (* If this appears, you're using Ascii internals. Please don't *)
 (fun f c ->
  let n = Char.code c in
  let h i = (n land (1 lsl i)) <> 0 in
  f (h 0) (h 1) (h 2) (h 3) (h 4) (h 5) (h 6) (h 7))
                                                       (fun b7 b8 b9 b10 b11 b12 b13 b14 ->
                                                       if b7
                                                       then "badoptionscase"
                                                       else if b8
                                                            then if b9
                                                                 then 
                                                                   if b10
                                                                   then 
                                                                    if b11
                                                                    then 
                                                                    "badoptionscase"
                                                                    else 
                                                                    if b12
                                                                    then 
                                                                    if b13
                                                                    then 
                                                                    if b14
                                                                    then 
                                                                    "badoptionscase"
                                                                    else 
                                                                    ((* If this appears, you're using String internals. Please don't *)
 (fun f0 f1 s ->
    let l = String.length s in
    if l = 0 then f0 () else f1 (String.get s 0) (String.sub s 1 (l-1)))

                                                                    (fun _ ->
                                                                    "badoptionscase")
                                                                    (fun a1 s2 ->
                                                                    (* If this appears, you're using Ascii internals. Please don't *)
 (fun f c ->
  let n = Char.code c in
  let h i = (n land (1 lsl i)) <> 0 in
  f (h 0) (h 1) (h 2) (h 3) (h 4) (h 5) (h 6) (h 7))
                                                                    (fun b15 b16 b17 b18 b19 b20 b21 b22 ->
                                                                    if b15
                                                                    then 
                                                                    "badoptionscase"
                                                                    else 
                                                                    if b16
                                                                    then 
                                                                    "badoptionscase"
                                                                    else 
                                                                    if b17
                                                                    then 
                                                                    if b18
                                                                    then 
                                                                    "badoptionscase"
                                                                    else 
                                                                    if b19
                                                                    then 
                                                                    if b20
                                                                    then 
                                                                    if b21
                                                                    then 
                                                                    if b22
                                                                    then 
                                                                    "badoptionscase"
                                                                    else 
                                                                    ((* If this appears, you're using String internals. Please don't *)
 (fun f0 f1 s ->
    let l = String.length s in
    if l = 0 then f0 () else f1 (String.get s 0) (String.sub s 1 (l-1)))

                                                                    (fun _ ->
                                                                    match 
                                                                    rd_value
                                                                    t1 with
                                                                    | Some p ->
                                                                    let (
                                                                    v, _) = p
                                                                    in
                                                                    (^)
                                                                    "normalize="
                                                                    ((^)
                                                                    (show_oval
                                                                    (normalize_val
                                                                    v))
                                                                    ((^)
                                                                    " int="
                                                                    ((^)
                                                                    (show_resZ_o
                                                                    (py_int0
                                                                    v))
                                                                    ((^)
                                                                    " str="
                                                                    (hex_of
                                                                    (py_str v))))))
                                                                    | None ->
                                                                    "badvalue")
                                                                    (fun _ _ ->
                                                                    "badoptionscase")
                                                                    s2)
                                                                    else 
                                                                    "badoptionscase"
                                                                    else 
                                                                    "badoptionscase"
                                                                    else 
                                                                    "badoptionscase"
                                                                    else 
                                                                    "badoptionscase")
                                                                    a1)
                                                                    s1)
                                                                    else 
                                                                    "badoptionscase"
                                                                    else 
                                                                    "badoptionscase"
                                                                   else 
                                                                    "badoptionscase"
                                                                 else 
                                                                   "badoptionscase"
                                                            else "badoptionscase")
                                                       a0)
                                                     s0)
                                        else "badoptionscase"
                                   else "badoptionscase"
                         else "badoptionscase"
          else if b0
               then "badoptionscase"
               else if b1
                    then "badoptionscase"
                    else if b2
                         then "badoptionscase"
                         else if b3
                              then if b4
                                   then if b5
                                        then if b6
                                             then "badoptionscase"
                                             else ((* If this appears, you're using String internals. Please don't *)
 (fun f0 f1 s ->
    let l = String.length s in
    if l = 0 then f0 () else f1 (String.get s 0) (String.sub s 1 (l-1)))

                                                     (fun _ ->
                                                     "badoptionscase")
                                                     (fun a0 s1 ->
                                                     (* If this appears, you're using Ascii internals. Please don't *)
 (fun f c ->
  let n = Char.code c in
  let h i = (n land (1 lsl i)) <> 0 in
  f (h 0) (h 1) (h 2) (h 3) (h 4) (h 5) (h 6) (h 7))
                                                       (fun b7 b8 b9 b10 b11 b12 b13 b14 ->
                                                       if b7
                                                       then if b8
                                                            then "badoptionscase"
                                                            else if b9
                                                                 then 
                                                                   "badoptionscase"
                                                                 else 
                                                                   if b10
                                                                   then 
                                                                    "badoptionscase"
                                                                   else 
                                                                    if b11
                                                                    then 
                                                                    "badoptionscase"
                                                                    else 
                                                                    if b12
                                                                    then 
                                                                    if b13
                                                                    then 
                                                                    if b14
                                                                    then 
                                                                    "badoptionscase"
                                                                    else 
                                                                    ((* If this appears, you're using String internals. Please don't *)
 (fun f0 f1 s ->
    let l = String.length s in
    if l = 0 then f0 () else f1 (String.get s 0) (String.sub s 1 (l-1)))

                                                                    (fun _ ->
                                                                    "badoptionscase")
                                                                    (fun a1 s2 ->
                                                                    (* If this appears, you're using Ascii internals. Please don't *)
 (fun f c ->
  let n = Char.code c in
  let h i = (n land (1 lsl i)) <> 0 in
  f (h 0) (h 1) (h 2) (h 3) (h 4) (h 5) (h 6) (h 7))
                                                                    (fun b15 b16 b17 b18 b19 b20 b21 b22 ->
                                                                    if b15
                                                                    then 
                                                                    "badoptionscase"
                                                                    else 
                                                                    if b16
                                                                    then 
                                                                    if b17
                                                                    then 
                                                                    "badoptionscase"
                                                                    else 
                                                                    if b18
                                                                    then 
                                                                    "badoptionscase"
                                                                    else 
                                                                    if b19
                                                                    then 
                                                                    if b20
                                                                    then 
                                                                    if b21
                                                                    then 
                                                                    if b22
                                                                    then 
                                                                    "badoptionscase"
                                                                    else 
                                                                    ((* If this appears, you're using String internals. Please don't *)
 (fun f0 f1 s ->
    let l = String.length s in
    if l = 0 then f0 () else f1 (String.get s 0) (String.sub s 1 (l-1)))

                                                                    (fun _ ->
                                                                    "badoptionscase")
                                                                    (fun a2 s3 ->
                                                                    (* If this appears, you're using Ascii internals. Please don't *)
 (fun f c ->
  let n = Char.code c in
  let h i = (n land (1 lsl i)) <> 0 in
  f (h 0) (h 1) (h 2) (h 3) (h 4) (h 5) (h 6) (h 7))
                                                                    (fun b23 b24 b25 b26 b27 b28 b29 b30 ->
                                                                    if b23
                                                                    then 
                                                                    if b24
                                                                    then 
                                                                    if b25
                                                                    then 
                                                                    "badoptionscase"
                                                                    else 
                                                                    if b26
                                                                    then 
                                                                    "badoptionscase"
                                                                    else 
                                                                    if b27
                                                                    then 
                                                                    if b28
                                                                    then 
                                                                    if b29
                                                                    then 
                                                                    if b30
                                                                    then 
                                                                    "badoptionscase"
                                                                    else 
                                                                    ((* If this appears, you're using String internals. Please don't *)
 (fun f0 f1 s ->
    let l = String.length s in
    if l = 0 then f0 () else f1 (String.get s 0) (String.sub s 1 (l-1)))

                                                                    (fun _ ->
                                                                    "badoptionscase")
                                                                    (fun a3 s4 ->
                                                                    (* If this appears, you're using Ascii internals. Please don't *)
 (fun f c ->
  let n = Char.code c in
  let h i = (n land (1 lsl i)) <> 0 in
  f (h 0) (h 1) (h 2) (h 3) (h 4) (h 5) (h 6) (h 7))
                                                                    (fun b31 b32 b33 b34 b35 b36 b37 b38 ->
                                                                    if b31
                                                                    then 
                                                                    if b32
                                                                    then 
                                                                    "badoptionscase"
                                                                    else 
                                                                    if b33
                                                                    then 
                                                                    if b34
                                                                    then 
                                                                    "badoptionscase"
                                                                    else 
                                                                    if b35
                                                                    then 
                                                                    "badoptionscase"
                                                                    else 
                                                                    if b36
                                                                    then 
                                                                    if b37
                                                                    then 
                                                                    if b38
                                                                    then 
                                                                    "badoptionscase"
                                                                    else 
                                                                    ((* If this appears, you're using String internals. Please don't *)
 (fun f0 f1 s ->
    let l = String.length s in
    if l = 0 then f0 () else f1 (String.get s 0) (String.sub s 1 (l-1)))

                                                                    (fun _ ->
                                                                    match 
                                                                    rd_counted
                                                                    rd_s t1 with
                                                                    | Some p ->
                                                                    let (
                                                                    ss, _) = p
                                                                    in
                                                                    show_res_dict
                                                                    (parse0
                                                                    ss)
                                                                    | None ->
                                                                    "badstrs")
                                                                    (fun _ _ ->
                                                                    "badoptionscase")
                                                                    s4)
                                                                    else 
                                                                    "badoptionscase"
                                                                    else 
                                                                    "badoptionscase"
                                                                    else 
                                                                    "badoptionscase"
                                                                    else 
                                                                    "badoptionscase")
                                                                    a3)
                                                                    s3)
                                                                    else 
                                                                    "badoptionscase"
                                                                    else 
                                                                    "badoptionscase"
                                                                    else 
                                                                    "badoptionscase"
                                                                    else 
                                                                    "badoptionscase"
                                                                    else 
                                                                    "badoptionscase")
                                                                    a2)
                                                                    s2)
                                                                    else 
                                                                    "badoptionscase"
                                                                    else 
                                                                    "badoptionscase"
                                                                    else 
                                                                    "badoptionscase"
                                                                    else 
                                                                    "badoptionscase")
                                                                    a1)
                                                                    s1)
                                                                    else 
                                                                    "badoptionscase"
                                                                    else 
                                                                    "badoptionscase"
                                                       else "badoptionscase")
                                                       a0)
                                                     s0)
                                        else "badoptionscase"
                                   else "badoptionscase"
                              else "badoptionscase")
          a)
        s))

(** val utf8_encode1 : Big_int_Z.big_int -> Big_int_Z.big_int list **)

let utf8_encode1 c =
  if Z.ltb c (Big_int_Z.mult_int_big_int 2 (Big_int_Z.mult_int_big_int 2
       (Big_int_Z.mult_int_big_int 2 (Big_int_Z.mult_int_big_int 2
       (Big_int_Z.mult_int_big_int 2 (Big_int_Z.mult_int_big_int 2
       (Big_int_Z.mult_int_big_int 2 Big_int_Z.unit_big_int)))))))
  then c :: []
  else if Z.ltb c (Big_int_Z.mult_int_big_int 2 (Big_int_Z.mult_int_big_int 2
            (Big_int_Z.mult_int_big_int 2 (Big_int_Z.mult_int_big_int 2
            (Big_int_Z.mult_int_big_int 2 (Big_int_Z.mult_int_big_int 2
            (Big_int_Z.mult_int_big_int 2 (Big_int_Z.mult_int_big_int 2
            (Big_int_Z.mult_int_big_int 2 (Big_int_Z.mult_int_big_int 2
            (Big_int_Z.mult_int_big_int 2 Big_int_Z.unit_big_int)))))))))))
       then (Z.add (Big_int_Z.mult_int_big_int 2
              (Big_int_Z.mult_int_big_int 2 (Big_int_Z.mult_int_big_int 2
              (Big_int_Z.mult_int_big_int 2 (Big_int_Z.mult_int_big_int 2
              (Big_int_Z.mult_int_big_int 2
              ((fun x -> Big_int_Z.succ_big_int (Big_int_Z.mult_int_big_int 2 x))
              Big_int_Z.unit_big_int)))))))
              (Z.div c (Big_int_Z.mult_int_big_int 2
                (Big_int_Z.mult_int_big_int 2 (Big_int_Z.mult_int_big_int 2
                (Big_int_Z.mult_int_big_int 2 (Big_int_Z.mult_int_big_int 2
                (Big_int_Z.mult_int_big_int 2 Big_int_Z.unit_big_int)))))))) :: (
              (Z.add (Big_int_Z.mult_int_big_int 2
                (Big_int_Z.mult_int_big_int 2 (Big_int_Z.mult_int_big_int 2
                (Big_int_Z.mult_int_big_int 2 (Big_int_Z.mult_int_big_int 2
                (Big_int_Z.mult_int_big_int 2 (Big_int_Z.mult_int_big_int 2
                Big_int_Z.unit_big_int)))))))
                (Z.modulo c (Big_int_Z.mult_int_big_int 2
                  (Big_int_Z.mult_int_big_int 2 (Big_int_Z.mult_int_big_int 2
                  (Big_int_Z.mult_int_big_int 2 (Big_int_Z.mult_int_big_int 2
                  (Big_int_Z.mult_int_big_int 2 Big_int_Z.unit_big_int)))))))) :: [])
       else if Z.ltb c (Big_int_Z.mult_int_big_int 2
                 (Big_int_Z.mult_int_big_int 2 (Big_int_Z.mult_int_big_int 2
                 (Big_int_Z.mult_int_big_int 2 (Big_int_Z.mult_int_big_int 2
                 (Big_int_Z.mult_int_big_int 2 (Big_int_Z.mult_int_big_int 2
                 (Big_int_Z.mult_int_big_int 2 (Big_int_Z.mult_int_big_int 2
                 (Big_int_Z.mult_int_big_int 2 (Big_int_Z.mult_int_big_int 2
                 (Big_int_Z.mult_int_big_int 2 (Big_int_Z.mult_int_big_int 2
                 (Big_int_Z.mult_int_big_int 2 (Big_int_Z.mult_int_big_int 2
                 (Big_int_Z.mult_int_big_int 2
                 Big_int_Z.unit_big_int))))))))))))))))
            then (Z.add (Big_int_Z.mult_int_big_int 2
                   (Big_int_Z.mult_int_big_int 2
                   (Big_int_Z.mult_int_big_int 2
                   (Big_int_Z.mult_int_big_int 2
                   (Big_int_Z.mult_int_big_int 2
                   ((fun x -> Big_int_Z.succ_big_int (Big_int_Z.mult_int_big_int 2 x))
                   ((fun x -> Big_int_Z.succ_big_int (Big_int_Z.mult_int_big_int 2 x))
                   Big_int_Z.unit_big_int)))))))
                   (Z.div c (Big_int_Z.mult_int_big_int 2
                     (Big_int_Z.mult_int_big_int 2
                     (Big_int_Z.mult_int_big_int 2
                     (Big_int_Z.mult_int_big_int 2
                     (Big_int_Z.mult_int_big_int 2
                     (Big_int_Z.mult_int_big_int 2
                     (Big_int_Z.mult_int_big_int 2
                     (Big_int_Z.mult_int_big_int 2
                     (Big_int_Z.mult_int_big_int 2
                     (Big_int_Z.mult_int_big_int 2
                     (Big_int_Z.mult_int_big_int 2
                     (Big_int_Z.mult_int_big_int 2
                     Big_int_Z.unit_big_int)))))))))))))) :: ((Z.add
                                                                (Big_int_Z.mult_int_big_int 2
                                                                (Big_int_Z.mult_int_big_int 2
                                                                (Big_int_Z.mult_int_big_int 2
                                                                (Big_int_Z.mult_int_big_int 2
                                                                (Big_int_Z.mult_int_big_int 2
                                                                (Big_int_Z.mult_int_big_int 2
                                                                (Big_int_Z.mult_int_big_int 2
                                                                Big_int_Z.unit_big_int)))))))
                                                                (Z.modulo
                                                                  (Z.div c
                                                                    (Big_int_Z.mult_int_big_int 2
                                                                    (Big_int_Z.mult_int_big_int 2
                                                                    (Big_int_Z.mult_int_big_int 2
                                                                    (Big_int_Z.mult_int_big_int 2
                                                                    (Big_int_Z.mult_int_big_int 2
                                                                    (Big_int_Z.mult_int_big_int 2
                                                                    Big_int_Z.unit_big_int)))))))
                                                                  (Big_int_Z.mult_int_big_int 2
                                                                  (Big_int_Z.mult_int_big_int 2
                                                                  (Big_int_Z.mult_int_big_int 2
                                                                  (Big_int_Z.mult_int_big_int 2
                                                                  (Big_int_Z.mult_int_big_int 2
                                                                  (Big_int_Z.mult_int_big_int 2
                                                                  Big_int_Z.unit_big_int)))))))) :: (
                   (Z.add (Big_int_Z.mult_int_big_int 2
                     (Big_int_Z.mult_int_big_int 2
                     (Big_int_Z.mult_int_big_int 2
                     (Big_int_Z.mult_int_big_int 2
                     (Big_int_Z.mult_int_big_int 2
                     (Big_int_Z.mult_int_big_int 2
                     (Big_int_Z.mult_int_big_int 2
                     Big_int_Z.unit_big_int)))))))
                     (Z.modulo c (Big_int_Z.mult_int_big_int 2
                       (Big_int_Z.mult_int_big_int 2
                       (Big_int_Z.mult_int_big_int 2
                       (Big_int_Z.mult_int_big_int 2
                       (Big_int_Z.mult_int_big_int 2
                       (Big_int_Z.mult_int_big_int 2
                       Big_int_Z.unit_big_int)))))))) :: []))
            else (Z.add (Big_int_Z.mult_int_big_int 2
                   (Big_int_Z.mult_int_big_int 2
                   (Big_int_Z.mult_int_big_int 2
                   (Big_int_Z.mult_int_big_int 2
                   ((fun x -> Big_int_Z.succ_big_int (Big_int_Z.mult_int_big_int 2 x))
                   ((fun x -> Big_int_Z.succ_big_int (Big_int_Z.mult_int_big_int 2 x))
                   ((fun x -> Big_int_Z.succ_big_int (Big_int_Z.mult_int_big_int 2 x))
                   Big_int_Z.unit_big_int)))))))
                   (Z.div c (Big_int_Z.mult_int_big_int 2
                     (Big_int_Z.mult_int_big_int 2
                     (Big_int_Z.mult_int_big_int 2
                     (Big_int_Z.mult_int_big_int 2
                     (Big_int_Z.mult_int_big_int 2
                     (Big_int_Z.mult_int_big_int 2
                     (Big_int_Z.mult_int_big_int 2
                     (Big_int_Z.mult_int_big_int 2
                     (Big_int_Z.mult_int_big_int 2
                     (Big_int_Z.mult_int_big_int 2
                     (Big_int_Z.mult_int_big_int 2
                     (Big_int_Z.mult_int_big_int 2
                     (Big_int_Z.mult_int_big_int 2
                     (Big_int_Z.mult_int_big_int 2
                     (Big_int_Z.mult_int_big_int 2
                     (Big_int_Z.mult_int_big_int 2
                     (Big_int_Z.mult_int_big_int 2
                     (Big_int_Z.mult_int_big_int 2
                     Big_int_Z.unit_big_int)))))))))))))))))))) :: ((Z.add
                                                                    (Big_int_Z.mult_int_big_int 2
                                                                    (Big_int_Z.mult_int_big_int 2
                                                                    (Big_int_Z.mult_int_big_int 2
                                                                    (Big_int_Z.mult_int_big_int 2
                                                                    (Big_int_Z.mult_int_big_int 2
                                                                    (Big_int_Z.mult_int_big_int 2
                                                                    (Big_int_Z.mult_int_big_int 2
                                                                    Big_int_Z.unit_big_int)))))))
                                                                    (Z.modulo
                                                                    (Z.div c
                                                                    (Big_int_Z.mult_int_big_int 2
                                                                    (Big_int_Z.mult_int_big_int 2
                                                                    (Big_int_Z.mult_int_big_int 2
                                                                    (Big_int_Z.mult_int_big_int 2
                                                                    (Big_int_Z.mult_int_big_int 2
                                                                    (Big_int_Z.mult_int_big_int 2
                                                                    (Big_int_Z.mult_int_big_int 2
                                                                    (Big_int_Z.mult_int_big_int 2
                                                                    (Big_int_Z.mult_int_big_int 2
                                                                    (Big_int_Z.mult_int_big_int 2
                                                                    (Big_int_Z.mult_int_big_int 2
                                                                    (Big_int_Z.mult_int_big_int 2
                                                                    Big_int_Z.unit_big_int)))))))))))))
                                                                    (Big_int_Z.mult_int_big_int 2
                                                                    (Big_int_Z.mult_int_big_int 2
                                                                    (Big_int_Z.mult_int_big_int 2
                                                                    (Big_int_Z.mult_int_big_int 2
                                                                    (Big_int_Z.mult_int_big_int 2
                                                                    (Big_int_Z.mult_int_big_int 2
                                                                    Big_int_Z.unit_big_int)))))))) :: (
                   (Z.add (Big_int_Z.mult_int_big_int 2
                     (Big_int_Z.mult_int_big_int 2
                     (Big_int_Z.mult_int_big_int 2
                     (Big_int_Z.mult_int_big_int 2
                     (Big_int_Z.mult_int_big_int 2
                     (Big_int_Z.mult_int_big_int 2
                     (Big_int_Z.mult_int_big_int 2
                     Big_int_Z.unit_big_int)))))))
                     (Z.modulo
                       (Z.div c (Big_int_Z.mult_int_big_int 2
                         (Big_int_Z.mult_int_big_int 2
                         (Big_int_Z.mult_int_big_int 2
                         (Big_int_Z.mult_int_big_int 2
                         (Big_int_Z.mult_int_big_int 2
                         (Big_int_Z.mult_int_big_int 2
                         Big_int_Z.unit_big_int)))))))
                       (Big_int_Z.mult_int_big_int 2
                       (Big_int_Z.mult_int_big_int 2
                       (Big_int_Z.mult_int_big_int 2
                       (Big_int_Z.mult_int_big_int 2
                       (Big_int_Z.mult_int_big_int 2
                       (Big_int_Z.mult_int_big_int 2
                       Big_int_Z.unit_big_int)))))))) :: ((Z.add
                                                            (Big_int_Z.mult_int_big_int 2
                                                            (Big_int_Z.mult_int_big_int 2
                                                            (Big_int_Z.mult_int_big_int 2
                                                            (Big_int_Z.mult_int_big_int 2
                                                            (Big_int_Z.mult_int_big_int 2
                                                            (Big_int_Z.mult_int_big_int 2
                                                            (Big_int_Z.mult_int_big_int 2
                                                            Big_int_Z.unit_big_int)))))))
                                                            (Z.modulo c
                                                              (Big_int_Z.mult_int_big_int 2
                                                              (Big_int_Z.mult_int_big_int 2
                                                              (Big_int_Z.mult_int_big_int 2
                                                              (Big_int_Z.mult_int_big_int 2
                                                              (Big_int_Z.mult_int_big_int 2
                                                              (Big_int_Z.mult_int_big_int 2
                                                              Big_int_Z.unit_big_int)))))))) :: [])))

(** val bytes_to_string : Big_int_Z.big_int list -> string **)

let rec bytes_to_string = function
| [] -> ""
| b :: t0 ->
  (* If this appears, you're using String internals. Please don't *)
  (fun (c, s) -> String.make 1 c ^ s)

    ((ascii_of_N (Z.to_N b)), (bytes_to_string t0))

(** val utf8_string : ustr -> string **)

let utf8_string u =
  bytes_to_string (flat_map utf8_encode1 u)

(** val assocZ :
    (Big_int_Z.big_int * 'a1) list -> Big_int_Z.big_int -> 'a1 -> 'a1 **)

let assocZ l c d =
  match find (fun x -> Z.eqb (fst x) c) l with
  | Some x -> snd x
  | None -> d

(** val memZ : Big_int_Z.big_int -> Big_int_Z.big_int list -> bool **)

let memZ c l =
  existsb (Z.eqb c) l

(** val to_pcand : profile0 -> Big_int_Z.big_int -> pcand **)

let to_pcand p c =
  { pc_cid = c; pc_order = (assocZ p.p_candOrder c c); pc_tie =
    (assocZ p.p_tieOrder c c); pc_name =
    (utf8_string (assocZ p.p_candName c [])); pc_nick =
    (utf8_string (assocZ p.p_nickName c [])); pc_withdrawn =
    (memZ c p.p_withdrawn); pc_undeclared = (memZ c p.p_undeclared) }

(** val to_count_profile : profile0 -> profile **)

let to_count_profile p =
  { pr_nseats = p.p_nSeats; pr_nballots = p.p_nBallots; pr_cands =
    (map (to_pcand p) (cids_upto p.p_nCand)); pr_ballots = p.p_lines;
    pr_eballots = p.p_linesEq }

(** val show_resZ : Big_int_Z.big_int res -> string **)

let show_resZ = function
| Ok z0 -> (^) "ok " (string_of_Z z0)
| Raise e -> (^) "exn " (exn_name e)

(** val show_resB : bool res -> string **)

let show_resB = function
| Ok a -> if a then "bool 1" else "bool 0"
| Raise e -> (^) "exn " (exn_name e)

(** val mk_operand : Big_int_Z.big_int -> Big_int_Z.big_int -> operand **)

let mk_operand kind v =
  if Z.eqb kind Big_int_Z.zero_big_int then OInt v else OVal v

(** val mk_rnd : Big_int_Z.big_int -> rnd **)

let mk_rnd z0 =
  if Z.eqb z0 Big_int_Z.zero_big_int
  then RDown
  else if Z.eqb z0 Big_int_Z.unit_big_int
       then RUp
       else if Z.eqb z0 (Big_int_Z.mult_int_big_int 2 Big_int_Z.unit_big_int)
            then RNone
            else ROther

(** val toks_ints : tok list -> Big_int_Z.big_int list **)

let rec toks_ints = function
| [] -> []
| t0 :: t1 ->
  (match t0 with
   | TI z0 -> z0 :: (toks_ints t1)
   | TS _ -> toks_ints t1)

(** val run_fixed :
    Big_int_Z.big_int -> Big_int_Z.big_int -> Big_int_Z.big_int ->
    Big_int_Z.big_int -> Big_int_Z.big_int -> Big_int_Z.big_int ->
    Big_int_Z.big_int -> Big_int_Z.big_int -> Big_int_Z.big_int ->
    Big_int_Z.big_int -> Big_int_Z.big_int list -> string **)

let run_fixed p d op rn ka a kb b kc c rest =
  let st = mk_fixed_cls p d in
  let a0 = mk_operand ka a in
  let b0 = mk_operand kb b in
  let c0 = mk_operand kc c in
  let r = mk_rnd rn in
  ((fun fO fp fn z -> let s = Big_int_Z.sign_big_int z in
  if s = 0 then fO () else if s > 0 then fp z
  else fn (Big_int_Z.minus_big_int z))
     (fun _ -> show_resZ (init_r st a0 false))
     (fun p0 ->
     (fun f2p1 f2p f1 p ->
  if Big_int_Z.le_big_int p Big_int_Z.unit_big_int then f1 () else
  let (q,r) = Big_int_Z.quomod_big_int p (Big_int_Z.big_int_of_int 2) in
  if Big_int_Z.eq_big_int r Big_int_Z.zero_big_int then f2p q else f2p1 q)
       (fun p1 ->
       (fun f2p1 f2p f1 p ->
  if Big_int_Z.le_big_int p Big_int_Z.unit_big_int then f1 () else
  let (q,r) = Big_int_Z.quomod_big_int p (Big_int_Z.big_int_of_int 2) in
  if Big_int_Z.eq_big_int r Big_int_Z.zero_big_int then f2p q else f2p1 q)
         (fun p2 ->
         (fun f2p1 f2p f1 p ->
  if Big_int_Z.le_big_int p Big_int_Z.unit_big_int then f1 () else
  let (q,r) = Big_int_Z.quomod_big_int p (Big_int_Z.big_int_of_int 2) in
  if Big_int_Z.eq_big_int r Big_int_Z.zero_big_int then f2p q else f2p1 q)
           (fun p3 ->
           (fun f2p1 f2p f1 p ->
  if Big_int_Z.le_big_int p Big_int_Z.unit_big_int then f1 () else
  let (q,r) = Big_int_Z.quomod_big_int p (Big_int_Z.big_int_of_int 2) in
  if Big_int_Z.eq_big_int r Big_int_Z.zero_big_int then f2p q else f2p1 q)
             (fun _ -> "badop")
             (fun _ -> "badop")
             (fun _ -> show_resB (dunder_lt st a b0))
             p3)
           (fun p3 ->
           (fun f2p1 f2p f1 p ->
  if Big_int_Z.le_big_int p Big_int_Z.unit_big_int then f1 () else
  let (q,r) = Big_int_Z.quomod_big_int p (Big_int_Z.big_int_of_int 2) in
  if Big_int_Z.eq_big_int r Big_int_Z.zero_big_int then f2p q else f2p1 q)
             (fun _ -> "badop")
             (fun _ -> "badop")
             (fun _ -> show_resZ (div0 st a0 b0 r))
             p3)
           (fun _ -> show_resZ (dunder_mul st a b0))
           p2)
         (fun p2 ->
         (fun f2p1 f2p f1 p ->
  if Big_int_Z.le_big_int p Big_int_Z.unit_big_int then f1 () else
  let (q,r) = Big_int_Z.quomod_big_int p (Big_int_Z.big_int_of_int 2) in
  if Big_int_Z.eq_big_int r Big_int_Z.zero_big_int then f2p q else f2p1 q)
           (fun p3 ->
           (fun f2p1 f2p f1 p ->
  if Big_int_Z.le_big_int p Big_int_Z.unit_big_int then f1 () else
  let (q,r) = Big_int_Z.quomod_big_int p (Big_int_Z.big_int_of_int 2) in
  if Big_int_Z.eq_big_int r Big_int_Z.zero_big_int then f2p q else f2p1 q)
             (fun _ -> "badop")
             (fun p4 ->
             (fun f2p1 f2p f1 p ->
  if Big_int_Z.le_big_int p Big_int_Z.unit_big_int then f1 () else
  let (q,r) = Big_int_Z.quomod_big_int p (Big_int_Z.big_int_of_int 2) in
  if Big_int_Z.eq_big_int r Big_int_Z.zero_big_int then f2p q else f2p1 q)
               (fun _ -> "badop")
               (fun _ -> "badop")
               (fun _ -> (^) "str " ((fixed p d).str (Obj.magic a)))
               p4)
             (fun _ -> show_resB (dunder_eq st a b0))
             p3)
           (fun p3 ->
           (fun f2p1 f2p f1 p ->
  if Big_int_Z.le_big_int p Big_int_Z.unit_big_int then f1 () else
  let (q,r) = Big_int_Z.quomod_big_int p (Big_int_Z.big_int_of_int 2) in
  if Big_int_Z.eq_big_int r Big_int_Z.zero_big_int then f2p q else f2p1 q)
             (fun _ -> "badop")
             (fun p4 ->
             (fun f2p1 f2p f1 p ->
  if Big_int_Z.le_big_int p Big_int_Z.unit_big_int then f1 () else
  let (q,r) = Big_int_Z.quomod_big_int p (Big_int_Z.big_int_of_int 2) in
  if Big_int_Z.eq_big_int r Big_int_Z.zero_big_int then f2p q else f2p1 q)
               (fun _ -> "badop")
               (fun _ -> "badop")
               (fun _ -> show_resB (dunder_gt st a b0))
               p4)
             (fun _ -> show_resZ (dunder_truediv st a b0))
             p3)
           (fun _ -> show_resZ (dunder_abs st a))
           p2)
         (fun _ -> show_resZ (dunder_neg st a))
         p1)
       (fun p1 ->
       (fun f2p1 f2p f1 p ->
  if Big_int_Z.le_big_int p Big_int_Z.unit_big_int then f1 () else
  let (q,r) = Big_int_Z.quomod_big_int p (Big_int_Z.big_int_of_int 2) in
  if Big_int_Z.eq_big_int r Big_int_Z.zero_big_int then f2p q else f2p1 q)
         (fun p2 ->
         (fun f2p1 f2p f1 p ->
  if Big_int_Z.le_big_int p Big_int_Z.unit_big_int then f1 () else
  let (q,r) = Big_int_Z.quomod_big_int p (Big_int_Z.big_int_of_int 2) in
  if Big_int_Z.eq_big_int r Big_int_Z.zero_big_int then f2p q else f2p1 q)
           (fun p3 ->
           (fun f2p1 f2p f1 p ->
  if Big_int_Z.le_big_int p Big_int_Z.unit_big_int then f1 () else
  let (q,r) = Big_int_Z.quomod_big_int p (Big_int_Z.big_int_of_int 2) in
  if Big_int_Z.eq_big_int r Big_int_Z.zero_big_int then f2p q else f2p1 q)
             (fun _ -> "badop")
             (fun _ -> "badop")
             (fun _ -> show_resB (dunder_ne st a b0))
             p3)
           (fun p3 ->
           (fun f2p1 f2p f1 p ->
  if Big_int_Z.le_big_int p Big_int_Z.unit_big_int then f1 () else
  let (q,r) = Big_int_Z.quomod_big_int p (Big_int_Z.big_int_of_int 2) in
  if Big_int_Z.eq_big_int r Big_int_Z.zero_big_int then f2p q else f2p1 q)
             (fun _ -> "badop")
             (fun p4 ->
             (fun f2p1 f2p f1 p ->
  if Big_int_Z.le_big_int p Big_int_Z.unit_big_int then f1 () else
  let (q,r) = Big_int_Z.quomod_big_int p (Big_int_Z.big_int_of_int 2) in
  if Big_int_Z.eq_big_int r Big_int_Z.zero_big_int then f2p q else f2p1 q)
               (fun _ -> "badop")
               (fun _ -> "badop")
               (fun _ -> show_resB (dunder_ge st a b0))
               p4)
             (fun _ -> show_resZ (mul0 st a0 b0 r))
             p3)
           (fun _ -> show_resB (dunder_bool st a))
           p2)
         (fun p2 ->
         (fun f2p1 f2p f1 p ->
  if Big_int_Z.le_big_int p Big_int_Z.unit_big_int then f1 () else
  let (q,r) = Big_int_Z.quomod_big_int p (Big_int_Z.big_int_of_int 2) in
  if Big_int_Z.eq_big_int r Big_int_Z.zero_big_int then f2p q else f2p1 q)
           (fun p3 ->
           (fun f2p1 f2p f1 p ->
  if Big_int_Z.le_big_int p Big_int_Z.unit_big_int then f1 () else
  let (q,r) = Big_int_Z.quomod_big_int p (Big_int_Z.big_int_of_int 2) in
  if Big_int_Z.eq_big_int r Big_int_Z.zero_big_int then f2p q else f2p1 q)
             (fun _ -> "badop")
             (fun p4 ->
             (fun f2p1 f2p f1 p ->
  if Big_int_Z.le_big_int p Big_int_Z.unit_big_int then f1 () else
  let (q,r) = Big_int_Z.quomod_big_int p (Big_int_Z.big_int_of_int 2) in
  if Big_int_Z.eq_big_int r Big_int_Z.zero_big_int then f2p q else f2p1 q)
               (fun _ -> "badop")
               (fun _ -> "badop")
               (fun _ -> show_resZ (min st rest))
               p4)
             (fun _ -> show_resZ (muldiv st a0 b0 c0 r))
             p3)
           (fun p3 ->
           (fun f2p1 f2p f1 p ->
  if Big_int_Z.le_big_int p Big_int_Z.unit_big_int then f1 () else
  let (q,r) = Big_int_Z.quomod_big_int p (Big_int_Z.big_int_of_int 2) in
  if Big_int_Z.eq_big_int r Big_int_Z.zero_big_int then f2p q else f2p1 q)
             (fun _ -> "badop")
             (fun p4 ->
             (fun f2p1 f2p f1 p ->
  if Big_int_Z.le_big_int p Big_int_Z.unit_big_int then f1 () else
  let (q,r) = Big_int_Z.quomod_big_int p (Big_int_Z.big_int_of_int 2) in
  if Big_int_Z.eq_big_int r Big_int_Z.zero_big_int then f2p q else f2p1 q)
               (fun _ -> "badop")
               (fun _ -> "badop")
               (fun _ -> show_resB (dunder_le st a b0))
               p4)
             (fun _ -> show_resZ (dunder_floordiv st a b0))
             p3)
           (fun _ -> show_resZ (dunder_pos st a))
           p2)
         (fun _ -> show_resZ (dunder_sub st a b0))
         p1)
       (fun _ -> show_resZ (dunder_add st a b0))
       p0)
     (fun _ -> "badop")
     op)

(** val run_guarded :
    Big_int_Z.big_int -> Big_int_Z.big_int -> Big_int_Z.big_int ->
    Big_int_Z.big_int -> Big_int_Z.big_int -> Big_int_Z.big_int ->
    Big_int_Z.big_int -> Big_int_Z.big_int -> Big_int_Z.big_int ->
    Big_int_Z.big_int -> Big_int_Z.big_int -> Big_int_Z.big_int ->
    Big_int_Z.big_int list -> string **)

let run_guarded p g d stale op rn ka a kb b kc c rest =
  let st = mk_guarded_cls p g d stale in
  let a0 = mk_operand ka a in
  let b0 = mk_operand kb b in
  let c0 = mk_operand kc c in
  let r = mk_rnd rn in
  ((fun fO fp fn z -> let s = Big_int_Z.sign_big_int z in
  if s = 0 then fO () else if s > 0 then fp z
  else fn (Big_int_Z.minus_big_int z))
     (fun _ -> show_resZ (init_r0 st a0 false))
     (fun p0 ->
     (fun f2p1 f2p f1 p ->
  if Big_int_Z.le_big_int p Big_int_Z.unit_big_int then f1 () else
  let (q,r) = Big_int_Z.quomod_big_int p (Big_int_Z.big_int_of_int 2) in
  if Big_int_Z.eq_big_int r Big_int_Z.zero_big_int then f2p q else f2p1 q)
       (fun p1 ->
       (fun f2p1 f2p f1 p ->
  if Big_int_Z.le_big_int p Big_int_Z.unit_big_int then f1 () else
  let (q,r) = Big_int_Z.quomod_big_int p (Big_int_Z.big_int_of_int 2) in
  if Big_int_Z.eq_big_int r Big_int_Z.zero_big_int then f2p q else f2p1 q)
         (fun p2 ->
         (fun f2p1 f2p f1 p ->
  if Big_int_Z.le_big_int p Big_int_Z.unit_big_int then f1 () else
  let (q,r) = Big_int_Z.quomod_big_int p (Big_int_Z.big_int_of_int 2) in
  if Big_int_Z.eq_big_int r Big_int_Z.zero_big_int then f2p q else f2p1 q)
           (fun p3 ->
           (fun f2p1 f2p f1 p ->
  if Big_int_Z.le_big_int p Big_int_Z.unit_big_int then f1 () else
  let (q,r) = Big_int_Z.quomod_big_int p (Big_int_Z.big_int_of_int 2) in
  if Big_int_Z.eq_big_int r Big_int_Z.zero_big_int then f2p q else f2p1 q)
             (fun _ -> "badop")
             (fun _ -> "badop")
             (fun _ -> show_resB (dunder_lt0 st a b0))
             p3)
           (fun p3 ->
           (fun f2p1 f2p f1 p ->
  if Big_int_Z.le_big_int p Big_int_Z.unit_big_int then f1 () else
  let (q,r) = Big_int_Z.quomod_big_int p (Big_int_Z.big_int_of_int 2) in
  if Big_int_Z.eq_big_int r Big_int_Z.zero_big_int then f2p q else f2p1 q)
             (fun _ -> "badop")
             (fun p4 ->
             (fun f2p1 f2p f1 p ->
  if Big_int_Z.le_big_int p Big_int_Z.unit_big_int then f1 () else
  let (q,r) = Big_int_Z.quomod_big_int p (Big_int_Z.big_int_of_int 2) in
  if Big_int_Z.eq_big_int r Big_int_Z.zero_big_int then f2p q else f2p1 q)
               (fun _ -> "badop")
               (fun _ -> "badop")
               (fun _ -> show_resZ (dunder_cmp st a b0))
               p4)
             (fun _ -> show_resZ (div1 st a0 b0 r))
             p3)
           (fun _ -> show_resZ (dunder_mul0 st a b0))
           p2)
         (fun p2 ->
         (fun f2p1 f2p f1 p ->
  if Big_int_Z.le_big_int p Big_int_Z.unit_big_int then f1 () else
  let (q,r) = Big_int_Z.quomod_big_int p (Big_int_Z.big_int_of_int 2) in
  if Big_int_Z.eq_big_int r Big_int_Z.zero_big_int then f2p q else f2p1 q)
           (fun p3 ->
           (fun f2p1 f2p f1 p ->
  if Big_int_Z.le_big_int p Big_int_Z.unit_big_int then f1 () else
  let (q,r) = Big_int_Z.quomod_big_int p (Big_int_Z.big_int_of_int 2) in
  if Big_int_Z.eq_big_int r Big_int_Z.zero_big_int then f2p q else f2p1 q)
             (fun _ -> "badop")
             (fun p4 ->
             (fun f2p1 f2p f1 p ->
  if Big_int_Z.le_big_int p Big_int_Z.unit_big_int then f1 () else
  let (q,r) = Big_int_Z.quomod_big_int p (Big_int_Z.big_int_of_int 2) in
  if Big_int_Z.eq_big_int r Big_int_Z.zero_big_int then f2p q else f2p1 q)
               (fun _ -> "badop")
               (fun _ -> "badop")
               (fun _ ->
               (^) "str " ((guarded p g d stale).str (Obj.magic a)))
               p4)
             (fun _ -> show_resB (dunder_eq0 st a b0))
             p3)
           (fun p3 ->
           (fun f2p1 f2p f1 p ->
  if Big_int_Z.le_big_int p Big_int_Z.unit_big_int then f1 () else
  let (q,r) = Big_int_Z.quomod_big_int p (Big_int_Z.big_int_of_int 2) in
  if Big_int_Z.eq_big_int r Big_int_Z.zero_big_int then f2p q else f2p1 q)
             (fun _ -> "badop")
             (fun p4 ->
             (fun f2p1 f2p f1 p ->
  if Big_int_Z.le_big_int p Big_int_Z.unit_big_int then f1 () else
  let (q,r) = Big_int_Z.quomod_big_int p (Big_int_Z.big_int_of_int 2) in
  if Big_int_Z.eq_big_int r Big_int_Z.zero_big_int then f2p q else f2p1 q)
               (fun _ -> "badop")
               (fun _ -> "badop")
               (fun _ -> show_resB (dunder_gt0 st a b0))
               p4)
             (fun _ -> show_resZ (dunder_truediv0 st a b0))
             p3)
           (fun _ -> show_resZ (dunder_abs0 st a))
           p2)
         (fun _ -> show_resZ (dunder_neg0 st a))
         p1)
       (fun p1 ->
       (fun f2p1 f2p f1 p ->
  if Big_int_Z.le_big_int p Big_int_Z.unit_big_int then f1 () else
  let (q,r) = Big_int_Z.quomod_big_int p (Big_int_Z.big_int_of_int 2) in
  if Big_int_Z.eq_big_int r Big_int_Z.zero_big_int then f2p q else f2p1 q)
         (fun p2 ->
         (fun f2p1 f2p f1 p ->
  if Big_int_Z.le_big_int p Big_int_Z.unit_big_int then f1 () else
  let (q,r) = Big_int_Z.quomod_big_int p (Big_int_Z.big_int_of_int 2) in
  if Big_int_Z.eq_big_int r Big_int_Z.zero_big_int then f2p q else f2p1 q)
           (fun p3 ->
           (fun f2p1 f2p f1 p ->
  if Big_int_Z.le_big_int p Big_int_Z.unit_big_int then f1 () else
  let (q,r) = Big_int_Z.quomod_big_int p (Big_int_Z.big_int_of_int 2) in
  if Big_int_Z.eq_big_int r Big_int_Z.zero_big_int then f2p q else f2p1 q)
             (fun _ -> "badop")
             (fun p4 ->
             (fun f2p1 f2p f1 p ->
  if Big_int_Z.le_big_int p Big_int_Z.unit_big_int then f1 () else
  let (q,r) = Big_int_Z.quomod_big_int p (Big_int_Z.big_int_of_int 2) in
  if Big_int_Z.eq_big_int r Big_int_Z.zero_big_int then f2p q else f2p1 q)
               (fun _ -> "badop")
               (fun _ -> "badop")
               (fun _ -> show_resZ (dunder_hash st a))
               p4)
             (fun _ -> show_resB (dunder_ne0 st a b0))
             p3)
           (fun p3 ->
           (fun f2p1 f2p f1 p ->
  if Big_int_Z.le_big_int p Big_int_Z.unit_big_int then f1 () else
  let (q,r) = Big_int_Z.quomod_big_int p (Big_int_Z.big_int_of_int 2) in
  if Big_int_Z.eq_big_int r Big_int_Z.zero_big_int then f2p q else f2p1 q)
             (fun _ -> "badop")
             (fun p4 ->
             (fun f2p1 f2p f1 p ->
  if Big_int_Z.le_big_int p Big_int_Z.unit_big_int then f1 () else
  let (q,r) = Big_int_Z.quomod_big_int p (Big_int_Z.big_int_of_int 2) in
  if Big_int_Z.eq_big_int r Big_int_Z.zero_big_int then f2p q else f2p1 q)
               (fun _ -> "badop")
               (fun _ -> "badop")
               (fun _ -> show_resB (dunder_ge0 st a b0))
               p4)
             (fun _ -> show_resZ (mul1 st a0 b0 r))
             p3)
           (fun _ -> show_resB (dunder_bool0 st a))
           p2)
         (fun p2 ->
         (fun f2p1 f2p f1 p ->
  if Big_int_Z.le_big_int p Big_int_Z.unit_big_int then f1 () else
  let (q,r) = Big_int_Z.quomod_big_int p (Big_int_Z.big_int_of_int 2) in
  if Big_int_Z.eq_big_int r Big_int_Z.zero_big_int then f2p q else f2p1 q)
           (fun p3 ->
           (fun f2p1 f2p f1 p ->
  if Big_int_Z.le_big_int p Big_int_Z.unit_big_int then f1 () else
  let (q,r) = Big_int_Z.quomod_big_int p (Big_int_Z.big_int_of_int 2) in
  if Big_int_Z.eq_big_int r Big_int_Z.zero_big_int then f2p q else f2p1 q)
             (fun _ -> "badop")
             (fun p4 ->
             (fun f2p1 f2p f1 p ->
  if Big_int_Z.le_big_int p Big_int_Z.unit_big_int then f1 () else
  let (q,r) = Big_int_Z.quomod_big_int p (Big_int_Z.big_int_of_int 2) in
  if Big_int_Z.eq_big_int r Big_int_Z.zero_big_int then f2p q else f2p1 q)
               (fun _ -> "badop")
               (fun _ -> "badop")
               (fun _ -> show_resZ (min0 st rest))
               p4)
             (fun _ -> show_resZ (muldiv0 st a0 b0 c0 r))
             p3)
           (fun p3 ->
           (fun f2p1 f2p f1 p ->
  if Big_int_Z.le_big_int p Big_int_Z.unit_big_int then f1 () else
  let (q,r) = Big_int_Z.quomod_big_int p (Big_int_Z.big_int_of_int 2) in
  if Big_int_Z.eq_big_int r Big_int_Z.zero_big_int then f2p q else f2p1 q)
             (fun _ -> "badop")
             (fun p4 ->
             (fun f2p1 f2p f1 p ->
  if Big_int_Z.le_big_int p Big_int_Z.unit_big_int then f1 () else
  let (q,r) = Big_int_Z.quomod_big_int p (Big_int_Z.big_int_of_int 2) in
  if Big_int_Z.eq_big_int r Big_int_Z.zero_big_int then f2p q else f2p1 q)
               (fun _ -> "badop")
               (fun _ -> "badop")
               (fun _ -> show_resB (dunder_le0 st a b0))
               p4)
             (fun _ -> show_resZ (dunder_floordiv0 st a b0))
             p3)
           (fun _ -> show_resZ (dunder_pos0 st a))
           p2)
         (fun _ -> show_resZ (dunder_sub0 st a b0))
         p1)
       (fun _ -> show_resZ (dunder_add0 st a b0))
       p0)
     (fun _ -> "badop")
     op)

(** val mkq : Big_int_Z.big_int -> Big_int_Z.big_int -> q **)

let mkq n0 d =
  qred { qnum = n0; qden = (Z.to_pos d) }

(** val show_q : q -> string **)

let show_q q0 =
  (rational Big_int_Z.zero_big_int).raw_repr (Obj.magic q0)

(** val show_resQ : q res -> string **)

let show_resQ = function
| Ok q0 -> (^) "ok " (show_q q0)
| Raise e -> (^) "exn " (exn_name e)

(** val showb : bool -> string **)

let showb = function
| true -> "bool 1"
| false -> "bool 0"

(** val run_rational :
    Big_int_Z.big_int -> Big_int_Z.big_int -> Big_int_Z.big_int ->
    Big_int_Z.big_int -> Big_int_Z.big_int -> Big_int_Z.big_int ->
    Big_int_Z.big_int -> Big_int_Z.big_int -> Big_int_Z.big_int -> string **)

let run_rational dp op rn an ad bn bd cn cd =
  let r = rational dp in
  let a = mkq an ad in
  let b = mkq bn bd in
  let c = mkq cn cd in
  ((fun fO fp fn z -> let s = Big_int_Z.sign_big_int z in
  if s = 0 then fO () else if s > 0 then fp z
  else fn (Big_int_Z.minus_big_int z))
     (fun _ -> "badop")
     (fun p ->
     (fun f2p1 f2p f1 p ->
  if Big_int_Z.le_big_int p Big_int_Z.unit_big_int then f1 () else
  let (q,r) = Big_int_Z.quomod_big_int p (Big_int_Z.big_int_of_int 2) in
  if Big_int_Z.eq_big_int r Big_int_Z.zero_big_int then f2p q else f2p1 q)
       (fun p0 ->
       (fun f2p1 f2p f1 p ->
  if Big_int_Z.le_big_int p Big_int_Z.unit_big_int then f1 () else
  let (q,r) = Big_int_Z.quomod_big_int p (Big_int_Z.big_int_of_int 2) in
  if Big_int_Z.eq_big_int r Big_int_Z.zero_big_int then f2p q else f2p1 q)
         (fun p1 ->
         (fun f2p1 f2p f1 p ->
  if Big_int_Z.le_big_int p Big_int_Z.unit_big_int then f1 () else
  let (q,r) = Big_int_Z.quomod_big_int p (Big_int_Z.big_int_of_int 2) in
  if Big_int_Z.eq_big_int r Big_int_Z.zero_big_int then f2p q else f2p1 q)
           (fun p2 ->
           (fun f2p1 f2p f1 p ->
  if Big_int_Z.le_big_int p Big_int_Z.unit_big_int then f1 () else
  let (q,r) = Big_int_Z.quomod_big_int p (Big_int_Z.big_int_of_int 2) in
  if Big_int_Z.eq_big_int r Big_int_Z.zero_big_int then f2p q else f2p1 q)
             (fun _ -> "badop")
             (fun _ -> "badop")
             (fun _ -> showb (r.ltv (Obj.magic a) (Obj.magic b)))
             p2)
           (fun p2 ->
           (fun f2p1 f2p f1 p ->
  if Big_int_Z.le_big_int p Big_int_Z.unit_big_int then f1 () else
  let (q,r) = Big_int_Z.quomod_big_int p (Big_int_Z.big_int_of_int 2) in
  if Big_int_Z.eq_big_int r Big_int_Z.zero_big_int then f2p q else f2p1 q)
             (fun _ -> "badop")
             (fun _ -> "badop")
             (fun _ ->
             show_resQ
               (Obj.magic r.kdiv a b (Z.eqb rn Big_int_Z.unit_big_int)))
             p2)
           (fun _ -> (^) "ok " (show_q (Obj.magic r.mulv a b)))
           p1)
         (fun p1 ->
         (fun f2p1 f2p f1 p ->
  if Big_int_Z.le_big_int p Big_int_Z.unit_big_int then f1 () else
  let (q,r) = Big_int_Z.quomod_big_int p (Big_int_Z.big_int_of_int 2) in
  if Big_int_Z.eq_big_int r Big_int_Z.zero_big_int then f2p q else f2p1 q)
           (fun p2 ->
           (fun f2p1 f2p f1 p ->
  if Big_int_Z.le_big_int p Big_int_Z.unit_big_int then f1 () else
  let (q,r) = Big_int_Z.quomod_big_int p (Big_int_Z.big_int_of_int 2) in
  if Big_int_Z.eq_big_int r Big_int_Z.zero_big_int then f2p q else f2p1 q)
             (fun _ -> "badop")
             (fun p3 ->
             (fun f2p1 f2p f1 p ->
  if Big_int_Z.le_big_int p Big_int_Z.unit_big_int then f1 () else
  let (q,r) = Big_int_Z.quomod_big_int p (Big_int_Z.big_int_of_int 2) in
  if Big_int_Z.eq_big_int r Big_int_Z.zero_big_int then f2p q else f2p1 q)
               (fun _ -> "badop")
               (fun _ -> "badop")
               (fun _ -> (^) "str " (r.str (Obj.magic a)))
               p3)
             (fun _ -> showb (r.eqv (Obj.magic a) (Obj.magic b)))
             p2)
           (fun p2 ->
           (fun f2p1 f2p f1 p ->
  if Big_int_Z.le_big_int p Big_int_Z.unit_big_int then f1 () else
  let (q,r) = Big_int_Z.quomod_big_int p (Big_int_Z.big_int_of_int 2) in
  if Big_int_Z.eq_big_int r Big_int_Z.zero_big_int then f2p q else f2p1 q)
             (fun _ -> "badop")
             (fun p3 ->
             (fun f2p1 f2p f1 p ->
  if Big_int_Z.le_big_int p Big_int_Z.unit_big_int then f1 () else
  let (q,r) = Big_int_Z.quomod_big_int p (Big_int_Z.big_int_of_int 2) in
  if Big_int_Z.eq_big_int r Big_int_Z.zero_big_int then f2p q else f2p1 q)
               (fun _ -> "badop")
               (fun _ -> "badop")
               (fun _ -> showb (r.gtv (Obj.magic a) (Obj.magic b)))
               p3)
             (fun _ -> show_resQ (Obj.magic r.divv a b))
             p2)
           (fun _ -> "badop")
           p1)
         (fun _ -> "badop")
         p0)
       (fun p0 ->
       (fun f2p1 f2p f1 p ->
  if Big_int_Z.le_big_int p Big_int_Z.unit_big_int then f1 () else
  let (q,r) = Big_int_Z.quomod_big_int p (Big_int_Z.big_int_of_int 2) in
  if Big_int_Z.eq_big_int r Big_int_Z.zero_big_int then f2p q else f2p1 q)
         (fun p1 ->
         (fun f2p1 f2p f1 p ->
  if Big_int_Z.le_big_int p Big_int_Z.unit_big_int then f1 () else
  let (q,r) = Big_int_Z.quomod_big_int p (Big_int_Z.big_int_of_int 2) in
  if Big_int_Z.eq_big_int r Big_int_Z.zero_big_int then f2p q else f2p1 q)
           (fun p2 ->
           (fun f2p1 f2p f1 p ->
  if Big_int_Z.le_big_int p Big_int_Z.unit_big_int then f1 () else
  let (q,r) = Big_int_Z.quomod_big_int p (Big_int_Z.big_int_of_int 2) in
  if Big_int_Z.eq_big_int r Big_int_Z.zero_big_int then f2p q else f2p1 q)
             (fun _ -> "badop")
             (fun _ -> "badop")
             (fun _ -> showb (nev r (Obj.magic a) (Obj.magic b)))
             p2)
           (fun p2 ->
           (fun f2p1 f2p f1 p ->
  if Big_int_Z.le_big_int p Big_int_Z.unit_big_int then f1 () else
  let (q,r) = Big_int_Z.quomod_big_int p (Big_int_Z.big_int_of_int 2) in
  if Big_int_Z.eq_big_int r Big_int_Z.zero_big_int then f2p q else f2p1 q)
             (fun _ -> "badop")
             (fun p3 ->
             (fun f2p1 f2p f1 p ->
  if Big_int_Z.le_big_int p Big_int_Z.unit_big_int then f1 () else
  let (q,r) = Big_int_Z.quomod_big_int p (Big_int_Z.big_int_of_int 2) in
  if Big_int_Z.eq_big_int r Big_int_Z.zero_big_int then f2p q else f2p1 q)
               (fun _ -> "badop")
               (fun _ -> "badop")
               (fun _ -> showb (r.gev (Obj.magic a) (Obj.magic b)))
               p3)
             (fun _ ->
             (^) "ok "
               (show_q
                 (Obj.magic r.kmul a b (Z.eqb rn Big_int_Z.unit_big_int))))
             p2)
           (fun _ -> showb (r.truth (Obj.magic a)))
           p1)
         (fun p1 ->
         (fun f2p1 f2p f1 p ->
  if Big_int_Z.le_big_int p Big_int_Z.unit_big_int then f1 () else
  let (q,r) = Big_int_Z.quomod_big_int p (Big_int_Z.big_int_of_int 2) in
  if Big_int_Z.eq_big_int r Big_int_Z.zero_big_int then f2p q else f2p1 q)
           (fun p2 ->
           (fun f2p1 f2p f1 p ->
  if Big_int_Z.le_big_int p Big_int_Z.unit_big_int then f1 () else
  let (q,r) = Big_int_Z.quomod_big_int p (Big_int_Z.big_int_of_int 2) in
  if Big_int_Z.eq_big_int r Big_int_Z.zero_big_int then f2p q else f2p1 q)
             (fun _ -> "badop")
             (fun _ -> "badop")
             (fun _ ->
             show_resQ
               (Obj.magic r.kmuldiv a b c (Z.eqb rn Big_int_Z.unit_big_int)))
             p2)
           (fun p2 ->
           (fun f2p1 f2p f1 p ->
  if Big_int_Z.le_big_int p Big_int_Z.unit_big_int then f1 () else
  let (q,r) = Big_int_Z.quomod_big_int p (Big_int_Z.big_int_of_int 2) in
  if Big_int_Z.eq_big_int r Big_int_Z.zero_big_int then f2p q else f2p1 q)
             (fun _ -> "badop")
             (fun p3 ->
             (fun f2p1 f2p f1 p ->
  if Big_int_Z.le_big_int p Big_int_Z.unit_big_int then f1 () else
  let (q,r) = Big_int_Z.quomod_big_int p (Big_int_Z.big_int_of_int 2) in
  if Big_int_Z.eq_big_int r Big_int_Z.zero_big_int then f2p q else f2p1 q)
               (fun _ -> "badop")
               (fun _ -> "badop")
               (fun _ -> showb (r.lev (Obj.magic a) (Obj.magic b)))
               p3)
             (fun _ -> show_resQ (Obj.magic r.floordivv a b))
             p2)
           (fun _ -> "badop")
           p1)
         (fun _ -> (^) "ok " (show_q (Obj.magic r.sub0 a b)))
         p0)
       (fun _ -> (^) "ok " (show_q (Obj.magic r.add0 a b)))
       p)
     (fun _ -> "badop")
     op)

(** val run_values : Big_int_Z.big_int list -> string **)

let run_values = function
| [] -> "badcase"
| z0 :: l0 ->
  ((fun fO fp fn z -> let s = Big_int_Z.sign_big_int z in
  if s = 0 then fO () else if s > 0 then fp z
  else fn (Big_int_Z.minus_big_int z))
     (fun _ ->
     match l0 with
     | [] -> "badcase"
     | p :: l1 ->
       (match l1 with
        | [] -> "badcase"
        | d :: l2 ->
          (match l2 with
           | [] -> "badcase"
           | op :: l3 ->
             (match l3 with
              | [] -> "badcase"
              | rn :: l4 ->
                (match l4 with
                 | [] -> "badcase"
                 | ka :: l5 ->
                   (match l5 with
                    | [] -> "badcase"
                    | a :: l6 ->
                      (match l6 with
                       | [] -> "badcase"
                       | kb :: l7 ->
                         (match l7 with
                          | [] -> "badcase"
                          | b :: l8 ->
                            (match l8 with
                             | [] -> "badcase"
                             | kc :: l9 ->
                               (match l9 with
                                | [] -> "badcase"
                                | c :: rest ->
                                  run_fixed p d op rn ka a kb b kc c rest))))))))))
     (fun p0 ->
     (fun f2p1 f2p f1 p ->
  if Big_int_Z.le_big_int p Big_int_Z.unit_big_int then f1 () else
  let (q,r) = Big_int_Z.quomod_big_int p (Big_int_Z.big_int_of_int 2) in
  if Big_int_Z.eq_big_int r Big_int_Z.zero_big_int then f2p q else f2p1 q)
       (fun _ -> "badcase")
       (fun p ->
       (fun f2p1 f2p f1 p ->
  if Big_int_Z.le_big_int p Big_int_Z.unit_big_int then f1 () else
  let (q,r) = Big_int_Z.quomod_big_int p (Big_int_Z.big_int_of_int 2) in
  if Big_int_Z.eq_big_int r Big_int_Z.zero_big_int then f2p q else f2p1 q)
         (fun _ -> "badcase")
         (fun _ -> "badcase")
         (fun _ ->
         match l0 with
         | [] -> "badcase"
         | dp :: l1 ->
           (match l1 with
            | [] -> "badcase"
            | op :: l2 ->
              (match l2 with
               | [] -> "badcase"
               | rn :: l3 ->
                 (match l3 with
                  | [] -> "badcase"
                  | an :: l4 ->
                    (match l4 with
                     | [] -> "badcase"
                     | ad :: l5 ->
                       (match l5 with
                        | [] -> "badcase"
                        | bn :: l6 ->
                          (match l6 with
                           | [] -> "badcase"
                           | bd :: l7 ->
                             (match l7 with
                              | [] -> "badcase"
                              | cn :: l8 ->
                                (match l8 with
                                 | [] -> "badcase"
                                 | cd :: _ ->
                                   run_rational dp op rn an ad bn bd cn cd)))))))))
         p)
       (fun _ ->
       match l0 with
       | [] -> "badcase"
       | p :: l1 ->
         (match l1 with
          | [] -> "badcase"
          | g :: l2 ->
            (match l2 with
             | [] -> "badcase"
             | d :: l3 ->
               (match l3 with
                | [] -> "badcase"
                | stale :: l4 ->
                  (match l4 with
                   | [] -> "badcase"
                   | op :: l5 ->
                     (match l5 with
                      | [] -> "badcase"
                      | rn :: l6 ->
                        (match l6 with
                         | [] -> "badcase"
                         | ka :: l7 ->
                           (match l7 with
                            | [] -> "badcase"
                            | a :: l8 ->
                              (match l8 with
                               | [] -> "badcase"
                               | kb :: l9 ->
                                 (match l9 with
                                  | [] -> "badcase"
                                  | b :: l10 ->
                                    (match l10 with
                                     | [] -> "badcase"
                                     | kc :: l11 ->
                                       (match l11 with
                                        | [] -> "badcase"
                                        | c :: rest ->
                                          run_guarded p g d stale op rn ka a
                                            kb b kc c rest))))))))))))
       p0)
     (fun _ -> "badcase")
     z0)

(** val showv : arith -> t -> string **)

let showv a v =
  (^) (a.raw_repr v) ((^) "~" (a.str v))

(** val showov : arith -> t option -> string **)

let showov a = function
| Some v -> showv a v
| None -> "-"

(** val show_pend : bool option -> string **)

let show_pend = function
| Some b -> if b then "1" else "0"
| None -> "-"

(** val show_csnap : arith -> meth -> csnap -> string **)

let show_csnap a m c =
  match c.sn_st with
  | Withdrawn -> (^) "C " ((^) (string_of_Z c.sn_cid) ((^) " withdrawn W" lf))
  | x ->
    (^) "C "
      ((^) (string_of_Z c.sn_cid)
        ((^) " "
          ((^) (state_name x)
            ((^) " "
              ((^) (code_of m x c.sn_pend)
                ((^) " "
                  ((^) (showv a c.sn_vote)
                    ((^) " kf="
                      ((^) (showov a c.sn_kf)
                        ((^) " quo="
                          ((^) (showov a c.sn_quo)
                            ((^) " p=" ((^) (show_pend c.sn_pend) lf)))))))))))))

(** val show_ballots : arith -> (nat * t) list -> string **)

let show_ballots a l =
  (^) "B"
    ((^)
      (fold_right (fun pat acc ->
        let (i, w) = pat in
        (^) " "
          ((^) (string_of_Z (Z.of_nat i)) ((^) ":" ((^) (a.raw_repr w) acc))))
        "" l) lf)

(** val show_action : arith -> meth -> action -> string **)

let show_action a m a0 =
  (^) "A "
    ((^) (tag_name a0.a_tag)
      ((^) " "
        ((^) (string_of_Z a0.a_round)
          ((^) " "
            ((^) a0.a_msg
              ((^) lf
                (match a0.a_snap with
                 | Some sn ->
                   (^) "S q="
                     ((^) (showv a sn.as_quota)
                       ((^) " v="
                         ((^) (showv a sn.as_votes)
                           ((^) " nt="
                             ((^) (showov a sn.as_nt)
                               ((^) " s="
                                 ((^) (showov a sn.as_surplus)
                                   ((^) lf
                                     ((^)
                                       (fold_right (fun c acc ->
                                         (^) (show_csnap a m c) acc) ""
                                         sn.as_c)
                                       (show_ballots a sn.as_ballots))))))))))
                 | None -> "")))))))

(** val show_cids : arith -> cand list -> string **)

let show_cids _ l =
  fold_right (fun c acc -> (^) " " ((^) (string_of_Z c.cid) acc)) "" l

(** val show_outcome : arith -> meth -> outcome -> string **)

let show_outcome a m = function
| Done (s, ok) ->
  (^) (fold_left (fun acc a0 -> (^) (show_action a m a0) acc) s.actions "")
    ((^) "R elected="
      ((^) (show_cids a (electeds a s))
        ((^) " defeated="
          ((^) (show_cids a (defeateds a s))
            ((^) " withdrawn="
              ((^) (show_cids a (withdrawns a s))
                ((^) lf (if ok then "P ok" else "X AssertionError"))))))))
| Crashed (s, e) ->
  (^) (fold_left (fun acc a0 -> (^) (show_action a m a0) acc) s.actions "")
    ((^) "X " (exn_name e))
| OutOfFuel -> "X OutOfFuel"

(** val run_case : count_case -> string **)

let run_case c =
  let r = c.cc_rule in
  let cfg = c.cc_cfg in
  let fuel = c.cc_fuel in
  let pr = c.cc_profile in
  let p = c.cc_p in
  let g = c.cc_g in
  let d = c.cc_d in
  let stale = c.cc_stale in
  if Z.eqb c.cc_ar Big_int_Z.zero_big_int
  then show_outcome (fixed p d) (meth_of r)
         (run_count (fixed p d) cfg fuel r pr)
  else if Z.eqb c.cc_ar Big_int_Z.unit_big_int
       then show_outcome (guarded p g d stale) (meth_of r)
              (run_count (guarded p g d stale) cfg fuel r pr)
       else show_outcome (rational d) (meth_of r)
              (run_count (rational d) cfg fuel r pr)

(** val run_count_case : tok list -> string **)

let run_count_case l =
  match parse_count_case l with
  | Inl e -> e
  | Inr c -> run_case c

(** val run_e2e : tok list -> string **)

let run_e2e = function
| [] -> "bade2e"
| t0 :: l0 ->
  (match t0 with
   | TI _ -> "bade2e"
   | TS rname ->
     (match l0 with
      | [] -> "bade2e"
      | t1 :: l1 ->
        (match t1 with
         | TI rl ->
           (match l1 with
            | [] -> "bade2e"
            | t2 :: l2 ->
              (match t2 with
               | TI ar ->
                 (match l2 with
                  | [] -> "bade2e"
                  | t3 :: l3 ->
                    (match t3 with
                     | TI p ->
                       (match l3 with
                        | [] -> "bade2e"
                        | t4 :: l4 ->
                          (match t4 with
                           | TI g ->
                             (match l4 with
                              | [] -> "bade2e"
                              | t5 :: l5 ->
                                (match t5 with
                                 | TI d ->
                                   (match l5 with
                                    | [] -> "bade2e"
                                    | t6 :: l6 ->
                                      (match t6 with
                                       | TI stale ->
                                         (match l6 with
                                          | [] -> "bade2e"
                                          | t7 :: l7 ->
                                            (match t7 with
                                             | TI om ->
                                               (match l7 with
                                                | [] -> "bade2e"
                                                | t8 :: l8 ->
                                                  (match t8 with
                                                   | TI iq ->
                                                     (match l8 with
                                                      | [] -> "bade2e"
                                                      | t9 :: l9 ->
                                                        (match t9 with
                                                         | TI bz ->
                                                           (match l9 with
                                                            | [] -> "bade2e"
                                                            | t10 :: l10 ->
                                                              (match t10 with
                                                               | TI bt ->
                                                                 (match l10 with
                                                                  | [] ->
                                                                    "bade2e"
                                                                  | t11 :: l11 ->
                                                                    (match t11 with
                                                                    | TI wa ->
                                                                    (match l11 with
                                                                    | [] ->
                                                                    "bade2e"
                                                                    | t12 :: l12 ->
                                                                    (match t12 with
                                                                    | TI fb ->
                                                                    (match l12 with
                                                                    | [] ->
                                                                    "bade2e"
                                                                    | t13 :: rest ->
                                                                    (match t13 with
                                                                    | TI mode ->
                                                                    (match 
                                                                    if 
                                                                    Z.eqb
                                                                    mode
                                                                    Big_int_Z.zero_big_int
                                                                    then 
                                                                    parse
                                                                    (toks_zs
                                                                    rest)
                                                                    else 
                                                                    parse_file
                                                                    (toks_zs
                                                                    rest) with
                                                                    | Ok pp ->
                                                                    let pr =
                                                                    to_count_profile
                                                                    pp
                                                                    in
                                                                    let r =
                                                                    rule_of rl
                                                                    in
                                                                    let cfg =
                                                                    { cf_rule =
                                                                    rname;
                                                                    cf_method =
                                                                    (meth_of
                                                                    r);
                                                                    cf_nseats =
                                                                    pr.pr_nseats;
                                                                    cf_nballots =
                                                                    pr.pr_nballots;
                                                                    cf_integer_quota =
                                                                    (negb
                                                                    (Z.eqb iq
                                                                    Big_int_Z.zero_big_int));
                                                                    cf_batch_zero =
                                                                    (negb
                                                                    (Z.eqb bz
                                                                    Big_int_Z.zero_big_int));
                                                                    cf_batch =
                                                                    (negb
                                                                    (Z.eqb bt
                                                                    Big_int_Z.zero_big_int));
                                                                    cf_warren =
                                                                    (negb
                                                                    (Z.eqb wa
                                                                    Big_int_Z.zero_big_int));
                                                                    cf_omega10 =
                                                                    om }
                                                                    in
                                                                    run_case
                                                                    { cc_rule =
                                                                    r;
                                                                    cc_cfg =
                                                                    cfg;
                                                                    cc_fuel =
                                                                    (Coq_Pos.pow
                                                                    (Big_int_Z.mult_int_big_int 2
                                                                    Big_int_Z.unit_big_int)
                                                                    (Z.to_pos
                                                                    fb));
                                                                    cc_profile =
                                                                    pr;
                                                                    cc_ar =
                                                                    ar;
                                                                    cc_p = p;
                                                                    cc_g = g;
                                                                    cc_d = d;
                                                                    cc_stale =
                                                                    stale }
                                                                    | Raise e ->
                                                                    (^)
                                                                    "Raise "
                                                                    (exn_name
                                                                    e))
                                                                    | TS _ ->
                                                                    "bade2e"))
                                                                    | TS _ ->
                                                                    "bade2e"))
                                                                    | TS _ ->
                                                                    "bade2e"))
                                                               | TS _ ->
                                                                 "bade2e"))
                                                         | TS _ -> "bade2e"))
                                                   | TS _ -> "bade2e"))
                                             | TS _ -> "bade2e"))
                                       | TS _ -> "bade2e"))
                                 | TS _ -> "bade2e"))
                           | TS _ -> "bade2e"))
                     | TS _ -> "bade2e"))
               | TS _ -> "bade2e"))
         | TS _ -> "bade2e")))

(** val run : tok list -> string **)

let run = function
| [] -> "badcommand"
| t0 :: rest ->
  (match t0 with
   | TI _ -> "badcommand"
   | TS s ->
     ((* If this appears, you're using String internals. Please don't *)
 (fun f0 f1 s ->
    let l = String.length s in
    if l = 0 then f0 () else f1 (String.get s 0) (String.sub s 1 (l-1)))

        (fun _ -> "badcommand")
        (fun a s0 ->
        (* If this appears, you're using Ascii internals. Please don't *)
 (fun f c ->
  let n = Char.code c in
  let h i = (n land (1 lsl i)) <> 0 in
  f (h 0) (h 1) (h 2) (h 3) (h 4) (h 5) (h 6) (h 7))
          (fun b b0 b1 b2 b3 b4 b5 b6 ->
          if b
          then if b0
               then if b1
                    then if b2
                         then if b3
                              then "badcommand"
                              else if b4
                                   then if b5
                                        then if b6
                                             then "badcommand"
                                             else ((* If this appears, you're using String internals. Please don't *)
 (fun f0 f1 s ->
    let l = String.length s in
    if l = 0 then f0 () else f1 (String.get s 0) (String.sub s 1 (l-1)))

                                                     (fun _ ->
                                                     "badcommand")
                                                     (fun a0 s1 ->
                                                     (* If this appears, you're using Ascii internals. Please don't *)
 (fun f c ->
  let n = Char.code c in
  let h i = (n land (1 lsl i)) <> 0 in
  f (h 0) (h 1) (h 2) (h 3) (h 4) (h 5) (h 6) (h 7))
                                                       (fun b7 b8 b9 b10 b11 b12 b13 b14 ->
                                                       if b7
                                                       then "badcommand"
                                                       else if b8
                                                            then "badcommand"
                                                            else if b9
                                                                 then 
                                                                   "badcommand"
                                                                 else 
                                                                   if b10
                                                                   then 
                                                                    "badcommand"
                                                                   else 
                                                                    if b11
                                                                    then 
                                                                    if b12
                                                                    then 
                                                                    if b13
                                                                    then 
                                                                    if b14
                                                                    then 
                                                                    "badcommand"
                                                                    else 
                                                                    ((* If this appears, you're using String internals. Please don't *)
 (fun f0 f1 s ->
    let l = String.length s in
    if l = 0 then f0 () else f1 (String.get s 0) (String.sub s 1 (l-1)))

                                                                    (fun _ ->
                                                                    "badcommand")
                                                                    (fun a1 s2 ->
                                                                    (* If this appears, you're using Ascii internals. Please don't *)
 (fun f c ->
  let n = Char.code c in
  let h i = (n land (1 lsl i)) <> 0 in
  f (h 0) (h 1) (h 2) (h 3) (h 4) (h 5) (h 6) (h 7))
                                                                    (fun b15 b16 b17 b18 b19 b20 b21 b22 ->
                                                                    if b15
                                                                    then 
                                                                    "badcommand"
                                                                    else 
                                                                    if b16
                                                                    then 
                                                                    "badcommand"
                                                                    else 
                                                                    if b17
                                                                    then 
                                                                    if b18
                                                                    then 
                                                                    "badcommand"
                                                                    else 
                                                                    if b19
                                                                    then 
                                                                    if b20
                                                                    then 
                                                                    if b21
                                                                    then 
                                                                    if b22
                                                                    then 
                                                                    "badcommand"
                                                                    else 
                                                                    ((* If this appears, you're using String internals. Please don't *)
 (fun f0 f1 s ->
    let l = String.length s in
    if l = 0 then f0 () else f1 (String.get s 0) (String.sub s 1 (l-1)))

                                                                    (fun _ ->
                                                                    "badcommand")
                                                                    (fun a2 s3 ->
                                                                    (* If this appears, you're using Ascii internals. Please don't *)
 (fun f c ->
  let n = Char.code c in
  let h i = (n land (1 lsl i)) <> 0 in
  f (h 0) (h 1) (h 2) (h 3) (h 4) (h 5) (h 6) (h 7))
                                                                    (fun b23 b24 b25 b26 b27 b28 b29 b30 ->
                                                                    if b23
                                                                    then 
                                                                    if b24
                                                                    then 
                                                                    "badcommand"
                                                                    else 
                                                                    if b25
                                                                    then 
                                                                    "badcommand"
                                                                    else 
                                                                    if b26
                                                                    then 
                                                                    if b27
                                                                    then 
                                                                    "badcommand"
                                                                    else 
                                                                    if b28
                                                                    then 
                                                                    if b29
                                                                    then 
                                                                    if b30
                                                                    then 
                                                                    "badcommand"
                                                                    else 
                                                                    ((* If this appears, you're using String internals. Please don't *)
 (fun f0 f1 s ->
    let l = String.length s in
    if l = 0 then f0 () else f1 (String.get s 0) (String.sub s 1 (l-1)))

                                                                    (fun _ ->
                                                                    "badcommand")
                                                                    (fun a3 s4 ->
                                                                    (* If this appears, you're using Ascii internals. Please don't *)
 (fun f c ->
  let n = Char.code c in
  let h i = (n land (1 lsl i)) <> 0 in
  f (h 0) (h 1) (h 2) (h 3) (h 4) (h 5) (h 6) (h 7))
                                                                    (fun b31 b32 b33 b34 b35 b36 b37 b38 ->
                                                                    if b31
                                                                    then 
                                                                    if b32
                                                                    then 
                                                                    if b33
                                                                    then 
                                                                    if b34
                                                                    then 
                                                                    if b35
                                                                    then 
                                                                    "badcommand"
                                                                    else 
                                                                    if b36
                                                                    then 
                                                                    if b37
                                                                    then 
                                                                    if b38
                                                                    then 
                                                                    "badcommand"
                                                                    else 
                                                                    ((* If this appears, you're using String internals. Please don't *)
 (fun f0 f1 s ->
    let l = String.length s in
    if l = 0 then f0 () else f1 (String.get s 0) (String.sub s 1 (l-1)))

                                                                    (fun _ ->
                                                                    "badcommand")
                                                                    (fun a4 s5 ->
                                                                    (* If this appears, you're using Ascii internals. Please don't *)
 (fun f c ->
  let n = Char.code c in
  let h i = (n land (1 lsl i)) <> 0 in
  f (h 0) (h 1) (h 2) (h 3) (h 4) (h 5) (h 6) (h 7))
                                                                    (fun b39 b40 b41 b42 b43 b44 b45 b46 ->
                                                                    if b39
                                                                    then 
                                                                    "badcommand"
                                                                    else 
                                                                    if b40
                                                                    then 
                                                                    if b41
                                                                    then 
                                                                    if b42
                                                                    then 
                                                                    if b43
                                                                    then 
                                                                    "badcommand"
                                                                    else 
                                                                    if b44
                                                                    then 
                                                                    if b45
                                                                    then 
                                                                    if b46
                                                                    then 
                                                                    "badcommand"
                                                                    else 
                                                                    ((* If this appears, you're using String internals. Please don't *)
 (fun f0 f1 s ->
    let l = String.length s in
    if l = 0 then f0 () else f1 (String.get s 0) (String.sub s 1 (l-1)))

                                                                    (fun _ ->
                                                                    "badcommand")
                                                                    (fun a5 s6 ->
                                                                    (* If this appears, you're using Ascii internals. Please don't *)
 (fun f c ->
  let n = Char.code c in
  let h i = (n land (1 lsl i)) <> 0 in
  f (h 0) (h 1) (h 2) (h 3) (h 4) (h 5) (h 6) (h 7))
                                                                    (fun b47 b48 b49 b50 b51 b52 b53 b54 ->
                                                                    if b47
                                                                    then 
                                                                    if b48
                                                                    then 
                                                                    if b49
                                                                    then 
                                                                    "badcommand"
                                                                    else 
                                                                    if b50
                                                                    then 
                                                                    "badcommand"
                                                                    else 
                                                                    if b51
                                                                    then 
                                                                    if b52
                                                                    then 
                                                                    if b53
                                                                    then 
                                                                    if b54
                                                                    then 
                                                                    "badcommand"
                                                                    else 
                                                                    ((* If this appears, you're using String internals. Please don't *)
 (fun f0 f1 s ->
    let l = String.length s in
    if l = 0 then f0 () else f1 (String.get s 0) (String.sub s 1 (l-1)))

                                                                    (fun _ ->
                                                                    run_options
                                                                    rest)
                                                                    (fun _ _ ->
                                                                    "badcommand")
                                                                    s6)
                                                                    else 
                                                                    "badcommand"
                                                                    else 
                                                                    "badcommand"
                                                                    else 
                                                                    "badcommand"
                                                                    else 
                                                                    "badcommand"
                                                                    else 
                                                                    "badcommand")
                                                                    a5)
                                                                    s5)
                                                                    else 
                                                                    "badcommand"
                                                                    else 
                                                                    "badcommand"
                                                                    else 
                                                                    "badcommand"
                                                                    else 
                                                                    "badcommand"
                                                                    else 
                                                                    "badcommand")
                                                                    a4)
                                                                    s4)
                                                                    else 
                                                                    "badcommand"
                                                                    else 
                                                                    "badcommand"
                                                                    else 
                                                                    "badcommand"
                                                                    else 
                                                                    "badcommand"
                                                                    else 
                                                                    "badcommand"
                                                                    else 
                                                                    "badcommand")
                                                                    a3)
                                                                    s3)
                                                                    else 
                                                                    "badcommand"
                                                                    else 
                                                                    "badcommand"
                                                                    else 
                                                                    "badcommand"
                                                                    else 
                                                                    "badcommand")
                                                                    a2)
                                                                    s2)
                                                                    else 
                                                                    "badcommand"
                                                                    else 
                                                                    "badcommand"
                                                                    else 
                                                                    "badcommand"
                                                                    else 
                                                                    "badcommand")
                                                                    a1)
                                                                    s1)
                                                                    else 
                                                                    "badcommand"
                                                                    else 
                                                                    "badcommand"
                                                                    else 
                                                                    "badcommand")
                                                       a0)
                                                     s0)
                                        else "badcommand"
                                   else "badcommand"
                         else "badcommand"
                    else if b2
                         then "badcommand"
                         else if b3
                              then "badcommand"
                              else if b4
                                   then if b5
                                        then if b6
                                             then "badcommand"
                                             else ((* If this appears, you're using String internals. Please don't *)
 (fun f0 f1 s ->
    let l = String.length s in
    if l = 0 then f0 () else f1 (String.get s 0) (String.sub s 1 (l-1)))

                                                     (fun _ ->
                                                     "badcommand")
                                                     (fun a0 s1 ->
                                                     (* If this appears, you're using Ascii internals. Please don't *)
 (fun f c ->
  let n = Char.code c in
  let h i = (n land (1 lsl i)) <> 0 in
  f (h 0) (h 1) (h 2) (h 3) (h 4) (h 5) (h 6) (h 7))
                                                       (fun b7 b8 b9 b10 b11 b12 b13 b14 ->
                                                       if b7
                                                       then if b8
                                                            then if b9
                                                                 then 
                                                                   if b10
                                                                   then 
                                                                    if b11
                                                                    then 
                                                                    "badcommand"
                                                                    else 
                                                                    if b12
                                                                    then 
                                                                    if b13
                                                                    then 
                                                                    if b14
                                                                    then 
                                                                    "badcommand"
                                                                    else 
                                                                    ((* If this appears, you're using String internals. Please don't *)
 (fun f0 f1 s ->
    let l = String.length s in
    if l = 0 then f0 () else f1 (String.get s 0) (String.sub s 1 (l-1)))

                                                                    (fun _ ->
                                                                    "badcommand")
                                                                    (fun a1 s2 ->
                                                                    (* If this appears, you're using Ascii internals. Please don't *)
 (fun f c ->
  let n = Char.code c in
  let h i = (n land (1 lsl i)) <> 0 in
  f (h 0) (h 1) (h 2) (h 3) (h 4) (h 5) (h 6) (h 7))
                                                                    (fun b15 b16 b17 b18 b19 b20 b21 b22 ->
                                                                    if b15
                                                                    then 
                                                                    if b16
                                                                    then 
                                                                    "badcommand"
                                                                    else 
                                                                    if b17
                                                                    then 
                                                                    if b18
                                                                    then 
                                                                    "badcommand"
                                                                    else 
                                                                    if b19
                                                                    then 
                                                                    if b20
                                                                    then 
                                                                    if b21
                                                                    then 
                                                                    if b22
                                                                    then 
                                                                    "badcommand"
                                                                    else 
                                                                    ((* If this appears, you're using String internals. Please don't *)
 (fun f0 f1 s ->
    let l = String.length s in
    if l = 0 then f0 () else f1 (String.get s 0) (String.sub s 1 (l-1)))

                                                                    (fun _ ->
                                                                    "badcommand")
                                                                    (fun a2 s3 ->
                                                                    (* If this appears, you're using Ascii internals. Please don't *)
 (fun f c ->
  let n = Char.code c in
  let h i = (n land (1 lsl i)) <> 0 in
  f (h 0) (h 1) (h 2) (h 3) (h 4) (h 5) (h 6) (h 7))
                                                                    (fun b23 b24 b25 b26 b27 b28 b29 b30 ->
                                                                    if b23
                                                                    then 
                                                                    "badcommand"
                                                                    else 
                                                                    if b24
                                                                    then 
                                                                    if b25
                                                                    then 
                                                                    if b26
                                                                    then 
                                                                    if b27
                                                                    then 
                                                                    "badcommand"
                                                                    else 
                                                                    if b28
                                                                    then 
                                                                    if b29
                                                                    then 
                                                                    if b30
                                                                    then 
                                                                    "badcommand"
                                                                    else 
                                                                    ((* If this appears, you're using String internals. Please don't *)
 (fun f0 f1 s ->
    let l = String.length s in
    if l = 0 then f0 () else f1 (String.get s 0) (String.sub s 1 (l-1)))

                                                                    (fun _ ->
                                                                    "badcommand")
                                                                    (fun a3 s4 ->
                                                                    (* If this appears, you're using Ascii internals. Please don't *)
 (fun f c ->
  let n = Char.code c in
  let h i = (n land (1 lsl i)) <> 0 in
  f (h 0) (h 1) (h 2) (h 3) (h 4) (h 5) (h 6) (h 7))
                                                                    (fun b31 b32 b33 b34 b35 b36 b37 b38 ->
                                                                    if b31
                                                                    then 
                                                                    "badcommand"
                                                                    else 
                                                                    if b32
                                                                    then 
                                                                    "badcommand"
                                                                    else 
                                                                    if b33
                                                                    then 
                                                                    if b34
                                                                    then 
                                                                    "badcommand"
                                                                    else 
                                                                    if b35
                                                                    then 
                                                                    if b36
                                                                    then 
                                                                    if b37
                                                                    then 
                                                                    if b38
                                                                    then 
                                                                    "badcommand"
                                                                    else 
                                                                    ((* If this appears, you're using String internals. Please don't *)
 (fun f0 f1 s ->
    let l = String.length s in
    if l = 0 then f0 () else f1 (String.get s 0) (String.sub s 1 (l-1)))

                                                                    (fun _ ->
                                                                    run_count_case
                                                                    rest)
                                                                    (fun _ _ ->
                                                                    "badcommand")
                                                                    s4)
                                                                    else 
                                                                    "badcommand"
                                                                    else 
                                                                    "badcommand"
                                                                    else 
                                                                    "badcommand"
                                                                    else 
                                                                    "badcommand")
                                                                    a3)
                                                                    s3)
                                                                    else 
                                                                    "badcommand"
                                                                    else 
                                                                    "badcommand"
                                                                    else 
                                                                    "badcommand"
                                                                    else 
                                                                    "badcommand"
                                                                    else 
                                                                    "badcommand")
                                                                    a2)
                                                                    s2)
                                                                    else 
                                                                    "badcommand"
                                                                    else 
                                                                    "badcommand"
                                                                    else 
                                                                    "badcommand"
                                                                    else 
                                                                    "badcommand"
                                                                    else 
                                                                    "badcommand")
                                                                    a1)
                                                                    s1)
                                                                    else 
                                                                    "badcommand"
                                                                    else 
                                                                    "badcommand"
                                                                   else 
                                                                    "badcommand"
                                                                 else 
                                                                   "badcommand"
                                                            else "badcommand"
                                                       else "badcommand")
                                                       a0)
                                                     s0)
                                        else "badcommand"
                                   else "badcommand"
               else if b1
                    then if b2
                         then "badcommand"
                         else if b3
                              then "badcommand"
                              else if b4
                                   then if b5
                                        then if b6
                                             then "badcommand"
                                             else ((* If this appears, you're using String internals. Please don't *)
 (fun f0 f1 s ->
    let l = String.length s in
    if l = 0 then f0 () else f1 (String.get s 0) (String.sub s 1 (l-1)))

                                                     (fun _ ->
                                                     "badcommand")
                                                     (fun a0 s1 ->
                                                     (* If this appears, you're using Ascii internals. Please don't *)
 (fun f c ->
  let n = Char.code c in
  let h i = (n land (1 lsl i)) <> 0 in
  f (h 0) (h 1) (h 2) (h 3) (h 4) (h 5) (h 6) (h 7))
                                                       (fun b7 b8 b9 b10 b11 b12 b13 b14 ->
                                                       if b7
                                                       then "badcommand"
                                                       else if b8
                                                            then if b9
                                                                 then 
                                                                   "badcommand"
                                                                 else 
                                                                   if b10
                                                                   then 
                                                                    "badcommand"
                                                                   else 
                                                                    if b11
                                                                    then 
                                                                    if b12
                                                                    then 
                                                                    if b13
                                                                    then 
                                                                    "badcommand"
                                                                    else 
                                                                    if b14
                                                                    then 
                                                                    "badcommand"
                                                                    else 
                                                                    ((* If this appears, you're using String internals. Please don't *)
 (fun f0 f1 s ->
    let l = String.length s in
    if l = 0 then f0 () else f1 (String.get s 0) (String.sub s 1 (l-1)))

                                                                    (fun _ ->
                                                                    "badcommand")
                                                                    (fun a1 s2 ->
                                                                    (* If this appears, you're using Ascii internals. Please don't *)
 (fun f c ->
  let n = Char.code c in
  let h i = (n land (1 lsl i)) <> 0 in
  f (h 0) (h 1) (h 2) (h 3) (h 4) (h 5) (h 6) (h 7))
                                                                    (fun b15 b16 b17 b18 b19 b20 b21 b22 ->
                                                                    if b15
                                                                    then 
                                                                    if b16
                                                                    then 
                                                                    "badcommand"
                                                                    else 
                                                                    if b17
                                                                    then 
                                                                    if b18
                                                                    then 
                                                                    "badcommand"
                                                                    else 
                                                                    if b19
                                                                    then 
                                                                    "badcommand"
                                                                    else 
                                                                    if b20
                                                                    then 
                                                                    if b21
                                                                    then 
                                                                    if b22
                                                                    then 
                                                                    "badcommand"
                                                                    else 
                                                                    ((* If this appears, you're using String internals. Please don't *)
 (fun f0 f1 s ->
    let l = String.length s in
    if l = 0 then f0 () else f1 (String.get s 0) (String.sub s 1 (l-1)))

                                                                    (fun _ ->
                                                                    run_e2e
                                                                    rest)
                                                                    (fun _ _ ->
                                                                    "badcommand")
                                                                    s2)
                                                                    else 
                                                                    "badcommand"
                                                                    else 
                                                                    "badcommand"
                                                                    else 
                                                                    "badcommand"
                                                                    else 
                                                                    "badcommand")
                                                                    a1)
                                                                    s1)
                                                                    else 
                                                                    "badcommand"
                                                                    else 
                                                                    "badcommand"
                                                            else "badcommand")
                                                       a0)
                                                     s0)
                                        else "badcommand"
                                   else "badcommand"
                    else "badcommand"
          else if b0
               then if b1
                    then if b2
                         then "badcommand"
                         else if b3
                              then if b4
                                   then if b5
                                        then if b6
                                             then "badcommand"
                                             else ((* If this appears, you're using String internals. Please don't *)
 (fun f0 f1 s ->
    let l = String.length s in
    if l = 0 then f0 () else f1 (String.get s 0) (String.sub s 1 (l-1)))

                                                     (fun _ ->
                                                     "badcommand")
                                                     (fun a0 s1 ->
                                                     (* If this appears, you're using Ascii internals. Please don't *)
 (fun f c ->
  let n = Char.code c in
  let h i = (n land (1 lsl i)) <> 0 in
  f (h 0) (h 1) (h 2) (h 3) (h 4) (h 5) (h 6) (h 7))
                                                       (fun b7 b8 b9 b10 b11 b12 b13 b14 ->
                                                       if b7
                                                       then if b8
                                                            then "badcommand"
                                                            else if b9
                                                                 then 
                                                                   "badcommand"
                                                                 else 
                                                                   if b10
                                                                   then 
                                                                    "badcommand"
                                                                   else 
                                                                    if b11
                                                                    then 
                                                                    "badcommand"
                                                                    else 
                                                                    if b12
                                                                    then 
                                                                    if b13
                                                                    then 
                                                                    if b14
                                                                    then 
                                                                    "badcommand"
                                                                    else 
                                                                    ((* If this appears, you're using String internals. Please don't *)
 (fun f0 f1 s ->
    let l = String.length s in
    if l = 0 then f0 () else f1 (String.get s 0) (String.sub s 1 (l-1)))

                                                                    (fun _ ->
                                                                    "badcommand")
                                                                    (fun a1 s2 ->
                                                                    (* If this appears, you're using Ascii internals. Please don't *)
 (fun f c ->
  let n = Char.code c in
  let h i = (n land (1 lsl i)) <> 0 in
  f (h 0) (h 1) (h 2) (h 3) (h 4) (h 5) (h 6) (h 7))
                                                                    (fun b15 b16 b17 b18 b19 b20 b21 b22 ->
                                                                    if b15
                                                                    then 
                                                                    "badcommand"
                                                                    else 
                                                                    if b16
                                                                    then 
                                                                    "badcommand"
                                                                    else 
                                                                    if b17
                                                                    then 
                                                                    if b18
                                                                    then 
                                                                    if b19
                                                                    then 
                                                                    "badcommand"
                                                                    else 
                                                                    if b20
                                                                    then 
                                                                    if b21
                                                                    then 
                                                                    if b22
                                                                    then 
                                                                    "badcommand"
                                                                    else 
                                                                    ((* If this appears, you're using String internals. Please don't *)
 (fun f0 f1 s ->
    let l = String.length s in
    if l = 0 then f0 () else f1 (String.get s 0) (String.sub s 1 (l-1)))

                                                                    (fun _ ->
                                                                    "badcommand")
                                                                    (fun a2 s3 ->
                                                                    (* If this appears, you're using Ascii internals. Please don't *)
 (fun f c ->
  let n = Char.code c in
  let h i = (n land (1 lsl i)) <> 0 in
  f (h 0) (h 1) (h 2) (h 3) (h 4) (h 5) (h 6) (h 7))
                                                                    (fun b23 b24 b25 b26 b27 b28 b29 b30 ->
                                                                    if b23
                                                                    then 
                                                                    if b24
                                                                    then 
                                                                    "badcommand"
                                                                    else 
                                                                    if b25
                                                                    then 
                                                                    if b26
                                                                    then 
                                                                    "badcommand"
                                                                    else 
                                                                    if b27
                                                                    then 
                                                                    if b28
                                                                    then 
                                                                    if b29
                                                                    then 
                                                                    if b30
                                                                    then 
                                                                    "badcommand"
                                                                    else 
                                                                    ((* If this appears, you're using String internals. Please don't *)
 (fun f0 f1 s ->
    let l = String.length s in
    if l = 0 then f0 () else f1 (String.get s 0) (String.sub s 1 (l-1)))

                                                                    (fun _ ->
                                                                    "badcommand")
                                                                    (fun a3 s4 ->
                                                                    (* If this appears, you're using Ascii internals. Please don't *)
 (fun f c ->
  let n = Char.code c in
  let h i = (n land (1 lsl i)) <> 0 in
  f (h 0) (h 1) (h 2) (h 3) (h 4) (h 5) (h 6) (h 7))
                                                                    (fun b31 b32 b33 b34 b35 b36 b37 b38 ->
                                                                    if b31
                                                                    then 
                                                                    if b32
                                                                    then 
                                                                    "badcommand"
                                                                    else 
                                                                    if b33
                                                                    then 
                                                                    if b34
                                                                    then 
                                                                    "badcommand"
                                                                    else 
                                                                    if b35
                                                                    then 
                                                                    "badcommand"
                                                                    else 
                                                                    if b36
                                                                    then 
                                                                    if b37
                                                                    then 
                                                                    if b38
                                                                    then 
                                                                    "badcommand"
                                                                    else 
                                                                    ((* If this appears, you're using String internals. Please don't *)
 (fun f0 f1 s ->
    let l = String.length s in
    if l = 0 then f0 () else f1 (String.get s 0) (String.sub s 1 (l-1)))

                                                                    (fun _ ->
                                                                    "badcommand")
                                                                    (fun a4 s5 ->
                                                                    (* If this appears, you're using Ascii internals. Please don't *)
 (fun f c ->
  let n = Char.code c in
  let h i = (n land (1 lsl i)) <> 0 in
  f (h 0) (h 1) (h 2) (h 3) (h 4) (h 5) (h 6) (h 7))
                                                                    (fun b39 b40 b41 b42 b43 b44 b45 b46 ->
                                                                    if b39
                                                                    then 
                                                                    if b40
                                                                    then 
                                                                    if b41
                                                                    then 
                                                                    "badcommand"
                                                                    else 
                                                                    if b42
                                                                    then 
                                                                    "badcommand"
                                                                    else 
                                                                    if b43
                                                                    then 
                                                                    if b44
                                                                    then 
                                                                    if b45
                                                                    then 
                                                                    if b46
                                                                    then 
                                                                    "badcommand"
                                                                    else 
                                                                    ((* If this appears, you're using String internals. Please don't *)
 (fun f0 f1 s ->
    let l = String.length s in
    if l = 0 then f0 () else f1 (String.get s 0) (String.sub s 1 (l-1)))

                                                                    (fun _ ->
                                                                    run_values
                                                                    (toks_ints
                                                                    rest))
                                                                    (fun _ _ ->
                                                                    "badcommand")
                                                                    s5)
                                                                    else 
                                                                    "badcommand"
                                                                    else 
                                                                    "badcommand"
                                                                    else 
                                                                    "badcommand"
                                                                    else 
                                                                    "badcommand"
                                                                    else 
                                                                    "badcommand")
                                                                    a4)
                                                                    s4)
                                                                    else 
                                                                    "badcommand"
                                                                    else 
                                                                    "badcommand"
                                                                    else 
                                                                    "badcommand"
                                                                    else 
                                                                    "badcommand")
                                                                    a3)
                                                                    s3)
                                                                    else 
                                                                    "badcommand"
                                                                    else 
                                                                    "badcommand"
                                                                    else 
                                                                    "badcommand"
                                                                    else 
                                                                    "badcommand"
                                                                    else 
                                                                    "badcommand")
                                                                    a2)
                                                                    s2)
                                                                    else 
                                                                    "badcommand"
                                                                    else 
                                                                    "badcommand"
                                                                    else 
                                                                    "badcommand"
                                                                    else 
                                                                    "badcommand")
                                                                    a1)
                                                                    s1)
                                                                    else 
                                                                    "badcommand"
                                                                    else 
                                                                    "badcommand"
                                                       else "badcommand")
                                                       a0)
                                                     s0)
                                        else "badcommand"
                                   else "badcommand"
                              else "badcommand"
                    else if b2
                         then "badcommand"
                         else if b3
                              then if b4
                                   then if b5
                                        then if b6
                                             then "badcommand"
                                             else ((* If this appears, you're using String internals. Please don't *)
 (fun f0 f1 s ->
    let l = String.length s in
    if l = 0 then f0 () else f1 (String.get s 0) (String.sub s 1 (l-1)))

                                                     (fun _ ->
                                                     "badcommand")
                                                     (fun a0 s1 ->
                                                     (* If this appears, you're using Ascii internals. Please don't *)
 (fun f c ->
  let n = Char.code c in
  let h i = (n land (1 lsl i)) <> 0 in
  f (h 0) (h 1) (h 2) (h 3) (h 4) (h 5) (h 6) (h 7))
                                                       (fun b7 b8 b9 b10 b11 b12 b13 b14 ->
                                                       if b7
                                                       then if b8
                                                            then "badcommand"
                                                            else if b9
                                                                 then 
                                                                   if b10
                                                                   then 
                                                                    "badcommand"
                                                                   else 
                                                                    if b11
                                                                    then 
                                                                    "badcommand"
                                                                    else 
                                                                    if b12
                                                                    then 
                                                                    if b13
                                                                    then 
                                                                    if b14
                                                                    then 
                                                                    "badcommand"
                                                                    else 
                                                                    ((* If this appears, you're using String internals. Please don't *)
 (fun f0 f1 s ->
    let l = String.length s in
    if l = 0 then f0 () else f1 (String.get s 0) (String.sub s 1 (l-1)))

                                                                    (fun _ ->
                                                                    "badcommand")
                                                                    (fun a1 s2 ->
                                                                    (* If this appears, you're using Ascii internals. Please don't *)
 (fun f c ->
  let n = Char.code c in
  let h i = (n land (1 lsl i)) <> 0 in
  f (h 0) (h 1) (h 2) (h 3) (h 4) (h 5) (h 6) (h 7))
                                                                    (fun b15 b16 b17 b18 b19 b20 b21 b22 ->
                                                                    if b15
                                                                    then 
                                                                    "badcommand"
                                                                    else 
                                                                    if b16
                                                                    then 
                                                                    if b17
                                                                    then 
                                                                    if b18
                                                                    then 
                                                                    if b19
                                                                    then 
                                                                    "badcommand"
                                                                    else 
                                                                    if b20
                                                                    then 
                                                                    if b21
                                                                    then 
                                                                    if b22
                                                                    then 
                                                                    "badcommand"
                                                                    else 
                                                                    ((* If this appears, you're using String internals. Please don't *)
 (fun f0 f1 s ->
    let l = String.length s in
    if l = 0 then f0 () else f1 (String.get s 0) (String.sub s 1 (l-1)))

                                                                    (fun _ ->
                                                                    "badcommand")
                                                                    (fun a2 s3 ->
                                                                    (* If this appears, you're using Ascii internals. Please don't *)
 (fun f c ->
  let n = Char.code c in
  let h i = (n land (1 lsl i)) <> 0 in
  f (h 0) (h 1) (h 2) (h 3) (h 4) (h 5) (h 6) (h 7))
                                                                    (fun b23 b24 b25 b26 b27 b28 b29 b30 ->
                                                                    if b23
                                                                    then 
                                                                    "badcommand"
                                                                    else 
                                                                    if b24
                                                                    then 
                                                                    "badcommand"
                                                                    else 
                                                                    if b25
                                                                    then 
                                                                    if b26
                                                                    then 
                                                                    "badcommand"
                                                                    else 
                                                                    if b27
                                                                    then 
                                                                    "badcommand"
                                                                    else 
                                                                    if b28
                                                                    then 
                                                                    if b29
                                                                    then 
                                                                    if b30
                                                                    then 
                                                                    "badcommand"
                                                                    else 
                                                                    ((* If this appears, you're using String internals. Please don't *)
 (fun f0 f1 s ->
    let l = String.length s in
    if l = 0 then f0 () else f1 (String.get s 0) (String.sub s 1 (l-1)))

                                                                    (fun _ ->
                                                                    "badcommand")
                                                                    (fun a3 s4 ->
                                                                    (* If this appears, you're using Ascii internals. Please don't *)
 (fun f c ->
  let n = Char.code c in
  let h i = (n land (1 lsl i)) <> 0 in
  f (h 0) (h 1) (h 2) (h 3) (h 4) (h 5) (h 6) (h 7))
                                                                    (fun b31 b32 b33 b34 b35 b36 b37 b38 ->
                                                                    if b31
                                                                    then 
                                                                    if b32
                                                                    then 
                                                                    "badcommand"
                                                                    else 
                                                                    if b33
                                                                    then 
                                                                    if b34
                                                                    then 
                                                                    "badcommand"
                                                                    else 
                                                                    if b35
                                                                    then 
                                                                    "badcommand"
                                                                    else 
                                                                    if b36
                                                                    then 
                                                                    if b37
                                                                    then 
                                                                    if b38
                                                                    then 
                                                                    "badcommand"
                                                                    else 
                                                                    ((* If this appears, you're using String internals. Please don't *)
 (fun f0 f1 s ->
    let l = String.length s in
    if l = 0 then f0 () else f1 (String.get s 0) (String.sub s 1 (l-1)))

                                                                    (fun _ ->
                                                                    "badcommand")
                                                                    (fun a4 s5 ->
                                                                    (* If this appears, you're using Ascii internals. Please don't *)
 (fun f c ->
  let n = Char.code c in
  let h i = (n land (1 lsl i)) <> 0 in
  f (h 0) (h 1) (h 2) (h 3) (h 4) (h 5) (h 6) (h 7))
                                                                    (fun b39 b40 b41 b42 b43 b44 b45 b46 ->
                                                                    if b39
                                                                    then 
                                                                    "badcommand"
                                                                    else 
                                                                    if b40
                                                                    then 
                                                                    if b41
                                                                    then 
                                                                    "badcommand"
                                                                    else 
                                                                    if b42
                                                                    then 
                                                                    "badcommand"
                                                                    else 
                                                                    if b43
                                                                    then 
                                                                    if b44
                                                                    then 
                                                                    if b45
                                                                    then 
                                                                    if b46
                                                                    then 
                                                                    "badcommand"
                                                                    else 
                                                                    ((* If this appears, you're using String internals. Please don't *)
 (fun f0 f1 s ->
    let l = String.length s in
    if l = 0 then f0 () else f1 (String.get s 0) (String.sub s 1 (l-1)))

                                                                    (fun _ ->
                                                                    run_render
                                                                    rest)
                                                                    (fun _ _ ->
                                                                    "badcommand")
                                                                    s5)
                                                                    else 
                                                                    "badcommand"
                                                                    else 
                                                                    "badcommand"
                                                                    else 
                                                                    "badcommand"
                                                                    else 
                                                                    "badcommand")
                                                                    a4)
                                                                    s4)
                                                                    else 
                                                                    "badcommand"
                                                                    else 
                                                                    "badcommand"
                                                                    else 
                                                                    "badcommand"
                                                                    else 
                                                                    "badcommand")
                                                                    a3)
                                                                    s3)
                                                                    else 
                                                                    "badcommand"
                                                                    else 
                                                                    "badcommand"
                                                                    else 
                                                                    "badcommand")
                                                                    a2)
                                                                    s2)
                                                                    else 
                                                                    "badcommand"
                                                                    else 
                                                                    "badcommand"
                                                                    else 
                                                                    "badcommand"
                                                                    else 
                                                                    "badcommand"
                                                                    else 
                                                                    "badcommand")
                                                                    a1)
                                                                    s1)
                                                                    else 
                                                                    "badcommand"
                                                                    else 
                                                                    "badcommand"
                                                                 else 
                                                                   "badcommand"
                                                       else "badcommand")
                                                       a0)
                                                     s0)
                                        else "badcommand"
                                   else "badcommand"
                              else "badcommand"
               else if b1
                    then "badcommand"
                    else if b2
                         then "badcommand"
                         else if b3
                              then if b4
                                   then if b5
                                        then if b6
                                             then "badcommand"
                                             else ((* If this appears, you're using String internals. Please don't *)
 (fun f0 f1 s ->
    let l = String.length s in
    if l = 0 then f0 () else f1 (String.get s 0) (String.sub s 1 (l-1)))

                                                     (fun _ ->
                                                     "badcommand")
                                                     (fun a0 s1 ->
                                                     (* If this appears, you're using Ascii internals. Please don't *)
 (fun f c ->
  let n = Char.code c in
  let h i = (n land (1 lsl i)) <> 0 in
  f (h 0) (h 1) (h 2) (h 3) (h 4) (h 5) (h 6) (h 7))
                                                       (fun b7 b8 b9 b10 b11 b12 b13 b14 ->
                                                       if b7
                                                       then if b8
                                                            then "badcommand"
                                                            else if b9
                                                                 then 
                                                                   "badcommand"
                                                                 else 
                                                                   if b10
                                                                   then 
                                                                    "badcommand"
                                                                   else 
                                                                    if b11
                                                                    then 
                                                                    "badcommand"
                                                                    else 
                                                                    if b12
                                                                    then 
                                                                    if b13
                                                                    then 
                                                                    if b14
                                                                    then 
                                                                    "badcommand"
                                                                    else 
                                                                    ((* If this appears, you're using String internals. Please don't *)
 (fun f0 f1 s ->
    let l = String.length s in
    if l = 0 then f0 () else f1 (String.get s 0) (String.sub s 1 (l-1)))

                                                                    (fun _ ->
                                                                    "badcommand")
                                                                    (fun a1 s2 ->
                                                                    (* If this appears, you're using Ascii internals. Please don't *)
 (fun f c ->
  let n = Char.code c in
  let h i = (n land (1 lsl i)) <> 0 in
  f (h 0) (h 1) (h 2) (h 3) (h 4) (h 5) (h 6) (h 7))
                                                                    (fun b15 b16 b17 b18 b19 b20 b21 b22 ->
                                                                    if b15
                                                                    then 
                                                                    "badcommand"
                                                                    else 
                                                                    if b16
                                                                    then 
                                                                    if b17
                                                                    then 
                                                                    "badcommand"
                                                                    else 
                                                                    if b18
                                                                    then 
                                                                    "badcommand"
                                                                    else 
                                                                    if b19
                                                                    then 
                                                                    if b20
                                                                    then 
                                                                    if b21
                                                                    then 
                                                                    if b22
                                                                    then 
                                                                    "badcommand"
                                                                    else 
                                                                    ((* If this appears, you're using String internals. Please don't *)
 (fun f0 f1 s ->
    let l = String.length s in
    if l = 0 then f0 () else f1 (String.get s 0) (String.sub s 1 (l-1)))

                                                                    (fun _ ->
                                                                    "badcommand")
                                                                    (fun a2 s3 ->
                                                                    (* If this appears, you're using Ascii internals. Please don't *)
 (fun f c ->
  let n = Char.code c in
  let h i = (n land (1 lsl i)) <> 0 in
  f (h 0) (h 1) (h 2) (h 3) (h 4) (h 5) (h 6) (h 7))
                                                                    (fun b23 b24 b25 b26 b27 b28 b29 b30 ->
                                                                    if b23
                                                                    then 
                                                                    if b24
                                                                    then 
                                                                    if b25
                                                                    then 
                                                                    "badcommand"
                                                                    else 
                                                                    if b26
                                                                    then 
                                                                    "badcommand"
                                                                    else 
                                                                    if b27
                                                                    then 
                                                                    if b28
                                                                    then 
                                                                    if b29
                                                                    then 
                                                                    if b30
                                                                    then 
                                                                    "badcommand"
                                                                    else 
                                                                    ((* If this appears, you're using String internals. Please don't *)
 (fun f0 f1 s ->
    let l = String.length s in
    if l = 0 then f0 () else f1 (String.get s 0) (String.sub s 1 (l-1)))

                                                                    (fun _ ->
                                                                    "badcommand")
                                                                    (fun a3 s4 ->
                                                                    (* If this appears, you're using Ascii internals. Please don't *)
 (fun f c ->
  let n = Char.code c in
  let h i = (n land (1 lsl i)) <> 0 in
  f (h 0) (h 1) (h 2) (h 3) (h 4) (h 5) (h 6) (h 7))
                                                                    (fun b31 b32 b33 b34 b35 b36 b37 b38 ->
                                                                    if b31
                                                                    then 
                                                                    if b32
                                                                    then 
                                                                    "badcommand"
                                                                    else 
                                                                    if b33
                                                                    then 
                                                                    if b34
                                                                    then 
                                                                    "badcommand"
                                                                    else 
                                                                    if b35
                                                                    then 
                                                                    "badcommand"
                                                                    else 
                                                                    if b36
                                                                    then 
                                                                    if b37
                                                                    then 
                                                                    if b38
                                                                    then 
                                                                    "badcommand"
                                                                    else 
                                                                    ((* If this appears, you're using String internals. Please don't *)
 (fun f0 f1 s ->
    let l = String.length s in
    if l = 0 then f0 () else f1 (String.get s 0) (String.sub s 1 (l-1)))

                                                                    (fun _ ->
                                                                    run_parse
                                                                    rest)
                                                                    (fun _ _ ->
                                                                    "badcommand")
                                                                    s4)
                                                                    else 
                                                                    "badcommand"
                                                                    else 
                                                                    "badcommand"
                                                                    else 
                                                                    "badcommand"
                                                                    else 
                                                                    "badcommand")
                                                                    a3)
                                                                    s3)
                                                                    else 
                                                                    "badcommand"
                                                                    else 
                                                                    "badcommand"
                                                                    else 
                                                                    "badcommand"
                                                                    else 
                                                                    "badcommand"
                                                                    else 
                                                                    "badcommand")
                                                                    a2)
                                                                    s2)
                                                                    else 
                                                                    "badcommand"
                                                                    else 
                                                                    "badcommand"
                                                                    else 
                                                                    "badcommand"
                                                                    else 
                                                                    "badcommand")
                                                                    a1)
                                                                    s1)
                                                                    else 
                                                                    "badcommand"
                                                                    else 
                                                                    "badcommand"
                                                       else "badcommand")
                                                       a0)
                                                     s0)
                                        else "badcommand"
                                   else "badcommand"
                              else "badcommand")
          a)
        s))
