let of_string s = Big_int_Z.big_int_of_string s
