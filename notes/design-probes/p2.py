import sys, traceback, json
sys.path.insert(0,'/repo')
from droop.profile import ElectionProfile, ElectionProfileError
from droop.election import Election
# C18: mpls double defeat log
blt='''4 1
[undeclared 4]
5 1 0
4 2 0
3 3 0
1 4 0
0
"A" "B" "C" "W"
"t"
'''
p=ElectionProfile(data=blt); E=Election(p, dict(rule='mpls')); E.count()
for a in E.record()['actions']:
    if a['tag']!='log': print(a['round'], a['tag'], a['msg'])
# C19: interrupt before begin
blt2='3 1\n3 1 2 0\n2 2 0\n1 3 0\n0\n"A" "B" "C"\n"t"\n'
for rule in ['wigm','mpls','meek','qpq']:
    p=ElectionProfile(data=blt2); E=Election(p, dict(rule=rule))
    # simulate interrupt before anything: don't call count
    for f in ('report','dump','json'):
        try:
            getattr(E,f)(True); print(rule,f,'ok')
        except BaseException as e:
            print(rule, f, 'CRASH', type(e).__name__, e)
# wd dup rank
p=ElectionProfile(data='3 1\n-2\n1 2=2 0\n2 3 0\n1 1 0\n0\n"A" "B" "C"\n"t"\n')
print([ (b.multiplier, list(b.ranking)) for b in p.ballotLines], p.ballotLinesEqual, p.nBallots)
E=Election(p, dict(rule='wigm')); E.count()
print(E.record()['actions'][-1]['cstate'])
