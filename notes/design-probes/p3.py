import sys, random, itertools, collections
sys.path.insert(0,'/repo')
from droop.profile import ElectionProfile, ElectionProfileError
from droop.election import Election
from fractions import Fraction
import signal
class TO(Exception): pass
def h(*a): raise TO()
signal.signal(signal.SIGALRM, h)

def gen(rng, maxc=6, maxb=8, maxm=4, und=False, wd=True):
    n = rng.randint(2, maxc)
    wds = [c for c in range(1,n+1) if wd and rng.random()<0.12]
    elig = [c for c in range(1,n+1) if c not in wds]
    if not elig: wds=[]; elig=list(range(1,n+1))
    s = rng.randint(1, len(elig))
    lines=[]
    nb=0
    k = rng.randint(1,maxb)
    for _ in range(k):
        m = rng.choice([1,1,1,2,3,rng.randint(1,maxm*5)])
        r = rng.sample(range(1,n+1), rng.randint(1,n))
        lines.append((m,r))
    # ensure enough ballots
    tot = sum(m for m,r in lines if any(c not in wds for c in r))
    if tot < len(elig):
        lines.append((len(elig)-tot+rng.randint(0,2), [rng.choice(elig)]))
    opts=''
    if wds: opts += ''.join('-%d '%c for c in wds)+'\n'
    undl=[]
    if und:
        undl=[c for c in elig if rng.random()<0.25]
        if undl: opts += '[undeclared %s]\n' % ' '.join(map(str,undl))
    tie = list(range(1,n+1)); rng.shuffle(tie)
    opts += '[tie %s]\n' % ' '.join(map(str,tie))
    blt = '%d %d\n%s' % (n,s,opts) + ''.join('%d %s 0\n'%(m,' '.join(map(str,r))) for m,r in lines) + '0\n' + ' '.join('"c%d"'%i for i in range(1,n+1)) + '\n"t"\n'
    return blt, n, s, wds, undl

def configs(rng):
    r = rng.choice(['wigm','wigm','meek','warren','meek-prf','wigm-prf','wigm-prf-batch','cfer','cfer-batch','scotland','mpls','qpq'])
    o = dict(rule=r)
    if r in ('wigm','meek','warren'):
        a = rng.choice(['fixed','guarded','integer','rational'] if r=='wigm' else ['fixed','guarded','fixed','guarded','rational'])
        o['arithmetic']=a
        if a in ('fixed','guarded'):
            o['precision']=rng.choice([1,2,3,4,6,9])
            if a=='guarded': o['guard']=rng.choice([0,1,2,3,o['precision']])
        if r=='wigm':
            if rng.random()<0.3: o['integer_quota']=True
            if rng.random()<0.3: o['defeat_batch']='zero'
        else:
            if rng.random()<0.5: o['omega']=rng.choice([1,2,3,5,8])
            if rng.random()<0.3: o['defeat_batch']='none'
    return o

def check(E, n, s, wds, undl, o):
    out=[]
    V=E.V
    rec=E.record()
    nb = rec['nballots']
    prevstate=None
    for a in rec['actions']:
        if a['tag']=='log': continue
        cs=a['cstate']
        ne = sum(1 for c in cs.values() if c['state']=='elected')
        if ne > s: out.append('C09 elected>seats at %s'%a['tag'])
        for cid,c in cs.items():
            if c['state']=='withdrawn': continue
            if c['vote'] < V(0): out.append('neg vote')
            if 'kf' in c and c['kf'] is not None:
                if c['state']=='elected' and not (V(0) < c['kf'] <= V(1)): out.append('C08 kf range %r'%c['kf'])
        if 'residual' in a and a['residual'] < V(0): out.append('C08 neg residual')
        if 'residual' in a and a['tag'] in ('iterate','end'):
            if a['votes']+a['residual'] != V(nb): out.append('C08 total')
        if 'nt_votes' in a:
            tot = a['votes']+a['nt_votes']
            if tot > V(nb): out.append('C02 total>n')
    return out

def main(seed, N):
    rng=random.Random(seed)
    stats=collections.Counter()
    for i in range(N):
        o=configs(rng)
        blt,n,s,wds,undl=gen(rng, und=(o['rule']=='mpls'))
        try:
            p=ElectionProfile(data=blt)
        except ElectionProfileError as e:
            stats['proferr']+=1; continue
        try:
            E=Election(p,dict(o))
            signal.alarm(5)
            try:
                E.count()
            finally:
                signal.alarm(0)
        except TO:
            stats['timeout '+o['rule']+' '+str(o.get('arithmetic'))]+=1; continue
        except AssertionError as e:
            key='ASSERT %s %s'%(o['rule'], o.get('defeat_batch'))
            stats[key]+=1
            if stats[key]<=1: print(key, o, repr(blt))
            continue
        except BaseException as e:
            key='CRASH %s %s %s'%(o['rule'], type(e).__name__, e)
            stats[key]+=1
            if stats[key]<=2: print(key, o, repr(blt))
            continue
        stats['ok']+=1
        for m in set(check(E,n,s,wds,undl,o)):
            key='%s | %s'%(m,o['rule'])
            stats[key]+=1
            if stats[key]<=2: print(key, o, repr(blt))
    for k,v in sorted(stats.items()): print(v,k)
main(int(sys.argv[1]), int(sys.argv[2]))
