import sys, random, collections, json
sys.path.insert(0,'/repo'); sys.path.insert(0,'/tmp/probe')
import p6
from droop.profile import ElectionProfileError
def code(c): return c['code']
def main(seed,N):
    rng=random.Random(seed); st=collections.Counter(); seen=set()
    def note(k,*ctx):
        st[k]+=1
        if k not in seen: seen.add(k); print('!!',k,*ctx,flush=True)
    for i in range(N):
        o=p6.configs(rng); e=p6.gen(rng,und=(o['rule']=='mpls')); blt=p6.render(e)
        try: E=p6.count(blt,o)
        except Exception: continue
        rec=E.record(); acts=[a for a in rec['actions'] if a['tag']!='log']
        names={cid:d['name'] for cid,d in rec['cdict'].items()}
        rule=o['rule']
        if acts[0]['tag'] not in ('begin','round'): note('first tag %s %s'%(acts[0]['tag'],rule))
        if acts[-1]['tag']!='end': note('last tag')
        prev=None
        for idx,a in enumerate(acts):
            if prev is not None:
                changed=[cid for cid in a['cstate'] if code(a['cstate'][cid])!=code(prev['cstate'][cid])]
                if a['tag'] in('elect','defeat'):
                    named=[cid for cid in a['cstate'] if a['msg'].endswith(': '+names[cid])]
                    if len(named)!=1: note('cannot name %s'%rule, a['msg'])
                    elif named[0] not in changed: note('%s names unchanged candidate | %s'%(a['tag'],rule), o, repr(blt), a['msg'])
                    others=[c for c in changed if c not in named]
                    for c in others:
                        tr=code(prev['cstate'][c])+'->'+code(a['cstate'][c])
                        note('unlisted change %s at %s | %s'%(tr,a['tag'],rule), o, repr(blt), a['msg'])
                else:
                    for c in changed:
                        tr=code(prev['cstate'][c])+'->'+code(a['cstate'][c])
                        if a['tag']=='unpend' and tr=='e->E' and a['msg'].endswith(': '+names[c]): continue
                        note('unlisted change %s at %s | %s'%(tr,a['tag'],rule), o, repr(blt), a['msg'])
            prev=a
        last=acts[-1]['cstate']
        if sorted(c.cid for c in E.elected)!=sorted(c for c in last if last[c]['state']=='elected'): note('final elected mismatch')
        if sorted(c.cid for c in E.defeated)!=sorted(c for c in last if last[c]['state']=='defeated'): note('final defeated mismatch')
        # dump columns / json validity
        d=E.dump().split('\n'); hdr=d[0].count('\t')
        for line in d[1:-1]:
            t=line.split('\t')
            if t[1] in('round','log','iterate'): continue
            if line.count('\t')!=hdr: note('dump cols %s'%rule, repr(line)[:100]); break
        try: json.loads(E.json())
        except Exception as x: note('json invalid %s'%x)
        st['ok']+=1
    for k,v in sorted(st.items()): print(v,k)
main(int(sys.argv[1]),int(sys.argv[2]))
