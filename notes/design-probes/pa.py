import sys, random, collections, signal, traceback
sys.path.insert(0,'/repo'); sys.path.insert(0,'/tmp/probe')
import p6
from droop.profile import ElectionProfile, ElectionProfileError
from droop.election import Election
class TO(Exception): pass
def h(*a): raise TO()
signal.signal(signal.SIGALRM,h)
ALPH=['0','1','2','3','4','-1','-2','-3','(',')','(a)','(b','c)','[',']','[tie','[nick','[withdrawn','[undeclared','[droop','tie]','1]','2]','a','b','"','"A"','"B','C"','"t"','#','# x','/*','*/','/*x*/','=','1=2','2=','=3','1=1','a=b','\n','\n','00','007','-0','+1','٣','１','1_0','\x85',' ','x\x1cy','"a#b"','"/*"','rule=meek','precision=2']
def soup(rng):
    return ' '.join(rng.choice(ALPH) for _ in range(rng.randint(0,25)))
def valid(rng):
    e=p6.gen(rng,maxc=5,maxb=5,und=True); return p6.render(e)
def mutate(rng,t):
    toks=t.replace('\n',' \n ').split(' ')
    k=rng.random()
    if k<0.35: toks=toks[:rng.randint(0,len(toks))]
    elif k<0.6: toks[rng.randrange(len(toks))]=rng.choice(ALPH)
    elif k<0.8: toks.insert(rng.randrange(len(toks)+1),rng.choice(ALPH))
    else: del toks[rng.randrange(len(toks))]
    return ' '.join(toks)
def main(seed,N):
    rng=random.Random(seed); st=collections.Counter(); seen={}
    for i in range(N):
        r=rng.random()
        t = soup(rng) if r<0.3 else mutate(rng,valid(rng)) if r<0.9 else mutate(rng,mutate(rng,valid(rng)))
        signal.alarm(3)
        try:
            try: p=ElectionProfile(data=t); st['ok']+=1
            except ElectionProfileError: st['proferr']+=1; continue
            except TO: st['HANG']+=1; print('HANG',repr(t)); continue
            except BaseException as x:
                tb=traceback.extract_tb(sys.exc_info()[2])[-1]
                key='PARSE %s @%s:%d'%(type(x).__name__,tb.name,tb.lineno); st[key]+=1
                if key not in seen: seen[key]=t; print(key,repr(t)[:300],'|',x)
                continue
        finally: signal.alarm(0)
        # invariants of accepted profile
        try:
            allc=set(range(1,p.nCand+1))
            bad=[]
            if not p.withdrawn<=allc: bad.append('wd range')
            if p.eligible!=allc-p.withdrawn: bad.append('eligible')
            if not (0<p.nSeats<=len(p.eligible)): bad.append('seats')
            if p.nBallots<len(p.eligible): bad.append('ballots<elig')
            tot=0
            for bl in p.ballotLines:
                tot+=bl.multiplier; r=list(bl.ranking)
                if len(set(r))!=len(r) or not set(r)<=p.eligible or not r: bad.append('ranking %s'%r)
            for bl in p.ballotLinesEqual:
                tot+=bl.multiplier; r=[c for g in bl.ranking for c in g]
                if len(set(r))!=len(r) or not set(r)<=p.eligible or not r: bad.append('eqranking %s'%(bl.ranking,))
            if tot!=p.nBallots: bad.append('nBallots %d!=%d'%(p.nBallots,tot))
            if not p.undeclared<=allc: bad.append('und range')
            if set(p.tieOrder)!=allc: bad.append('tieOrder keys')
            if set(p.nickName)!=allc: bad.append('nick keys')
            for b in bad:
                key='INVALID '+b.split(' ')[0]; st[key]+=1
                if key not in seen: seen[key]=t; print(key,b,repr(t)[:300])
        except BaseException as x:
            print('INV-CRASH',type(x).__name__,x,repr(t)[:200])
        if not p.options:
            for rule in ('wigm','meek','mpls','qpq'):
                try: Election(p,dict(rule=rule))
                except BaseException as x:
                    key='CTOR %s %s'%(rule,type(x).__name__); st[key]+=1
                    if key not in seen: seen[key]=t; print(key,x,repr(t)[:300])
    for k,v in sorted(st.items()): print(v,k)
main(int(sys.argv[1]),int(sys.argv[2]))
