import sys, traceback
sys.path.insert(0,'/repo')
from droop.profile import ElectionProfile, ElectionProfileError
from droop.election import Election
import droop
def run(blt, **opts):
    try:
        p = ElectionProfile(data=blt)
    except ElectionProfileError as e:
        return 'ProfileError: %s' % e
    except BaseException as e:
        return 'PARSE-CRASH %s: %s' % (type(e).__name__, e)
    try:
        E = Election(p, dict(opts))
    except BaseException as e:
        return 'CTOR-CRASH %s: %s' % (type(e).__name__, e)
    try:
        E.count()
    except BaseException as e:
        return 'COUNT-CRASH %s: %s' % (type(e).__name__, e)
    return 'ok elected=%s' % sorted(c.name for c in E.elected)
print(droop.electionRuleNames())
# C01: wigm defeat_batch=zero, too few supported
print('wigm zero:', run('4 3\n4 1 0\n0\n"A" "B" "C" "D"\n"t"\n', rule='wigm', defeat_batch='zero'))
print('wigm zero fixed:', run('4 3\n4 1 0\n0\n"A" "B" "C" "D"\n"t"\n', rule='wigm', defeat_batch='zero', arithmetic='fixed'))
# mpls fewer declared than seats
print('mpls:', run('2 2\n[undeclared 2]\n3 1 0\n1 2 0\n0\n"A" "W"\n"t"\n', rule='mpls'))
print('mpls3:', run('3 2\n[undeclared 2 3]\n3 1 0\n1 2 0\n1 3 0\n0\n"A" "W" "X"\n"t"\n', rule='mpls'))
# C16
print('eof names:', run('2 1\n1 1 0\n0\n'))
print('-n range:', run('2 1\n-9\n1 1 0\n1 2 0\n0\n"A" "B"\n"t"\n', rule='wigm'))
print('wd dup in rank:', run('3 1\n-2\n1 2=2 1 0\n2 3 0\n0\n"A" "B" "C"\n"t"\n', rule='meek'))
print('wd dup in rank2:', run('3 1\n-2\n1 2=2 0\n2 3 0\n1 1 0\n0\n"A" "B" "C"\n"t"\n', rule='wigm'))
print('bigint:', run('2 1\n' + '9'*5000 + ' 1 0\n0\n"A" "B"\n"t"\n', rule='wigm'))
names = ' '.join('"c%d"'%i for i in range(1,257))
print('256:', run('256 1\n300 256 0\n0\n'+names+'\n"t"\n', rule='wigm')[:100])
print('neg str:')
from droop.values.fixed import Fixed
from droop.options import Options
o=Options(dict(arithmetic='fixed',precision=3)); Fixed.initialize(o)
print(str(Fixed(-500,True)), str(Fixed(-1500,True)), str(Fixed(-1,True)))
