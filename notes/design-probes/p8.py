import sys, random, collections
sys.path.insert(0,'/repo'); sys.path.insert(0,'/tmp/probe')
import p6
from droop.profile import ElectionProfileError
def main(seed,N):
    rng=random.Random(seed); stats=collections.Counter()
    for i in range(N):
        r=rng.choice(['meek','warren','wigm'])
        a=rng.choice(['fixed','guarded'])
        o=dict(rule=r,arithmetic=a,precision=rng.choice([1,2,3,4,5,6,9]))
        if a=='guarded': o['guard']=rng.choice([0,1,1,2,3])
        if r!='wigm' and rng.random()<0.6: o['omega']=rng.choice([1,2,3,4,6,8])
        e=p6.gen(rng,maxc=7,maxb=10)
        blt=p6.render(e)
        try: E=p6.count(blt,o)
        except ElectionProfileError: continue
        except p6.TO: stats['timeout %s %s'%(r,a)]+=1; continue
        except BaseException as x:
            key='crash %s %s p=%s g=%s %s'%(r,a,o['precision'],o.get('guard'),type(x).__name__)
            stats[key]+=1
            if stats[key]==1: print(key,o,repr(blt),flush=True)
            continue
        stats['ok']+=1
        for m in set(p6.oracles(E,e,o)):
            key='%s | %s %s p=%s g=%s'%(m.split(' S=')[0],r,a,o['precision'],o.get('guard'))
            stats[key]+=1
            if stats[key]==1: print(key,o,repr(blt),flush=True)
        # kf range + negative surplus/residual
        for act in E.record()['actions']:
            if act['tag']=='log': continue
            if 'residual' in act:
                if act['residual']<E.V(0): stats['neg residual %s %s p=%s g=%s'%(r,a,o['precision'],o.get('guard'))]+=1
                if act['surplus']<E.V(0): stats['neg surplus %s %s p=%s g=%s'%(r,a,o['precision'],o.get('guard'))]+=1
                for c in act['cstate'].values():
                    if c['state']=='elected' and c.get('kf') is not None:
                        if c['kf']._value<=0: stats['kf<=0 %s %s p=%s g=%s'%(r,a,o['precision'],o.get('guard'))]+=1
                        if c['kf']>E.V(1): stats['kf>1 %s %s p=%s g=%s'%(r,a,o['precision'],o.get('guard'))]+=1
    for k,v in sorted(stats.items()): print(v,k)
main(int(sys.argv[1]),int(sys.argv[2]))
