import sys, collections, json, traceback
sys.path.insert(0,'/repo'); sys.path.insert(0,'/tmp/probe')
import p6
from droop.profile import ElectionProfile
from droop.election import Election
Election.prog = staticmethod(lambda m: None)
blt='4 2\n[tie 4 3 1 2]\n3 1 2 3 0\n2 2 3 0\n2 3 4 0\n1 4 1 0\n1 2 0\n0\n"A" "B" "C" "D"\n"t"\n'
def acts(E): return [(a['tag'],a['msg'],a['round']) for a in E.record()['actions']]
st=collections.Counter(); seen=set()
for rule,opts in [('wigm',{}),('meek',{'arithmetic':'fixed','precision':4}),('mpls',{}),('qpq',{}),('scotland',{}),('cfer-batch',{}),('meek-prf',{}),('wigm',{'arithmetic':'rational'})]:
    o=dict(rule=rule,**opts)
    E0=Election(ElectionProfile(data=blt),dict(o)); E0.count(); full=acts(E0)
    # count line events
    k=0
    while True:
        k+=1
        E=Election(ElectionProfile(data=blt),dict(o))
        cnt=[0]; where=[None]
        def tr(frame,event,arg):
            if '/repo/droop' not in frame.f_code.co_filename: return None
            def local(frame,event,arg):
                if event=='line':
                    cnt[0]+=1
                    if cnt[0]==k:
                        where[0]='%s:%s:%d'%(frame.f_code.co_filename.split('/')[-1],frame.f_code.co_name,frame.f_lineno)
                        raise KeyboardInterrupt
                return local
            return local
        sys.settrace(tr)
        try:
            try: E.count(); done=True
            except KeyboardInterrupt: done=False
        finally: sys.settrace(None)
        if done: break
        for f in ('report','dump','json'):
            try:
                out=getattr(E,f)(True)
                if f=='report' and 'terminated prematurely' not in out: st['%s no marker'%f]+=1
                if f!='report' and 'count interrupted' not in out: st['%s no marker'%f]+=1
            except BaseException as x:
                tb=traceback.extract_tb(sys.exc_info()[2])[-1]
                key='%s %s %s @%s | interrupted at %s'%(rule,f,type(x).__name__,tb.name,where[0])
                st['%s %s %s'%(f,type(x).__name__,x)]+=1
                if (f,type(x).__name__,str(x),where[0].split(':')[1]) not in seen:
                    seen.add((f,type(x).__name__,str(x),where[0].split(':')[1])); print(key)
        a=[x for x in acts(E) if 'count interrupted' not in x[1]]
        if a!=full[:len(a)]: st['NOT PREFIX']+=1; print('not prefix',rule,where[0])
    st['points %s'%rule]=k-1
for k,v in sorted(st.items()): print(v,k)
