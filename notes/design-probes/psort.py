import random, sys
# reference model of CPython list.sort for n < 64 using only "<" on keys (lt), as in listobject.c
def count_run(a, lo, hi, lt):
    # returns (n, descending)
    descending=False
    lo0=lo
    lo+=1
    if lo==hi: return 1, False
    n=2
    if lt(a[lo], a[lo-1]):
        descending=True
        lo+=1
        while lo<hi:
            if lt(a[lo], a[lo-1]): pass
            else: break
            lo+=1; n+=1
    else:
        lo+=1
        while lo<hi:
            if lt(a[lo], a[lo-1]): break
            lo+=1; n+=1
    return n, descending
def binarysort(a, lo, hi, start, lt):
    if lo==start: start+=1
    while start<hi:
        l=lo; r=start; pivot=a[start]
        while l<r:
            p=l+((r-l)>>1)
            if lt(pivot,a[p]): r=p
            else: l=p+1
        # shift
        for q in range(start,l,-1): a[q]=a[q-1]
        a[l]=pivot
        start+=1
def model_sort(lst, lt, reverse=False):
    a=list(lst)
    if reverse: a.reverse()
    n=len(a)
    if n>=2:
        assert n<64
        run,desc=count_run(a,0,n,lt)
        if desc: a[0:run]=a[0:run][::-1]
        if run<n: binarysort(a,0,n,run,lt)
    if reverse: a.reverse()
    return a
class G:  # fuzzy value like Guarded
    geps=5
    def __init__(s,v): s.v=v
    def cmp(s,o):
        d=abs(s.v-o.v)
        if d<G.geps: return 0
        return 1 if s.v>o.v else -1
    def __eq__(s,o): return s.cmp(o)==0
    def __lt__(s,o): return s.cmp(o)<0
    def __gt__(s,o): return s.cmp(o)>0
    def __le__(s,o): return s.cmp(o)<=0
    def __ge__(s,o): return s.cmp(o)>=0
    def __ne__(s,o): return s.cmp(o)!=0
    __hash__=None
def key_lt(k1,k2):
    # tuple compare: first index where not ==, then <
    for x,y in zip(k1,k2):
        if x is y or x==y: continue
        return x<y
    return len(k1)<len(k2)
rng=random.Random(1); bad=0; nontrans=0
for t in range(200000):
    n=rng.randint(0,63 if t%10==0 else 12)
    items=[(G(rng.randint(0,40)), i) for i in range(n)]
    rng.shuffle(items)
    rev=rng.random()<0.5
    got=sorted(items, key=lambda c:(c[0],c[1]), reverse=rev)
    exp=model_sort(items, key_lt, rev)
    if [x[1] for x in got]!=[x[1] for x in exp]:
        bad+=1
        if bad<3: print('MISMATCH',[(x[0].v,x[1]) for x in items],rev)
    vs=sorted(x[0].v for x in items)
    if any(vs[i+1]-vs[i]<5 and i+2<len(vs) and vs[i+2]-vs[i+1]<5 and vs[i+2]-vs[i]>=5 for i in range(len(vs)-2)): nontrans+=1
print('bad',bad,'cases with non-transitive triples',nontrans)
# also max/min fold semantics
for t in range(50000):
    vals=[G(rng.randint(0,30)) for _ in range(rng.randint(1,10))]
    m=vals[0]
    for x in vals[1:]:
        if x>m: m=x
    assert max(vals) is m
    m=vals[0]
    for x in vals[1:]:
        if x<m: m=x
    assert min(vals) is m
print('max/min fold ok')
