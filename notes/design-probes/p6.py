import sys, random, itertools, collections, json, copy
sys.path.insert(0,'/repo')
from droop.profile import ElectionProfile, ElectionProfileError
from droop.election import Election
from fractions import Fraction
import signal
Election.prog = staticmethod(lambda m: None)
class TO(Exception): pass
def h(*a): raise TO()
signal.signal(signal.SIGALRM, h)
RULES=['wigm','meek','warren','meek-prf','wigm-prf','wigm-prf-batch','cfer','cfer-batch','scotland','mpls','qpq']

def gen(rng, maxc=6, maxb=8, und=False, wd=True):
    n = rng.randint(2, maxc)
    wds = [c for c in range(1,n+1) if wd and rng.random()<0.1]
    elig = [c for c in range(1,n+1) if c not in wds]
    if not elig: wds=[]; elig=list(range(1,n+1))
    s = rng.randint(1, len(elig))
    lines=[]
    k = rng.randint(1,maxb)
    style=rng.random()
    for _ in range(k):
        m = rng.choice([1,1,1,2,3,rng.randint(1,20)])
        if style<0.3:   # clustered: ties likely
            base=list(range(1,n+1)); 
            r=base[:rng.randint(1,n)] if rng.random()<0.5 else rng.sample(base, rng.randint(1,n))
            m=rng.choice([1,2])
        else:
            r = rng.sample(range(1,n+1), rng.randint(1,n))
        lines.append((m,r))
    tot = sum(m for m,r in lines if any(c not in wds for c in r))
    if tot < len(elig):
        lines.append((len(elig)-tot+rng.randint(0,2), [rng.choice(elig)]))
    undl=[]
    if und: undl=[c for c in elig if rng.random()<0.2]
    tie = list(range(1,n+1)); rng.shuffle(tie)
    return dict(n=n,s=s,wd=wds,und=undl,tie=tie,lines=lines,names=['c%d'%i for i in range(1,n+1)])

def render(e):
    opts=''
    if e['wd']: opts += ''.join('-%d '%c for c in e['wd'])+'\n'
    if e['und']: opts += '[undeclared %s]\n' % ' '.join(map(str,e['und']))
    if e['tie']: opts += '[tie %s]\n' % ' '.join(map(str,e['tie']))
    return '%d %d\n%s' % (e['n'],e['s'],opts) + ''.join('%d %s 0\n'%(m,' '.join(map(str,r))) for m,r in e['lines']) + '0\n' + ' '.join('"%s"'%x for x in e['names']) + '\n"t"\n'

def configs(rng):
    r = rng.choice(RULES+['wigm','meek'])
    o = dict(rule=r)
    if r in ('wigm','meek','warren'):
        a = rng.choice(['fixed','guarded','integer','rational'] if r=='wigm' else ['fixed','guarded','fixed','guarded'])
        o['arithmetic']=a
        if a in ('fixed','guarded'):
            o['precision']=rng.choice([2,3,4,6,9])
            if a=='guarded': o['guard']=rng.choice([0,1,2,3,o['precision']])
        if r=='wigm':
            if rng.random()<0.3: o['integer_quota']=True
        else:
            if rng.random()<0.5: o['omega']=rng.choice([1,2,3,5])
            if rng.random()<0.3: o['defeat_batch']='none'
    return o

def val(v):
    if hasattr(v,'_value'): return v._value
    if isinstance(v,Fraction): return (v.numerator,v.denominator)
    return v
def count(blt,o,t=5):
    p=ElectionProfile(data=blt)
    E=Election(p,dict(o))
    signal.alarm(t)
    try: E.count()
    finally: signal.alarm(0)
    return E
def trace(E, byname=False):
    rec=E.record(); out=[]
    for a in rec['actions']:
        if a['tag']=='log': 
            if a['msg'].startswith('Add '): continue
            out.append(('log',a['msg'])); continue
        cs={}
        for cid,c in a['cstate'].items():
            k = rec['cdict'][cid]['name'] if byname else cid
            cs[k]=(c['state'],c.get('pending'),val(c.get('vote')),val(c.get('kf')),val(c.get('quotient')))
        out.append((a['tag'],a['msg'],a['round'],val(a['quota']),val(a['votes']),val(a.get('nt_votes')),val(a.get('residual')),val(a.get('surplus')),tuple(sorted(cs.items()))))
    return out

def scale(E):
    V=E.V
    if V.name=='rational': return None
    return V(1)._value

def oracles(E,e,o):
    out=[]; V=E.V; rec=E.record(); nb=rec['nballots']; s=e['s']; rule=o['rule']
    S=scale(E)
    acts=[a for a in rec['actions'] if a['tag']!='log']
    prev=None; ntransfers=0
    exact = V.exact
    for a in acts:
        cs=a['cstate']
        if a['tag']=='transfer' and ('urplus' in a['msg']): ntransfers+=1
        # C02
        if 'nt_votes' in a:
            tot=a['votes']+a['nt_votes']
            if tot>V(nb): out.append('C02 over')
            if V.name=='rational':
                if tot!=V(nb) : out.append('C02 rational inexact')
            else:
                short=(V(nb)-tot)._value
                if short > 2*nb*ntransfers: out.append('C02 short %d > %d'%(short,2*nb*ntransfers))
        # C04 nobody with quota defeated
        if a['tag']=='defeat' and prev is not None and rule!='qpq':
            for cid,c in cs.items():
                if c['state']=='defeated' and prev['cstate'][cid]['state']=='hopeful':
                    hasq = (c['vote']>a['quota']) if exact else (c['vote']>=a['quota'])
                    und = cid in e['und'] and rule=='mpls'
                    if hasq and not und and a['quota']>V(0): out.append('C04 defeated with quota')
                    # C07 lowest (single defeats)
                    if 'low' in a['msg'].lower() or a['msg'].startswith('Defeat:') :
                        hv=[prev['cstate'][k]['vote'] for k,x in prev['cstate'].items() if x['state']=='hopeful']
                        sur = a.get('surplus') if rule in('meek','warren','meek-prf') else V(0)
                        if not all(c['vote'] <= v + (sur if sur is not None else V(0)) for v in hv): out.append('C07 not lowest')
        # C09
        if prev is not None:
            if a['round']<prev['round']: out.append('C09 round dec')
            for cid,c in cs.items():
                ps=prev['cstate'][cid]['state']; ns=c['state']
                if ps!=ns and not (ps=='hopeful' and ns in('elected','defeated')):
                    if not (rule=='qpq' and ps=='elected' and ns=='hopeful'): out.append('C09 bad transition %s->%s'%(ps,ns))
        ne=sum(1 for c in cs.values() if c['state']=='elected'); nh=sum(1 for c in cs.values() if c['state']=='hopeful')
        if ne>s: out.append('C09 over-elected')
        prev=a
    # C05 DPC
    elig=[c for c in range(1,e['n']+1) if c not in e['wd']]
    if not (rule=='mpls' and e['und']) and len(elig)<=6:
        q0 = None
        for a in acts:
            q0=a['quota']; break
        won=set(c.cid for c in E.elected)
        if V.name=='rational': q0f=Fraction(q0); allow=0
        else: q0f=Fraction(q0._value,S); allow=Fraction(2*nb*len(elig),S)
        if rule=='qpq': q0f=Fraction(nb,s+1)
        for r in range(1,len(elig)):
            for Sset in itertools.combinations(elig,r):
                Ss=set(Sset)
                g=0
                for m,rk in e['lines']:
                    rk=[c for c in rk if c not in e['wd']]
                    if not rk: continue
                    # solid: all of S ranked? standard DPC: voters rank all S ahead of others: first |S| prefs == S
                    if len(rk)>=len(Ss) and set(rk[:len(Ss)])==Ss: g+=m
                if g==0: continue
                # largest k with g > k*q + allow
                k=0
                while g > (k+1)*q0f + allow: k+=1
                need=min(k,len(Ss))
                if len(won&Ss)<need: out.append('C05 DPC S=%s k=%d g=%d won=%s'%(Sset,k,g,sorted(won)))
    return out

def perm_e(e,pi):  # pi: dict old->new
    n=e['n']; inv={v:k for k,v in pi.items()}
    f=lambda c: pi[c]
    names=[None]*n
    for c in range(1,n+1): names[pi[c]-1]=e['names'][c-1]
    # tie order: list of cids in order
    return dict(n=n,s=e['s'],wd=sorted(map(f,e['wd'])),und=sorted(map(f,e['und'])),tie=[f(c) for c in e['tie']],lines=[(m,[f(c) for c in r]) for m,r in e['lines']],names=names)

def delete_wd(e):
    keep=[c for c in range(1,e['n']+1) if c not in e['wd']]
    ren={c:i+1 for i,c in enumerate(keep)}
    lines=[(m,[ren[c] for c in r if c in ren]) for m,r in e['lines']]
    lines=[(m,r) for m,r in lines if r]
    return dict(n=len(keep),s=e['s'],wd=[],und=[ren[c] for c in e['und'] if c in ren],tie=[ren[c] for c in e['tie'] if c in ren],lines=lines,names=[e['names'][c-1] for c in keep])

def main(seed,N):
    rng=random.Random(seed); stats=collections.Counter()
    def note(key,*ctx):
        stats[key]+=1
        if stats[key]<=2: print('!!',key,*ctx, flush=True)
    for i in range(N):
        o=configs(rng); e=gen(rng,und=(o['rule']=='mpls'))
        blt=render(e)
        try:
            E=count(blt,o)
        except ElectionProfileError: stats['proferr']+=1; continue
        except TO: stats['timeout']+=1; continue
        except BaseException as x:
            stats['crash %s %s'%(o['rule'],type(x).__name__)]+=1; continue
        stats['ok']+=1
        T=trace(E)
        for m in set(oracles(E,e,o)): note('%s | %s %s'%(m.split(' S=')[0],o['rule'],o.get('arithmetic','')), o, repr(blt), m)
        # C10: shuffle lines, split multipliers
        try:
            e2=copy.deepcopy(e); rng.shuffle(e2['lines'])
            nl=[]
            for m,r in e2['lines']:
                if m>1 and rng.random()<0.5:
                    a=rng.randint(1,m-1); nl+= [(a,r),(m-a,r)]
                else: nl.append((m,r))
            e2['lines']=nl
            if rng.random()<0.5:  # merge identical
                d=collections.OrderedDict()
                for m,r in e2['lines']: d[tuple(r)]=d.get(tuple(r),0)+m
                e2['lines']=[(m,list(r)) for r,m in d.items()]
            E2=count(render(e2),o)
            if trace(E2)!=T: note('C10 reorder/regroup differs | %s %s'%(o['rule'],o.get('arithmetic','')), o, repr(blt), repr(render(e2)))
        except (TO,ElectionProfileError): pass
        except BaseException as x: note('C10 crash %s'%type(x).__name__, o, repr(blt))
        # C11a renumber
        try:
            ids=list(range(1,e['n']+1)); sh=ids[:]; rng.shuffle(sh); pi=dict(zip(ids,sh))
            E3=count(render(perm_e(e,pi)),o)
            w1=sorted(c.name for c in E.elected); w3=sorted(c.name for c in E3.elected)
            f1=sorted((c.name,val(c.vote)) for c in E.C if c.state!='withdrawn'); f3=sorted((c.name,val(c.vote)) for c in E3.C if c.state!='withdrawn')
            if w1!=w3: note('C11 renumber winners differ | %s %s'%(o['rule'],o.get('arithmetic','')), o, repr(blt), pi)
            elif f1!=f3: note('C11 renumber final tallies differ | %s %s'%(o['rule'],o.get('arithmetic','')), o, repr(blt), pi)
            T3=trace(E3,True); T1=trace(E,True)
            if [x[0] for x in T3]!=[x[0] for x in T1]: stats['(info) renumber changes action tag sequence %s'%o['rule']]+=1
        except (TO,ElectionProfileError): pass
        except BaseException as x: note('C11 crash %s'%type(x).__name__, o, repr(blt))
        # C11b withdrawn == deleted
        if e['wd']:
            try:
                E4=count(render(delete_wd(e)),o)
                def strip(T):
                    r=[]
                    for x in T:
                        if x[0]=='log': r.append(x); continue
                        r.append(x[:8]+(tuple(v for k,v in x[8] if v[0]!='withdrawn'),))
                    return r
                if strip(trace(E4,True))!=strip(trace(E,True)): note('C11 withdrawn!=deleted | %s %s'%(o['rule'],o.get('arithmetic','')), o, repr(blt))
            except (TO,ElectionProfileError) as x: stats['wd-del skip']+=1
            except BaseException as x: note('C11b crash %s'%type(x).__name__, o, repr(blt))
        # C13 guard0 == fixed
        if o.get('arithmetic')=='fixed' and o['rule'] in('wigm','meek','warren'):
            try:
                o5=dict(o); o5['arithmetic']='guarded'; o5['guard']=0
                E5=count(blt,o5)
                if trace(E5)!=T: note('C13 guard0!=fixed | %s'%o['rule'], o, repr(blt))
            except TO: pass
            except BaseException as x: note('C13 crash %s'%type(x).__name__, o, repr(blt))
        # C17 immunity
        if o['rule'] not in('wigm','meek','warren'):
            try:
                o6=dict(o); o6.update(rng.choice([dict(arithmetic='rational'),dict(precision=2),dict(arithmetic='guarded',guard=3,precision=7),dict(display=1),dict(omega=2,defeat_batch='none'),dict(integer_quota=True,arithmetic='integer')]))
                E6=count(blt,o6)
                if trace(E6)!=T: note('C17 immunity broken | %s'%o['rule'], o6, repr(blt))
                # also via file options
                k,v=rng.choice([('arithmetic','rational'),('precision','2'),('display','3')])
                blt7=blt.replace('\n','\n[droop %s=%s]\n'%(k,v),1)
                E7=count(blt7,o)
                if trace(E7)!=T: note('C17 file immunity broken | %s'%o['rule'], k,v, repr(blt))
            except TO: pass
            except BaseException as x: note('C17 crash %s %s'%(type(x).__name__,x), o, repr(blt))
        # C20 history: rerun after other elections; compare json
        if i%5==0:
            try:
                j1=E.json(); r1=E.report(); d1=E.dump()
                for _ in range(2):
                    oo=configs(rng); ee=gen(rng,und=(oo['rule']=='mpls'))
                    try: X=count(render(ee),oo); X.report(); X.json()
                    except BaseException: pass
                E8=count(blt,o)
                if (E8.json(),E8.report(),E8.dump())!=(j1,r1,d1): note('C20 history dependence | %s %s'%(o['rule'],o.get('arithmetic','')), o, repr(blt))
            except TO: pass
    for k,v in sorted(stats.items()): print(v,k)
if __name__=="__main__": main(int(sys.argv[1]), int(sys.argv[2]))
