From Coq Require Import List Bool.
Require Import Spike.
Section Esc.
Variables S1 S2 : Type.
Variable R : S1 -> S2 -> Prop.
Variable bad : S1 -> Prop.          (* sticky: once true stays true along run 1 *)

Inductive simE : cmd S1 -> cmd S2 -> Prop :=
| eDo f1 f2 : (forall a, bad a -> bad (f1 a)) ->
              (forall a b, R a b -> ~ bad (f1 a) -> R (f1 a) (f2 b)) -> simE (Do _ f1) (Do _ f2)
| eSeq a1 b1 a2 b2 : simE a1 a2 -> simE b1 b2 -> simE (Seq _ a1 b1) (Seq _ a2 b2)
| eIte g1 g2 a1 b1 a2 b2 : (forall a b, R a b -> ~ bad a -> g1 a = g2 b) -> simE a1 a2 -> simE b1 b2 -> simE (Ite _ g1 a1 b1) (Ite _ g2 a2 b2)
| eLoop g1 g2 b1 b2 : (forall a b, R a b -> ~ bad a -> g1 a = g2 b) -> simE b1 b2 -> simE (Loop _ g1 b1) (Loop _ g2 b2)
| eBrk : simE (Break _) (Break _) | eCont : simE (Continue _) (Continue _) | eSkip : simE (Skip _) (Skip _).

(* stickiness lifts to whole runs of the left program *)
Lemma sticky : forall c1 c2, simE c1 c2 -> forall fuel a a' k, exec _ fuel c1 a = Some (a', k) -> bad a -> bad a'.
Proof.
  induction 1; intros fuel a a' k He Hb; simpl in He.
  - inversion He; subst; auto.
  - destruct (exec S1 fuel a1 a) as [[x kx]|] eqn:E1; try discriminate.
    assert (bad x) by (eapply IHsimE1; eauto).
    destruct kx; [eapply IHsimE2; eauto | inversion He; subst; auto | inversion He; subst; auto].
  - destruct (g1 a); eauto.
  - revert a He Hb. generalize fuel at 2. intro n. induction n as [|n IHn]; intros a He Hb; simpl in He; try discriminate.
    destruct (g1 a).
    + destruct (exec S1 fuel b1 a) as [[x kx]|] eqn:E1; try discriminate.
      assert (bad x) by (eapply IHsimE; eauto).
      destruct kx; [eapply IHn; eauto | inversion He; subst; auto | eapply IHn; eauto].
    + inversion He; subst; auto.
  - inversion He; subst; auto.
  - inversion He; subst; auto.
  - inversion He; subst; auto.
Qed.

Theorem exec_simE : forall c1 c2, simE c1 c2 -> forall fuel a b a' k,
  R a b -> exec _ fuel c1 a = Some (a', k) -> ~ bad a' ->
  exists b', exec _ fuel c2 b = Some (b', k) /\ R a' b'.
Proof.
  induction 1; intros fuel a b a' k HR He Hnb; simpl in *.
  - inversion He; subst. eexists; split; eauto.
  - destruct (exec S1 fuel a1 a) as [[x kx]|] eqn:E1; try discriminate.
    assert (Hx: ~ bad x).
    { intro Hbx. apply Hnb. destruct kx.
      - eapply sticky; eauto.
      - inversion He; subst; auto.
      - inversion He; subst; auto. }
    destruct (IHsimE1 fuel a b x kx HR E1 Hx) as [y [Ey Ry]]. rewrite Ey.
    destruct kx; [eapply IHsimE2; eauto | inversion He; subst; eexists; split; [reflexivity|assumption] | inversion He; subst; eexists; split; [reflexivity|assumption]].
  - assert (Ha: ~ bad a).
    { intro Hb. apply Hnb. revert He. destruct (g1 a); intro He; [eapply (sticky a1 a2) | eapply (sticky b1 b2)]; eauto. }
    rewrite <- (H a b HR Ha). revert He. destruct (g1 a); intro He; eauto.
  - revert a b HR He. generalize fuel at 2 4. intro n. induction n as [|n IHn]; intros a b HR He; simpl in *; try discriminate.
    assert (Ha: ~ bad a).
    { intro Hb. apply Hnb. 
      assert (L: forall m a0, loop S1 (exec S1 fuel b1) g1 m a0 = Some (a', k) -> bad a0 -> bad a').
      { induction m as [|m IHm]; intros a0 Hl Hb0; simpl in Hl; try discriminate.
        destruct (g1 a0).
        - destruct (exec S1 fuel b1 a0) as [[x kx]|] eqn:E1; try discriminate.
          assert (bad x) by (eapply sticky; eauto).
          destruct kx; [eapply IHm; eauto | inversion Hl; subst; auto | eapply IHm; eauto].
        - inversion Hl; subst; auto. }
      eapply (L (S n)); eauto. }
    rewrite <- (H a b HR Ha). destruct (g1 a).
    + destruct (exec S1 fuel b1 a) as [[x kx]|] eqn:E1; try discriminate.
      assert (Hx: ~ bad x).
      { intro Hbx. apply Hnb.
        assert (L: forall m a0, loop S1 (exec S1 fuel b1) g1 m a0 = Some (a', k) -> bad a0 -> bad a').
        { induction m as [|m IHm]; intros a0 Hl Hb0; simpl in Hl; try discriminate.
          destruct (g1 a0).
          - destruct (exec S1 fuel b1 a0) as [[x0 kx0]|] eqn:E10; try discriminate.
            assert (bad x0) by (eapply sticky; eauto).
            destruct kx0; [eapply IHm; eauto | inversion Hl; subst; auto | eapply IHm; eauto].
          - inversion Hl; subst; auto. }
        destruct kx; [eapply L; eauto | inversion He; subst; auto | eapply L; eauto]. }
      destruct (IHsimE fuel a b x kx HR E1 Hx) as [y [Ey Ry]]. rewrite Ey.
      destruct kx; [eapply IHn; eauto | inversion He; subst; eexists; split; [reflexivity|assumption] | eapply IHn; eauto].
    + inversion He; subst. eexists; split; [reflexivity|assumption].
  - inversion He; subst; eexists; split; [reflexivity|assumption].
  - inversion He; subst; eexists; split; [reflexivity|assumption].
  - inversion He; subst; eexists; split; [reflexivity|assumption].
Qed.
End Esc.
Print Assumptions exec_simE.
