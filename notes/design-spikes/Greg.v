From Coq Require Import ZArith List Bool Lia PeanoNat.
Import ListNotations.
Open Scope Z_scope.

(* ---- state ---- *)
Inductive status := Hopeful | Elected | Defeated | Withdrawn.
Record cand := { cid : nat; st : status; pend : bool; vote : Z }.
Record ballot := { mult : Z; idx : nat; weight : Z; ranking : list nat }.

Definition status_eqb a b := match a, b with Hopeful,Hopeful|Elected,Elected|Defeated,Defeated|Withdrawn,Withdrawn => true | _,_ => false end.

Fixpoint find_c (cs : list cand) (i : nat) : option cand :=
  match cs with [] => None | c :: t => if Nat.eqb (cid c) i then Some c else find_c t i end.
Definition hopefulb (cs : list cand) (i : nat) : bool :=
  match find_c cs i with Some c => status_eqb (st c) Hopeful | None => false end.
Definition vote_of (cs : list cand) (i : nat) : Z :=
  match find_c cs i with Some c => vote c | None => 0 end.
Fixpoint add_vote (cs : list cand) (i : nat) (x : Z) : list cand :=
  match cs with [] => []
  | c :: t => if Nat.eqb (cid c) i then {| cid := cid c; st := st c; pend := pend c; vote := vote c + x |} :: t
              else c :: add_vote t i x end.

(* top of a ballot; advance to next hopeful: mirrors  while not exhausted and topCand not in hopeful: advance *)
Definition top (b : ballot) : option nat := nth_error (ranking b) (idx b).
Fixpoint skip (cs : list cand) (rest : list nat) (i : nat) : nat :=
  match rest with [] => i | c :: t => if hopefulb cs c then i else skip cs t (S i) end.
Definition advance (cs : list cand) (b : ballot) : ballot :=
  {| mult := mult b; idx := skip cs (skipn (idx b) (ranking b)) (idx b); weight := weight b; ranking := ranking b |}.
Definition value (b : ballot) : Z := weight b * mult b.

(* transfer(ballot): advance, then credit exhausted or the new top *)
Definition transfer1 (s : list cand * Z) (b : ballot) : ballot * (list cand * Z) :=
  let b' := advance (fst s) b in
  match top b' with
  | None => (b', (fst s, snd s + value b'))
  | Some c => (b', (add_vote (fst s) c (value b'), snd s))
  end.

(* for b in ballots if topRank == c: transfer(b)   -- sequential, like the code *)
Fixpoint transfer_from (c : nat) (bs : list ballot) (s : list cand * Z) : list ballot * (list cand * Z) :=
  match bs with [] => ([], s)
  | b :: t => if match top b with Some x => Nat.eqb x c | None => false end
              then let '(b', s') := transfer1 s b in let '(t', s'') := transfer_from c t s' in (b' :: t', s'')
              else let '(t', s'') := transfer_from c t s in (b :: t', s'') end.

(* ---- lemmas ---- *)
Lemma find_add_vote cs i x j : find_c (add_vote cs i x) j =
  match find_c cs j with
  | Some c => if Nat.eqb i j then Some {| cid := cid c; st := st c; pend := pend c; vote := vote c + x |} else Some c
  | None => None end.
Proof.
  induction cs as [|c t IH]; simpl; [reflexivity|].
  destruct (Nat.eqb (cid c) i) eqn:Ei; simpl.
  - destruct (Nat.eqb (cid c) j) eqn:Ej.
    + apply Nat.eqb_eq in Ei, Ej. subst. rewrite Nat.eqb_refl. reflexivity.
    + destruct (find_c t j) eqn:F; [|reflexivity].
      destruct (Nat.eqb i j) eqn:Eij; [|reflexivity].
      apply Nat.eqb_eq in Ei, Eij. subst. rewrite Nat.eqb_refl in Ej. discriminate.
  - destruct (Nat.eqb (cid c) j) eqn:Ej.
    + destruct (Nat.eqb i j) eqn:Eij; [|reflexivity].
      apply Nat.eqb_eq in Ej, Eij. subst. rewrite Nat.eqb_refl in Ei. discriminate.
    + apply IH.
Qed.

Lemma hopefulb_add_vote cs i x j : hopefulb (add_vote cs i x) j = hopefulb cs j.
Proof. unfold hopefulb. rewrite find_add_vote. destruct (find_c cs j); [|reflexivity]. destruct (Nat.eqb i j); reflexivity. Qed.

Lemma vote_of_add_vote cs i x j : vote_of (add_vote cs i x) j =
  vote_of cs j + (if Nat.eqb i j then match find_c cs j with Some _ => x | None => 0 end else 0).
Proof. unfold vote_of. rewrite find_add_vote. destruct (find_c cs j); [|destruct (Nat.eqb i j); lia]. destruct (Nat.eqb i j); simpl; lia. Qed.

Lemma skip_ext cs cs' rest i : (forall j, hopefulb cs j = hopefulb cs' j) -> skip cs rest i = skip cs' rest i.
Proof. intros H. revert i. induction rest as [|c t IH]; intros i; simpl; [reflexivity|]. rewrite H. destruct (hopefulb cs' c); auto. Qed.

(* owned sum *)
Definition owns (c : nat) (b : ballot) : bool := match top b with Some x => Nat.eqb x c | None => false end.
Fixpoint owned_sum (c : nat) (bs : list ballot) : Z :=
  match bs with [] => 0 | b :: t => (if owns c b then value b else 0) + owned_sum c t end.
Fixpoint exhausted_sum (bs : list ballot) : Z :=
  match bs with [] => 0 | b :: t => (match top b with None => value b | Some _ => 0 end) + exhausted_sum t end.

(* the characterisation: after transfer_from d, for every candidate j <> d known to the table:
   vote_of cs' j - vote_of cs j = owned_sum j bs' - owned_sum j bs, and exhausted likewise;
   and hopeful-ness is unchanged. *)
Lemma advance_value cs b : value (advance cs b) = value b.
Proof. reflexivity. Qed.

Lemma transfer_from_spec d : forall bs cs ex bs' cs' ex',
  transfer_from d bs (cs, ex) = (bs', (cs', ex')) ->
  (forall j, hopefulb cs' j = hopefulb cs j) /\
  (forall j, j <> d -> (forall b, In b bs' -> owns j b = true -> find_c cs j <> None) ->
        vote_of cs' j - vote_of cs j = owned_sum j bs' - owned_sum j bs) /\
  ex' - ex = exhausted_sum bs' - exhausted_sum bs /\
  length bs' = length bs.
Proof.
  induction bs as [|b t IH]; intros cs ex bs' cs' ex' H; simpl in H.
  - inversion H; subst. repeat split; intros; simpl; lia.
  - destruct (match top b with Some x => Nat.eqb x d | None => false end) eqn:Eo.
    + unfold transfer1 in H. simpl in H.
      destruct (top (advance cs b)) as [c|] eqn:Et.
      * destruct (transfer_from d t (add_vote cs c (value (advance cs b)), ex)) as [t' [cs2 ex2]] eqn:Er.
        inversion H; subst; clear H.
        destruct (IH _ _ _ _ _ Er) as (Hh & Hv & He & Hl).
        split; [intros j; rewrite Hh, hopefulb_add_vote; reflexivity|].
        split; [|split].
        -- intros j Hj Hk. simpl.
           assert (Ob: owns j b = false).
           { unfold owns. destruct (top b) as [x|]; [|reflexivity]. apply Nat.eqb_eq in Eo. subst.
             apply Nat.eqb_neq. auto. }
           rewrite Ob.
           assert (Hk': forall b0, In b0 t' -> owns j b0 = true -> find_c (add_vote cs c (value (advance cs b))) j <> None).
           { intros b0 Hi Ho. rewrite find_add_vote. specialize (Hk b0 (or_intror Hi) Ho).
             destruct (find_c cs j); [destruct (Nat.eqb c j); discriminate|congruence]. }
           specialize (Hv j Hj Hk'). rewrite vote_of_add_vote in Hv.
           unfold owns at 1. rewrite Et.
           destruct (Nat.eqb c j) eqn:Ecj.
           ++ assert (F: find_c cs j <> None).
              { apply (Hk (advance cs b)); [left; reflexivity|]. unfold owns. rewrite Et. exact Ecj. }
              destruct (find_c cs j); [|congruence]. lia.
           ++ lia.
        -- simpl. rewrite Et. unfold top in Eo. fold (top b) in Eo. destruct (top b); [|discriminate]. lia.
        -- simpl. lia.
      * destruct (transfer_from d t (cs, ex + value (advance cs b))) as [t' [cs2 ex2]] eqn:Er.
        inversion H; subst; clear H.
        destruct (IH _ _ _ _ _ Er) as (Hh & Hv & He & Hl).
        split; [exact Hh|]. split; [|split].
        -- intros j Hj Hk. simpl.
           assert (Ob: owns j b = false).
           { unfold owns. destruct (top b) as [x|]; [|reflexivity]. apply Nat.eqb_eq in Eo. subst. apply Nat.eqb_neq. auto. }
           rewrite Ob. unfold owns at 1. rewrite Et.
           assert (Hk': forall b0, In b0 t' -> owns j b0 = true -> find_c cs j <> None) by (intros; eapply Hk; [right|]; eauto).
           specialize (Hv j Hj Hk'). lia.
        -- simpl. rewrite Et. destruct (top b); [|discriminate]. lia.
        -- simpl. lia.
    + destruct (transfer_from d t (cs, ex)) as [t' [cs2 ex2]] eqn:Er.
      inversion H; subst; clear H.
      destruct (IH _ _ _ _ _ Er) as (Hh & Hv & He & Hl).
      split; [exact Hh|]. split; [|split].
      * intros j Hj Hk. simpl.
        assert (Hk': forall b0, In b0 t' -> owns j b0 = true -> find_c cs j <> None) by (intros; eapply Hk; [right|]; eauto).
        specialize (Hv j Hj Hk'). lia.
      * simpl. lia.
      * simpl. lia.
Qed.
Print Assumptions transfer_from_spec.
