From Coq Require Import ZArith Lia PArith.
Open Scope Z_scope.
Section L.
Variable St : Type.
Variable step : St -> St + St.      (* inl s' = continue with s', inr s' = finished with s' *)
(* run up to p steps; None = out of fuel *)
Fixpoint loopP (p : positive) (s : St) : St + St :=   (* inl = still running after p steps *)
  match p with
  | xH => step s
  | xO q => match loopP q s with inl s' => loopP q s' | r => r end
  | xI q => match step s with
            | inl s1 => match loopP q s1 with inl s2 => loopP q s2 | r => r end
            | r => r end
  end.

(* n-fold iteration semantics *)
Fixpoint iterN (n : nat) (s : St) : St + St :=
  match n with O => inl s | S k => match step s with inl s' => iterN k s' | r => r end end.

Lemma iterN_add a b s : iterN (a + b) s = match iterN a s with inl s' => iterN b s' | r => r end.
Proof. revert s; induction a as [|a IH]; intros s; simpl; [reflexivity|]. destruct (step s); [apply IH|reflexivity]. Qed.

Lemma loopP_iterN p s : loopP p s = iterN (Pos.to_nat p) s.
Proof.
  revert s; induction p as [q IH|q IH|]; intros s; cbn [loopP].
  - rewrite Pos2Nat.inj_xI. cbn [iterN Nat.mul]. destruct (step s) as [s1|]; [|reflexivity].
    replace (Pos.to_nat q + (Pos.to_nat q + 0))%nat with (Pos.to_nat q + Pos.to_nat q)%nat by lia.
    rewrite iterN_add, IH. destruct (iterN (Pos.to_nat q) s1); [apply IH|reflexivity].
  - rewrite Pos2Nat.inj_xO. cbn [Nat.mul].
    replace (Pos.to_nat q + (Pos.to_nat q + 0))%nat with (Pos.to_nat q + Pos.to_nat q)%nat by lia.
    rewrite iterN_add, IH. destruct (iterN (Pos.to_nat q) s); [apply IH|reflexivity].
  - rewrite Pos2Nat.inj_1. cbn [iterN]. destruct (step s); reflexivity.
Qed.

(* termination by an integer measure that strictly decreases on every continuing step *)
Variable mu : St -> Z.
Hypothesis mu_dec : forall s s', step s = inl s' -> 0 <= mu s' < mu s.

Lemma iterN_finishes : forall n s, 0 <= mu s -> mu s < Z.of_nat n -> exists s', iterN n s = inr s'.
Proof.
  induction n as [|n IH]; intros s H0 H; [simpl in H; lia|].
  simpl. destruct (step s) as [s1|s1] eqn:E; [|eauto].
  pose proof (mu_dec _ _ E). apply IH; lia.
Qed.

Theorem loopP_finishes s : 0 <= mu s -> exists s', loopP (Z.to_pos (mu s + 1)) s = inr s'.
Proof.
  intros H. rewrite loopP_iterN. apply iterN_finishes; [assumption|].
  rewrite <- Z2Nat.inj_pos, Z2Pos.id by lia. rewrite Z2Nat.id; lia.
Qed.
End L.
Print Assumptions loopP_finishes.
