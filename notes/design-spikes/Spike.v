From Coq Require Import ZArith List Bool Lia.
Import ListNotations.
Open Scope Z_scope.

(* ---- command trees with break/continue, fuelled loops ---- *)
Section Cmd.
Variable St : Type.
Inductive ctl := Next | Brk | Cont.
Inductive cmd :=
| Do (f : St -> St)
| Seq (a b : cmd)
| Ite (g : St -> bool) (a b : cmd)
| Loop (g : St -> bool) (body : cmd)   (* while g: body *)
| Break | Continue | Skip.

Fixpoint loop (run : St -> option (St * ctl)) (g : St -> bool) (n : nat) (s : St) : option (St * ctl) :=
  match n with
  | O => None
  | S n' => if g s then
              match run s with
              | Some (s', Brk) => Some (s', Next)
              | Some (s', _) => loop run g n' s'
              | None => None end
            else Some (s, Next)
  end.
Fixpoint exec (fuel : nat) (c : cmd) (s : St) : option (St * ctl) :=
  match c with
  | Do f => Some (f s, Next)
  | Skip => Some (s, Next)
  | Break => Some (s, Brk)
  | Continue => Some (s, Cont)
  | Seq a b => match exec fuel a s with
               | Some (s', Next) => exec fuel b s'
               | r => r end
  | Ite g a b => if g s then exec fuel a s else exec fuel b s
  | Loop g body => loop (exec fuel body) g fuel s
  end.

(* unary meta-theorem *)
Variable Inv : St -> Prop.
Fixpoint pres (c : cmd) : Prop :=
  match c with
  | Do f => forall s, Inv s -> Inv (f s)
  | Seq a b | Ite _ a b => pres a /\ pres b
  | Loop _ b => pres b
  | _ => True end.

Lemma exec_inv : forall c fuel s s' k, pres c -> Inv s -> exec fuel c s = Some (s', k) -> Inv s'.
Proof.
  induction c; intros fuel s s' k Hp Hi He; simpl in *.
  - inversion He; subst; auto.
  - destruct Hp as [Ha Hb]. destruct (exec fuel c1 s) as [[s1 k1]|] eqn:E1; try discriminate.
    assert (Inv s1) by (eapply IHc1; eauto).
    destruct k1; [eapply IHc2; eauto | inversion He; subst; auto | inversion He; subst; auto].
  - destruct Hp as [Ha Hb]. destruct (g s); eauto.
  - revert s Hi He. generalize fuel at 2. intro n. induction n as [|n IHn]; intros s Hi He; simpl in He; try discriminate.
    destruct (g s).
    + destruct (exec fuel c s) as [[s1 k1]|] eqn:E1; try discriminate.
      assert (Inv s1) by (eapply IHc; eauto).
      destruct k1; [eapply IHn; eauto | inversion He; subst; auto | eapply IHn; eauto].
    + inversion He; subst; auto.
  - inversion He; subst; auto.
  - inversion He; subst; auto.
  - inversion He; subst; auto.
Qed.
End Cmd.

(* relational meta-theorem: two interpretations of the same shape *)
Section Rel.
Variables S1 S2 : Type.
Variable R : S1 -> S2 -> Prop.
Inductive sim : cmd S1 -> cmd S2 -> Prop :=
| sDo f1 f2 : (forall a b, R a b -> R (f1 a) (f2 b)) -> sim (Do _ f1) (Do _ f2)
| sSeq a1 b1 a2 b2 : sim a1 a2 -> sim b1 b2 -> sim (Seq _ a1 b1) (Seq _ a2 b2)
| sIte g1 g2 a1 b1 a2 b2 : (forall a b, R a b -> g1 a = g2 b) -> sim a1 a2 -> sim b1 b2 -> sim (Ite _ g1 a1 b1) (Ite _ g2 a2 b2)
| sLoop g1 g2 b1 b2 : (forall a b, R a b -> g1 a = g2 b) -> sim b1 b2 -> sim (Loop _ g1 b1) (Loop _ g2 b2)
| sBrk : sim (Break _) (Break _) | sCont : sim (Continue _) (Continue _) | sSkip : sim (Skip _) (Skip _).

Definition Rres (r1 : option (S1 * ctl)) (r2 : option (S2 * ctl)) :=
  match r1, r2 with
  | Some (a, k1), Some (b, k2) => R a b /\ k1 = k2
  | None, None => True | _, _ => False end.

Lemma exec_sim : forall c1 c2, sim c1 c2 -> forall fuel a b, R a b -> Rres (exec _ fuel c1 a) (exec _ fuel c2 b).
Proof.
  induction 1; intros fuel a b HR; simpl.
  - split; auto.
  - specialize (IHsim1 fuel a b HR). destruct (exec S1 fuel a1 a) as [[x k]|], (exec S2 fuel a2 b) as [[y k']|]; simpl in *; try tauto.
    destruct IHsim1 as [HR' ->]. destruct k'; simpl; auto.
  - rewrite (H a b HR). destruct (g2 b); auto.
  - generalize fuel at 2 4. intro n. revert a b HR. induction n as [|n IHn]; intros a b HR; simpl; auto.
    rewrite (H a b HR). destruct (g2 b); simpl; auto.
    specialize (IHsim fuel a b HR). destruct (exec S1 fuel b1 a) as [[x k]|], (exec S2 fuel b2 b) as [[y k']|]; simpl in *; try tauto.
    destruct IHsim as [HR' ->]. destruct k'; simpl; auto.
  - split; auto.
  - split; auto.
  - split; auto.
Qed.
End Rel.

(* ---- truncating surplus transfer conserves: sum floor(floor(w*s/S)*S/v)*m <= s when sum w*m = v ---- *)
Definition fmul (S a b : Z) := (a * b) / S.
Definition fdiv (S a b : Z) := (a * S) / b.
Fixpoint sumf (f : Z * Z -> Z) (l : list (Z * Z)) : Z :=
  match l with [] => 0 | x :: t => f x + sumf f t end.
Lemma one_ballot S w s v m : 0 < S -> 0 < v -> 0 <= w -> 0 <= s -> 0 <= m ->
  fdiv S (fmul S w s) v * m * v <= w * m * s.
Proof.
  intros. unfold fdiv, fmul.
  assert (w * s / S * S <= w * s) by (rewrite Z.mul_comm; apply Z.mul_div_le; lia).
  assert (w * s / S * S / v * v <= w * s / S * S) by (rewrite (Z.mul_comm _ v); apply Z.mul_div_le; lia).
  nia.
Qed.
Lemma transfer_le S s v l : 0 < S -> 0 < v -> 0 <= s ->
  Forall (fun x => 0 <= fst x /\ 0 <= snd x) l ->
  sumf (fun x => fst x * snd x) l = v ->
  sumf (fun x => fdiv S (fmul S (fst x) s) v * snd x) l <= s.
Proof.
  intros HS Hv Hs Hall Hsum.
  assert (G: sumf (fun x => fdiv S (fmul S (fst x) s) v * snd x) l * v <= sumf (fun x => fst x * snd x) l * s).
  { clear Hsum. induction Hall as [|[w m] t [Hw Hm] _ IH]; simpl in *; [lia|].
    pose proof (one_ballot S w s v m HS Hv Hw Hs Hm). nia. }
  rewrite Hsum in G. nia.
Qed.
Print Assumptions transfer_le.
Print Assumptions exec_sim.
