From Coq Require Import ZArith List.
From Coq Require Import ExtrOcamlBasic ExtrOcamlNativeString ExtrOcamlZBigInt.
Open Scope Z_scope.
Definition SC := 10^27.
Fixpoint iter (n:nat) (a b acc:Z) : Z :=
  match n with O => acc | S n' =>
    let x := (a * b) / SC in
    let y := (x * SC) / (b + 1) in
    iter n' (a+12345678901234567) (b+98765432109876543) (acc + y) end.
Definition bench (n:nat) := iter n (3*10^26+7) (7*10^26+3) 0.
Definition show (z:Z) : bool := Z.even z.
Extraction "bench.ml" bench show.
