(* RenderLemmas: the reader recovers an abstract election from every token sequence that renders it
   (Model/ProfileSpec.v: renders, norm), for Props/C15.v. *)
From Coq Require Import ZArith String Ascii List Bool Lia.
From Droop Require Import Model.KernelBase Model.Str Gen.UnicodeTables Model.Profile Model.ProfileSpec
  Proofs.ParserLemmas.
Import ListNotations.
Open Scope Z_scope.

(* ------------------------------------------------------------------ decimal tokens *)
Lemma all_digits_cons d : all_digits d = true -> exists c r, d = c :: r /\ is_digit c = true /\ forallb is_digit r = true.
Proof.
  unfold all_digits. destruct d as [|c r]; [discriminate|]. intro H. cbn [forallb] in H.
  apply andb_true_iff in H. destruct H. exists c, r. auto.
Qed.

Lemma all_digits_forall d : all_digits d = true -> Forall (fun c => is_digit c = true) d.
Proof.
  unfold all_digits. destruct d as [|c r]; [discriminate|]. intro H. apply Forall_forall.
  rewrite forallb_forall in H. exact H.
Qed.

Lemma digits_avoid k d : is_digit k = false -> all_digits d = true -> ~ In k d.
Proof.
  intros Hk Hd Hin. apply all_digits_forall in Hd. rewrite Forall_forall in Hd. specialize (Hd _ Hin). congruence.
Qed.

Lemma starts_with_head k d : starts_with [k] d = true -> exists r, d = k :: r.
Proof.
  destruct d as [|x r]; intro H; [discriminate H|].
  change (((k =? x) && true) = true) in H. apply andb_true_iff in H. destruct H as [H _]. apply Z.eqb_eq in H.
  subst. exists r. reflexivity.
Qed.

Lemma digits_not_start k d : is_digit k = false -> all_digits d = true -> starts_with [k] d = false.
Proof.
  intros Hk Hd. destruct (starts_with [k] d) eqn:E; [|reflexivity].
  apply starts_with_head in E. destruct E as [r ->]. exfalso. apply (digits_avoid k (k :: r) Hk Hd). left. reflexivity.
Qed.

Lemma not_digit_LBRK : is_digit cLBRK = false. Proof. vm_compute. reflexivity. Qed.
Lemma not_digit_LPAR : is_digit cLPAR = false. Proof. vm_compute. reflexivity. Qed.
Lemma not_digit_EQ : is_digit cEQ = false. Proof. vm_compute. reflexivity. Qed.
Lemma not_digit_MINUS : is_digit cMINUS = false. Proof. vm_compute. reflexivity. Qed.
Lemma not_digit_QUOTE : is_digit cQUOTE = false. Proof. vm_compute. reflexivity. Qed.

Lemma py_int_digits_ok d : all_digits d = true -> Z.of_nat (List.length d) <= int_max_str_digits ->
  p_int d = Ok (int_of_digits d).
Proof.
  intros Hd Hlen. pose proof (all_digits_not_minus d Hd) as Hm. unfold p_int, py_int.
  destruct d as [|c r]; [contradiction|]. rewrite Hm.
  destruct (int_max_str_digits <? Z.of_nat (List.length (c :: r))) eqn:E; [apply Z.ltb_lt in E; lia|]. reflexivity.
Qed.

Lemma p_int_denotes d v : denotes d v -> p_int d = Ok v.
Proof. intros (Hd & Hv & Hl). rewrite <- Hv. apply py_int_digits_ok; auto. Qed.

Lemma denotes_nonneg d v : denotes d v -> 0 <= v.
Proof. intros (Hd & Hv & Hl). rewrite <- Hv. apply int_of_digits_nonneg. Qed.

Lemma p_int_minus d v : denotes d v -> p_int (cMINUS :: d) = Ok (- v).
Proof.
  intros (Hd & Hv & Hl). unfold p_int, py_int. rewrite Z.eqb_refl.
  destruct (int_max_str_digits <? Z.of_nat (List.length d)) eqn:E; [apply Z.ltb_lt in E; lia|]. rewrite Hv. reflexivity.
Qed.

Lemma is_sdigits_digits d : all_digits d = true -> is_sdigits d = true.
Proof.
  intro Hd. pose proof (all_digits_not_minus d Hd) as Hm. unfold is_sdigits.
  destruct d as [|c r]; [contradiction|]. rewrite Hm. exact Hd.
Qed.

Lemma is_sdigits_minus d : all_digits d = true -> is_sdigits (cMINUS :: d) = true.
Proof. intro Hd. unfold is_sdigits. rewrite Z.eqb_refl. exact Hd. Qed.

Lemma denotes_not_zero_token d v : denotes d v -> 1 <= v -> ustr_eqb d [cZERO] = false.
Proof.
  intros (Hd & Hv & Hl) H1. destruct (ustr_eqb d [cZERO]) eqn:E; [|reflexivity].
  apply ustr_eqb_eq in E. subst d. vm_compute in Hv. lia.
Qed.

Lemma getCid_denotes st d c : denotes d c -> in_range (s_nCand st) c -> getCid st d = Ok c.
Proof.
  intros Hd [H1 H2]. unfold getCid. destruct Hd as (Hd & Hv & Hl). rewrite Hd.
  rewrite (py_int_digits_ok d Hd Hl). rewrite Hv. cbn [bind].
  assert (E : (0 <? c) && (c <=? s_nCand st) = true).
  { apply andb_true_iff. split; [apply Z.ltb_lt | apply Z.leb_le]; lia. }
  rewrite E. reflexivity.
Qed.

(* ------------------------------------------------------------------ equal-rank groups *)
Lemma split_on_aux_nochar c s : forall cur, ~ In c s -> split_on_aux c s cur = [rev cur ++ s].
Proof.
  induction s as [|x t IH]; intros cur Hn; cbn [split_on_aux].
  - rewrite app_nil_r. reflexivity.
  - destruct (x =? c) eqn:E; [apply Z.eqb_eq in E; subst; exfalso; apply Hn; left; reflexivity|].
    rewrite IH by (intro; apply Hn; right; assumption). cbn [rev]. rewrite <- app_assoc. reflexivity.
Qed.

Lemma split_on_aux_app c a : forall b cur, ~ In c a ->
  split_on_aux c (a ++ c :: b) cur = (rev cur ++ a) :: split_on_aux c b [].
Proof.
  induction a as [|x t IH]; intros b cur Hn; cbn [app split_on_aux].
  - rewrite Z.eqb_refl. rewrite app_nil_r. reflexivity.
  - destruct (x =? c) eqn:E; [apply Z.eqb_eq in E; subst; exfalso; apply Hn; left; reflexivity|].
    rewrite IH by (intro; apply Hn; right; assumption). cbn [rev]. rewrite <- app_assoc. reflexivity.
Qed.

Lemma split_join_eq ds : ds <> [] -> Forall (fun d => ~ In cEQ d) ds -> split_on cEQ (join_eq ds) = ds.
Proof.
  induction ds as [|d r IH]; intros Hne Hf; [congruence|].
  inversion Hf as [|? ? Hd Hr]; subst. destruct r as [|d2 r'].
  - cbn [join_eq]. unfold split_on. rewrite split_on_aux_nochar by exact Hd. reflexivity.
  - change (join_eq (d :: d2 :: r')) with (d ++ cEQ :: join_eq (d2 :: r')). unfold split_on.
    rewrite split_on_aux_app by exact Hd. cbn [rev app]. f_equal. apply IH; [discriminate | exact Hr].
Qed.

Lemma map_res_getCid st ds g : Forall2 denotes ds g -> Forall (in_range (s_nCand st)) g ->
  map_res (getCid st) ds = Ok g.
Proof.
  induction 1 as [|d c ds g Hd Hrest IH]; intro Hr; [reflexivity|].
  inversion Hr as [|? ? Hc Hg]; subst. cbn [map_res]. rewrite (getCid_denotes st d c Hd Hc). cbn [bind].
  rewrite (IH Hg). reflexivity.
Qed.

Lemma group_token_spec st tok g : group_token tok g -> g <> [] -> Forall (in_range (s_nCand st)) g ->
  ustr_eqb tok [cZERO] = false /\ map_res (getCid st) (split_on cEQ tok) = Ok g.
Proof.
  intros [ds [Hds ->]] Hne Hr. assert (Hds_ne : ds <> []) by (intro; subst; inversion Hds; congruence).
  assert (Hnoeq : Forall (fun d => ~ In cEQ d) ds).
  { clear -Hds. induction Hds as [|d c ds g Hd _ IH]; constructor; auto.
    apply digits_avoid; [apply not_digit_EQ | destruct Hd; assumption]. }
  split.
  - destruct Hds as [|d c ds g Hd Hrest]; [congruence|]. inversion Hr as [|? ? Hc _]; subst.
    destruct ds as [|d2 ds'].
    + cbn [join_eq]. apply (denotes_not_zero_token d c Hd). destruct Hc; assumption.
    + change (join_eq (d :: d2 :: ds')) with (d ++ cEQ :: join_eq (d2 :: ds')).
      destruct (ustr_eqb (d ++ cEQ :: join_eq (d2 :: ds')) [cZERO]) eqn:E; [|reflexivity].
      apply ustr_eqb_eq in E. destruct Hd as (Hd & _). apply all_digits_cons in Hd. destruct Hd as [x [r [-> _]]].
      cbn [app] in E. injection E as _ E2. destruct r; discriminate E2.
  - rewrite split_join_eq by assumption. apply map_res_getCid; assumption.
Qed.

(* ------------------------------------------------------------------ withdrawn candidates given as -n *)
Lemma set_withdrawn_twice st a b : set_withdrawn (set_withdrawn st a) b = set_withdrawn st b.
Proof. reflexivity. Qed.

Lemma opts_minus wds ws : Forall2 denotes wds ws -> forall st rest,
  Forall (in_range (s_nCand st)) ws -> NoDup ws -> (forall c, In c ws -> ~ In c (s_withdrawn st)) ->
  opts (map (fun d => cMINUS :: d) wds ++ rest) st ONone =
  opts rest (set_withdrawn st (fold_left (fun acc c => zset_add c acc) ws (s_withdrawn st))) ONone.
Proof.
  induction 1 as [|d v wds ws Hd Hrest IH]; intros st rest Hr Hnd Hfresh.
  - cbn [map app fold_left]. destruct st; reflexivity.
  - inversion Hr as [|? ? Hv Hr']; subst. inversion Hnd as [|? ? Hnotin Hnd']; subst.
    cbn [map app opts].
    assert (E1 : starts_with [cLBRK] (cMINUS :: d) = false) by reflexivity.
    assert (E2 : starts_with [cLPAR] (cMINUS :: d) = false) by reflexivity.
    rewrite E1, E2. destruct Hd as (Hd1 & Hd2 & Hd3).
    rewrite (is_sdigits_minus d Hd1). rewrite (p_int_minus d v (conj Hd1 (conj Hd2 Hd3))).
    cbn [lift pbind]. rewrite Z.opp_involutive. destruct Hv as [Hv1 Hv2].
    assert (E3 : (v <=? 0) = false) by (apply Z.leb_gt; lia). rewrite E3.
    assert (E4 : (s_nCand st <? v) = false) by (apply Z.ltb_ge; lia). rewrite E4.
    assert (E5 : zmem v (s_withdrawn st) = false) by (apply zmem_notin; apply Hfresh; left; reflexivity). rewrite E5.
    rewrite IH.
    + rewrite set_withdrawn_twice. reflexivity.
    + exact Hr'.
    + exact Hnd'.
    + intros c Hc Hin. cbn in Hin. apply in_zset_add in Hin. destruct Hin as [->|Hin]; [contradiction|].
      apply (Hfresh c); [right; exact Hc | exact Hin].
Qed.

Lemma opts_break d m st rest : denotes d m -> opts (d :: rest) st ONone = POk (st, d :: rest).
Proof.
  intro Hd. pose proof (denotes_nonneg d m Hd) as Hm. pose proof (p_int_denotes d m Hd) as Hp.
  destruct Hd as (Hd1 & _). cbn [opts].
  rewrite (digits_not_start cLBRK d not_digit_LBRK Hd1). rewrite (digits_not_start cLPAR d not_digit_LPAR Hd1).
  rewrite (is_sdigits_digits d Hd1). rewrite Hp. cbn [lift pbind].
  assert (E : (- m <=? 0) = true) by (apply Z.leb_le; lia). rewrite E. reflexivity.
Qed.

(* ------------------------------------------------------------------ ballots *)
Definition groups_ok (n : Z) (groups : list (list Z)) : Prop :=
  Forall (fun g => g <> [] /\ Forall (in_range n) g) groups.

Lemma ballots_groups gtoks groups : Forall2 group_token gtoks groups -> forall st m acc rest,
  groups_ok (s_nCand st) groups ->
  ballots (gtoks ++ rest) st (BRank m acc) = ballots rest st (BRank m (acc ++ groups)).
Proof.
  induction 1 as [|tok g gtoks groups Hg Hrest IH]; intros st m acc rest Hok.
  - cbn [app]. rewrite app_nil_r. reflexivity.
  - inversion Hok as [|? ? [Hne Hr] Hok']; subst.
    destruct (group_token_spec st tok g Hg Hne Hr) as [E1 E2].
    cbn [app ballots]. rewrite E1, E2. cbn [lift pbind]. rewrite (IH st m (acc ++ [g]) rest Hok').
    rewrite <- app_assoc. reflexivity.
Qed.

Lemma ballots_one toks m groups st rest : ballot_tokens toks (m, groups) -> 1 <= m ->
  groups_ok (s_nCand st) groups ->
  ballots (toks ++ rest) st BHead =
  pbind (lift (match groups with [] => Ok st | _ => ballot_line st m groups end)) (fun st' => ballots rest st' BHead).
Proof.
  intros [dm [gtoks (Hdm & Hg & ->)]] Hm Hok. cbn [fst snd] in *.
  pose proof (p_int_denotes dm m Hdm) as Hp. destruct Hdm as (Hd1 & _).
  cbn [app ballots]. rewrite (digits_not_start cLPAR dm not_digit_LPAR Hd1). rewrite Hd1. rewrite Hp.
  cbn [lift pbind]. assert (E : (m =? 0) = false) by (apply Z.eqb_neq; lia). rewrite E.
  rewrite <- app_assoc. rewrite (ballots_groups gtoks groups Hg st m [] _ Hok).
  cbn [app ballots]. assert (E0 : ustr_eqb [cZERO] [cZERO] = true) by reflexivity. rewrite E0. reflexivity.
Qed.

Definition norm_step (st : pst) (m : Z) (groups : list (list Z)) : pst :=
  let stripped := map (strip_w (s_withdrawn st)) groups in
  match filter nonempty stripped with
  | [] => st
  | gs => if existsb (fun g => 1 <? Z.of_nat (List.length g)) stripped then add_lineEq st m gs
          else add_line st m (map (fun g => hd 0 g) gs)
  end.

Lemma existsb_false_intro {A} (f : A -> bool) l : (forall x, In x l -> f x = false) -> existsb f l = false.
Proof.
  induction l as [|a l IH]; intro H; [reflexivity|]. cbn [existsb]. rewrite (H a (or_introl eq_refl)).
  rewrite IH; [reflexivity|]. intros x Hx. apply H. right. exact Hx.
Qed.

Lemma ballot_line_norm st m groups : groups_ok (s_nCand st) groups -> s_nCand st < 18446744073709551616 ->
  ballot_line st m groups = Ok (norm_step st m groups).
Proof.
  intros Hok Hsmall. unfold ballot_line, norm_step, strip_w. cbv zeta.
  change (fun r : list Z => match r with [] => false | _ :: _ => true end) with (@nonempty Z).
  set (stripped := map (filter (fun c : Z => negb (zmem c (s_withdrawn st)))) groups).
  destruct (filter nonempty stripped) as [|r0 rs] eqn:Ef; [reflexivity|].
  destruct (existsb (fun g => 1 <? Z.of_nat (List.length g)) stripped); [reflexivity|].
  rewrite existsb_false_intro; [reflexivity|].
  intros c Hc. apply in_map_iff in Hc. destruct Hc as [r [Hrc Hr]]. rewrite <- Ef in Hr.
  apply filter_In in Hr. destruct Hr as [Hr1 Hr2]. destruct r as [|c0 r']; [discriminate Hr2|]. cbn [hd] in Hrc. subst c0.
  subst stripped. apply in_map_iff in Hr1. destruct Hr1 as [g [Hg1 Hg2]].
  assert (Hcg : In c g). { assert (In c (c :: r')) by (left; reflexivity). rewrite <- Hg1 in H. apply filter_In in H. tauto. }
  unfold groups_ok in Hok. rewrite Forall_forall in Hok. destruct (Hok g Hg2) as [_ Hrange].
  rewrite Forall_forall in Hrange. destruct (Hrange c Hcg) as [Hc1 Hc2].
  apply orb_false_iff. split; [apply Z.ltb_ge; lia|]. apply Z.ltb_ge. unfold array_max.
  destruct (s_nCand st <? 256) eqn:E1; [apply Z.ltb_lt in E1; lia|].
  destruct (s_nCand st <? 65536) eqn:E2; [apply Z.ltb_lt in E2; lia|]. lia.
Qed.

Definition apply_norm (st : pst) (r : Z * list (Z * list Z) * list (Z * list (list Z))) : pst :=
  let '(tot, ls, es) := r in
  mkPst (s_nCand st) (s_nSeats st) (s_withdrawn st) (s_undeclared st) (s_tieOrder st) (s_nickName st) (s_nickCid st)
        (s_options st) (s_nBallots st + tot) (s_lines st ++ ls) (s_linesEq st ++ es) (s_ballotIDs st).

Lemma apply_norm_nil st : apply_norm st (0, [], []) = st.
Proof. destruct st. unfold apply_norm. cbn. rewrite !app_nil_r. rewrite Z.add_0_r. reflexivity. Qed.

Lemma norm_step_then st m groups r : 
  apply_norm (norm_step st m groups) r =
  apply_norm st (let '(tot, ls, es) := r in
                 let stripped := map (strip_w (s_withdrawn st)) groups in
                 match filter nonempty stripped with
                 | [] => (tot, ls, es)
                 | gs => if existsb (fun g => 1 <? Z.of_nat (List.length g)) stripped then (m + tot, ls, (m, gs) :: es)
                         else (m + tot, (m, map (fun g => hd 0 g) gs) :: ls, es)
                 end).
Proof.
  destruct r as [[tot ls] es]. unfold norm_step. cbv zeta.
  destruct (filter nonempty (map (strip_w (s_withdrawn st)) groups)) as [|r0 rs]; [reflexivity|].
  destruct (existsb _ _); unfold apply_norm, add_lineEq, add_line; cbn; rewrite <- ?app_assoc; cbn [app];
    rewrite Z.add_assoc; reflexivity.
Qed.

Lemma norm_step_fields st m groups :
  s_nCand (norm_step st m groups) = s_nCand st /\ s_withdrawn (norm_step st m groups) = s_withdrawn st.
Proof.
  unfold norm_step. cbv zeta. destruct (filter _ _); [auto|]. destruct (existsb _ _); auto.
Qed.

Lemma ballots_all btoks bs : Forall2 ballot_tokens btoks bs -> forall st dz rest,
  Forall (fun b => 1 <= fst b /\ groups_ok (s_nCand st) (snd b)) bs -> s_nCand st < 18446744073709551616 ->
  denotes dz 0 ->
  ballots (concat btoks ++ dz :: rest) st BHead = POk (apply_norm st (norm_ballots (s_withdrawn st) bs), rest).
Proof.
  induction 1 as [|toks b btoks bs Hb Hrest IH]; intros st dz rest Hok Hsmall Hdz.
  - cbn [concat app norm_ballots]. rewrite apply_norm_nil.
    pose proof (p_int_denotes dz 0 Hdz) as Hp. destruct Hdz as (Hd1 & _). cbn [ballots].
    rewrite (digits_not_start cLPAR dz not_digit_LPAR Hd1). rewrite Hd1, Hp. reflexivity.
  - inversion Hok as [|? ? [Hm Hg] Hok']; subst. destruct b as [m groups]. cbn [fst snd] in *.
    cbn [concat]. rewrite <- app_assoc. rewrite (ballots_one toks m groups st _ Hb Hm Hg).
    destruct (norm_step_fields st m groups) as [Hf1 Hf2].
    assert (Hline : match groups with [] => Ok st | _ => ballot_line st m groups end = Ok (norm_step st m groups)).
    { destruct groups as [|g0 gs]; [reflexivity|]. apply ballot_line_norm; assumption. }
    rewrite Hline. cbn [lift pbind]. rewrite (IH (norm_step st m groups) dz rest).
    + rewrite Hf2. rewrite norm_step_then. cbn [norm_ballots].
      destruct (norm_ballots (s_withdrawn st) bs) as [[tot ls] es]. reflexivity.
    + rewrite Hf1. exact Hok'.
    + rewrite Hf1. exact Hsmall.
    + exact Hdz.
Qed.

(* ------------------------------------------------------------------ quoted strings *)
Lemma starts_with1 k x r : starts_with [k] (x :: r) = (k =? x).
Proof. change (starts_with [k] (x :: r)) with ((k =? x) && true). apply andb_true_r. Qed.
Lemma starts_with1_nil k : starts_with [k] [] = false.
Proof. reflexivity. Qed.

Lemma ends_with_snoc q s : ends_with [q] (s ++ [q]) = true.
Proof. unfold ends_with. rewrite rev_app_distr. cbn [rev app]. rewrite starts_with1. apply Z.eqb_refl. Qed.

Lemma ends_with_app q a b : b <> [] -> ends_with [q] (a ++ b) = ends_with [q] b.
Proof.
  intro Hb. unfold ends_with. rewrite rev_app_distr. destruct (rev b) as [|x y] eqn:E.
  - exfalso. apply Hb. rewrite <- (rev_involutive b). rewrite E. reflexivity.
  - cbn [rev app]. rewrite !starts_with1. reflexivity.
Qed.

Lemma ends_with_in q s : ends_with [q] s = true -> In q s.
Proof.
  unfold ends_with. destruct (rev s) as [|x y] eqn:E; cbn [rev app]; [rewrite starts_with1_nil; discriminate|].
  rewrite starts_with1. intro H. apply Z.eqb_eq in H. subst x.
  apply in_rev. rewrite E. left. reflexivity.
Qed.

Lemma ends_with_notin q s : ~ In q s -> ends_with [q] s = false.
Proof. intro H. destruct (ends_with [q] s) eqn:E; [|reflexivity]. exfalso. apply H. apply ends_with_in. exact E. Qed.

Lemma read_quoted_eq toks s : read_quoted toks s =
  if ends_with [cQUOTE] s then Some (s, toks)
  else match toks with [] => None | t :: rest => read_quoted rest (s ++ cSP :: t) end.
Proof. destruct toks; reflexivity. Qed.

Lemma join_sp_cons w r : r <> [] -> join_sp (w :: r) = w ++ cSP :: join_sp r.
Proof. destruct r; [congruence | reflexivity]. Qed.

Lemma join_sp_noquote ws : Forall word_ok ws -> ~ In cQUOTE (join_sp ws).
Proof.
  induction ws as [|w r IH]; intro H; [intros []|]. inversion H as [|? ? [_ Hw] Hr]; subst.
  destruct r as [|w2 r']; [exact Hw|]. rewrite join_sp_cons by discriminate.
  intro Hin. apply in_app_or in Hin. destruct Hin as [Hin|[Hin|Hin]].
  - contradiction.
  - unfold cSP, cQUOTE in Hin. lia.
  - apply (IH Hr). exact Hin.
Qed.

Lemma rq_words r : forall acc post, r <> [] -> Forall word_ok r -> ends_with [cQUOTE] acc = false ->
  read_quoted (add_close r ++ post) acc = Some (acc ++ cSP :: join_sp r ++ [cQUOTE], post).
Proof.
  induction r as [|w r IH]; intros acc post Hne Hok Hacc; [congruence|].
  inversion Hok as [|? ? [Hwne Hwq] Hr]; subst. destruct r as [|w2 r'].
  - cbn [add_close app join_sp]. rewrite read_quoted_eq. rewrite Hacc. rewrite read_quoted_eq.
    assert (E : acc ++ cSP :: w ++ [cQUOTE] = (acc ++ cSP :: w) ++ [cQUOTE]) by (rewrite <- app_assoc; reflexivity).
    rewrite E. rewrite ends_with_snoc. reflexivity.
  - change (add_close (w :: w2 :: r')) with (w :: add_close (w2 :: r')). cbn [app].
    rewrite read_quoted_eq. rewrite Hacc.
    assert (Hne2 : w2 :: r' <> []) by (intro HH; discriminate HH).
    assert (Hacc2 : ends_with [cQUOTE] (acc ++ cSP :: w) = false).
    { rewrite ends_with_app by (intro HH; discriminate HH). apply ends_with_notin.
      intros [Hin|Hin]; [unfold cSP, cQUOTE in Hin; lia | contradiction]. }
    rewrite (IH (acc ++ cSP :: w) post Hne2 Hr Hacc2).
    rewrite (join_sp_cons w (w2 :: r') Hne2). repeat (rewrite <- app_assoc; cbn [app]). reflexivity.
Qed.

Lemma quoted_read ws post : Forall word_ok ws -> exists first more,
  quoted_tokens ws = first :: more /\ starts_with [cQUOTE] first = true /\
  read_quoted (more ++ post) first = Some (cQUOTE :: join_sp ws ++ [cQUOTE], post).
Proof.
  intro Hok. destruct ws as [|w r].
  - exists [cQUOTE; cQUOTE], []. repeat split. cbn [app join_sp]. rewrite read_quoted_eq. reflexivity.
  - inversion Hok as [|? ? [Hwne Hwq] Hr]; subst. destruct r as [|w2 r'].
    + exists (cQUOTE :: w ++ [cQUOTE]), []. repeat split. cbn [app join_sp]. rewrite read_quoted_eq.
      change (cQUOTE :: w ++ [cQUOTE]) with ((cQUOTE :: w) ++ [cQUOTE]). rewrite ends_with_snoc. reflexivity.
    + exists (cQUOTE :: w), (add_close (w2 :: r')). repeat split.
      assert (Hne2 : w2 :: r' <> []) by (intro HH; discriminate HH).
      assert (Hacc2 : ends_with [cQUOTE] (cQUOTE :: w) = false).
      { change (cQUOTE :: w) with ([cQUOTE] ++ w). rewrite ends_with_app by exact Hwne. apply ends_with_notin. exact Hwq. }
      rewrite (rq_words (w2 :: r') (cQUOTE :: w) post Hne2 Hr Hacc2).
      rewrite (join_sp_cons w (w2 :: r') Hne2). cbn [app]. repeat (rewrite <- app_assoc; cbn [app]). reflexivity.
Qed.

Lemma lstrip_notin q s : ~ In q s -> forall t, lstrip_c q (s ++ t) = match s with [] => lstrip_c q t | _ => s ++ t end.
Proof.
  intros Hn t. destruct s as [|x s']; [reflexivity|]. cbn [app]. unfold lstrip_c.
  destruct (x =? q) eqn:E; [apply Z.eqb_eq in E; subst; exfalso; apply Hn; left; reflexivity | reflexivity].
Qed.

Lemma strip_quotes body : ~ In cQUOTE body -> strip_c cQUOTE (cQUOTE :: body ++ [cQUOTE]) = body.
Proof.
  intro Hn. unfold strip_c, rstrip_c.
  assert (E1 : lstrip_c cQUOTE (cQUOTE :: body ++ [cQUOTE]) = lstrip_c cQUOTE (body ++ [cQUOTE])).
  { unfold lstrip_c at 1. rewrite Z.eqb_refl. reflexivity. }
  rewrite E1. rewrite (lstrip_notin cQUOTE body Hn). destruct body as [|x b].
  - unfold lstrip_c. rewrite Z.eqb_refl. reflexivity.
  - rewrite rev_app_distr. cbn [rev app]. 
    assert (E2 : lstrip_c cQUOTE (cQUOTE :: (rev b ++ [x])) = lstrip_c cQUOTE (rev b ++ [x])).
    { unfold lstrip_c at 1. rewrite Z.eqb_refl. reflexivity. }
    rewrite E2. assert (Hn' : ~ In cQUOTE (rev b ++ [x])).
    { intro Hin. apply Hn. apply in_app_or in Hin. destruct Hin as [Hin|[Hin|[]]]; [right; apply in_rev; exact Hin | left; exact Hin]. }
    rewrite <- (app_nil_r (rev b ++ [x])). rewrite (lstrip_notin cQUOTE _ Hn').
    destruct (rev b ++ [x]) as [|y z] eqn:E3; [destruct (rev b); discriminate E3|].
    rewrite <- E3. rewrite app_nil_r. rewrite rev_app_distr. cbn [rev app]. rewrite rev_involutive. reflexivity.
Qed.

(* ------------------------------------------------------------------ candidate names *)
Lemma names_none_eq toks n cid acc : names toks n cid None acc =
  if n <? cid then POk (acc, toks)
  else match toks with
       | [] => EPE
       | t :: rest =>
         if negb (starts_with [cQUOTE] t) then EPE
         else if ends_with [cQUOTE] t then names rest n (cid + 1) None (acc ++ [(cid, strip_c cQUOTE t)])
         else names rest n cid (Some t) acc
       end.
Proof. destruct toks; reflexivity. Qed.

Lemma names_some toks : forall name s post n cid acc, ends_with [cQUOTE] name = false ->
  read_quoted toks name = Some (s, post) ->
  names toks n cid (Some name) acc = names post n (cid + 1) None (acc ++ [(cid, strip_c cQUOTE s)]).
Proof.
  induction toks as [|t rest IH]; intros name s post n cid acc Hname Hrq.
  - rewrite read_quoted_eq in Hrq. rewrite Hname in Hrq. discriminate Hrq.
  - rewrite read_quoted_eq in Hrq. rewrite Hname in Hrq. cbn [names].
    destruct (ends_with [cQUOTE] (name ++ cSP :: t)) eqn:E.
    + rewrite read_quoted_eq in Hrq. rewrite E in Hrq. injection Hrq as <- <-. reflexivity.
    + apply IH; assumption.
Qed.

Lemma names_one first toks s post n cid acc : cid <= n -> starts_with [cQUOTE] first = true ->
  read_quoted toks first = Some (s, post) ->
  names (first :: toks) n cid None acc = names post n (cid + 1) None (acc ++ [(cid, strip_c cQUOTE s)]).
Proof.
  intros Hc Hs Hrq. rewrite names_none_eq. assert (E : (n <? cid) = false) by (apply Z.ltb_ge; lia). rewrite E.
  rewrite Hs. cbn [negb]. destruct (ends_with [cQUOTE] first) eqn:Ee.
  - rewrite read_quoted_eq in Hrq. rewrite Ee in Hrq. injection Hrq as <- <-. reflexivity.
  - apply names_some; assumption.
Qed.

Fixpoint number_from (cid : Z) (l : list ustr) : list (Z * ustr) :=
  match l with [] => [] | x :: r => (cid, x) :: number_from (cid + 1) r end.

Lemma names_all nms : forall n cid acc post, Forall (Forall word_ok) nms ->
  cid + Z.of_nat (List.length nms) = n + 1 ->
  names (concat (map quoted_tokens nms) ++ post) n cid None acc =
  POk (acc ++ number_from cid (map join_sp nms), post).
Proof.
  induction nms as [|ws nms IH]; intros n cid acc post Hok Hlen.
  - cbn [map concat app number_from]. rewrite app_nil_r. rewrite names_none_eq.
    cbn [List.length] in Hlen. assert (E : (n <? cid) = true) by (apply Z.ltb_lt; lia). rewrite E. reflexivity.
  - inversion Hok as [|? ? Hws Hrest]; subst. cbn [List.length] in Hlen. rewrite Nat2Z.inj_succ in Hlen.
    cbn [map concat]. rewrite <- app_assoc.
    destruct (quoted_read ws (concat (map quoted_tokens nms) ++ post) Hws) as [first [more (Hq & Hst & Hrq)]].
    rewrite Hq. cbn [app].
    rewrite (names_one first _ _ _ n cid acc ltac:(lia) Hst Hrq).
    rewrite (strip_quotes _ (join_sp_noquote ws Hws)).
    rewrite (IH n (cid + 1) _ post Hrest ltac:(lia)). rewrite <- app_assoc. reflexivity.
Qed.

Lemma number_from_combine l : forall a,
  number_from (Z.of_nat a) l = combine (map Z.of_nat (seq a (List.length l))) l.
Proof.
  induction l as [|x r IH]; intro a; [reflexivity|]. cbn [number_from List.length seq map combine]. f_equal.
  rewrite <- (IH (S a)). f_equal. lia.
Qed.

Lemma number_from_upto l : number_from 1 l = combine (cids_upto (Z.of_nat (List.length l))) l.
Proof. unfold cids_upto. rewrite Nat2Z.id. apply (number_from_combine l 1%nat). Qed.

(* ------------------------------------------------------------------ title, source, comment *)
Lemma opt_string_some ws post : Forall word_ok ws ->
  opt_string (quoted_tokens ws ++ post) = POk (Some (strip_c cSP (join_sp ws), post)).
Proof.
  intro Hok. destruct (quoted_read ws post Hok) as [first [more (Hq & Hst & Hrq)]].
  rewrite Hq. cbn [app]. unfold opt_string. rewrite Hst. cbn [negb]. rewrite Hrq. unfold unquote.
  rewrite (strip_quotes _ (join_sp_noquote ws Hok)). reflexivity.
Qed.

Lemma opt_string_none junk : match junk with [] => True | j :: _ => starts_with [cQUOTE] j = false end ->
  opt_string junk = POk None.
Proof. destruct junk as [|j r]; intro H; [reflexivity|]. unfold opt_string. rewrite H. reflexivity. Qed.

(* ------------------------------------------------------------------ the tail of _bltParse *)
Definition str_of (ws : list ustr) : ustr := strip_c cSP (join_sp ws).

Lemma parse_tail_render st nms title source comment junk :
  s_ballotIDs st = [] -> s_nCand st = Z.of_nat (List.length nms) ->
  Forall (Forall word_ok) nms -> Forall word_ok title ->
  match source with Some ws => Forall word_ok ws | None => comment = None end ->
  match comment with Some ws => Forall word_ok ws | None => True end ->
  match junk with [] => True | j :: _ => comment <> None \/ starts_with [cQUOTE] j = false end ->
  parse_tail st (concat (map quoted_tokens nms) ++ quoted_tokens title ++ opt_quoted source ++ opt_quoted comment ++ junk) =
  POk (mkParsed st (number_from 1 (map join_sp nms)) (str_of title) (option_map str_of source) (option_map str_of comment)).
Proof.
  intros Hids Hn Hnms Htitle Hsrc Hcom Hjunk. unfold parse_tail. rewrite Hids. cbn [andb].
  rewrite (names_all nms (s_nCand st) 1 [] _ Hnms ltac:(lia)). cbn [pbind app].
  destruct (quoted_read title (opt_quoted source ++ opt_quoted comment ++ junk) Htitle) as [first [more (Hq & Hst & Hrq)]].
  rewrite Hq. cbn [app]. rewrite Hst. cbn [negb]. rewrite Hrq. unfold unquote.
  rewrite (strip_quotes _ (join_sp_noquote title Htitle)). fold (str_of title).
  destruct source as [src|].
  - cbn [opt_quoted]. rewrite (opt_string_some src _ Hsrc). cbn [pbind]. fold (str_of src).
    destruct comment as [com|].
    + cbn [opt_quoted]. rewrite (opt_string_some com _ Hcom). cbn [pbind]. reflexivity.
    + cbn [opt_quoted app]. rewrite opt_string_none; [reflexivity|].
      destruct junk as [|j r]; [exact I|]. destruct Hjunk as [H|H]; [congruence | exact H].
  - subst comment. cbn [opt_quoted app]. rewrite opt_string_none; [reflexivity|].
    destruct junk as [|j r]; [exact I|]. destruct Hjunk as [H|H]; [congruence | exact H].
Qed.

(* ------------------------------------------------------------------ __validate on the normal form *)
Lemma nodup_has_dup l : NoDup l -> has_dup l = false.
Proof.
  induction 1 as [|x l Hx Hl IH]; [reflexivity|]. cbn [has_dup].
  assert (E : zmem x l = false) by (apply zmem_notin; exact Hx). rewrite E. exact IH.
Qed.

Lemma map_fst_combine {A B} (a : list A) (b : list B) : List.length a = List.length b -> map fst (combine a b) = a.
Proof.
  revert b. induction a as [|x a IH]; intros b H; destruct b as [|y b]; try discriminate H; [reflexivity|].
  cbn [combine map fst]. f_equal. apply IH. cbn [List.length] in H. lia.
Qed.

Lemma length_cids_upto n : 0 <= n -> List.length (cids_upto n) = Z.to_nat n.
Proof. intro H. unfold cids_upto. rewrite map_length, seq_length. reflexivity. Qed.

(* ------------------------------------------------------------------ C15, token level (core format) *)
Lemma c15_parse_rendered : forall e toks, valid_election e -> renders e toks -> parse_tokens toks = Ok (norm e).
Proof.
  intros e toks Hv (junk & Hjunk & dn & ds & wds & btoks & dz & Hdn & Hds & Hwds & Hbt & Hdz & ->). unfold junk_ok in Hjunk.
  destruct Hv as [Hn [Hwr Hwnd] Hbs Hsmall Hnms Htitle Hsrc Hcom Hseats Henough Hnd HndEq].
  unfold parse_tokens, blt_parse, blt_parse_raw.
  pose proof (p_int_denotes dn _ Hdn) as Hpn. pose proof (p_int_denotes ds _ Hds) as Hps.
  destruct Hdn as (Hdn1 & Hdn2). destruct Hds as (Hds1 & Hds2).
  rewrite Hdn1, Hds1. cbn [negb]. rewrite Hpn, Hps. cbn [lift pbind].
  set (st0 := init_pst (e_nCand e) (e_nSeats e)).
  rewrite (opts_minus wds (e_withdrawn e) Hwds st0 _ Hwr Hwnd (fun c _ H => H)).
  change (fold_left (fun acc c => zset_add c acc) (e_withdrawn e) (s_withdrawn st0)) with (wset (e_withdrawn e)).
  set (w := wset (e_withdrawn e)). set (st1 := set_withdrawn st0 w).
  (* the token that ends the option loop: the first ballot's multiplier, or the final 0 *)
  assert (Hbreak : forall rest, opts (concat btoks ++ dz :: rest) st1 ONone = POk (st1, concat btoks ++ dz :: rest)).
  { intro rest. destruct Hbt as [|toks b btoks' bs' Hb Hrest].
    - cbn [concat app]. apply (opts_break dz 0 st1 rest Hdz).
    - destruct Hb as [dm [gtoks (Hdm & _ & ->)]]. cbn [concat app]. apply (opts_break dm (fst b) st1 _ Hdm). }
  rewrite Hbreak. cbn [pbind].
  assert (Hbs' : Forall (fun b => 1 <= fst b /\ groups_ok (s_nCand st1) (snd b)) (e_ballots e)) by exact Hbs.
  rewrite (ballots_all btoks (e_ballots e) Hbt st1 dz _ Hbs' Hsmall Hdz). cbn [pbind].
  change (s_withdrawn st1) with w.
  set (st2 := apply_norm st1 (norm_ballots w (e_ballots e))).
  assert (Hst2 : s_ballotIDs st2 = [] /\ s_nCand st2 = e_nCand e).
  { subst st2. unfold apply_norm. destruct (norm_ballots w (e_ballots e)) as [[tot ls] es]. split; reflexivity. }
  destruct Hst2 as [Hids Hnc2].
  rewrite (parse_tail_render st2 (e_names e) (e_title e) (e_source e) (e_comment e) junk Hids
             ltac:(rewrite Hnc2; exact Hn) Hnms Htitle Hsrc Hcom Hjunk).
  cbn [bind].
  (* finish *)
  unfold finish. cbn [r_st r_names r_title r_source r_comment]. cbv zeta.
  rewrite number_from_upto. rewrite map_length. rewrite <- Hn.
  assert (Hfst : map fst (combine (cids_upto (e_nCand e)) (map join_sp (e_names e))) = cids_upto (e_nCand e)).
  { apply map_fst_combine. rewrite length_cids_upto by lia. rewrite map_length. lia. }
  rewrite Hfst.
  unfold norm in *. fold w in Hseats, Henough, Hnd, HndEq |- *.
  subst st2. unfold apply_norm in *. destruct (norm_ballots w (e_ballots e)) as [[tot ls] es].
  cbn [s_nCand s_nSeats s_withdrawn s_undeclared s_tieOrder s_nickName s_nickCid s_options s_nBallots s_lines s_linesEq
       st1 st0 set_withdrawn init_pst app] in *.
  cbn [p_eligible p_nBallots p_lines p_linesEq] in Hseats, Henough, Hnd, HndEq.
  set (elig := filter (fun c => negb (zmem c w)) (cids_upto (e_nCand e))) in *.
  unfold validate. cbn [s_nSeats s_nBallots s_lines s_linesEq].
  assert (E1 : (e_nSeats e =? 0) || (Z.of_nat (List.length elig) <? e_nSeats e) = false).
  { apply orb_false_iff. split; [apply Z.eqb_neq | apply Z.ltb_ge]; lia. }
  rewrite E1. rewrite Z.add_0_l.
  assert (E2 : (tot <? Z.of_nat (List.length elig)) = false) by (apply Z.ltb_ge; lia). rewrite E2.
  rewrite existsb_false_intro; [|intros bl Hbl; apply nodup_has_dup; rewrite Forall_forall in Hnd; apply Hnd; exact Hbl].
  rewrite existsb_false_intro; [|intros bl Hbl; apply nodup_has_dup; rewrite Forall_forall in HndEq; apply HndEq; exact Hbl].
  cbn [bind]. f_equal. f_equal.
  rewrite <- Hfst at 2. rewrite map_map. reflexivity.
Qed.
