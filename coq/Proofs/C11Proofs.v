From Coq Require Import ZArith List Bool String PArith.
From Droop Require Import Model.KernelBase Model.Arith Model.Prelude Model.State Model.Prims Model.Election
  Model.Profile Model.ProfileSpec Proofs.ParserLemmas.
Import ListNotations.

Lemma c11_rankings_free_of_withdrawn text p : parse text = Ok p ->
  Forall (line_ok (p_nCand p) (p_withdrawn p)) (p_lines p) /\
  Forall (eline_ok (p_nCand p) (p_withdrawn p)) (p_linesEq p).
Proof. intros H. pose proof (c16_accepted_is_valid text p H) as V. split; [exact (vp_lines p V)|exact (vp_linesEq p V)]. Qed.

Section C11.
Variable A : arith.
Variable cfg : config.

Lemma init_cands_from (l : list pcand) : forall (s0 : est A),
  let s1 := fold_left (fun s p =>
      log_msg A cfg ((if pc_withdrawn p then "Add withdrawn: " else if pc_undeclared p then "Add undeclared: " else "Add eligible: ") ++ pc_name p)%string
              (set_cands s (cands s ++ [init_cand A p])%list)) l s0 in
  cands s1 = (cands s0 ++ map (init_cand A) l)%list.
Proof.
  induction l as [|p l IH]; intros s0; cbn [fold_left map]; [rewrite app_nil_r; reflexivity|].
  cbv zeta in IH. rewrite IH. unfold log_msg, log_action. cbn [is_log cands set_actions set_cands].
  rewrite <- app_assoc. reflexivity.
Qed.

Lemma c11_hopeful_at_start pr c :
  In c (cands (init_state A cfg pr)) -> In c (hopefuls A (init_state A cfg pr)) ->
  exists p, In p (pr_cands pr) /\ pc_cid p = cid c /\ pc_withdrawn p = false.
Proof.
  intros _ Hh. unfold hopefuls in Hh. apply filter_In in Hh. destruct Hh as [Hin Hst].
  unfold init_state in Hin. cbv zeta in Hin. cbn [cands set_eballots set_ballots] in Hin.
  rewrite init_cands_from in Hin. cbn [cands app] in Hin. apply in_map_iff in Hin. destruct Hin as (p & <- & Hp).
  exists p. split; [exact Hp|]. split; [reflexivity|].
  unfold in_state, init_cand in Hst. cbn [cst] in Hst. destruct (pc_withdrawn p); [discriminate|reflexivity].
Qed.
End C11.
