(* Termination of meek / warren under arithmetics with exact comparisons (Fixed, integer, Guarded with guard 0).
   Two nested measures: the iteration inside a round stops because the total surplus, a non-negative raw integer, must
   strictly decrease for the iteration to go on (that is what "stable state" detection is for); the rounds stop because
   every round elects or excludes somebody. *)
From Coq Require Import ZArith List Bool String Lia PArith.
From Droop Require Import Model.KernelBase Model.Str Model.Arith Model.Prelude Model.State Model.Prims Model.RulesGregory
  Model.RulesMeek Model.Election Proofs.CmdMeta Proofs.Zlike Proofs.Status Proofs.SortLemmas Proofs.Forward Proofs.ForwardOps
  Proofs.ForwardMeek Proofs.Ties Proofs.Terminate Proofs.MeekRun Proofs.MeekPrfRun.
Import ListNotations.

Section TM.
Variable A : arith.
Variable S : Z.
Variable ZL : zlike A S.
Variable cfg : config.
Hypothesis Hex : exact A = false.
Notation est := (est A).
Notation cand := (cand A).
Notation R := (raw ZL).

(* ---- the number of hopeful candidates ---- *)
Definition rkh (c : cand) : nat := match cst c with Hopeful => 1 | _ => 0 end.
Definition muh (s : est) : nat := fold_right (fun c acc => rkh c + acc)%nat 0%nat (cands s).

Lemma muh_fwd (l l' : list cand) : FwdL (stl A l) (stl A l') ->
  (fold_right (fun c acc => rkh c + acc) 0 l' <= fold_right (fun c acc => rkh c + acc) 0 l)%nat.
Proof.
  revert l'. induction l as [|c l IH]; intros [|c' l'] H; cbn [stl map] in H; inversion H as [|? ? ? ? [_ Hf] Hr]; subst; cbn [fold_right]; [lia|].
  specialize (IH l' Hr). assert (rkh c' <= rkh c)%nat; [|lia].
  unfold rkh. unfold fwd in Hf. cbn [fst snd] in Hf. destruct (cst c), (cst c'); try lia; contradiction.
Qed.
Lemma muh_R x s : Forward.R A x s -> (muh s <= muh x)%nat.
Proof. intros H. apply muh_fwd. exact (R_fwd A _ _ H). Qed.
Lemma muh_same (s s' : est) : cands s' = cands s -> muh s' = muh s.
Proof. intros E. unfold muh. rewrite E. reflexivity. Qed.
Lemma muh_stl (s s' : est) : stl A (cands s') = stl A (cands s) -> muh s' = muh s.
Proof.
  intros E. apply Nat.le_antisymm; apply muh_fwd; [rewrite E|rewrite <- E]; apply FwdL_refl.
Qed.
Lemma muh_bound (s : est) : (muh s <= List.length (cands s))%nat.
Proof. unfold muh. induction (cands s) as [|c l IH]; cbn [fold_right List.length]; [lia|]. unfold rkh at 1. destruct (cst c); lia. Qed.
Lemma muh_log t m (s : est) : muh (log_action A cfg t m s) = muh s.
Proof. apply muh_same. unfold log_action. destruct (is_log t); [reflexivity|]. destruct (is_round t); reflexivity. Qed.

Lemma muh_upd_lt i f (l : list cand) : (forall c, In c l -> cid c = i -> rkh (f c) <= rkh c)%nat ->
  (exists c, In c l /\ cid c = i /\ (rkh (f c) < rkh c)%nat) ->
  (fold_right (fun c acc => rkh c + acc) 0 (upd_cand A i f l) < fold_right (fun c acc => rkh c + acc) 0 l)%nat.
Proof.
  unfold upd_cand.
  assert (Hge: forall l', (forall c, In c l' -> cid c = i -> rkh (f c) <= rkh c)%nat ->
             (fold_right (fun c acc => rkh c + acc) 0 (map (fun c => if Z.eqb (cid c) i then f c else c) l') <= fold_right (fun c acc => rkh c + acc) 0 l')%nat).
  { induction l' as [|c l' IH]; intros Hle; cbn [map fold_right]; [lia|]. specialize (IH (fun c' Hc' => Hle c' (or_intror Hc'))).
    destruct (Z.eqb (cid c) i) eqn:E; [pose proof (Hle c (or_introl eq_refl) ltac:(lia))|]; lia. }
  induction l as [|c l IH]; intros Hle (c0 & Hin & Ei & Hlt); [contradiction|]. cbn [map fold_right].
  pose proof (Hge l (fun c' Hc' => Hle c' (or_intror Hc'))) as Hl.
  destruct Hin as [->|Hin].
  - rewrite (proj2 (Z.eqb_eq _ _) Ei). lia.
  - specialize (IH (fun c' Hc' => Hle c' (or_intror Hc')) (ex_intro _ c0 (conj Hin (conj Ei Hlt)))).
    destruct (Z.eqb (cid c) i) eqn:E; [pose proof (Hle c (or_introl eq_refl) ltac:(lia))|]; lia.
Qed.

Lemma hopefuls_muh_pos (s : est) : hopefuls A s <> [] -> (1 <= muh s)%nat.
Proof.
  unfold muh, hopefuls. induction (cands s) as [|c l IH]; cbn [filter fold_right]; [congruence|].
  destruct (in_state A Hopeful c) eqn:E; [|intros H; specialize (IH H); lia]. intros _.
  unfold rkh, in_state in *. destruct (cst c); cbn in E; try discriminate. lia.
Qed.
Lemma nohop_muh_zero (s : est) : hopefuls A s = [] -> muh s = 0%nat.
Proof.
  unfold muh, hopefuls. induction (cands s) as [|c l IH]; cbn [filter fold_right]; [reflexivity|].
  destruct (in_state A Hopeful c) eqn:E; [discriminate|]. intros H. rewrite (IH H). unfold rkh, in_state in *. destruct (cst c); cbn in E; try discriminate; reflexivity.
Qed.

(* electing or excluding a hopeful candidate *)
Lemma st_hopeful_lt i (st : cstate) (p : cand -> option bool) (s : est) : ND A s -> st <> Hopeful ->
  (exists c, In c (hopefuls A s) /\ cid c = i) -> (muh (upd A s i (fun c => with_st c st (p c))) < muh s)%nat.
Proof.
  intros Hnd Hst (c & Hc & Ei). unfold hopefuls in Hc. apply filter_In in Hc. destruct Hc as [Hc Hh].
  unfold muh, upd. cbn [cands set_cands]. apply muh_upd_lt.
  - intros c1 _ _. unfold rkh. cbn [cst with_st]. destruct st; try congruence; lia.
  - exists c. split; [exact Hc|split; [exact Ei|]]. unfold rkh, in_state in *. cbn [cst with_st].
    destruct (cst c); cbn in Hh; try discriminate. destruct st; try congruence; lia.
Qed.
Lemma elect_hopeful_lth i m p (s : est) : ND A s -> (exists c, In c (hopefuls A s) /\ cid c = i) -> (muh (elect A cfg i m p s) < muh s)%nat.
Proof.
  intros Hnd Hex'. pose proof Hex' as (c & Hc & Ei). unfold elect. destruct (find_cand A (cands s) i) as [c0|] eqn:Ef.
  - rewrite muh_log. apply (st_hopeful_lt i Elected (fun _ => Some p) s Hnd); [discriminate|exact Hex'].
  - exfalso. unfold hopefuls in Hc. apply filter_In in Hc. destruct (find_cand_in A (cands s) i) as [y Hy]; [rewrite <- Ei; apply in_map; exact (proj1 Hc)|congruence].
Qed.
Lemma defeat_hopeful_lth i m (s : est) : ND A s -> (exists c, In c (hopefuls A s) /\ cid c = i) -> (muh (defeat A cfg i m s) < muh s)%nat.
Proof.
  intros Hnd Hex'. pose proof Hex' as (c & Hc & Ei). unfold defeat. destruct (find_cand A (cands s) i) as [c0|] eqn:Ef.
  - rewrite muh_log. apply (st_hopeful_lt i Defeated (fun c => cpend c) s Hnd); [discriminate|exact Hex'].
  - exfalso. unfold hopefuls in Hc. apply filter_In in Hc. destruct (find_cand_in A (cands s) i) as [y Hy]; [rewrite <- Ei; apply in_map; exact (proj1 Hc)|congruence].
Qed.


(* ---- the iteration status only changes where the rule sets it ---- *)
Lemma lvs_log t m (s : est) : lv_status (log_action A cfg t m s) = lv_status s.
Proof. unfold log_action. destruct (is_log t); [reflexivity|]. destruct (is_round t); reflexivity. Qed.
Lemma lvs_distribute (s : est) : lv_status (distribute_votes A cfg s) = lv_status s.
Proof.
  unfold distribute_votes. cbv zeta.
  match goal with |- context[fold_left ?f (ballots ?s0) ?i] => destruct (fold_left f (ballots s0) i) as [[cs r] bs] end.
  match goal with |- lv_status (fold_left ?f ?l ?s1) = _ => assert (G: forall l0 s0, lv_status (fold_left f l0 s0) = lv_status s0) end.
  { induction l0 as [|eb l0 IHl]; intros s0; cbn [fold_left]; [reflexivity|]. rewrite IHl.
    destruct (crashed s0); [reflexivity|]. destruct (dist_eq _ _ _ _ _ _ _) as [[? ?]|]; reflexivity. }
  rewrite G. reflexivity.
Qed.
Lemma lvs_set_quota_r (s : est) q : lv_status (set_quota_r A s q) = lv_status s.
Proof. unfold set_quota_r. destruct q; reflexivity. Qed.
Lemma lvs_update_kfs cl (s : est) : lv_status (update_kfs A cl s) = lv_status s.
Proof.
  unfold update_kfs. generalize (electeds A s) as l. intros l. revert s. induction l as [|c l IH]; intros s; cbn [fold_left]; [reflexivity|].
  rewrite IH. destruct (crashed s); [reflexivity|]. destruct (kdiv A _ _ _); reflexivity.
Qed.
Lemma muh_update_kfs cl (s : est) : muh (update_kfs A cl s) = muh s.
Proof.
  apply Nat.le_antisymm; [apply muh_R, f_update_kfs, R_refl|].
  unfold update_kfs. generalize (electeds A s) as l. intros l. revert s. induction l as [|c l IH]; intros s; cbn [fold_left]; [lia|].
  eapply Nat.le_trans; [|apply IH]. destruct (crashed s); [lia|]. destruct (kdiv A _ _ _); [|apply Nat.eq_le_incl; symmetry; apply muh_same; reflexivity].
  cbv zeta. apply Nat.eq_le_incl. symmetry. apply muh_stl. unfold upd. cbn [cands set_cands]. apply stl_upd_same. intros c0; repeat split.
Qed.

(* one pass of D.1 .. D.6: nobody becomes hopeful, and if the status says "elected" afterwards then it said so before or
   somebody was elected in this pass *)
Lemma iter_head_progress (s : est) : ND A s -> crashed (meek_iter_head A cfg s) = false ->
  ND A (meek_iter_head A cfg s) /\ (muh (meek_iter_head A cfg s) <= muh s)%nat /\
  (lv_status (meek_iter_head A cfg s) = IS_elected -> lv_status s = IS_elected \/ (muh (meek_iter_head A cfg s) < muh s)%nat).
Proof.
  intros Hnd Hc. pose proof (f_meek_iter_head A cfg s s (R_refl A s) Hnd) as HR.
  split; [exact (nd_R A _ _ HR Hnd)|]. split; [exact (muh_R _ _ HR)|].
  revert Hc. unfold meek_iter_head. cbv zeta. set (s1 := distribute_votes A cfg s).
  destruct (crashed s1) eqn:C1; [congruence|].
  set (s3 := set_quota_r A (set_votes s1 _) _).
  destruct (crashed s3) eqn:C3; [congruence|]. intros _.
  assert (E3: lv_status s3 = lv_status s /\ muh s3 = muh s /\ ND A s3).
  { unfold s3. split; [rewrite lvs_set_quota_r; cbn [lv_status set_votes]; apply lvs_distribute|split].
    - apply Nat.le_antisymm; [apply muh_R, f_set_quota_r, f_votes, f_distribute, R_refl|].
      unfold set_quota_r. destruct (meek_quota A cfg _); (eapply Nat.le_trans; [|apply Nat.eq_le_incl; symmetry; apply muh_same; reflexivity]);
        apply Nat.eq_le_incl; symmetry; apply muh_stl; apply distribute_stl.
    - eapply nd_R; [apply f_set_quota_r, f_votes, f_distribute, R_refl|exact Hnd]. }
  destruct E3 as (Es & Em & Hnd3). cbn [lv_status set_surplus].
  set (W := filter (has_quota_exact A s3) (hopefuls A s3)).
  destruct W as [|w W'] eqn:EW; [cbn [fold_left]; intros H; left; rewrite <- Es; exact H|].
  intros _. right. cbn [fold_left]. rewrite <- Em.
  assert (Hw: In w (hopefuls A s3)) by (assert (Hin: In w W) by (rewrite EW; left; reflexivity); unfold W in Hin; apply filter_In in Hin; exact (proj1 Hin)).
  set (t1 := set_status (elect A cfg (cid w) "Elect" false s3) IS_elected).
  assert (H1: (muh t1 < muh s3)%nat) by (unfold t1; rewrite (muh_same (elect A cfg (cid w) "Elect" false s3)) by reflexivity; apply elect_hopeful_lth; [exact Hnd3|exists w; auto]).
  match goal with |- (muh (set_surplus ?t _) < _)%nat => change (muh t < muh s3)%nat end.
  assert (HR2: Forward.R A s3 (fold_left (fun s0 c => set_status (elect A cfg (cid c) "Elect" false s0) IS_elected) (w :: W') s3)).
  { rewrite <- EW. unfold W. apply f_elect_winners; [apply R_refl|exact Hnd3]. }
  cbn [fold_left] in HR2. fold t1 in HR2.
  (* the rest of the fold does not bring anybody back *)
  assert (G: forall (L : list cand) (t : est), (muh (fold_left (fun s0 c => set_status (elect A cfg (cid c) "Elect" false s0) IS_elected) L t) <= muh t)%nat).
  { induction L as [|c L IH]; intros t; cbn [fold_left]; [lia|]. eapply Nat.le_trans; [apply IH|].
    rewrite (muh_same (elect A cfg (cid c) "Elect" false t)) by reflexivity. unfold elect. destruct (find_cand A (cands t) (cid c)); [|apply Nat.eq_le_incl, muh_same; reflexivity].
    rewrite muh_log. unfold muh, upd. cbn [cands set_cands]. unfold upd_cand. induction (cands t) as [|c1 l1 IH1]; cbn [map fold_right]; [lia|].
    destruct (Z.eqb (cid c1) (cid c)); [unfold rkh at 1; cbn [cst with_st]|]; lia. }
  pose proof (G W' t1). lia.
Qed.

(* ---- the inner measure: the surplus the iteration has to beat ---- *)
Definition nu (s : est) : nat := Z.to_nat (R (lv_last s)).

Lemma omega_nonneg : (0 <= R (omega_or0 A cfg))%Z.
Proof.
  unfold omega_or0, omega. pose proof (S_pos A S ZL) as HS.
  destruct (Z.eq_dec (R (of_int A (10 ^ cf_omega10 cfg))) 0) as [Hz|Hnz].
  - rewrite (r_divv0 A S ZL _ _ Hz). unfold V0. rewrite (r_of_int A S ZL). lia.
  - destruct (r_divv A S ZL (V1 A) (of_int A (10 ^ cf_omega10 cfg)) Hnz) as (q & Eq & Rq). rewrite Eq, Rq.
    unfold V1. rewrite !(r_of_int A S ZL). rewrite (r_of_int A S ZL) in Hnz.
    destruct (Z.lt_ge_cases (10 ^ cf_omega10 cfg * S) 0) as [Hneg|Hpos].
    + assert (10 ^ cf_omega10 cfg < 0)%Z by nia. pose proof (Z.pow_nonneg 10 (cf_omega10 cfg) ltac:(lia)). lia.
    + apply Z.div_pos; nia.
Qed.


Lemma lvl_log t m (s : est) : lv_last (log_action A cfg t m s) = lv_last s.
Proof. unfold log_action. destruct (is_log t); [reflexivity|]. destruct (is_round t); reflexivity. Qed.
Lemma lvl_elect i m p (s : est) : lv_last (elect A cfg i m p s) = lv_last s.
Proof. unfold elect. destruct (find_cand A (cands s) i); [rewrite lvl_log|]; reflexivity. Qed.
Lemma lvl_distribute (s : est) : lv_last (distribute_votes A cfg s) = lv_last s.
Proof.
  unfold distribute_votes. cbv zeta.
  match goal with |- context[fold_left ?f (ballots ?s0) ?i] => destruct (fold_left f (ballots s0) i) as [[cs r] bs] end.
  match goal with |- lv_last (fold_left ?f ?l ?s1) = _ => assert (G: forall l0 s0, lv_last (fold_left f l0 s0) = lv_last s0) end.
  { induction l0 as [|eb l0 IHl]; intros s0; cbn [fold_left]; [reflexivity|]. rewrite IHl.
    destruct (crashed s0); [reflexivity|]. destruct (dist_eq _ _ _ _ _ _ _) as [[? ?]|]; reflexivity. }
  rewrite G. reflexivity.
Qed.
Lemma lvl_fold {X} (f : est -> X -> est) l : (forall s y, lv_last (f s y) = lv_last s) -> forall s, lv_last (fold_left f l s) = lv_last s.
Proof. intros Hf. induction l as [|y l IH]; intros s; cbn [fold_left]; [reflexivity|]. rewrite IH. apply Hf. Qed.
Lemma lvl_set_quota_r (s : est) q : lv_last (set_quota_r A s q) = lv_last s.
Proof. unfold set_quota_r. destruct q; reflexivity. Qed.
Lemma lvl_iter_head (s : est) : lv_last (meek_iter_head A cfg s) = lv_last s.
Proof.
  unfold meek_iter_head. cbv zeta. destruct (crashed (distribute_votes A cfg s)); [apply lvl_distribute|].
  match goal with |- context[crashed ?a] => destruct (crashed a) end.
  - rewrite lvl_set_quota_r. cbn [lv_last set_votes]. apply lvl_distribute.
  - cbn [lv_last set_surplus]. rewrite lvl_fold; [rewrite lvl_set_quota_r; cbn [lv_last set_votes]; apply lvl_distribute|].
    intros t c. cbn [lv_last set_status]. apply lvl_elect.
Qed.
Lemma lvl_update_kfs cl (s : est) : lv_last (update_kfs A cl s) = lv_last s.
Proof.
  unfold update_kfs. apply lvl_fold. intros t c. destruct (crashed t); [reflexivity|]. destruct (kdiv A _ _ _); reflexivity.
Qed.

Notation T3 := (triple est (@crashed A)).

Definition iter_body : cmd est :=
  Do (meek_iter_head A cfg) ;;
  Ite (fun s => lv_status s =? IS_elected)%Z Break Skip ;;
  Ite (fun s => lev A (surplus s) (omega_or0 A cfg)) (Do (fun s => set_status s IS_omega) ;; Break) Skip ;;
  Ite (fun s => gev A (surplus s) (lv_last s))
    (Do (fun s => set_status (log_msg A cfg ("Stable state detected (" ++ str A (surplus s) ++ ")") s) IS_stable) ;; Break)
    Skip ;;
  Do (fun s => set_batch s (if cf_batch cfg then map (@cid A) (batch_defeat A cfg (surplus s) s) else [])) ;;
  Ite (fun s => nonempty' (lv_batch s)) (Do (fun s => set_status s IS_batch) ;; Break) Skip ;;
  Do (fun s => update_kfs A true (set_last s (surplus s))).

Lemma meek_iterate_unfold : meek_iterate A cfg =
  (Do (fun s => set_batch (set_last (set_status s IS_none) (of_int A (cf_nballots cfg))) []) ;; While (fun _ => true) iter_body).
Proof. reflexivity. Qed.

(* the surplus to beat strictly decreases from one pass to the next *)
Lemma iter_body_nu m : T3 (fun s => True /\ true = true /\ nu s = m) iter_body
  (fun s' => True /\ (nu s' < m)%nat) (fun _ => True) (fun s' => True /\ (nu s' < m)%nat).
Proof.
  unfold iter_body.
  eapply t_seq with (M := fun s => nu s = m); [apply t_do; intros s (_ & _ & H); unfold nu in *; rewrite lvl_iter_head; exact H|].
  eapply t_seq with (M := fun s => nu s = m); [apply t_ite; [apply t_break'; auto|apply t_skip'; intros s [H _]; exact H]|].
  eapply t_seq with (M := fun s => nu s = m /\ lev A (surplus s) (omega_or0 A cfg) = false).
  { apply t_ite; [eapply t_seq with (M := fun _ => True); [apply t_do; auto|apply t_break'; auto]|apply t_skip'; auto]. }
  eapply t_seq with (M := fun s => (nu s = m /\ lev A (surplus s) (omega_or0 A cfg) = false) /\ gev A (surplus s) (lv_last s) = false).
  { apply t_ite; [eapply t_seq with (M := fun _ => True); [apply t_do; auto|apply t_break'; auto]|apply t_skip'; auto]. }
  eapply t_seq with (M := fun s => (nu s = m /\ lev A (surplus s) (omega_or0 A cfg) = false) /\ gev A (surplus s) (lv_last s) = false).
  { apply t_do. intros s H. exact H. }
  eapply t_seq with (M := fun s => (nu s = m /\ lev A (surplus s) (omega_or0 A cfg) = false) /\ gev A (surplus s) (lv_last s) = false).
  { apply t_ite; [eapply t_seq with (M := fun _ => True); [apply t_do; auto|apply t_break'; auto]|apply t_skip'; intros s [H _]; exact H]. }
  apply t_do. intros s [[Hm Hl] Hg]. split; [exact I|]. unfold nu in *. rewrite lvl_update_kfs. cbn [lv_last set_last].
  rewrite (r_lev_exact A S ZL Hex) in Hl. rewrite (r_gev_exact A S ZL Hex) in Hg. pose proof omega_nonneg.
  apply Z.leb_gt in Hl. apply Z.leb_gt in Hg. rewrite <- Hm. apply Z2Nat.inj_lt; lia.
Qed.

Lemma meek_iterate_total fuel : (Z.to_nat (cf_nballots cfg * S) < Pos.to_nat fuel)%nat ->
  total est (@crashed A) fuel (fun _ => True) (meek_iterate A cfg).
Proof.
  intros Hf. rewrite meek_iterate_unfold.
  eapply total_seq with (M := fun s => True /\ (nu s < Pos.to_nat fuel)%nat) (Qb := fun _ => True) (Qc := fun _ => True).
  - apply total_loopfree. exact I.
  - apply t_do. intros s _. split; [exact I|]. unfold nu. cbn [lv_last set_batch set_last]. rewrite (r_of_int A S ZL). exact Hf.
  - apply while_total'.
    + apply total_loopfree. unfold iter_body. cbn [loopfree]. tauto.
    + intros m. apply iter_body_nu.
Qed.


(* ---- exclusions ---- *)
Lemma muh_zero_cand i (s : est) : muh (zero_cand A i s) = muh s.
Proof. apply muh_stl. unfold zero_cand, upd. cbn [cands set_cands]. apply stl_upd_same. intros c; repeat split. Qed.
Lemma muh_distribute (s : est) : muh (distribute_votes A cfg s) = muh s.
Proof. apply muh_stl. apply distribute_stl. Qed.

Lemma cands_of'_found (s : est) cids c : In c (cands_of' A s cids) -> In c (cands s).
Proof.
  unfold cands_of'. intros H. apply in_flat_map in H. destruct H as (i & Hi & Hc).
  destruct (find_cand A (cands s) i) as [c0|] eqn:Ef; [|contradiction]. destruct Hc as [<-|[]].
  unfold find_cand in Ef. apply find_some in Ef. exact (proj1 Ef).
Qed.

Definition db_step (t : est) (c : cand) : est :=
  if crashed t then t else distribute_votes A cfg (zero_cand A (cid c) (defeat A cfg (cid c) "Defeat certain loser" t)).
Lemma db_fold_crashed (L : list cand) : forall t : est, crashed t = true -> fold_left db_step L t = t.
Proof. induction L as [|c L IH]; intros t Hc; cbn [fold_left]; [reflexivity|]. unfold db_step at 2. rewrite Hc. apply IH. exact Hc. Qed.

Lemma meek_defeat_batch_lt (s : est) : ND A s -> BatchH A s -> BatchE A s -> lv_batch s <> [] ->
  crashed (meek_defeat_batch A cfg s) = false -> (muh (meek_defeat_batch A cfg s) < muh s)%nat.
Proof.
  intros Hnd HB HE Hne. unfold meek_defeat_batch.
  change (fold_left _ (by_order A (cands_of' A s (lv_batch s))) s) with (fold_left db_step (by_order A (cands_of' A s (lv_batch s))) s).
  assert (HL: forall c, In c (by_order A (cands_of' A s (lv_batch s))) -> In c (cands s) /\ Sat A s (cid c) isH).
  { intros c Hc. unfold by_order in Hc. apply py_sorted_in in Hc. split; [exact (cands_of'_found s _ c Hc)|exact (HB (cid c) (cands_of'_in A s _ c Hc))]. }
  assert (Hex': exists c, In c (by_order A (cands_of' A s (lv_batch s)))).
  { destruct (HE Hne) as (c0 & Hc0 & Hi0). unfold hopefuls in Hc0. apply filter_In in Hc0. destruct Hc0 as [Hc0 _].
    destruct (find_cand_in A (cands s) (cid c0)) as [c1 Ef]; [apply in_map; exact Hc0|]. exists c1.
    unfold by_order. apply py_sorted_in. unfold cands_of'. apply in_flat_map. exists (cid c0). split; [exact Hi0|]. rewrite Ef. left; reflexivity. }
  destruct (by_order A (cands_of' A s (lv_batch s))) as [|c L]; [destruct Hex' as [? []]|]. clear Hex'. cbn [fold_left]. intros Hc.
  destruct (crashed (db_step s c)) eqn:C1; [rewrite (db_fold_crashed L _ C1) in Hc; congruence|].
  destruct (HL c (or_introl eq_refl)) as [Hin Hsat].
  assert (H1: (muh (db_step s c) < muh s)%nat).
  { unfold db_step in *. destruct (crashed s) eqn:Cs; [cbv iota in C1; congruence|]. rewrite muh_distribute, muh_zero_cand. apply defeat_hopeful_lth; [exact Hnd|].
    exists c. split; [|reflexivity]. unfold hopefuls. apply filter_In. split; [exact Hin|]. specialize (Hsat c Hin eq_refl). unfold isH in Hsat. cbn in Hsat. unfold in_state. rewrite Hsat. reflexivity. }
  assert (HR: Forward.R A (db_step s c) (fold_left db_step L (db_step s c))).
  { apply (f_fold_HD A db_step).
    - intros y t c' Hy HS. unfold db_step. destruct (crashed t); [exact Hy|]. apply f_distribute, f_zero_cand, r_defeat; assumption.
    - intros t c' j HS. unfold db_step. destruct (crashed t); [exact HS|]. eapply sat_stl; [apply distribute_stl|]. apply sat_zero_cand, sat_defeat_HD. exact HS.
    - apply R_refl.
    - intros c' Hc'. unfold db_step. destruct (crashed s); [|eapply sat_stl; [apply distribute_stl|]; apply sat_zero_cand, sat_defeat_HD];
        (intros x Hx E; left; exact (proj2 (HL c' (or_intror Hc')) x Hx E)). }
  pose proof (muh_R _ _ HR). lia.
Qed.

Lemma meek_defeat_low_lt fmt rd (s : est) : ND A s ->
  crashed (meek_defeat_low A cfg fmt rd s) = false -> (muh (meek_defeat_low A cfg fmt rd s) < muh s)%nat.
Proof.
  intros Hnd. unfold meek_defeat_low. destruct (low_within_surplus A s) as [lows|e] eqn:El; [|rewrite sticky_crash; discriminate].
  pose proof (break_tie_cands A cfg fmt lows s) as Ec. pose proof (break_tie_none A cfg fmt lows s) as Hn.
  destruct (break_tie A cfg fmt lows s) as [s1 [l|]] eqn:Eb; cbn [fst snd] in *; [|intros Hc; rewrite (Hn eq_refl) in Hc; discriminate].
  destruct (proj1 (break_tie_spec A cfg _ _ _ _ _ Eb)) as (c & Hcl & Ei). cbv zeta.
  assert (Hnd1: ND A s1) by (unfold ND in *; rewrite Ec; exact Hnd).
  assert (Hh1: exists c', In c' (hopefuls A s1) /\ cid c' = l) by (exists c; split; [unfold hopefuls; rewrite Ec; exact (low_within_in A s lows El c Hcl)|exact Ei]).
  assert (E1: muh s1 = muh s) by (apply muh_same; exact Ec).
  set (msg := if (lv_status s1 =? IS_omega)%Z then _ else _).
  pose proof (defeat_hopeful_lth l msg s1 Hnd1 Hh1) as H2.
  set (s2 := zero_cand A l (defeat A cfg l msg s1)) in *.
  destruct (crashed s2) eqn:C2; [congruence|]. intros _.
  assert (E2: muh s2 = muh (defeat A cfg l msg s1)) by apply muh_zero_cand.
  destruct rd; [rewrite muh_distribute|]; lia.
Qed.


Lemma cands_log t m (s : est) : cands (log_action A cfg t m s) = cands s.
Proof. unfold log_action. destruct (is_log t); [reflexivity|]. destruct (is_round t); reflexivity. Qed.

(* ---- one round ---- *)
Definition Jn (n : nat) (s : est) : Prop := ND A s /\ (muh s <= n)%nat /\ (lv_status s = IS_elected -> (muh s < n)%nat).
Definition XJ (n : nat) (s : est) : Prop :=
  Jn n s /\ (lv_status s = IS_batch -> BatchH A s /\ BatchE A s /\ lv_batch s <> []).

Lemma jn_same n (s s' : est) : cands s' = cands s -> lv_status s' = lv_status s -> Jn n s -> Jn n s'.
Proof. intros E1 E2 (H1 & H2 & H3). unfold Jn, ND. rewrite E1, E2, (muh_same s s' E1). auto. Qed.
Lemma jn_status n (s : est) st : st <> IS_elected -> Jn n s -> Jn n (set_status s st).
Proof. intros Hst (H1 & H2 & H3). split; [exact H1|split; [exact H2|]]. cbn [lv_status set_status]. intros E. congruence. Qed.

Lemma set_batch_facts (s : est) : ND A s ->
  let s' := set_batch s (if cf_batch cfg then map (@cid A) (batch_defeat A cfg (surplus s) s) else []) in
  BatchH A s' /\ BatchE A s'.
Proof.
  intros Hnd. cbv zeta. destruct (cf_batch cfg).
  - split; [eapply (batchH_of_hopefuls A s _ _ Hnd); [reflexivity|reflexivity|apply batch_defeat_hopeful]|].
    unfold BatchE. cbn [lv_batch set_batch hopefuls cands]. pose proof (batch_defeat_hopeful A cfg (surplus s) s) as HF. rewrite Forall_forall in HF.
    destruct (batch_defeat A cfg (surplus s) s) as [|c l]; [intros H; contradiction|]. intros _. exists c. split; [apply (HF c); left; reflexivity|left; reflexivity].
  - split; [intros i []|intros H; contradiction].
Qed.

Lemma meek_iterate_round n (Qb Qc : est -> Prop) : T3 (fun s => ND A s /\ (muh s <= n)%nat) (meek_iterate A cfg) (XJ n) Qb Qc.
Proof.
  rewrite meek_iterate_unfold.
  eapply t_seq with (M := Jn n).
  { apply t_do. intros s [Hnd Hm]. split; [exact Hnd|split; [exact Hm|]]. cbn [lv_status set_batch set_last set_status]. discriminate. }
  eapply t_post; [|apply (t_while est (@crashed A) (Jn n) (XJ n))].
  - intros s [H|[_ H]]; [exact H|discriminate H].
  - eapply t_pre with (P := Jn n); [intros s H; exact (proj1 H)|]. unfold iter_body.
    eapply t_seq with (M := Jn n).
    { apply t_do_nc. intros s (Hnd & Hm & Hs) Hc. destruct (iter_head_progress s Hnd Hc) as (Hnd' & Hle & Hst).
      split; [exact Hnd'|split; [lia|]]. intros E. destruct (Hst E) as [E0|Hlt]; [specialize (Hs E0)|]; lia. }
    eapply t_seq with (M := Jn n).
    { apply t_ite; [apply t_break'|apply t_skip'; intros s [H _]; exact H].
      intros s [H Hg]. split; [exact H|]. intros E. apply Z.eqb_eq in Hg. rewrite Hg in E. discriminate E. }
    eapply t_seq with (M := Jn n).
    { apply t_ite; [|apply t_skip'; intros s [H _]; exact H].
      eapply t_seq with (M := XJ n); [|apply t_break'; auto].
      apply t_do. intros s [H _]. split; [apply jn_status; [discriminate|exact H]|]. cbn [lv_status set_status]. discriminate. }
    eapply t_seq with (M := Jn n).
    { apply t_ite; [|apply t_skip'; intros s [H _]; exact H].
      eapply t_seq with (M := XJ n); [|apply t_break'; auto].
      apply t_do. intros s [H _]. split; [|cbn [lv_status set_status]; discriminate].
      apply jn_status; [discriminate|]. unfold log_msg. apply (jn_same n s); [apply cands_log|apply lvs_log|exact H]. }
    eapply t_seq with (M := fun s => Jn n s /\ BatchH A s /\ BatchE A s).
    { apply t_do. intros s H. split; [revert H; apply jn_same; reflexivity|apply set_batch_facts; exact (proj1 H)]. }
    eapply t_seq with (M := Jn n).
    { apply t_ite; [|apply t_skip'; intros s [[H _] _]; exact H].
      eapply t_seq with (M := XJ n); [|apply t_break'; auto].
      apply t_do. intros s [[H [HB HE]] Hg]. split; [apply jn_status; [discriminate|exact H]|]. intros _.
      split; [exact HB|split; [exact HE|]]. cbn [lv_batch set_status]. destruct (lv_batch s); [discriminate Hg|discriminate]. }
    apply t_do. intros s (Hnd & Hm & Hs). split; [|split].
    + exact (nd_R A _ _ (f_update_kfs A true _ _ (f_last A s _ _ (R_refl A s))) Hnd).
    + rewrite muh_update_kfs. exact Hm.
    + rewrite lvs_update_kfs, muh_update_kfs. exact Hs.
Qed.

Definition meek_round : cmd est :=
  Do (new_round A cfg) ;;
  meek_iterate A cfg ;;
  Do (fun s => log_action A cfg TIterate ("Iterate (" ++ status_name (lv_status s) ++ ")") s) ;;
  Ite (fun s => lv_status s =? IS_elected)%Z Continue Skip ;;
  Ite (fun s => lv_status s =? IS_batch)%Z (Do (meek_defeat_batch A cfg) ;; Continue) Skip ;;
  Ite (fun s => nonempty' (hopefuls A s)) (Do (meek_defeat_low A cfg (tie_fmt "defeat") true)) Skip.

Definition NDh (n : nat) (s : est) : Prop := ND A s /\ (muh s < n)%nat.

Lemma meek_round_decreases n :
  T3 (fun s => ND A s /\ negb (count_complete_m A cfg s) = true /\ muh s = n) meek_round (NDh n) (fun _ => True) (NDh n).
Proof.
  unfold meek_round.
  eapply t_seq with (M := fun s => (ND A s /\ (muh s <= n)%nat) /\ (1 <= n)%nat).
  { apply t_do. intros s (Hnd & Hg & Hm). pose proof (f_new_round A cfg s s (R_refl A s)) as Hr.
    split; [split; [exact (nd_R A _ _ Hr Hnd)|pose proof (muh_R _ _ Hr); lia]|].
    rewrite <- Hm. apply hopefuls_muh_pos. unfold count_complete_m in Hg. apply negb_true_iff, orb_false_iff in Hg. destruct Hg as [Hg1 Hg2].
    destruct (hopefuls A s); [|discriminate]. unfold nlen in Hg1. cbn in Hg1. apply Z.leb_gt in Hg1. apply Z.leb_gt in Hg2. lia. }
  eapply t_seq with (M := fun s => XJ n s /\ (1 <= n)%nat).
  { intros fuel s s' k [HP Hn] He. pose proof (meek_iterate_round n (fun _ => True) (NDh n) fuel s s' k HP He) as H.
    destruct k; try exact H. split; [exact H|exact Hn]. }
  eapply t_seq with (M := fun s => XJ n s /\ (1 <= n)%nat).
  { apply t_do. intros s [[Hj Hb] Hn]. split; [|exact Hn]. pose proof (cands_log TIterate ("Iterate (" ++ status_name (lv_status s) ++ ")") s) as E1.
    split; [apply (jn_same n s); [exact E1|apply lvs_log|exact Hj]|]. rewrite lvs_log. intros E. destruct (Hb E) as (HB & HE & Hne).
    split; [eapply batchH_same; [| |exact HB]; [unfold log_action; reflexivity|apply lvb_log]|]. split.
    - unfold BatchE, hopefuls. rewrite lvb_log, E1. exact HE.
    - rewrite lvb_log. exact Hne. }
  eapply t_seq with (M := fun s => XJ n s /\ (1 <= n)%nat).
  { apply t_ite; [apply t_continue'|apply t_skip'; intros s [H _]; exact H].
    intros s [[[(Hnd & Hm & Hs) _] _] Hg]. apply Z.eqb_eq in Hg. split; [exact Hnd|exact (Hs Hg)]. }
  eapply t_seq with (M := fun s => (ND A s /\ (muh s <= n)%nat) /\ (1 <= n)%nat).
  { apply t_ite.
    - eapply t_seq with (M := NDh n); [|apply t_continue'; auto].
      apply t_do_nc. intros s [[[(Hnd & Hm & _) Hb] _] Hg] Hc. apply Z.eqb_eq in Hg. destruct (Hb Hg) as (HB & HE & Hne).
      pose proof (meek_defeat_batch_lt s Hnd HB HE Hne Hc) as Hlt. split; [|lia].
      exact (nd_R A _ _ (f_meek_defeat_batch A cfg s s (R_refl A s) HB) Hnd).
    - apply t_skip'. intros s [[[(Hnd & Hm & _) _] Hn] _]. split; [split; assumption|exact Hn]. }
  apply t_ite.
  - apply t_do_nc. intros s [[[Hnd Hm] Hn] _] Hc. pose proof (meek_defeat_low_lt (tie_fmt "defeat") true s Hnd Hc) as Hlt. split; [|lia].
    exact (nd_R A _ _ (f_meek_defeat_low A cfg s _ true s (R_refl A s) Hnd) Hnd).
  - apply t_skip'. intros s [[[Hnd Hm] Hn] Hh]. split; [exact Hnd|]. rewrite nohop_muh_zero; [lia|]. destruct (hopefuls A s); [reflexivity|discriminate Hh].
Qed.


(* ---- the rule ---- *)
Lemma meek_round_total fuel : (Z.to_nat (cf_nballots cfg * S) < Pos.to_nat fuel)%nat ->
  total est (@crashed A) fuel (fun _ => True) meek_round.
Proof.
  intros Hf. unfold meek_round.
  eapply total_seq with (M := fun _ => True) (Qb := fun _ => True) (Qc := fun _ => True); [apply total_loopfree; exact I|apply t_do; auto|].
  eapply total_seq with (M := fun _ => True) (Qb := fun _ => True) (Qc := fun _ => True); [apply meek_iterate_total; exact Hf|apply t_any|].
  apply total_loopfree. cbn [loopfree]. tauto.
Qed.

Lemma f_meek_begin (s : est) : Forward.R A s (meek_begin A cfg s).
Proof.
  unfold meek_begin. destruct (omega A cfg); [|apply f_crash, R_refl]. cbv zeta.
  match goal with |- context[crashed ?a] => assert (P: Forward.R A s a) by (apply f_set_quota_r, f_votes, R_refl); destruct (crashed a) end; [exact P|].
  apply f_log. unfold meek_first_prefs. apply f_fold0.
  - intros y t eb Hy. destruct (crashed t); [exact Hy|]. destruct (erank eb); [apply f_crash; exact Hy|].
    destruct (divv A _ _); [|apply f_crash; exact Hy]. cbv zeta. apply f_fold0; [intros; apply f_add_vote; assumption|exact Hy].
  - apply f_fold0; [|apply f_init_kfs; exact P]. intros y t b Hy. destruct (top_rank A b); [apply f_add_vote|]; exact Hy.
Qed.

Theorem meek_total fuel (s : est) : ND A s ->
  (Z.to_nat (cf_nballots cfg * S) < Pos.to_nat fuel)%nat -> (List.length (cands s) < Pos.to_nat fuel)%nat ->
  exists r, exec (@crashed A) fuel (meek A cfg) s = Some r.
Proof.
  intros Hnd Hf1 Hf2. rewrite (meek_unfold A cfg). change (meek_body A cfg) with meek_round. cbn [exec].
  set (s1 := meek_begin A cfg s). pose proof (f_meek_begin s) as R1. fold s1 in R1.
  destruct (crashed s1); [eexists; reflexivity|].
  destruct (while_total' est (@crashed A) (ND A) muh (fun s => negb (count_complete_m A cfg s)) meek_round fuel) with (s := s1) as [[s2 k2] E2].
  - eapply total_pre; [|apply (meek_round_total fuel Hf1)]. intros s0 _. exact I.
  - intros n. eapply t_conseq; [| | | |apply (meek_round_decreases n)]; cbv beta; auto.
  - split; [exact (nd_R A _ _ R1 Hnd)|]. pose proof (muh_R _ _ R1). pose proof (muh_bound s). lia.
  - cbn [exec] in E2. rewrite E2. destruct k2; eexists; reflexivity.
Qed.


(* ================= meek-prf ================= *)
Lemma lvs_prf_distribute (s : est) : lv_status (prf_distribute A s) = lv_status s.
Proof. unfold prf_distribute. cbv zeta. match goal with |- context[fold_left ?f (ballots ?s0) ?i] => destruct (fold_left f (ballots s0) i) as [[cs r] bs] end. reflexivity. Qed.
Lemma lvl_prf_distribute (s : est) : lv_last (prf_distribute A s) = lv_last s.
Proof. unfold prf_distribute. cbv zeta. match goal with |- context[fold_left ?f (ballots ?s0) ?i] => destruct (fold_left f (ballots s0) i) as [[cs r] bs] end. reflexivity. Qed.
Lemma lvs_elect i m p (s : est) : lv_status (elect A cfg i m p s) = lv_status s.
Proof. unfold elect. destruct (find_cand A (cands s) i); [rewrite lvs_log|]; reflexivity. Qed.

Lemma elect_fold_le (L : list cand) : forall t : est,
  (muh (fold_left (fun s0 c => set_status (elect A cfg (cid c) "Elect" false s0) IS_elected) L t) <= muh t)%nat.
Proof.
  induction L as [|c L IH]; intros t; cbn [fold_left]; [lia|]. eapply Nat.le_trans; [apply IH|].
  rewrite (muh_same (elect A cfg (cid c) "Elect" false t)) by reflexivity. unfold elect. destruct (find_cand A (cands t) (cid c)); [|apply Nat.eq_le_incl, muh_same; reflexivity].
  rewrite muh_log. unfold muh, upd. cbn [cands set_cands]. unfold upd_cand. induction (cands t) as [|c1 l1 IH1]; cbn [map fold_right]; [lia|].
  destruct (Z.eqb (cid c1) (cid c)); [unfold rkh at 1; cbn [cst with_st]|]; lia.
Qed.
Lemma elect_fold_fields (L : list cand) : forall t : est,
  lv_last (fold_left (fun s0 c => set_status (elect A cfg (cid c) "Elect" false s0) IS_elected) L t) = lv_last t /\
  (L <> [] -> lv_status (fold_left (fun s0 c => set_status (elect A cfg (cid c) "Elect" false s0) IS_elected) L t) = IS_elected).
Proof.
  induction L as [|c L IH]; intros t; cbn [fold_left]; [split; [reflexivity|congruence]|].
  destruct (IH (set_status (elect A cfg (cid c) "Elect" false t) IS_elected)) as [E1 E2]. split.
  - rewrite E1. cbn [lv_last set_status]. apply lvl_elect.
  - intros _. destruct L as [|c' L']; [reflexivity|apply E2; discriminate].
Qed.

Definition nu' (s : est) : nat := if (lv_status s =? IS_iterate)%Z then Datatypes.S (nu s) else 0%nat.

Lemma prf_step_facts (s : est) : ND A s -> lv_status s = IS_iterate -> crashed (prf_iterate_step A cfg s) = false ->
  let s' := prf_iterate_step A cfg s in
  ND A s' /\ (muh s' <= muh s)%nat /\ (lv_status s' = IS_elected -> (muh s' < muh s)%nat) /\ (nu' s' < nu' s)%nat.
Proof.
  intros Hnd Hst Hc. cbv zeta. pose proof (f_prf_iterate_step A cfg s s (R_refl A s) Hnd) as HR.
  split; [exact (nd_R A _ _ HR Hnd)|]. split; [exact (muh_R _ _ HR)|].
  assert (Hnu: nu' s = Datatypes.S (nu s)) by (unfold nu'; rewrite Hst; reflexivity). rewrite Hnu.
  revert Hc. unfold prf_iterate_step. cbv zeta. set (s1 := prf_distribute A s).
  set (s3 := set_quota_r A (set_votes s1 _) _).
  destruct (crashed s3) eqn:C3; [congruence|]. intros _.
  assert (E3: lv_status s3 = IS_iterate /\ lv_last s3 = lv_last s /\ muh s3 = muh s /\ ND A s3).
  { unfold s3. split; [rewrite lvs_set_quota_r; cbn [lv_status set_votes]; unfold s1; rewrite lvs_prf_distribute; exact Hst|split; [|split]].
    - rewrite lvl_set_quota_r. cbn [lv_last set_votes]. apply lvl_prf_distribute.
    - apply Nat.le_antisymm; [apply muh_R, f_set_quota_r, f_votes, f_prf_distribute, R_refl|].
      unfold set_quota_r. destruct (prf_quota A cfg _); (eapply Nat.le_trans; [|apply Nat.eq_le_incl; symmetry; apply muh_same; reflexivity]);
        apply Nat.eq_le_incl; symmetry; apply muh_stl; apply prf_distribute_stl.
    - eapply nd_R; [apply f_set_quota_r, f_votes, f_prf_distribute, R_refl|exact Hnd]. }
  destruct E3 as (Es & El & Em & Hnd3).
  set (W := filter (ge_quota A s3) (hopefuls A s3)).
  set (s4 := fold_left _ W s3).
  destruct (elect_fold_fields W s3) as [L4 S4]. fold s4 in L4, S4.
  set (sp := elected_surplus A s4).
  set (s5 := set_surplus s4 (if ltv A sp (V0 A) then V0 A else sp)).
  assert (Hs5: (0 <= R (surplus s5))%Z).
  { unfold s5. cbn [surplus set_surplus]. rewrite (r_ltv_exact A S ZL Hex). unfold V0. rewrite (r_of_int A S ZL).
    destruct (R sp <? 0 * S)%Z eqn:E; [rewrite (r_of_int A S ZL); lia|apply Z.ltb_ge in E; lia]. }
  destruct W as [|w W'] eqn:EW.
  - (* nobody reaches the quota: the status is still "iterate" *)
    assert (E4: s4 = s3) by reflexivity.
    assert (St5: lv_status s5 = IS_iterate) by (unfold s5; cbn [lv_status set_surplus]; rewrite E4; exact Es).
    assert (L5: lv_last s5 = lv_last s) by (unfold s5; cbn [lv_last set_surplus]; rewrite E4; exact El).
    rewrite St5. change (IS_iterate =? IS_elected)%Z with false. cbv iota.
    destruct (ltv A (surplus s5) (omega_or0 A cfg)) eqn:Eo.
    + cbn [lv_status set_status]. change (IS_omega =? IS_iterate)%Z with false. cbv iota. cbn [lv_status set_status].
      split; [discriminate|]. unfold nu'. cbn [lv_status set_status]. change (IS_omega =? IS_iterate)%Z with false. cbv iota. lia.
    + destruct (gev A (surplus s5) (lv_last s5)) eqn:Eg.
      * unfold log_msg. rewrite lvs_log. cbn [lv_status set_status]. change (IS_stable =? IS_iterate)%Z with false. cbv iota.
        rewrite lvs_log. cbn [lv_status set_status]. split; [discriminate|]. unfold nu'. rewrite lvs_log. cbn [lv_status set_status]. change (IS_stable =? IS_iterate)%Z with false. cbv iota. lia.
      * rewrite St5. change (IS_iterate =? IS_iterate)%Z with true. cbv iota.
        split; [rewrite lvs_update_kfs; cbn [lv_status set_last]; rewrite St5; discriminate|].
        unfold nu'. rewrite lvs_update_kfs. cbn [lv_status set_last]. rewrite St5. change (IS_iterate =? IS_iterate)%Z with true. cbv iota.
        unfold nu. rewrite lvl_update_kfs. cbn [lv_last set_last]. rewrite (r_gev_exact A S ZL Hex) in Eg. apply Z.leb_gt in Eg. rewrite L5 in Eg.
        apply -> Nat.succ_lt_mono. apply Z2Nat.inj_lt; lia.
  - (* somebody is elected *)
    assert (St5: lv_status s5 = IS_elected) by (unfold s5; cbn [lv_status set_surplus]; apply S4; discriminate).
    rewrite St5. change (IS_elected =? IS_elected)%Z with true. cbv iota. rewrite St5. change (IS_elected =? IS_iterate)%Z with false. cbv iota.
    assert (Hw: In w (hopefuls A s3)) by (assert (Hin: In w W) by (rewrite EW; left; reflexivity); unfold W in Hin; apply filter_In in Hin; exact (proj1 Hin)).
    assert (Hlt: (muh s5 < muh s)%nat).
    { rewrite <- Em. change (muh s5) with (muh s4). unfold s4. cbn [fold_left].
      set (t1 := set_status (elect A cfg (cid w) "Elect" false s3) IS_elected).
      assert (H1: (muh t1 < muh s3)%nat) by (unfold t1; rewrite (muh_same (elect A cfg (cid w) "Elect" false s3)) by reflexivity; apply elect_hopeful_lth; [exact Hnd3|exists w; auto]).
      pose proof (elect_fold_le W' t1). lia. }
    split; [intros _; exact Hlt|]. unfold nu'. rewrite St5. change (IS_elected =? IS_iterate)%Z with false. cbv iota. lia.
Qed.

Definition Kn (n : nat) (s : est) : Prop := ND A s /\ (muh s <= n)%nat /\ (lv_status s = IS_elected -> (muh s < n)%nat).

Lemma prf_inner_round n (Qb Qc : est -> Prop) :
  T3 (Kn n) (While (fun s => lv_status s =? IS_iterate)%Z (Do (prf_iterate_step A cfg))) (Kn n) Qb Qc.
Proof.
  eapply t_post; [|apply (t_while est (@crashed A) (Kn n) (fun _ => False))].
  - intros s [H|[H _]]; [contradiction|exact H].
  - apply t_do_nc. intros s [(Hnd & Hm & _) Hg] Hc. apply Z.eqb_eq in Hg.
    destruct (prf_step_facts s Hnd Hg Hc) as (Hnd' & Hle & Hel & _). split; [exact Hnd'|split; [lia|]]. intros E. specialize (Hel E). lia.
Qed.

Lemma prf_inner_total fuel :
  total est (@crashed A) fuel (fun s => ND A s /\ (nu' s < Pos.to_nat fuel)%nat) (While (fun s => lv_status s =? IS_iterate)%Z (Do (prf_iterate_step A cfg))).
Proof.
  apply while_total'.
  - apply total_loopfree. exact I.
  - intros m. apply t_do_nc. intros s (Hnd & Hg & Hm) Hc. apply Z.eqb_eq in Hg.
    destruct (prf_step_facts s Hnd Hg Hc) as (Hnd' & _ & _ & Hnu). split; [exact Hnd'|lia].
Qed.

Definition prf_round : cmd est :=
  Do (new_round A cfg) ;;
  Do (fun s => set_last (set_status s IS_iterate) (of_int A (cf_nballots cfg))) ;;
  While (fun s => lv_status s =? IS_iterate)%Z (Do (prf_iterate_step A cfg)) ;;
  Ite (fun s => lv_status s =? IS_elected)%Z Continue Skip ;;
  Ite (fun s => nonempty' (hopefuls A s))
    (Do (meek_defeat_low A cfg (fun nm t => "Break tie (defeat low candidate): [" ++ nm ++ "] -> " ++ t) false)) Skip.

Definition prf_guard (s : est) : bool := ((seats_left A cfg s <? nlen (hopefuls A s)) && (0 <? seats_left A cfg s))%Z.

Lemma prf_round_decreases n :
  T3 (fun s => ND A s /\ prf_guard s = true /\ muh s = n) prf_round (NDh n) (fun _ => True) (NDh n).
Proof.
  unfold prf_round.
  eapply t_seq with (M := fun s => (ND A s /\ (muh s <= n)%nat) /\ (1 <= n)%nat).
  { apply t_do. intros s (Hnd & Hg & Hm). pose proof (f_new_round A cfg s s (R_refl A s)) as Hr.
    split; [split; [exact (nd_R A _ _ Hr Hnd)|pose proof (muh_R _ _ Hr); lia]|].
    rewrite <- Hm. apply hopefuls_muh_pos. unfold prf_guard in Hg. apply andb_prop in Hg. destruct Hg as [Hg1 Hg2].
    destruct (hopefuls A s); [|discriminate]. unfold nlen in Hg1. cbn in Hg1. apply Z.ltb_lt in Hg1. apply Z.ltb_lt in Hg2. lia. }
  eapply t_seq with (M := fun s => Kn n s /\ (1 <= n)%nat).
  { apply t_do. intros s [[Hnd Hm] Hn]. split; [|exact Hn]. split; [exact Hnd|split; [exact Hm|]]. cbn [lv_status set_last set_status]. discriminate. }
  eapply t_seq with (M := fun s => Kn n s /\ (1 <= n)%nat).
  { intros fuel s s' k [HP Hn] He. pose proof (prf_inner_round n (fun _ => True) (NDh n) fuel s s' k HP He) as H.
    destruct k; try exact H. split; [exact H|exact Hn]. }
  eapply t_seq with (M := fun s => (ND A s /\ (muh s <= n)%nat) /\ (1 <= n)%nat).
  { apply t_ite; [apply t_continue'|apply t_skip'].
    - intros s [[(Hnd & Hm & Hs) _] Hg]. apply Z.eqb_eq in Hg. split; [exact Hnd|exact (Hs Hg)].
    - intros s [[(Hnd & Hm & _) Hn] _]. split; [split; assumption|exact Hn]. }
  apply t_ite.
  - apply t_do_nc. intros s [[[Hnd Hm] Hn] _] Hc. pose proof (meek_defeat_low_lt _ false s Hnd Hc) as Hlt. split; [|lia].
    exact (nd_R A _ _ (f_meek_defeat_low A cfg s _ false s (R_refl A s) Hnd) Hnd).
  - apply t_skip'. intros s [[[Hnd Hm] Hn] Hh]. split; [exact Hnd|]. rewrite nohop_muh_zero; [lia|]. destruct (hopefuls A s); [reflexivity|discriminate Hh].
Qed.

Lemma prf_round_total fuel : (Datatypes.S (Z.to_nat (cf_nballots cfg * S)) < Pos.to_nat fuel)%nat ->
  total est (@crashed A) fuel (fun s => ND A s) prf_round.
Proof.
  intros Hf. unfold prf_round.
  eapply total_seq with (M := fun s => ND A s) (Qb := fun _ => True) (Qc := fun _ => True); [apply total_loopfree; exact I| |].
  { apply t_do. intros s Hnd. exact (nd_R A _ _ (f_new_round A cfg s s (R_refl A s)) Hnd). }
  eapply total_seq with (M := fun s => ND A s /\ (nu' s < Pos.to_nat fuel)%nat) (Qb := fun _ => True) (Qc := fun _ => True); [apply total_loopfree; exact I| |].
  { apply t_do. intros s Hnd. split; [exact Hnd|]. unfold nu', nu. cbn [lv_status lv_last set_last set_status]. change (IS_iterate =? IS_iterate)%Z with true. cbv iota.
    rewrite (r_of_int A S ZL). exact Hf. }
  eapply total_seq with (M := fun _ => True) (Qb := fun _ => True) (Qc := fun _ => True); [apply prf_inner_total|apply t_any|].
  apply total_loopfree. cbn [loopfree]. tauto.
Qed.

Lemma f_prf_begin (s : est) : Forward.R A s (prf_begin A cfg s).
Proof.
  unfold prf_begin. destruct (omega A cfg); [|apply f_crash, R_refl]. cbv zeta. destruct (divv A _ _); [|apply f_crash, f_votes, f_init_kfs, R_refl].
  apply f_log. apply f_fold0; [|apply f_quota, f_votes, f_init_kfs, R_refl].
  intros y t b Hy. destruct (top_rank A b); [apply f_add_vote|apply f_crash]; exact Hy.
Qed.

Theorem meek_prf_total fuel (s : est) : ND A s ->
  (Datatypes.S (Z.to_nat (cf_nballots cfg * S)) < Pos.to_nat fuel)%nat -> (List.length (cands s) < Pos.to_nat fuel)%nat ->
  exists r, exec (@crashed A) fuel (meek_prf A cfg) s = Some r.
Proof.
  intros Hnd Hf1 Hf2. rewrite (meek_prf_unfold A cfg). change (MeekPrfRun.prf_body A cfg) with prf_round. cbn [exec].
  set (s1 := prf_begin A cfg s). pose proof (f_prf_begin s) as R1. fold s1 in R1.
  destruct (crashed s1); [eexists; reflexivity|].
  destruct (while_total' est (@crashed A) (ND A) muh prf_guard prf_round fuel) with (s := s1) as [[s2 k2] E2].
  - eapply total_pre; [|apply (prf_round_total fuel Hf1)]. intros s0 [H _]. exact H.
  - intros n. eapply t_conseq; [| | | |apply (prf_round_decreases n)]; cbv beta; auto.
  - split; [exact (nd_R A _ _ R1 Hnd)|]. pose proof (muh_R _ _ R1). pose proof (muh_bound s). lia.
  - cbn [exec] in E2. unfold prf_guard in E2. rewrite E2. destruct k2; eexists; reflexivity.
Qed.

End TM.

Section TMCount.
Variable A : arith.
Variable S : Z.
Variable ZL : zlike A S.
Variable cfg : config.
Hypothesis Hex : exact A = false.

(* meek / warren under Fixed, integer or Guarded(guard 0): the count ends once the fuel exceeds the raw ballot count (the
   largest surplus an iteration can start from) and the number of candidates *)
Theorem meek_count_terminates (pr : profile) fuel : NoDup (map pc_cid (pr_cands pr)) ->
  (Z.to_nat (cf_nballots cfg * S) < Pos.to_nat fuel)%nat -> (List.length (pr_cands pr) < Pos.to_nat fuel)%nat ->
  exists s k, exec (@crashed A) fuel (count_cmd A cfg RMeek) (init_state A cfg pr) = Some (s, k).
Proof.
  intros Hnd Hf1 Hf2. unfold count_cmd. cbn [exec rule_cmd].
  set (s0 := set_cands (init_state A cfg pr) _).
  destruct (crashed s0); [eexists; eexists; reflexivity|].
  destruct (meek_total A S ZL cfg Hex fuel s0) as [[s1 k1] E1].
  - unfold ND, s0. cbn [cands set_cands]. rewrite map_map. cbn [cid with_vote]. rewrite cids_init. exact Hnd.
  - exact Hf1.
  - unfold s0. cbn [cands set_cands]. rewrite map_length, cands_init_len. exact Hf2.
  - rewrite E1. destruct k1; eexists; eexists; reflexivity.
Qed.

Theorem meek_prf_count_terminates (pr : profile) fuel : NoDup (map pc_cid (pr_cands pr)) ->
  (Datatypes.S (Z.to_nat (cf_nballots cfg * S)) < Pos.to_nat fuel)%nat -> (List.length (pr_cands pr) < Pos.to_nat fuel)%nat ->
  exists s k, exec (@crashed A) fuel (count_cmd A cfg RMeekPrf) (init_state A cfg pr) = Some (s, k).
Proof.
  intros Hnd Hf1 Hf2. unfold count_cmd. cbn [exec rule_cmd].
  set (s0 := set_cands (init_state A cfg pr) _).
  destruct (crashed s0); [eexists; eexists; reflexivity|].
  destruct (meek_prf_total A S ZL cfg Hex fuel s0) as [[s1 k1] E1].
  - unfold ND, s0. cbn [cands set_cands]. rewrite map_map. cbn [cid with_vote]. rewrite cids_init. exact Hnd.
  - exact Hf1.
  - unfold s0. cbn [cands set_cands]. rewrite map_length, cands_init_len. exact Hf2.
  - rewrite E1. destruct k1; eexists; eexists; reflexivity.
Qed.
End TMCount.
