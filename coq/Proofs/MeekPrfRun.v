(* meek-prf, whole runs (C08): the snapshots the property names -- begin, in-iteration elections, ties, the defeat
   logged before the exclusion -- show tallies + residual = the strictly ranked ballots cast; the final 'end' snapshot
   shows tallies + residual = the ballot count given to the count.  ('round' and '... remaining' snapshots are taken
   after a tally was zeroed and before the next distribution, and are outside the claim.)  meek-prf does not read
   ballots with equal rankings. *)
From Coq Require Import ZArith List Bool String Lia ZifyBool.
From Droop Require Import Model.KernelBase Model.Str Model.Arith Model.Prelude Model.State Model.Prims Model.RulesMeek
  Proofs.CmdMeta Proofs.Zlike Proofs.Gregory Proofs.MeekDist Proofs.Status Proofs.ForwardOps Proofs.Decided Proofs.MeekRun.
Import ListNotations.
Open Scope Z_scope.

Section MeekPrfRun.
Variable A : arith.
Variable S : Z.
Variable ZL : zlike A S.
Variable cfg : config.
Notation est := (est A).
Notation cand := (cand A).
Notation R := (@raw A S ZL).
Notation tot := (tot A S ZL).
Notation relk := (relk A).
Notation Pk := (Pk A).
Notation Pnh := (Pnh A).

Lemma RV0' : R (V0 A) = 0. Proof. unfold V0. rewrite (r_of_int A S ZL). lia. Qed.

(* ---- one distribution ---- *)
Lemma dist_ballot_prf_frame r : forall cs mult w br, NoDup (map (@cid A) cs) ->
  relk Pk cs (fst (fst (dist_ballot_prf A cs mult r w br))).
Proof.
  induction r as [|i r IH]; intros cs mult w br Hnd; cbn [dist_ballot_prf]; [apply relk_refl|].
  destruct (find_cand A cs i) as [c|] eqn:Ef; [|apply IH; exact Hnd].
  destruct (kf_truthy A c) eqn:Hk; [|apply IH; exact Hnd]. cbv zeta.
  set (kv := mulv A (kmul A w (kf_of A c) true) mult).
  assert (H1: relk Pk cs (upd_cand A i (fun c0 => with_vote c0 (add A (cvote c0) kv)) cs))
    by (apply (relk_upd A Pk cs i c kv Hnd Ef); unfold MeekRun.Pk; rewrite Hk; reflexivity).
  destruct (lev A _ (V0 A)); cbn [fst snd]; [exact H1|].
  eapply (relk_trans A Pk (Pk_vote A)); [exact H1|]. apply IH. rewrite (relk_ids A Pk _ _ H1). exact Hnd.
Qed.

Definition prf_step : list cand * T A * list (ballot A) -> ballot A -> list cand * T A * list (ballot A) :=
  fun '(cs, res_, acc) b =>
  let '(cs', w', br') := dist_ballot_prf A cs (bmult b) (brank b) (V1 A) (bmult b) in
  (cs', add A res_ br', with_bres (with_bweight b w') br' :: acc).

Lemma prf_fold_spec (bs : list (ballot A)) : forall cs res acc, NoDup (map (@cid A) cs) ->
  let r := fold_left prf_step bs (cs, res, acc) in
  tot (fst (fst r)) + R (snd (fst r)) = tot cs + R res + sum_mult A S ZL bs /\
  relk Pk cs (fst (fst r)) /\
  sum_mult A S ZL (snd r) = sum_mult A S ZL acc + sum_mult A S ZL bs.
Proof.
  induction bs as [|b bs IH]; intros cs res acc Hnd; cbn [fold_left].
  - cbn [fst snd]. unfold sum_mult. cbn [fold_right]. split; [lia|split; [apply relk_refl|lia]].
  - assert (E: prf_step (cs, res, acc) b =
              (let '(cs', w', br') := dist_ballot_prf A cs (bmult b) (brank b) (V1 A) (bmult b) in
               (cs', add A res br', with_bres (with_bweight b w') br' :: acc))) by reflexivity.
    rewrite E. clear E.
    pose proof (dist_ballot_prf_conserves A S ZL (brank b) cs (bmult b) (V1 A) (bmult b) Hnd) as [H1 H2].
    pose proof (dist_ballot_prf_frame (brank b) cs (bmult b) (V1 A) (bmult b) Hnd) as K1. cbv zeta in H1, H2.
    destruct (dist_ballot_prf A cs (bmult b) (brank b) (V1 A) (bmult b)) as [[cs1 w1] br1]. cbn [fst snd] in H1, H2, K1.
    destruct (IH cs1 (add A res br1) (with_bres (with_bweight b w1) br1 :: acc)) as (T3 & K3 & M3); [rewrite H2; exact Hnd|].
    cbv zeta in T3, K3, M3. split; [|split].
    + rewrite T3, (r_add A S ZL). unfold sum_mult. cbn [fold_right]. fold (sum_mult A S ZL bs). lia.
    + eapply (relk_trans A Pk (Pk_vote A)); [exact K1|exact K3].
    + rewrite M3. unfold sum_mult. cbn [fold_right bmult with_bres with_bweight]. lia.
Qed.

Lemma prf_distribute_unfold (s : est) :
  prf_distribute A s =
  (let s0 := set_residual (zero_he_votes A s) (V0 A) in
   let r := fold_left prf_step (ballots s0) (cands s0, V0 A, []) in
   set_ballots (set_residual (set_cands s0 (fst (fst r))) (snd (fst r))) (rev (snd r))).
Proof.
  unfold prf_distribute. cbv zeta.
  change (fold_left _ (ballots (set_residual (zero_he_votes A s) (V0 A))) (cands (set_residual (zero_he_votes A s) (V0 A)), V0 A, []))
    with (fold_left prf_step (ballots (set_residual (zero_he_votes A s) (V0 A))) (cands (set_residual (zero_he_votes A s) (V0 A)), V0 A, [])).
  destruct (fold_left prf_step _ _) as [[cs res_] bs_rev]. reflexivity.
Qed.

Lemma prf_distribute_spec (s : est) : NoDup (map (@cid A) (cands s)) ->
  tot (cands (prf_distribute A s)) + R (residual (prf_distribute A s)) = nonhe_tot A S ZL (cands s) + sum_mult A S ZL (ballots s) /\
  relk Pnh (cands s) (cands (prf_distribute A s)) /\
  sum_mult A S ZL (ballots (prf_distribute A s)) = sum_mult A S ZL (ballots s) /\
  eballots (prf_distribute A s) = eballots s /\ quota (prf_distribute A s) = quota s /\ actions (prf_distribute A s) = actions s /\
  crashed (prf_distribute A s) = crashed s.
Proof.
  intros Hnd. rewrite prf_distribute_unfold. cbv zeta.
  set (s0 := set_residual (zero_he_votes A s) (V0 A)).
  assert (Ec0: cands s0 = map (fun c => if in_state A Hopeful c || in_state A Elected c then with_vote c (V0 A) else c) (cands s)) by reflexivity.
  assert (Hnd0: NoDup (map (@cid A) (cands s0))).
  { rewrite Ec0, map_map. erewrite map_ext; [exact Hnd|]. intros c. destruct (_ || _); reflexivity. }
  assert (K0: relk Pnh (cands s) (cands s0)).
  { rewrite Ec0. apply relk_map. intros c _. unfold rk, MeekRun.Pnh, is_he. destruct (in_state A Hopeful c || in_state A Elected c); cbn [negb andb].
    - split; [reflexivity|discriminate].
    - split; [symmetry; apply with_vote_same|reflexivity]. }
  destruct (prf_fold_spec (ballots s0) (cands s0) (V0 A) [] Hnd0) as (T1 & K1 & M1). cbv zeta in T1, K1, M1.
  cbn [cands residual ballots eballots quota actions crashed crash set_ballots set_residual set_cands].
  split; [|split; [|split; [|repeat split]]].
  - rewrite T1, Ec0, tot_zero_he, RV0'. cbn [ballots s0 set_residual zero_he_votes set_cands]. lia.
  - eapply (relk_trans A Pnh (Pnh_vote A)); [exact K0|].
    apply (relk_weaken A Pk Pnh); [|exact K1]. intros c _ Hp. unfold MeekRun.Pnh in Hp. apply andb_prop in Hp. exact (proj2 Hp).
  - rewrite sum_mult_rev, M1. unfold sum_mult at 1. cbn [fold_right]. cbn [ballots s0 set_residual zero_he_votes set_cands]. lia.
Qed.


(* ================= whole runs ================= *)
Variable T0 : Z.       (* the strictly ranked ballots cast, in raw units *)
Variable Em : Z.       (* the multipliers of the ballots with equal rankings, which meek-prf never reads *)
Hypothesis Hmeth : cf_method cfg = MMeek.
Notation MI := (MI A S ZL cfg (T0 + Em)).

Definition remaining_msg (m : string) : bool := prefix "Elect remaining" m || prefix "Defeat remaining" m.
Definition claimed (t : tag) (m : string) : bool :=
  match t with TBegin | TElect | TTie | TDefeat => negb (remaining_msg m) | _ => false end.
Definition prf_ok (a : action A) : Prop :=
  claimed (a_tag a) (a_msg a) = true ->
  match a_snap a with
  | Some sn => R (as_votes sn) + match as_nt sn with Some x => R x | None => 0 end = T0
  | None => True
  end.
Definition PH (s : est) : Prop := sum_mult A S ZL (ballots s) = T0 /\ Forall prf_ok (actions s).
Definition CVp (s : est) : Prop := tot (cands s) + R (residual s) = T0.
Definition WZ (l : list cand) : Prop := forall c, In c l -> cst c = Withdrawn -> R (cvote c) = 0.

Lemma ph_same (s s' : est) : ballots s' = ballots s -> actions s' = actions s -> PH s -> PH s'.
Proof. intros E1 E2 [H1 H2]. split; rewrite ?E1, ?E2; assumption. Qed.
Lemma cvp_same (s s' : est) : cands s' = cands s -> residual s' = residual s -> CVp s -> CVp s'.
Proof. intros E1 E2 H. unfold CVp in *. rewrite E1, E2. exact H. Qed.
Lemma wz_of_mi (s : est) : MI s -> WZ (cands s).
Proof. intros M c Hc Hw. apply (mi_z0 _ _ _ _ _ _ M c Hc). unfold is_he, in_state. rewrite Hw. reflexivity. Qed.

Lemma elig_tot_w (l : list cand) : WZ l ->
  fold_right (fun x acc => R x + acc) 0 (map (@cvote A) (filter (fun c => negb (in_state A Withdrawn c)) l)) = tot l.
Proof.
  unfold MeekDist.tot. induction l as [|c l IH]; intros H; [reflexivity|]. cbn [filter fold_right].
  rewrite <- (IH (fun c' Hc' => H c' (or_intror Hc'))).
  destruct (in_state A Withdrawn c) eqn:E; cbn [negb map fold_right]; [|reflexivity].
  rewrite (H c (or_introl eq_refl)); [lia|]. unfold in_state in E. destruct (cst c); cbn in E; congruence.
Qed.

Lemma log_parts t m (s : est) : cands (log_action A cfg t m s) = cands s /\ ballots (log_action A cfg t m s) = ballots s /\
  residual (log_action A cfg t m s) = residual s.
Proof. unfold log_action. destruct (is_log t); [repeat split|]. destruct (is_round t); repeat split. Qed.

Lemma ph_log t m (s : est) : (claimed t m = true -> WZ (cands s) /\ CVp s) -> PH s -> PH (log_action A cfg t m s).
Proof.
  intros Hc [H1 H2]. destruct (log_parts t m s) as (_ & E2 & _). split; [rewrite E2; exact H1|].
  unfold log_action. destruct (is_log t) eqn:El.
  - cbn [actions set_actions]. constructor; [|exact H2]. unfold prf_ok. cbn [a_tag a_snap]. auto.
  - set (s1 := if is_round t then set_rounds s (rounds s ++ [cands s]) else s).
    assert (F: cands s1 = cands s /\ actions s1 = actions s /\ residual s1 = residual s) by (unfold s1; destruct (is_round t); repeat split).
    destruct F as (F1 & F2 & F3). cbn [actions set_actions]. rewrite F2. constructor; [|exact H2].
    unfold prf_ok. cbn [a_tag a_msg a_snap]. intros Hcl. destruct (Hc Hcl) as [Hw Hv].
    unfold snap_of, eligibles. cbn [as_votes as_nt]. rewrite Hmeth, F1, F3, r_vsum', (elig_tot_w _ Hw). exact Hv.
Qed.
Lemma cvp_log t m (s : est) : CVp s -> CVp (log_action A cfg t m s).
Proof. intros H. destruct (log_parts t m s) as (E1 & _ & E3). apply (cvp_same s); assumption. Qed.

Lemma cvp_upd_same (s : est) i f : (forall c, cvote (f c) = cvote c) -> CVp s -> CVp (upd A s i f).
Proof. intros Hf H. unfold CVp, upd in *. cbn [cands residual set_cands]. rewrite (tot_upd_votes_same A S ZL); assumption. Qed.
Lemma wz_upd (s : est) i f : (forall c, cvote (f c) = cvote c) -> (forall c, cst (f c) = Withdrawn -> cst c = Withdrawn) ->
  WZ (cands s) -> WZ (cands (upd A s i f)).
Proof.
  intros Hv Hs H c' Hc' Hw. unfold upd in Hc'. cbn [cands set_cands] in Hc'.
  destruct (in_upd_c A i f _ c' Hc') as (c & Hc & [[_ ->]|[_ ->]]); [rewrite Hv; apply (H c Hc), Hs, Hw|exact (H c Hc Hw)].
Qed.

(* elect: the snapshot is taken after the status change; tallies are untouched *)
Lemma ph_elect i m p (s : est) : (forall nm, claimed TElect (m ++ ": " ++ nm) = true -> WZ (cands s) /\ CVp s) -> PH s -> PH (elect A cfg i m p s).
Proof.
  intros Hc H. unfold elect. destruct (find_cand A (cands s) i) as [c0|]; [|revert H; apply ph_same; reflexivity].
  apply ph_log; [|revert H; apply ph_same; reflexivity].
  intros Hcl. destruct (Hc _ Hcl) as [Hw Hv]. split; [apply wz_upd; [reflexivity|intros c E; cbn in E; discriminate|exact Hw]|apply cvp_upd_same; [reflexivity|exact Hv]].
Qed.
Lemma cvp_elect i m p (s : est) : CVp s -> CVp (elect A cfg i m p s).
Proof. intros H. unfold elect. destruct (find_cand A (cands s) i); [|revert H; apply cvp_same; reflexivity]. apply cvp_log. apply cvp_upd_same; [reflexivity|exact H]. Qed.

(* defeat: logged before the tally is zeroed *)
Lemma ph_dz i m (s : est) : (forall nm, claimed TDefeat (m ++ ": " ++ nm) = true -> WZ (cands s) /\ CVp s) -> PH s ->
  PH (zero_cand A i (defeat A cfg i m s)).
Proof.
  intros Hc H. unfold zero_cand. apply (ph_same (defeat A cfg i m s)); [reflexivity|reflexivity|].
  unfold defeat. destruct (find_cand A (cands s) i) as [c0|]; [|revert H; apply ph_same; reflexivity].
  apply ph_log; [|revert H; apply ph_same; reflexivity].
  intros Hcl. destruct (Hc _ Hcl) as [Hw Hv]. split; [apply wz_upd; [reflexivity|intros c E; cbn in E; discriminate|exact Hw]|apply cvp_upd_same; [reflexivity|exact Hv]].
Qed.

Lemma ph_update_kfs cl (s : est) : PH s -> PH (update_kfs A cl s).
Proof.
  intros H. unfold update_kfs. generalize (electeds A s) as l. intros l. revert s H. induction l as [|c l IH]; intros s H; cbn [fold_left]; [exact H|].
  apply IH. destruct (crashed s); [exact H|]. destruct (kdiv A _ _ _); revert H; apply ph_same; reflexivity.
Qed.
Lemma cvp_update_kfs cl (s : est) : CVp s -> CVp (update_kfs A cl s).
Proof.
  intros H. unfold update_kfs. generalize (electeds A s) as l. intros l. revert s H. induction l as [|c l IH]; intros s H; cbn [fold_left]; [exact H|].
  apply IH. destruct (crashed s); [exact H|]. destruct (kdiv A _ _ _); [|revert H; apply cvp_same; reflexivity]. cbv zeta. apply cvp_upd_same; [reflexivity|exact H].
Qed.

(* a distribution restores the balance *)
Lemma mi_prf_distribute (s : est) : MI s -> PH s -> MI (prf_distribute A s) /\ PH (prf_distribute A s) /\ CVp (prf_distribute A s).
Proof.
  intros M [P1 P2]. destruct (prf_distribute_spec s (mi_nd _ _ _ _ _ _ M)) as (D1 & D2 & D3 & D4 & D5 & D6 & _).
  assert (Hback: forall c', In c' (cands (prf_distribute A s)) -> is_he A c' = false ->
            exists c, In c (cands s) /\ is_he A c = false /\ cvote c' = cvote c /\ kf_truthy A c' = false).
  { intros c' Hc' Hh. destruct (relk_in A _ _ _ c' D2 Hc') as (c & Hc & Hr). destruct (rk_id A _ _ _ Hr) as (E1 & E2 & E3 & E4).
    assert (Hhc: is_he A c = false) by (unfold is_he, in_state in *; rewrite <- E2; exact Hh).
    pose proof (mi_kf0 _ _ _ _ _ _ M c Hc Hhc) as Hk. exists c. split; [exact Hc|]. split; [exact Hhc|]. split.
    - apply (proj2 Hr). unfold MeekRun.Pnh. rewrite Hhc, Hk. reflexivity.
    - unfold kf_truthy in *. rewrite E4. exact Hk. }
  split; [constructor|split; [split|]].
  - rewrite (relk_ids A _ _ _ D2). exact (mi_nd _ _ _ _ _ _ M).
  - intros c' Hc' Hh. destruct (Hback c' Hc' Hh) as (c & Hc & Hhc & Ev & _). rewrite Ev. exact (mi_z0 _ _ _ _ _ _ M c Hc Hhc).
  - intros c' Hc' Hh. destruct (Hback c' Hc' Hh) as (c & _ & _ & _ & Hk). exact Hk.
  - rewrite D3, D4. exact (mi_tm _ _ _ _ _ _ M).
  - rewrite D6. exact (mi_hist _ _ _ _ _ _ M).
  - rewrite D3. exact P1.
  - rewrite D6. exact P2.
  - unfold CVp. rewrite D1, (nonhe_tot_zero A S ZL _ (mi_z0 _ _ _ _ _ _ M)). lia.
Qed.


(* ---- the joint invariant right after a distribution ---- *)
Definition Q (s : est) : Prop := MI s /\ PH s /\ CVp s.
Definition QW (s : est) : Prop := MI s /\ PH s.     (* between a zeroed tally and the next distribution *)

Lemma q_same (s s' : est) : cands s' = cands s -> ballots s' = ballots s -> eballots s' = eballots s -> actions s' = actions s ->
  residual s' = residual s -> Q s -> Q s'.
Proof.
  intros E1 E2 E3 E4 E5 (M & P & V). split; [exact (mi_same A S ZL cfg _ s s' E1 E2 E3 E4 M)|split; [exact (ph_same s s' E2 E4 P)|exact (cvp_same s s' E1 E5 V)]].
Qed.
Lemma qw_same (s s' : est) : cands s' = cands s -> ballots s' = ballots s -> eballots s' = eballots s -> actions s' = actions s -> QW s -> QW s'.
Proof. intros E1 E2 E3 E4 (M & P). split; [exact (mi_same A S ZL cfg _ s s' E1 E2 E3 E4 M)|exact (ph_same s s' E2 E4 P)]. Qed.
Lemma q_qw (s : est) : Q s -> QW s. Proof. intros (M & P & _). split; assumption. Qed.

Lemma q_log t m (s : est) : t <> TIterate -> Q s -> Q (log_action A cfg t m s).
Proof.
  intros Ht (M & P & V). split; [apply (mi_log A S ZL cfg _ Hmeth); [intros E; congruence|exact M]|split; [|apply cvp_log; exact V]].
  apply ph_log; [|exact P]. intros _. split; [apply wz_of_mi; exact M|exact V].
Qed.
Lemma q_elect i m p (s : est) : Q s -> Q (elect A cfg i m p s).
Proof.
  intros (M & P & V). split; [apply (mi_elect A S ZL cfg _ Hmeth); exact M|split; [|apply cvp_elect; exact V]].
  apply ph_elect; [|exact P]. intros nm _. split; [apply wz_of_mi; exact M|exact V].
Qed.
Lemma q_fold {X} (g : est -> X -> est) (l : list X) : (forall s x, Q s -> Q (g s x)) -> forall s, Q s -> Q (fold_left g l s).
Proof. intros Hg. induction l as [|x l IH]; intros s Hs; cbn [fold_left]; [exact Hs|]. apply IH, Hg, Hs. Qed.
Lemma q_update_kfs cl (s : est) : Q s -> Q (update_kfs A cl s).
Proof. intros (M & P & V). split; [apply mi_update_kfs; exact M|split; [apply ph_update_kfs; exact P|apply cvp_update_kfs; exact V]]. Qed.
Lemma q_set_quota_r (s : est) q : Q s -> Q (set_quota_r A s q).
Proof. intros H. unfold set_quota_r. destruct q; revert H; apply q_same; reflexivity. Qed.

Lemma q_iterate_step (s : est) : QW s -> Q (prf_iterate_step A cfg s).
Proof.
  intros [M P]. unfold prf_iterate_step. cbv zeta.
  destruct (mi_prf_distribute s M P) as (M1 & P1 & V1'). set (s1 := prf_distribute A s) in *.
  set (s3 := set_quota_r A (set_votes s1 _) _).
  assert (Q3: Q s3) by (apply q_set_quota_r; apply (q_same s1); [reflexivity|reflexivity|reflexivity|reflexivity|reflexivity|]; split; [exact M1|split; assumption]).
  destruct (crashed s3); [exact Q3|].
  set (s4 := fold_left _ (filter (ge_quota A s3) (hopefuls A s3)) s3).
  assert (Q4: Q s4).
  { apply q_fold; [|exact Q3]. intros t c Qt. apply (q_same (elect A cfg (cid c) "Elect" false t)); [reflexivity|reflexivity|reflexivity|reflexivity|reflexivity|]. apply q_elect. exact Qt. }
  set (s5 := set_surplus s4 _).
  assert (Q5: Q s5) by (revert Q4; apply q_same; reflexivity).
  set (s6 := if lv_status s5 =? IS_elected then s5 else _).
  assert (Q6: Q s6).
  { unfold s6. destruct (lv_status s5 =? IS_elected); [exact Q5|]. destruct (ltv A (surplus s5) _); [revert Q5; apply q_same; reflexivity|].
    destruct (gev A (surplus s5) (lv_last s5)); [|exact Q5]. unfold log_msg. apply q_log; [discriminate|]. revert Q5. apply q_same; reflexivity. }
  destruct (lv_status s6 =? IS_iterate); [|exact Q6]. apply q_update_kfs. revert Q6. apply q_same; reflexivity.
Qed.

Lemma q_break_tie fmt tied (s : est) : Q s -> Q (fst (break_tie A cfg fmt tied s)).
Proof.
  intros H. unfold break_tie. destruct tied as [|c [|c' l]]; cbn [fst]; [revert H; apply q_same; reflexivity|exact H|].
  destruct (by_tie A (c :: c' :: l)); cbn [fst]; [revert H; apply q_same; reflexivity|]. apply q_log; [discriminate|exact H].
Qed.

Lemma qw_dz i m (s : est) : Q s -> QW (zero_cand A i (defeat A cfg i m s)).
Proof.
  intros (M & P & V). split; [apply mi_dz; exact M|]. apply ph_dz; [|exact P]. intros nm _. split; [apply wz_of_mi; exact M|exact V].
Qed.

Lemma qw_defeat_low fmt (s : est) : Q s -> QW (meek_defeat_low A cfg fmt false s).
Proof.
  intros H. unfold meek_defeat_low. destruct (low_within_surplus A s) as [lows|e]; [|apply q_qw; revert H; apply q_same; reflexivity].
  pose proof (q_break_tie fmt lows s H) as Hb. destruct (break_tie A cfg fmt lows s) as [s1 [l|]]; cbn [fst] in Hb; [|apply q_qw; exact Hb].
  cbv zeta. set (msg := if lv_status s1 =? IS_omega then _ else _).
  pose proof (qw_dz l msg s1 Hb) as H2. destruct (crashed (zero_cand A l (defeat A cfg l msg s1))); exact H2.
Qed.

(* the closing loop: its snapshots are the '... remaining' ones, outside the claim *)
Lemma claimed_elect_remaining nm : claimed TElect ("Elect remaining" ++ ": " ++ nm) = false.
Proof. reflexivity. Qed.
Lemma claimed_defeat_remaining nm : claimed TDefeat ("Defeat remaining" ++ ": " ++ nm) = false.
Proof. reflexivity. Qed.

Lemma qw_final (s : est) : QW s -> QW (meek_final A cfg false s).
Proof.
  intros H. unfold meek_final. cbv zeta.
  match goal with |- QW (set_residual (set_votes ?x _) _) => apply (qw_same x); [reflexivity|reflexivity|reflexivity|reflexivity|] end.
  generalize (hopefuls A s) as l. intros l. revert s H. induction l as [|c l IH]; intros s H; cbn [fold_left]; [exact H|].
  apply IH. destruct (crashed s); [exact H|]. destruct H as [M P].
  destruct (nlen (electeds A s) <? cf_nseats cfg).
  - split; [apply (mi_elect A S ZL cfg _ Hmeth); exact M|]. apply ph_elect; [|exact P]. intros nm Hc. rewrite claimed_elect_remaining in Hc. discriminate.
  - split; [apply mi_dz; exact M|]. apply ph_dz; [|exact P]. intros nm Hc. rewrite claimed_defeat_remaining in Hc. discriminate.
Qed.


(* ---- the first operation ---- *)
Variable ids : list Z.
Notation BI := (BI A S ZL cfg (T0 + Em) ids).

Definition prf_begin (s : est) : est :=
  match omega A cfg with
  | Raise e => set_crash s e
  | Ok _ =>
    let s0 := init_kfs A s in
    let s1 := set_votes s0 (of_int A (cf_nballots cfg)) in
    match divv A (votes s1) (of_int A (cf_nseats cfg + 1)) with
    | Raise e => set_crash s1 e
    | Ok q =>
      let s2 := set_quota s1 (add A q (epsilon A)) in
      let s3 := fold_left (fun s b => match top_rank A b with
                                      | Some c => add_vote A c (bmult b) s
                                      | None => set_crash s AttributeError end) (ballots s2) s2 in
      log_action A cfg TBegin "Begin Count" s3
    end
  end.
Definition prf_body : cmd est :=
  Do (new_round A cfg) ;;
  Do (fun s => set_last (set_status s IS_iterate) (of_int A (cf_nballots cfg))) ;;
  While (fun s => lv_status s =? IS_iterate) (Do (prf_iterate_step A cfg)) ;;
  Ite (fun s => lv_status s =? IS_elected) Continue Skip ;;
  Ite (fun s => nonempty' (hopefuls A s))
    (Do (meek_defeat_low A cfg (fun nm t => "Break tie (defeat low candidate): [" ++ nm ++ "] -> " ++ t) false)) Skip.
Lemma meek_prf_unfold : meek_prf A cfg =
  (Do prf_begin ;;
   While (fun s => (seats_left A cfg s <? nlen (hopefuls A s)) && (0 <? seats_left A cfg s)) prf_body ;;
   Do (meek_final A cfg false)).
Proof. reflexivity. Qed.

Definition PreP (s : est) : Prop :=
  BI s /\ PH s /\ tot (cands s) = 0 /\ R (residual s) = 0 /\
  (forall b, In b (ballots s) -> exists c, top_rank A b = Some c /\ In c ids /\ In c (map (@cid A) (cands s))).

Lemma tot_init_kfs (s : est) : tot (cands (init_kfs A s)) = tot (cands s).
Proof.
  unfold init_kfs, MeekDist.tot. cbn [cands set_cands]. induction (cands s) as [|c l IH]; [reflexivity|]. cbn [map fold_right]. rewrite IH.
  destruct (in_state A Hopeful c); reflexivity.
Qed.
Lemma cids_init_kfs (s : est) : map (@cid A) (cands (init_kfs A s)) = map (@cid A) (cands s).
Proof. unfold init_kfs. cbn [cands set_cands]. rewrite map_map. apply map_ext. intros c. destruct (in_state A Hopeful c); reflexivity. Qed.

Lemma first_prefs_fold (l : list (ballot A)) : forall s : est,
  NoDup (map (@cid A) (cands s)) ->
  (forall b, In b l -> exists c, top_rank A b = Some c /\ In c ids /\ In c (map (@cid A) (cands s))) -> BI s ->
  let s' := fold_left (fun s b => match top_rank A b with
                                  | Some c => add_vote A c (bmult b) s
                                  | None => set_crash s AttributeError end) l s in
  BI s' /\ tot (cands s') = tot (cands s) + sum_mult A S ZL l /\ residual s' = residual s /\ ballots s' = ballots s /\ actions s' = actions s.
Proof.
  induction l as [|b l IH]; intros s Hnd Hl B; cbn [fold_left].
  - cbv zeta. unfold sum_mult. cbn [fold_right]. split; [exact B|split; [lia|split; [reflexivity|split; reflexivity]]].
  - destruct (Hl b (or_introl eq_refl)) as (c & Et & Hi & Hc). rewrite Et.
    assert (Hnd1: NoDup (map (@cid A) (cands (add_vote A c (bmult b) s)))) by (unfold add_vote, upd; cbn [cands set_cands]; rewrite cids_upd_vote; exact Hnd).
    destruct (IH (add_vote A c (bmult b) s) Hnd1) as (B' & T' & R' & Bl' & A').
    + intros b' Hb'. destruct (Hl b' (or_intror Hb')) as (c' & E1 & E2 & E3). exists c'. split; [exact E1|split; [exact E2|]].
      unfold add_vote, upd. cbn [cands set_cands]. rewrite cids_upd_vote. exact E3.
    + apply bi_add_vote; assumption.
    + cbv zeta in *. split; [exact B'|]. split; [|split; [rewrite R'; reflexivity|split; [rewrite Bl'; reflexivity|rewrite A'; reflexivity]]].
      rewrite T'. unfold add_vote, upd. cbn [cands set_cands]. unfold MeekDist.tot. rewrite (tot_add_vote A S ZL (cands s) c (bmult b) Hnd Hc).
      unfold sum_mult. cbn [fold_right]. lia.
Qed.

Lemma qw_begin (s : est) : PreP s -> QW (prf_begin s).
Proof.
  intros (B & P & Ht & Hr & Hb). unfold prf_begin.
  destruct (omega A cfg) as [o|e]; [|split; [apply mi_set_crash; exact (proj1 B)|revert P; apply ph_same; reflexivity]]. cbv zeta.
  destruct (divv A _ _) as [q|e]; [|split; [apply (mi_same A S ZL cfg _ (init_kfs A s)); [reflexivity|reflexivity|reflexivity|reflexivity|]; exact (proj1 (bi_init_kfs A S ZL cfg _ ids s B))|revert P; apply ph_same; reflexivity]].
  set (s2 := set_quota (set_votes (init_kfs A s) _) _).
  assert (B2: BI s2) by (apply (bi_same A S ZL cfg _ ids (init_kfs A s)); [reflexivity|reflexivity|reflexivity|reflexivity|]; apply bi_init_kfs; exact B).
  destruct (first_prefs_fold (ballots s2) s2) as (B3 & T3 & R3 & Bl3 & A3).
  { cbn [cands s2 set_quota set_votes]. rewrite cids_init_kfs. exact (mi_nd _ _ _ _ _ _ (proj1 B)). }
  { intros b Hb0. destruct (Hb b Hb0) as (c & E1 & E2 & E3). exists c. split; [exact E1|split; [exact E2|]]. cbn [cands s2 set_quota set_votes]. rewrite cids_init_kfs. exact E3. }
  { exact B2. }
  cbv zeta in *. set (s3 := fold_left _ (ballots s2) s2) in *.
  assert (P3: PH s3) by (apply (ph_same s); [rewrite Bl3; reflexivity|rewrite A3; reflexivity|exact P]).
  assert (V3: CVp s3).
  { unfold CVp. rewrite T3, R3. cbn [cands residual ballots s2 set_quota set_votes]. rewrite tot_init_kfs, Ht. change (ballots (init_kfs A s)) with (ballots s). change (residual (init_kfs A s)) with (residual s). rewrite Hr. pose proof (proj1 P). lia. }
  split; [apply (mi_log A S ZL cfg _ Hmeth); [discriminate|exact (proj1 B3)]|].
  apply ph_log; [|exact P3]. intros _. split; [apply wz_of_mi; exact (proj1 B3)|exact V3].
Qed.

(* ---- the rule ---- *)
Notation T3 := (triple est (@crashed A)).

Lemma prf_body_triple (Qb : est -> Prop) : T3 QW prf_body QW Qb QW.
Proof.
  unfold prf_body.
  eapply t_seq with (M := QW).
  { apply t_do. intros s [M P]. unfold new_round. split.
    - apply (mi_log A S ZL cfg _ Hmeth); [discriminate|]. revert M. apply mi_same; reflexivity.
    - apply ph_log; [discriminate|]. revert P. apply ph_same; reflexivity. }
  eapply t_seq with (M := fun s => QW s /\ (lv_status s =? IS_iterate = true \/ CVp s)).
  { apply t_do. intros s H. split; [revert H; apply qw_same; reflexivity|left; reflexivity]. }
  eapply t_seq with (M := Q).
  { eapply t_post; [|apply (t_while est (@crashed A) (fun s => QW s /\ (lv_status s =? IS_iterate = true \/ CVp s)) (fun _ => False))].
    - intros s [H|[[[M P] [Hi|V]] Hg]]; [contradiction|congruence|split; [exact M|split; assumption]].
    - apply t_do. intros s [[H _] _]. pose proof (q_iterate_step s H) as (M & P & V). split; [split; assumption|right; exact V]. }
  eapply t_seq with (M := Q); [apply t_ite; [apply t_continue'; intros s [H _]; apply q_qw; exact H|apply t_skip'; intros s [H _]; exact H]|].
  apply t_ite; [|apply t_skip'; intros s [H _]; apply q_qw; exact H].
  apply t_do. intros s [H _]. apply qw_defeat_low. exact H.
Qed.

Definition EndOKp (s : est) : Prop := MI s /\ NoHop A s /\ EndEq A S ZL cfg s /\ PH s.

Theorem meek_prf_triple (Qb Qc : est -> Prop) : T3 PreP (meek_prf A cfg) EndOKp Qb Qc.
Proof.
  rewrite meek_prf_unfold.
  eapply t_seq with (M := QW).
  { apply t_do. intros s P. apply qw_begin. exact P. }
  eapply t_seq with (M := QW).
  { eapply t_post; [|apply (t_while est (@crashed A) QW (fun _ => False))].
    - intros s [H|[H _]]; [contradiction|exact H].
    - eapply t_pre with (P := QW); [intros s H; exact (proj1 H)|]. apply prf_body_triple. }
  apply t_do_nc. intros s H Hc. destruct (qw_final s H) as [M P].
  split; [exact M|split; [apply meek_final_nohop; exact Hc|split; [apply final_end_eq|exact P]]].
Qed.

End MeekPrfRun.
