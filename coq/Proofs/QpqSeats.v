(* C09 for QPQ, under every arithmetic: a count never has more winners than seats.  QPQ un-elects everybody when it restarts after an
   exclusion, so statuses do not only move forward (C09's status theorem leaves QPQ out) -- but the number of winners is bounded all
   the same: the loop runs only while a seat is free, a step elects at most one candidate, a restart elects nobody, and the closing
   "elect remaining" step runs only when the hopefuls fit. *)
From Coq Require Import ZArith List Bool String Lia PArith.
From Droop Require Import Model.KernelBase Model.Str Model.Arith Model.Prelude Model.State Model.Prims Model.RulesMeek
  Model.Election Proofs.CmdMeta Proofs.Status Proofs.Ties Proofs.Forward Proofs.ForwardOps Proofs.Terminate Proofs.TerminateQpq Proofs.Conserve Proofs.ConserveCount Proofs.Winners.
Import ListNotations.
Open Scope Z_scope.

Section QS.
Variable A : arith.
Variable cfg : config.
Notation est := (est A).
Notation cand := (cand A).
Notation actn := (actn A).
Notation hopn := (hopn A).
Notation eln := (eln A).
Notation sl := (sl A).
Notation seats := (cf_nseats cfg).
Local Open Scope cmd_scope.
Notation T3 := (triple est (@crashed A)).

Definition J (s : est) : Prop := NoDup (map (@cid A) (cands s)) /\ Z.of_nat (eln s) <= seats.
Definition J1 (s : est) : Prop := NoDup (map (@cid A) (cands s)) /\ Z.of_nat (eln s) < seats.

Lemma j_sl (P : est -> Prop) (s s' : est) : sl s' = sl s -> (P = J \/ P = J1) -> P s -> P s'.
Proof.
  intros E HP H. destruct (counts_sl4 A _ _ E) as (_ & _ & E3 & _). pose proof (mono_sl A s s' E) as (_ & _ & Ei).
  destruct HP as [-> | ->]; destruct H as [Hnd Hle]; (split; [rewrite Ei; exact Hnd|rewrite E3; exact Hle]).
Qed.

Lemma eln_unelect_le i (s : est) : (eln (unelect A i s) <= eln s)%nat.
Proof. unfold Winners.eln, unelect, upd. cbn [cands set_cands]. apply sumc_upd_le. intros c. unfold elc. cbn [cst with_st]. apply Nat.le_0_l. Qed.

Lemma eln_restart_le (s : est) : (eln (qpq_restart A s) <= eln s)%nat.
Proof.
  unfold qpq_restart. cbv zeta. unfold Winners.eln. cbn [cands set_ballots]. fold (eln (fold_left (fun s c => unelect A (cid c) s) (electeds A s) s)).
  generalize (electeds A s). intros L. revert s. induction L as [|c L IH]; intros s; cbn [fold_left]; [apply Nat.le_refl|].
  eapply Nat.le_trans; [apply IH|apply eln_unelect_le].
Qed.

Lemma j_cands (s s' : est) : cands s' = cands s -> J s -> J s'.
Proof. intros E [H1 H2]. unfold J, Winners.eln in *. rewrite E. split; assumption. Qed.
Lemma j1_j (s : est) : J1 s -> J s. Proof. intros [H1 H2]. split; [exact H1|lia]. Qed.

(* one step of the QPQ loop, taken while a seat is free: at most one more winner *)
Lemma step_j (s : est) : J1 s -> J (qpq_step A cfg s).
Proof.
  intros H1. pose proof (j1_j s H1) as H. destruct H1 as [Hnd Hlt]. unfold qpq_step.
  destruct (max_quo A (hopefuls A s)) as [hq|]; [|apply (j_cands s); [reflexivity|exact H]].
  destruct (gtv A hq (quota s)).
  - set (highs := filter _ (hopefuls A s)).
    pose proof (break_tie_cands A cfg (qpq_tie "largest quotient") highs s) as Ec.
    destruct (break_tie A cfg (qpq_tie "largest quotient") highs s) as [s1 [h|]] eqn:Eb; cbn [fst snd] in *; [|apply (j_cands s); assumption].
    destruct (proj1 (break_tie_spec A cfg _ _ _ _ _ Eb)) as (c & Hch & Eh).
    assert (Hc1: HopId A s1 h).
    { exists c. split; [|exact Eh]. unfold hopefuls. rewrite Ec. unfold highs in Hch. apply filter_In in Hch. exact (proj1 Hch). }
    assert (Hnd1: NoDup (map (@cid A) (cands s1))) by (rewrite Ec; exact Hnd).
    destruct (elect_counts A cfg h "Elect high quotient" false s1 Hnd1 Hc1) as (_ & F2 & _ & F4).
    assert (G1: eln s1 = eln s) by (unfold Winners.eln; rewrite Ec; reflexivity).
    cbv zeta. set (s2 := elect A cfg h "Elect high quotient" false s1) in *.
    assert (J2: J s2) by (split; [rewrite F4; exact Hnd1|rewrite F2, G1; lia]).
    destruct (crashed s2); [exact J2|].
    destruct (divv A (V1 A) _) as [nw|e]; [|apply (j_cands s2); [reflexivity|exact J2]].
    apply (j_cands s2); [|exact J2]. rewrite (cands_log A cfg). reflexivity.
  - destruct (min_quo A (hopefuls A s)) as [lq|]; [|apply (j_cands s); [reflexivity|exact H]].
    set (lows := filter _ (hopefuls A s)).
    pose proof (break_tie_cands A cfg (qpq_tie "smallest quotient") lows s) as Ec.
    destruct (break_tie A cfg (qpq_tie "smallest quotient") lows s) as [s1 [l|]] eqn:Eb; cbn [fst snd] in *; [|apply (j_cands s); assumption].
    destruct (proj1 (break_tie_spec A cfg _ _ _ _ _ Eb)) as (c & Hcl & El).
    assert (Hc1: HopId A s1 l).
    { exists c. split; [|exact El]. unfold hopefuls. rewrite Ec. unfold lows in Hcl. apply filter_In in Hcl. exact (proj1 Hcl). }
    assert (Hnd1: NoDup (map (@cid A) (cands s1))) by (rewrite Ec; exact Hnd).
    destruct (defeat_counts A cfg l "Defeat low quotient" s1 Hnd1 Hc1) as (_ & F2 & _ & F4).
    assert (G1: eln s1 = eln s) by (unfold Winners.eln; rewrite Ec; reflexivity).
    cbv zeta. set (s2 := defeat A cfg l "Defeat low quotient" s1) in *.
    assert (J2: J s2) by (split; [rewrite F4; exact Hnd1|rewrite F2, G1; lia]).
    destruct (crashed s2); [exact J2|].
    apply (j_cands s2); [|exact J2]. cbn [cands set_flag]. rewrite (cands_log A cfg). reflexivity.
Qed.

Lemma ids_fold_defeat_q msg (L : list cand) : forall t : est,
  map (@cid A) (cands (fold_left (fun s c => defeat A cfg (cid c) msg s) L t)) = map (@cid A) (cands t).
Proof. induction L as [|c L IH]; intros t; cbn [fold_left]; [reflexivity|]. rewrite IH. apply (ids_defeat A cfg). Qed.

Lemma sl_qpq_begin (s : est) :
  let s1 := set_cands s (map (fun c => if in_state A Hopeful c then with_quo (with_tc c (V0 A)) (Some (V0 A)) else c) (cands s)) in
  sl s1 = sl s.
Proof.
  cbv zeta. unfold TerminateQpq.sl. cbn [cands set_cands]. rewrite map_map. apply map_ext. intros c. destruct (in_state A Hopeful c); reflexivity.
Qed.

Theorem qpq_seats (Qb Qc : est -> Prop) : T3 J (qpq A cfg) J Qb Qc.
Proof.
  unfold qpq. eapply t_seq with (M := J).
  { apply t_do. intros s H. cbv zeta.
    match goal with |- J (if crashed ?x then _ else _) => set (s3 := x) end.
    assert (E3: sl s3 = sl s).
    { unfold s3, set_quota_r. destruct (qpq_quota A cfg _); unfold TerminateQpq.sl; cbn [cands set_quota set_crash set_txva]; apply sl_qpq_begin. }
    destruct (crashed s3); [exact (j_sl J s s3 E3 (or_introl eq_refl) H)|].
    apply (j_sl J s); [|left; reflexivity|exact H]. rewrite (sl_log A cfg). unfold TerminateQpq.sl. cbn [cands set_flag set_ballots]. exact E3. }
  eapply t_seq with (M := J).
  { eapply t_post; [|apply (t_while est (@crashed A) J (fun _ => False))]; [intros s [F|[H _]]; [contradiction|exact H]|].
    eapply t_seq with (M := J1).
    { apply t_do. intros s [H Hg]. apply (j_sl J1 s); [exact (sl_log A cfg _ _ _)|right; reflexivity|].
      split; [exact (proj1 H)|]. apply negb_true_iff in Hg. unfold count_complete_q in Hg. apply orb_false_iff in Hg. destruct Hg as [Hg _].
      apply Z.leb_gt in Hg. unfold seats_left in Hg. rewrite (nlen_electeds A) in Hg. lia. }
    eapply t_seq with (M := J1).
    { apply t_ite; [|apply t_skip'; intros s [H _]; exact H].
      apply t_do. intros s [[Hnd Hlt] _].
      assert (Hnd': NoDup (map (@cid A) (cands (set_flag s false)))) by exact Hnd.
      destruct (restart_facts A (set_flag s false) Hnd') as (_ & Ei & _).
      split; [rewrite Ei; exact Hnd|]. pose proof (eln_restart_le (set_flag s false)) as Hle.
      assert (Ee: eln (set_flag s false) = eln s) by reflexivity. lia. }
    eapply t_seq with (M := J1).
    { apply t_do. intros s H. exact (j_sl J1 s _ (proj1 (tally_sl A cfg s)) (or_intror eq_refl) H). }
    apply t_do. intros s H. exact (step_j s H). }
  eapply t_seq with (M := J).
  { apply t_ite; [|apply t_skip'; intros s [H _]; exact H].
    apply t_do. intros s [[Hnd Hle] Hg]. apply Z.leb_le in Hg. unfold seats_left in Hg. rewrite (nlen_electeds A) in Hg.
    destruct (elect_all_fold A cfg "Elect remaining candidates" (hopefuls A s) s Hnd (nodup_map_filter _ _ _ Hnd) (hop_self A s)) as (F1 & _ & _ & F4).
    cbv zeta in F1, F4. split; [exact F4|]. rewrite F1. unfold nlen in Hg. lia. }
  apply t_do. intros s [Hnd Hle].
  destruct (defeat_all_fold A cfg "Defeat remaining candidates" (hopefuls A s) s Hnd (nodup_map_filter _ _ _ Hnd) (hop_self A s)) as (F1 & _ & _).
  cbv zeta in F1. split; [|rewrite F1; exact Hle].
  rewrite (ids_fold_defeat_q "Defeat remaining candidates" (hopefuls A s) s). exact Hnd.
Qed.
End QS.

Section QSCount.
Variable A : arith.
Variable cfg : config.

Lemma eln_init (pr : profile) : eln A (zero_votes A (init_state A cfg pr)) = 0%nat.
Proof.
  destruct (init_state_shape A cfg pr) as (Ec & _ & _).
  unfold Winners.eln, zero_votes. cbn [cands set_cands]. rewrite Ec, map_map. unfold TerminateQpq.sumc. clear Ec. induction (pr_cands pr) as [|p l IH]; [reflexivity|].
  cbn [map fold_right]. rewrite IH. unfold elc. cbn [cst with_vote init_cand]. destruct (pc_withdrawn p); reflexivity.
Qed.

(* QPQ, every arithmetic: a count that does not crash ends with at most [seats] winners *)
Theorem count_seats_qpq pr fuel s k : 0 <= cf_nseats cfg -> NoDup (map pc_cid (pr_cands pr)) ->
  exec (@crashed A) fuel (count_cmd A cfg RQpq) (init_state A cfg pr) = Some (s, k) -> k <> Abort ->
  nlen (electeds A s) <= cf_nseats cfg.
Proof.
  intros Hns Hnd He Hk.
  assert (Ht: triple (est A) (@crashed A) (fun s0 => s0 = init_state A cfg pr) (count_cmd A cfg RQpq) (J A cfg) (J A cfg) (J A cfg)).
  { unfold count_cmd. eapply t_seq with (M := J A cfg).
    - apply t_do. intros s0 ->. split; [exact (proj1 (wi_init A cfg pr Hnd))|]. fold (zero_votes A (init_state A cfg pr)). rewrite eln_init. cbn. exact Hns.
    - eapply t_seq with (M := J A cfg); [cbn [rule_cmd]; apply qpq_seats|].
      apply t_do. intros s0 H. exact (j_sl A cfg (J A cfg) s0 _ (sl_log A cfg TEnd "Count Complete" s0) (or_introl eq_refl) H). }
  specialize (Ht fuel _ s k eq_refl He). assert (H: J A cfg s) by (destruct k; try exact Ht; congruence).
  rewrite (nlen_electeds A). exact (proj2 H).
Qed.
End QSCount.
