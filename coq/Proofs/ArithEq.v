(* Equalities between arithmetic instances (used to transport whole counts):
   - Guarded with guard = 0 is the Fixed instance of the same precision (C13 b);
   - the Guarded instance does not depend on the stale __scaledg left by an earlier election (C20).
   Records of functions are compared with functional extensionality (a standard-library axiom,
   named in the trusted base). *)
From Coq Require Import ZArith List Bool String Lia FunctionalExtensionality.
From Droop Require Import Model.KernelBase Model.Str Model.Arith Gen.FixedKernels Gen.GuardedKernels
  Proofs.ArithLemmas Proofs.GuardedLemmas.
Import ListNotations.
Open Scope Z_scope.

Lemma build_arith_ext
  (oi oi' : Z -> Z) (ad ad' sb sb' ml ml' : Z -> Z -> Z) (dv dv' fd fd' : Z -> Z -> res Z)
  (km km' : Z -> Z -> bool -> Z) (kd kd' : Z -> Z -> bool -> res Z) (kmd kmd' : Z -> Z -> Z -> bool -> res Z)
  (e e' l l' le le' g g' ge ge' : Z -> Z -> bool) (tr tr' : Z -> bool) (mn mn' : Z -> list Z -> Z)
  (ep ep' : Z) (ex ex' : bool) (st st' rr rr' : Z -> string) :
  (forall n, oi n = oi' n) -> (forall a b, ad a b = ad' a b) -> (forall a b, sb a b = sb' a b) ->
  (forall a b, ml a b = ml' a b) -> (forall a b, dv a b = dv' a b) -> (forall a b, fd a b = fd' a b) ->
  (forall a b u, km a b u = km' a b u) -> (forall a b u, kd a b u = kd' a b u) ->
  (forall a b c u, kmd a b c u = kmd' a b c u) ->
  (forall a b, e a b = e' a b) -> (forall a b, l a b = l' a b) -> (forall a b, le a b = le' a b) ->
  (forall a b, g a b = g' a b) -> (forall a b, ge a b = ge' a b) -> (forall a, tr a = tr' a) ->
  (forall x l, mn x l = mn' x l) -> ep = ep' -> ex = ex' -> (forall v, st v = st' v) -> (forall v, rr v = rr' v) ->
  Build_arith Z oi ad sb ml dv fd km kd kmd e l le g ge tr mn ep ex st rr =
  Build_arith Z oi' ad' sb' ml' dv' fd' km' kd' kmd' e' l' le' g' ge' tr' mn' ep' ex' st' rr'.
Proof.
  intros H1 H2 H3 H4 H5 H6 H7 H8 H9 H10 H11 H12 H13 H14 H15 H16 H17 H18 H19 H20.
  assert (oi = oi') by (apply functional_extensionality; exact H1).
  assert (ad = ad') by (apply functional_extensionality; intro; apply functional_extensionality; intro; apply H2).
  assert (sb = sb') by (apply functional_extensionality; intro; apply functional_extensionality; intro; apply H3).
  assert (ml = ml') by (apply functional_extensionality; intro; apply functional_extensionality; intro; apply H4).
  assert (dv = dv') by (apply functional_extensionality; intro; apply functional_extensionality; intro; apply H5).
  assert (fd = fd') by (apply functional_extensionality; intro; apply functional_extensionality; intro; apply H6).
  assert (km = km') by (do 3 (apply functional_extensionality; intro); apply H7).
  assert (kd = kd') by (do 3 (apply functional_extensionality; intro); apply H8).
  assert (kmd = kmd') by (do 4 (apply functional_extensionality; intro); apply H9).
  assert (e = e') by (do 2 (apply functional_extensionality; intro); apply H10).
  assert (l = l') by (do 2 (apply functional_extensionality; intro); apply H11).
  assert (le = le') by (do 2 (apply functional_extensionality; intro); apply H12).
  assert (g = g') by (do 2 (apply functional_extensionality; intro); apply H13).
  assert (ge = ge') by (do 2 (apply functional_extensionality; intro); apply H14).
  assert (tr = tr') by (apply functional_extensionality; exact H15).
  assert (mn = mn') by (do 2 (apply functional_extensionality; intro); apply H16).
  assert (st = st') by (apply functional_extensionality; exact H19).
  assert (rr = rr') by (apply functional_extensionality; exact H20).
  subst. reflexivity.
Qed.

(* ---- str of Guarded guard=0 = str of Fixed (precision >= 1, display >= 0) ---- *)
Lemma g0_str p d s v : 1 <= p -> 0 <= d ->
  guarded_str (mk_guarded_cls p 0 d s) v = fixed_str (mk_fixed_cls p d) v.
Proof.
  intros Hp Hd. unfold guarded_str, fixed_str.
  unfold GuardedKernels.dunder_str, FixedKernels.dunder_str.
  cbn [g_display g_precision g_scaled g_scaledd g_scaledr g_scaledg f_display f_precision f_scaled f_scaledd f_scaledr
       mk_guarded_cls mk_fixed_cls].
  cbv zeta.
  assert (ED: (if p + 0 <? d then p + 0 else d) = fixed_display p d).
  { unfold fixed_display. destruct (p + 0 <? d) eqn:E1; destruct ((d <? 0) || (p <? d)) eqn:E2; lia. }
  rewrite ED. set (D := fixed_display p d).
  assert (HD: 0 <= D <= p).
  { unfold D, fixed_display. destruct ((d <? 0) || (p <? d)) eqn:E2; lia. }
  replace (0 + p - D) with (p - D) by lia.
  assert (E1: (D <=? p) = true) by lia. rewrite E1.
  assert (E0: (p =? 0) = false) by lia. rewrite E0.
  destruct (D <? p) eqn:Dp.
  - destruct (pydiv (v + 10 ^ (p - D) / 2) (10 ^ (p - D))) as [q|e]; cbn [bind]; [|reflexivity].
    destruct (q <? 0); cbn [bind].
    + destruct (pydiv (- q) (10 ^ D)); cbn [bind]; [|reflexivity].
      destruct (pymod (- q) (10 ^ D)); cbn [bind]; reflexivity.
    + destruct (pydiv q (10 ^ D)); cbn [bind]; [|reflexivity].
      destruct (pymod q (10 ^ D)); cbn [bind]; reflexivity.
  - replace (p - D) with 0 by lia. change (10 ^ 0) with 1. change (1 / 2) with 0.
    unfold pydiv at 1. change (1 =? 0) with false. cbv iota. rewrite Z.add_0_r, Z.div_1_r. cbn [bind].
    destruct (v <? 0); cbn [bind].
    + destruct (pydiv (- v) (10 ^ D)); cbn [bind]; [|reflexivity].
      destruct (pymod (- v) (10 ^ D)); cbn [bind]; reflexivity.
    + destruct (pydiv v (10 ^ D)); cbn [bind]; [|reflexivity].
      destruct (pymod v (10 ^ D)); cbn [bind]; reflexivity.
Qed.

Theorem guard0_is_fixed p d s : 1 <= p -> 0 <= d -> Guarded p 0 d s = Fixed p d.
Proof.
  intros Hp Hd. unfold Guarded, Fixed. cbv zeta.
  apply build_arith_ext.
  - intros n. apply g0_init.
  - intros a b. destruct (g0_ops p d s a (OVal b)) as (E & _). rewrite E. reflexivity.
  - intros a b. destruct (g0_ops p d s a (OVal b)) as (_ & E & _). rewrite E. reflexivity.
  - intros a b. destruct (g0_ops p d s a (OVal b)) as (_ & _ & _ & _ & _ & _ & E & _). rewrite E. reflexivity.
  - intros a b. destruct (g0_ops p d s a (OVal b)) as (_ & _ & _ & _ & _ & _ & _ & _ & E). exact E.
  - intros a b. destruct (g0_ops p d s a (OVal b)) as (_ & _ & _ & _ & _ & _ & _ & E & _). exact E.
  - intros a b u. destruct (g0_round p d s (OVal a) (OVal b) (OVal 0) (rnd_of u)) as (E & _); [destruct u; auto|]. rewrite E. reflexivity.
  - intros a b u. destruct (g0_round p d s (OVal a) (OVal b) (OVal 0) (rnd_of u)) as (_ & E & _); [destruct u; auto|]. exact E.
  - intros a b c u. destruct (g0_round p d s (OVal a) (OVal b) (OVal c) (rnd_of u)) as (_ & _ & E); [destruct u; auto|]. exact E.
  - intros a b. destruct (g0_compare p d s a b) as (E & _). rewrite E. reflexivity.
  - intros a b. destruct (g0_compare p d s a b) as (_ & _ & E & _). rewrite E. reflexivity.
  - intros a b. destruct (g0_compare p d s a b) as (_ & _ & _ & E & _). rewrite E. reflexivity.
  - intros a b. destruct (g0_compare p d s a b) as (_ & _ & _ & _ & E & _). rewrite E. reflexivity.
  - intros a b. destruct (g0_compare p d s a b) as (_ & _ & _ & _ & _ & E). rewrite E. reflexivity.
  - intros a. destruct (g0_ops p d s a (OVal 0)) as (_ & _ & _ & _ & _ & E & _). rewrite E. reflexivity.
  - intros x l. rewrite (g0_min p d s (x :: l)) by discriminate. reflexivity.
  - reflexivity.
  - reflexivity.
  - intros v. apply g0_str; assumption.
  - reflexivity.
Qed.

(* ---- the stale __scaledg is read only when display > precision, where it has just been assigned ---- *)
Lemma stale_str p g d s s' v :
  guarded_str (mk_guarded_cls p g d s) v = guarded_str (mk_guarded_cls p g d s') v.
Proof.
  unfold guarded_str, GuardedKernels.dunder_str.
  cbn [g_display g_precision g_scaled g_scaledd g_scaledr g_scaledg mk_guarded_cls]. cbv zeta.
  set (D := if p + g <? d then p + g else d).
  destruct (D <=? p) eqn:E.
  - reflexivity.
  - assert (E2: (p <? D) = true) by lia. rewrite E2. reflexivity.
Qed.

Theorem guarded_stale_irrelevant p g d s s' : Guarded p g d s = Guarded p g d s'.
Proof.
  unfold Guarded. cbv zeta. apply build_arith_ext; try reflexivity.
  intros v. apply stale_str.
Qed.
