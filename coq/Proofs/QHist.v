(* The quota of a Gregory-family count is fixed at the start: once set it never changes, and every snapshot recorded
   afterwards carries it.  Same walk over the micro-operations as Proofs/Hist.v (monotone history), with the invariant
   QJ q s := quota s = q /\ every snapshot in the record shows quota q.  (C04, whole run) *)
From Coq Require Import ZArith List Bool String Lia Sorted.
From Droop Require Import Model.KernelBase Model.Str Model.Arith Model.Prelude Model.State Model.Prims
  Model.RulesGregory Model.Election Proofs.CmdMeta.
Import ListNotations.
Open Scope Z_scope.

Section QHist.
Variable A : arith.
Variable cfg : config.
Notation est := (est A).

Definition snaps_show (q : T A) (l : list (action A)) : Prop :=
  Forall (fun a => forall sn, a_snap a = Some sn -> as_quota sn = q) l.
Definition QJ (q : T A) (s : est) : Prop := quota s = q /\ snaps_show q (actions s).

Definition same_q (s s' : est) : Prop := actions s' = actions s /\ quota s' = quota s.
Lemma same_qj s s' q : QJ q s -> same_q s s' -> QJ q s'.
Proof. intros [E F] [Ea Eq']. split; [congruence|rewrite Ea; exact F]. Qed.

Ltac sh := split; reflexivity.
Lemma sq_cands s c : same_q s (set_cands s c). Proof. sh. Qed.
Lemma sq_ballots s c : same_q s (set_ballots s c). Proof. sh. Qed.
Lemma sq_surplus s c : same_q s (set_surplus s c). Proof. sh. Qed.
Lemma sq_exhausted s c : same_q s (set_exhausted s c). Proof. sh. Qed.
Lemma sq_rounds s c : same_q s (set_rounds s c). Proof. sh. Qed.
Lemma sq_round s c : same_q s (set_round s c). Proof. sh. Qed.
Lemma sq_crash s c : same_q s (set_crash s c). Proof. sh. Qed.
Lemma sq_batch s c : same_q s (set_batch s c). Proof. sh. Qed.

Lemma e_cands x s c : QJ x s -> QJ x (set_cands s c). Proof. intros; eapply same_qj; eauto using sq_cands. Qed.
Lemma e_ballots x s c : QJ x s -> QJ x (set_ballots s c). Proof. intros; eapply same_qj; eauto using sq_ballots. Qed.
Lemma e_surplus x s c : QJ x s -> QJ x (set_surplus s c). Proof. intros; eapply same_qj; eauto using sq_surplus. Qed.
Lemma e_exhausted x s c : QJ x s -> QJ x (set_exhausted s c). Proof. intros; eapply same_qj; eauto using sq_exhausted. Qed.
Lemma e_rounds x s c : QJ x s -> QJ x (set_rounds s c). Proof. intros; eapply same_qj; eauto using sq_rounds. Qed.
Lemma e_crash x s c : QJ x s -> QJ x (set_crash s c). Proof. intros; eapply same_qj; eauto using sq_crash. Qed.
Lemma e_batch x s c : QJ x s -> QJ x (set_batch s c). Proof. intros; eapply same_qj; eauto using sq_batch. Qed.
Lemma e_upd x s i f : QJ x s -> QJ x (upd A s i f). Proof. intros; unfold upd; apply e_cands; assumption. Qed.

Lemma e_log x t m s : QJ x s -> QJ x (log_action A cfg t m s).
Proof.
  intros [E F]. unfold log_action. destruct (is_log t).
  - split; [exact E|]. constructor; [intros sn H; discriminate|exact F].
  - destruct (is_round t); (split; [exact E|]); (constructor; [intros sn H; cbn in H; injection H as <-; exact E|exact F]).
Qed.
Lemma e_logmsg x m s : QJ x s -> QJ x (log_msg A cfg m s).
Proof. apply e_log. Qed.

Lemma e_set_round x s r : QJ x s -> QJ x (set_round s r).
Proof. intros; eapply same_qj; eauto using sq_round. Qed.
Lemma e_new_round x s : QJ x s -> QJ x (new_round A cfg s).
Proof. intros H. unfold new_round. apply e_log. apply e_set_round; exact H. Qed.

Lemma e_elect x i m p s : QJ x s -> QJ x (elect A cfg i m p s).
Proof. intros H. unfold elect. destruct (find_cand A (cands s) i); [apply e_log, e_upd|apply e_crash]; exact H. Qed.
Lemma e_elect_default x i p s : QJ x s -> QJ x (elect_default A cfg i p s).
Proof. apply e_elect. Qed.
Lemma e_defeat x i m s : QJ x s -> QJ x (defeat A cfg i m s).
Proof. intros H. unfold defeat. destruct (find_cand A (cands s) i); [apply e_log, e_upd|apply e_crash]; exact H. Qed.
Lemma e_unpend x i m s : QJ x s -> QJ x (unpend A cfg i m s).
Proof.
  intros H. unfold unpend. destruct (find_cand A (cands s) i); [|apply e_crash; exact H].
  destruct (is_pending A c); [|apply e_crash; exact H].
  destruct m; [apply e_log|]; apply e_upd; exact H.
Qed.
Lemma e_unelect x i s : QJ x s -> QJ x (unelect A i s). Proof. apply e_upd. Qed.
Lemma e_set_vote x i v s : QJ x s -> QJ x (set_vote A i v s). Proof. apply e_upd. Qed.
Lemma e_add_vote x i v s : QJ x s -> QJ x (add_vote A i v s). Proof. apply e_upd. Qed.

Lemma e_fold {X} (f : est -> X -> est) l : (forall x s y, QJ x s -> QJ x (f s y)) ->
  forall x s, QJ x s -> QJ x (fold_left f l s).
Proof. intros Hf. induction l as [|y l IH]; intros x s H; cbn [fold_left]; [exact H|]. apply IH, Hf, H. Qed.

Lemma e_break_tie x fmt tied s : QJ x s -> QJ x (fst (break_tie A cfg fmt tied s)).
Proof.
  intros H. unfold break_tie. destruct tied as [|c [|c2 t]]; cbn [fst]; [apply e_crash; exact H|exact H|].
  destruct (by_tie A (c :: c2 :: t)); cbn [fst]; [apply e_crash|apply e_log]; exact H.
Qed.

Lemma e_transfer x keep s b : QJ x s -> QJ x (fst (transfer A keep s b)).
Proof.
  intros H. unfold transfer. cbv zeta. destruct (top_rank A _); cbn [fst]; [apply e_add_vote|apply e_exhausted]; exact H.
Qed.

Lemma e_process f sel : (forall x s b, QJ x s -> QJ x (fst (f s b))) ->
  forall bs x s acc, QJ x s -> QJ x (fst (process_ballots A f sel bs s acc)).
Proof.
  intros Hf. induction bs as [|b t IH]; intros x s acc H; cbn [process_ballots]; [exact H|].
  destruct (crashed s); [exact H|]. destruct (sel b); [|apply IH; exact H].
  specialize (Hf x s b H). destruct (f s b) as [s' b']. apply IH. exact Hf.
Qed.
Lemma e_for_ballots f sel x s : (forall x s b, QJ x s -> QJ x (fst (f s b))) -> QJ x s -> QJ x (for_ballots A f sel s).
Proof.
  intros Hf H. unfold for_ballots. pose proof (e_process f sel Hf (ballots s) x s [] H) as P.
  destruct (process_ballots A f sel (ballots s) s []) as [s' bs]. apply e_ballots. exact P.
Qed.
Lemma e_reweigh x keep rew i surp s b : QJ x s -> QJ x (fst (reweigh_transfer A keep rew i surp s b)).
Proof.
  intros H. unfold reweigh_transfer. destruct (rew _ _ _); [apply e_transfer|cbn [fst]; apply e_crash]; exact H.
Qed.
Lemma e_elect_with_quota x hq pend msg extra s : QJ x s -> QJ x (elect_with_quota A cfg hq pend msg extra s).
Proof.
  intros H. unfold elect_with_quota. cbv zeta. apply e_fold; [|exact H]. intros y t c Hy.
  destruct msg; [apply e_elect|apply e_elect_default]; exact Hy.
Qed.

Definition bt_ext (bt : list (cand A) -> est -> est * option Z) : Prop :=
  forall x tied s, QJ x s -> QJ x (fst (bt tied s)).

Lemma e_transfer_high x bt rew s : bt_ext bt -> QJ x s -> QJ x (transfer_high_surplus A cfg bt rew s).
Proof.
  intros Hbt H. unfold transfer_high_surplus. destruct (max_vote A (pendings A s)); [|apply e_crash; exact H].
  cbv zeta. pose proof (Hbt x (filter (fun c => eqv A (cvote c) t) (pendings A s)) s H) as P.
  destruct (bt _ s) as [s1 [h|]]; cbn [fst] in P; [|exact P].
  assert (P2: QJ x (unpend A cfg h (Some "Transfer high surplus"%string) s1)) by (apply e_unpend; exact P).
  destruct (crashed (unpend A cfg h _ s1)); [exact P2|].
  match goal with |- context[for_ballots A ?f ?sel ?st] =>
    assert (P3: QJ x (for_ballots A f sel st)) by (apply e_for_ballots; [intros; apply e_reweigh; assumption|exact P2]) end.
  match goal with |- context[crashed ?st] => destruct (crashed st) end; [exact P3|].
  apply e_log, e_set_vote. exact P3.
Qed.
Lemma e_transfer_defeated_one x i s : QJ x s -> QJ x (transfer_defeated_one A cfg i s).
Proof.
  intros H. unfold transfer_defeated_one. cbv zeta. apply e_log, e_set_vote, e_for_ballots; [|exact H].
  intros; apply e_transfer; assumption.
Qed.
Lemma e_defeat_low x bt msg s : bt_ext bt -> QJ x s -> QJ x (defeat_low A cfg bt msg s).
Proof.
  intros Hbt H. unfold defeat_low. destruct (low_candidates A s) as [[lv lows]|]; [|apply e_crash; exact H].
  pose proof (Hbt x lows s H) as P. destruct (bt lows s) as [s1 [l|]]; cbn [fst] in P; [|exact P].
  assert (P2: QJ x (defeat A cfg l msg s1)) by (apply e_defeat; exact P).
  destruct (crashed _); [exact P2|apply e_transfer_defeated_one; exact P2].
Qed.
Lemma e_unpend_all x s : QJ x s -> QJ x (unpend_all A cfg s).
Proof. intros H. unfold unpend_all. apply e_fold; [|exact H]. intros; apply e_unpend; assumption. Qed.
Lemma e_elect_or_defeat x s : QJ x s -> QJ x (elect_or_defeat_remaining A cfg s).
Proof.
  intros H. unfold elect_or_defeat_remaining. apply e_fold; [|exact H]. intros y t c Hy.
  destruct (_ <? _); [apply e_elect|apply e_defeat]; exact Hy.
Qed.
End QHist.

(* ---------------------------------------------------------------- the rule trees *)
Section QRules.
Variable A : arith.
Variable cfg : config.
Notation est := (est A).

Hint Resolve e_cands e_ballots e_surplus e_exhausted e_rounds
  e_crash e_batch e_upd e_log e_logmsg e_new_round e_elect e_elect_default e_defeat
  e_unpend e_unelect e_set_vote e_add_vote e_elect_with_quota e_transfer_defeated_one
  e_unpend_all e_elect_or_defeat e_transfer e_reweigh : ext.

(* solve  QJ A x (E[s])  by walking the term: destruct conditionals, chain the cumulative lemmas *)
Ltac ext_step :=
  match goal with
  | H : QJ _ ?x ?s |- QJ _ ?x ?s => exact H
  | |- QJ _ _ (if ?c then _ else _) => destruct c eqn:?
  | |- QJ _ _ (match ?c with _ => _ end) => destruct c eqn:?
  | |- QJ _ _ (fold_left _ _ _) => apply e_fold; [intros|]
  | |- QJ _ _ (for_ballots _ _ _ _) => apply e_for_ballots; [intros|]
  | |- QJ _ _ (fst (if ?c then _ else _)) => destruct c eqn:?
  | |- QJ _ _ (fst (match ?c with _ => _ end)) => destruct c eqn:?
  | |- QJ _ _ (fst (_, _)) => cbn [fst]
  | _ => progress cbv zeta
  | _ => first [ apply e_new_round | apply e_elect_with_quota | apply e_transfer_defeated_one | apply e_unpend_all | apply e_elect_or_defeat | apply e_log | apply e_logmsg | apply e_elect | apply e_elect_default | apply e_defeat
               | apply e_unpend | apply e_unelect | apply e_set_vote | apply e_add_vote 
               | apply e_elect_with_quota | apply e_transfer_defeated_one | apply e_unpend_all | apply e_elect_or_defeat
               | apply e_transfer | apply e_reweigh | apply e_upd
               | apply e_cands | apply e_ballots | apply e_surplus
               | apply e_exhausted | apply e_rounds | apply e_crash | apply e_batch ]
  | _ => progress eauto 6 with ext
  end.
Ltac ext_go := repeat ext_step.
Ltac steps_split := cbn [steps]; repeat match goal with |- _ /\ _ => split | |- True => exact I end.

Lemma bt_simple_ext reason : bt_ext A (bt_simple A cfg reason).
Proof. intros x tied s H. unfold bt_simple. apply e_break_tie. exact H. Qed.

Lemma scot_bt_ext isd reason : bt_ext A (scot_break_tie A cfg isd reason).
Proof.
  intros x tied s H. unfold scot_break_tie. destruct tied as [|c [|c2 t]]; cbn [fst]; ext_go.
Qed.


Lemma transfer_batch_ext x keep s : QJ A x s -> QJ A x (transfer_batch A cfg keep s).
Proof. intros H. unfold transfer_batch. ext_go. Qed.
Hint Resolve transfer_batch_ext : ext.

Lemma wigm_defeat_ext x s : QJ A x s -> QJ A x (wigm_defeat A cfg s).
Proof.
  intros H. unfold wigm_defeat. destruct (low_candidates A s) as [[lv lows]|]; [|ext_go].
  destruct (_ && _).
  - ext_go.
  - pose proof (bt_simple_ext "defeat"%string x lows s H) as P.
    destruct (bt_simple A cfg "defeat" lows s) as [s1 [l|]]; cbn [fst] in P; [|exact P]. ext_go.
Qed.


Lemma defeat_batch_order_ext x msg s : QJ A x s -> QJ A x (defeat_batch_in_ballot_order A cfg msg s).
Proof. intros H. unfold defeat_batch_in_ballot_order. ext_go. Qed.



Lemma cfer_transfer_ext x s : QJ A x s -> QJ A x (cfer_transfer_all_pending A cfg s).
Proof. intros H. unfold cfer_transfer_all_pending. ext_go. Qed.
Lemma cfer_defeat_low_ext x s : QJ A x s -> QJ A x (cfer_defeat_low A cfg s).
Proof.
  intros H. unfold cfer_defeat_low. destruct (low_candidates A s) as [[lv lows]|]; [|ext_go].
  pose proof (bt_simple_ext "defeat"%string x lows s H) as P.
  destruct (bt_simple A cfg "defeat" lows s) as [s1 [l|]]; cbn [fst] in P; [|exact P]. ext_go.
Qed.


Lemma mpls_find_ext x s : QJ A x s -> QJ A x (mpls_find_defeats A cfg s).
Proof. intros H. unfold mpls_find_defeats. cbv zeta. match goal with |- context[match ?u with Ok _ => _ | Raise _ => _ end] => destruct u end; ext_go. Qed.
Lemma mpls_defeat_batch_ext x s : QJ A x s -> QJ A x (mpls_defeat_batch A cfg s).
Proof. intros H. unfold mpls_defeat_batch. ext_go. Qed.
Lemma mpls_elect_high_ext x s : QJ A x s -> QJ A x (mpls_elect_high A cfg s).
Proof.
  intros H. unfold mpls_elect_high. cbv zeta. destruct (max_vote A _); [|ext_go].
  match goal with |- context[bt_simple A cfg ?r ?l s] =>
    pose proof (bt_simple_ext r x l s H) as P; destruct (bt_simple A cfg r l s) as [s1 [h|]] end; cbn [fst] in P; [|exact P].
  ext_go.
Qed.
Lemma mpls_defeat_low_ext x s : QJ A x s -> QJ A x (mpls_defeat_low A cfg s).
Proof.
  intros H. unfold mpls_defeat_low. destruct (low_candidates A s) as [[lv lows]|]; [|ext_go].
  match goal with |- context[bt_simple A cfg ?r ?l s] =>
    pose proof (bt_simple_ext r x l s H) as P; destruct (bt_simple A cfg r l s) as [s1 [h|]] end; cbn [fst] in P; [|exact P].
  ext_go.
Qed.

Lemma prf_find_batch_ext x s : QJ A x s -> QJ A x (prf_find_batch A cfg s).
Proof. intros H. unfold prf_find_batch. ext_go. Qed.
Lemma cfer_find_batch_ext x s : QJ A x s -> QJ A x (cfer_find_batch A cfg s).
Proof. intros H. unfold cfer_find_batch. ext_go. Qed.


Ltac rule_do :=
  intros s H;
  first [ solve [ext_go]
        | solve [apply e_transfer_high; [first [apply bt_simple_ext | apply scot_bt_ext] | exact H]]
        | solve [apply e_defeat_low; [first [apply bt_simple_ext | apply scot_bt_ext] | exact H]]
        | solve [apply wigm_defeat_ext; exact H]
        | solve [apply defeat_batch_order_ext; exact H]
        | solve [apply prf_find_batch_ext; exact H]
        | solve [apply cfer_find_batch_ext; exact H]
        | solve [apply cfer_transfer_ext; exact H]
        | solve [apply cfer_defeat_low_ext; exact H]
        | solve [apply mpls_find_ext; exact H]
        | solve [apply mpls_defeat_batch_ext; exact H]
        | solve [apply mpls_elect_high_ext; exact H]
        | solve [apply mpls_defeat_low_ext; exact H]
        | solve [apply transfer_batch_ext; exact H] ].
Ltac pres_split := cbn [pres]; repeat match goal with |- _ /\ _ => split | |- True => exact I end.

(* the start: the quota is set before the first snapshot is taken *)
Definition NoSnap (s : est) : Prop := Forall (fun a => a_snap a = None) (actions s).
Lemma nosnap_show q (s : est) : NoSnap s -> snaps_show A q (actions s).
Proof. intros H. eapply Forall_impl; [|exact H]. intros a Ha sn E. congruence. Qed.

Lemma actions_initial_count (s : est) : actions (initial_count A s) = actions s.
Proof.
  unfold initial_count. generalize (ballots s) at 1. intros l. revert s. induction l as [|b l IH]; intros s; cbn [fold_left]; [reflexivity|].
  rewrite IH. destruct (top_rank A b); reflexivity.
Qed.
Lemma quota_initial_count (s : est) : quota (initial_count A s) = quota s.
Proof.
  unfold initial_count. generalize (ballots s) at 1. intros l. revert s. induction l as [|b l IH]; intros s; cbn [fold_left]; [reflexivity|].
  rewrite IH. destruct (top_rank A b); reflexivity.
Qed.
Lemma start_qj q (s : est) : NoSnap s -> QJ A q (start_count A (Ok q) s).
Proof.
  intros H. unfold start_count. split.
  - cbn [quota set_exhausted]. rewrite quota_initial_count. reflexivity.
  - cbn [actions set_exhausted]. rewrite actions_initial_count. apply nosnap_show. exact H.
Qed.

Notation T3 := (triple est (@crashed A)).
Lemma pres_t (Inv : est -> Prop) c : pres est Inv c -> T3 Inv c Inv Inv Inv.
Proof. intros Hp fuel s s' k Hi He. pose proof (exec_inv est (@crashed A) Inv c fuel s s' k Hp Hi He) as H. destruct k; auto. Qed.

Lemma start_t (qr : res (T A)) q tg msg : (forall q', qr = Ok q' -> q' = q) ->
  T3 NoSnap (Do (fun s => log_action A cfg tg msg (start_count A qr s))) (QJ A q) (QJ A q) (QJ A q).
Proof.
  intros Hq. apply t_do_nc. intros s Hn Hc. destruct qr as [q'|e].
  - rewrite (Hq q' eq_refl). apply e_log. apply start_qj. exact Hn.
  - exfalso. assert (Ecr: crashed (log_action A cfg tg msg (start_count A (Raise e) s)) = true).
    { unfold log_action, start_count. destruct (is_log tg); [|destruct (is_round tg)]; unfold crashed, set_crash; cbn; destruct (crash s); reflexivity. }
    congruence.
Qed.

Theorem wigm_quota_fixed q : (forall q', wigm_quota A cfg = Ok q' -> q' = q) -> T3 NoSnap (wigm A cfg) (QJ A q) (QJ A q) (QJ A q).
Proof. intros Hq. unfold wigm. eapply t_seq; [apply start_t; exact Hq|]. apply pres_t. pres_split; rule_do. Qed.
Theorem wigm_prf_quota_fixed q : (forall q', droop_quota_eps A cfg = Ok q' -> q' = q) -> T3 NoSnap (wigm_prf A cfg) (QJ A q) (QJ A q) (QJ A q).
Proof. intros Hq. unfold wigm_prf. eapply t_seq; [apply start_t; exact Hq|]. apply pres_t. pres_split; rule_do. Qed.
Theorem scotland_quota_fixed : T3 NoSnap (scotland A cfg) (QJ A (integer_droop_quota A cfg)) (QJ A (integer_droop_quota A cfg)) (QJ A (integer_droop_quota A cfg)).
Proof. unfold scotland. eapply t_seq; [apply start_t; intros q' E; congruence|]. apply pres_t. pres_split; rule_do. Qed.
Theorem cfer_quota_fixed q : (forall q', droop_quota_eps A cfg = Ok q' -> q' = q) -> T3 NoSnap (cfer A cfg) (QJ A q) (QJ A q) (QJ A q).
Proof. intros Hq. unfold cfer. eapply t_seq; [apply start_t; exact Hq|]. apply pres_t. pres_split; rule_do. Qed.
Theorem mpls_quota_fixed : T3 NoSnap (mpls A cfg) (QJ A (integer_droop_quota A cfg)) (QJ A (integer_droop_quota A cfg)) (QJ A (integer_droop_quota A cfg)).
Proof.
  unfold mpls. eapply t_seq.
  - apply t_do_nc. intros s Hn Hc. apply e_new_round. apply start_qj. exact Hn.
  - apply pres_t. pres_split; rule_do.
Qed.
End QRules.
