(* The number of winners (C01, second clause) for wigm, wigm-prf and scotland: a count that ends normally has elected exactly
   min(seats, candidates that are not withdrawn).  Upper bound: the seat-bound theorem (C09).  Lower bound: nobody is
   excluded unless more candidates are still in the running than there are seats -- the invariant
   "nobody defeated yet, or seats <= hopeful + elected" -- and the closing steps elect every remaining hopeful while
   seats are free. *)
From Coq Require Import ZArith List Bool String Lia PArith.
From Droop Require Import Model.KernelBase Model.Str Model.Arith Model.Prelude Model.State Model.Prims Model.RulesGregory
  Model.Election Proofs.CmdMeta Proofs.Zlike Proofs.Status Proofs.Ties Proofs.SortLemmas Proofs.Forward Proofs.ForwardOps
  Proofs.Terminate Proofs.TerminateQpq Proofs.Conserve Proofs.ConserveCount.
Import ListNotations.
Open Scope Z_scope.

Section W.
Variable A : arith.
Variable cfg : config.
Notation est := (est A).
Notation cand := (cand A).
Notation sumc := (sumc A).
Notation actn := (actn A).
Notation hopn := (hopn A).
Notation sl := (sl A).

Definition elc (c : cand) : nat := match cst c with Elected => 1 | _ => 0 end.
Definition dfc (c : cand) : nat := match cst c with Defeated => 1 | _ => 0 end.
Definition eln (s : est) : nat := sumc elc (cands s).
Definition dfn (s : est) : nat := sumc dfc (cands s).

Lemma counts_sl4 (s s' : est) : sl s' = sl s -> actn s' = actn s /\ hopn s' = hopn s /\ eln s' = eln s /\ dfn s' = dfn s.
Proof.
  intros E. destruct (counts_sl A _ _ E) as (E1 & E2 & _). split; [exact E1|split; [exact E2|split]].
  - exact (sumc_sl A (fun st => match st with Elected => 1 | _ => 0 end)%nat _ _ E).
  - exact (sumc_sl A (fun st => match st with Defeated => 1 | _ => 0 end)%nat _ _ E).
Qed.
Lemma nlen_electeds (s : est) : nlen (electeds A s) = Z.of_nat (eln s).
Proof.
  unfold nlen, electeds, eln. f_equal. unfold TerminateQpq.sumc. induction (cands s) as [|c l IH]; [reflexivity|]. cbn [filter fold_right]. rewrite <- IH.
  unfold elc, in_state. destruct (cst c); reflexivity.
Qed.
Lemma nlen_hopefuls (s : est) : nlen (hopefuls A s) = Z.of_nat (hopn s).
Proof.
  unfold nlen, hopefuls, TerminateQpq.hopn. f_equal. unfold TerminateQpq.sumc. induction (cands s) as [|c l IH]; [reflexivity|]. cbn [filter fold_right]. rewrite <- IH.
  unfold hopc, in_state. destruct (cst c); reflexivity.
Qed.
Lemma actn_split (s : est) : actn s = (hopn s + eln s)%nat.
Proof.
  unfold TerminateQpq.actn, TerminateQpq.hopn, eln, TerminateQpq.sumc. induction (cands s) as [|c l IH]; [reflexivity|]. cbn [fold_right]. rewrite IH.
  unfold actc, hopc, elc. destruct (cst c); lia.
Qed.

(* the relation every operation but an exclusion satisfies: nobody newly defeated, nobody leaves the running *)
Definition MONO (s s' : est) : Prop := (dfn s' <= dfn s)%nat /\ (actn s <= actn s')%nat /\ map (@cid A) (cands s') = map (@cid A) (cands s).
Lemma mono_refl s : MONO s s. Proof. repeat split; lia. Qed.
Lemma mono_trans a b c : MONO a b -> MONO b c -> MONO a c.
Proof. intros (A1 & A2 & A3) (B1 & B2 & B3). split; [lia|split; [lia|congruence]]. Qed.
Lemma mono_sl (s s' : est) : sl s' = sl s -> MONO s s'.
Proof. intros E. destruct (counts_sl4 _ _ E) as (E1 & _ & _ & E4). destruct (counts_sl A _ _ E) as (_ & _ & E5). split; [lia|split; [lia|exact E5]]. Qed.

Lemma sumc_upd_ge (g : cand -> nat) i f (l : list cand) : (forall c, g c <= g (f c))%nat -> (sumc g l <= sumc g (upd_cand A i f l))%nat.
Proof. intros H. unfold upd_cand, TerminateQpq.sumc. induction l as [|c l IH]; cbn [map fold_right]; [lia|]. destruct (Z.eqb (cid c) i); [pose proof (H c)|]; lia. Qed.
Lemma sumc_upd_le (g : cand -> nat) i f (l : list cand) : (forall c, g (f c) <= g c)%nat -> (sumc g (upd_cand A i f l) <= sumc g l)%nat.
Proof. intros H. unfold upd_cand, TerminateQpq.sumc. induction l as [|c l IH]; cbn [map fold_right]; [lia|]. destruct (Z.eqb (cid c) i); [pose proof (H c)|]; lia. Qed.

Lemma mono_to_elected i p (s : est) : MONO s (upd A s i (fun c => with_st c Elected (p c))).
Proof.
  unfold MONO, dfn, TerminateQpq.actn, upd. cbn [cands set_cands]. split; [|split; [|apply cids_upd; reflexivity]].
  - apply sumc_upd_le. intros c. unfold dfc. cbn [cst with_st]. destruct (cst c); lia.
  - apply sumc_upd_ge. intros c. unfold actc. cbn [cst with_st]. destruct (cst c); lia.
Qed.
Lemma mono_log t m (s : est) : MONO s (log_action A cfg t m s).
Proof. apply mono_sl, sl_log. Qed.
Lemma mono_elect i m p (s : est) : MONO s (elect A cfg i m p s).
Proof.
  unfold elect. destruct (find_cand A (cands s) i); [|apply mono_sl; reflexivity].
  eapply mono_trans; [apply (mono_to_elected i (fun _ => Some p))|apply mono_log].
Qed.
Lemma mono_unpend i m (s : est) : MONO s (unpend A cfg i m s).
Proof.
  unfold unpend. destruct (find_cand A (cands s) i); [|apply mono_sl; reflexivity]. destruct (is_pending A c); [|apply mono_sl; reflexivity].
  destruct m; [eapply mono_trans; [apply (mono_to_elected i (fun _ => Some false))|apply mono_log]|apply (mono_to_elected i (fun _ => Some false))].
Qed.
Lemma mono_fold {X} (g : est -> X -> est) (l : list X) : (forall s x, MONO s (g s x)) -> forall s, MONO s (fold_left g l s).
Proof. intros Hg. induction l as [|x l IH]; intros s; cbn [fold_left]; [apply mono_refl|]. eapply mono_trans; [apply Hg|apply IH]. Qed.

(* ballot loops touch tallies only *)
Lemma sl_process f sel (bs : list (ballot A)) : (forall s b, sl (fst (f s b)) = sl s) ->
  forall (s : est) acc, sl (fst (process_ballots A f sel bs s acc)) = sl s.
Proof.
  intros Hf. induction bs as [|b t IH]; intros s acc; cbn [process_ballots]; [reflexivity|].
  destruct (crashed s); [reflexivity|]. destruct (sel b); [|apply IH]. pose proof (Hf s b) as H1. destruct (f s b) as [s1 b1]. cbn [fst] in H1. rewrite IH. exact H1.
Qed.
Lemma sl_for_ballots f sel (s : est) : (forall s b, sl (fst (f s b)) = sl s) -> sl (for_ballots A f sel s) = sl s.
Proof.
  intros Hf. unfold for_ballots. pose proof (sl_process f sel (ballots s) Hf s []) as H. destruct (process_ballots A f sel (ballots s) s []) as [s' bs]. exact H.
Qed.
Lemma sl_transfer keep (s : est) b : sl (fst (transfer A keep s b)) = sl s.
Proof.
  unfold transfer. cbv zeta. destruct (top_rank A _); cbn [fst]; [|reflexivity]. unfold add_vote. apply sl_upd_same. intros c; split; reflexivity.
Qed.
Lemma sl_reweigh keep rew i surp (s : est) b : sl (fst (reweigh_transfer A keep rew i surp s b)) = sl s.
Proof. unfold reweigh_transfer. destruct (rew _ _ _); [apply sl_transfer|reflexivity]. Qed.
Lemma sl_set_vote i v (s : est) : sl (set_vote A i v s) = sl s.
Proof. unfold set_vote. apply sl_upd_same. intros c; split; reflexivity. Qed.

Lemma mono_transfer_high bt rew (s : est) : bt_ok A bt -> MONO s (transfer_high_surplus A cfg bt rew s).
Proof.
  intros Hok. unfold transfer_high_surplus. destruct (max_vote A (pendings A s)); [|apply mono_sl; reflexivity]. cbv zeta.
  match goal with |- context[bt ?tied s] => destruct (Hok tied s) as (_ & Ec & _); destruct (bt tied s) as [s1 [h|]] end; cbn [fst snd] in *.
  2:{ apply mono_sl. unfold TerminateQpq.sl. rewrite Ec. reflexivity. }
  assert (M1: MONO s s1) by (apply mono_sl; unfold TerminateQpq.sl; rewrite Ec; reflexivity).
  eapply mono_trans; [exact M1|]. set (s2 := unpend A cfg h (Some "Transfer high surplus"%string) s1).
  assert (M2: MONO s1 s2) by apply mono_unpend.
  destruct (crashed s2); [exact M2|]. eapply mono_trans; [exact M2|].
  set (s3 := for_ballots A _ _ s2). assert (E3: sl s3 = sl s2) by (apply sl_for_ballots; intros; apply sl_reweigh).
  destruct (crashed s3); [apply mono_sl; exact E3|]. apply mono_sl. rewrite sl_log, sl_set_vote. exact E3.
Qed.

Lemma mono_elect_with_quota hq pend msg extra (s : est) : MONO s (elect_with_quota A cfg hq pend msg extra s).
Proof.
  unfold elect_with_quota. cbv zeta. apply mono_fold. intros t c. destruct msg; [apply mono_elect|unfold elect_default; apply mono_elect].
Qed.
Lemma mono_unpend_all (s : est) : MONO s (unpend_all A cfg s).
Proof. unfold unpend_all. apply mono_fold. intros t c. apply mono_unpend. Qed.


(* ---- the invariant ---- *)
Notation seats := (cf_nseats cfg).
Definition INV (s : est) : Prop := dfn s = 0%nat \/ seats <= Z.of_nat (actn s).
Definition WI (s : est) : Prop := NoDup (map (@cid A) (cands s)) /\ INV s.
Lemma wi_mono (s s' : est) : MONO s s' -> WI s -> WI s'.
Proof.
  intros (M1 & M2 & M3) [Hnd Hi]. split; [rewrite M3; exact Hnd|]. destruct Hi as [Hd|Ha]; [left; lia|right; lia].
Qed.

(* ---- an exclusion, when more candidates are in the running than there are seats ---- *)
Definition HopId (t : est) (i : Z) : Prop := exists c, In c (hopefuls A t) /\ cid c = i.

Lemma st_change4 (st : cstate) (p : cand -> option bool) i (s : est) c : NoDup (map (@cid A) (cands s)) -> In c (hopefuls A s) -> cid c = i ->
  let s' := upd A s i (fun c0 => with_st c0 st (p c0)) in
  (hopn s' + 1 = hopn s + match st with Hopeful => 1 | _ => 0 end)%nat /\
  (eln s' = eln s + match st with Elected => 1 | _ => 0 end)%nat /\
  (dfn s' = dfn s + match st with Defeated => 1 | _ => 0 end)%nat /\
  map (@cid A) (cands s') = map (@cid A) (cands s).
Proof.
  intros Hnd Hc Ei. cbv zeta. destruct (st_change A st p i s c Hnd Hc Ei) as (H1 & _ & H3 & _). cbv zeta in H1, H3.
  unfold hopefuls in Hc. apply filter_In in Hc. destruct Hc as [Hc Hh].
  assert (Es: cst c = Hopeful) by (unfold in_state in Hh; destruct (cst c); cbn in Hh; congruence).
  pose proof (sumc_upd_one A elc i (fun c0 => with_st c0 st (p c0)) (cands s) c Hnd Hc Ei) as H2.
  pose proof (sumc_upd_one A dfc i (fun c0 => with_st c0 st (p c0)) (cands s) c Hnd Hc Ei) as H4. cbv beta in H2, H4.
  assert (E1: elc c = 0%nat) by (unfold elc; rewrite Es; reflexivity).
  assert (E2: dfc c = 0%nat) by (unfold dfc; rewrite Es; reflexivity).
  assert (E3: elc (with_st c st (p c)) = match st with Elected => 1 | _ => 0 end%nat) by reflexivity.
  assert (E4: dfc (with_st c st (p c)) = match st with Defeated => 1 | _ => 0 end%nat) by reflexivity.
  rewrite E1, E3 in H2. rewrite E2, E4 in H4. unfold eln, dfn, upd. cbn [cands set_cands].
  split; [exact H1|split; [lia|split; [lia|exact H3]]].
Qed.

Lemma find_hop (s : est) i : HopId s i -> exists c0, find_cand A (cands s) i = Some c0.
Proof. intros (c & Hc & Ei). unfold hopefuls in Hc. apply filter_In in Hc. apply find_cand_in. rewrite <- Ei. apply in_map. exact (proj1 Hc). Qed.

Lemma elect_counts i m p (s : est) : NoDup (map (@cid A) (cands s)) -> HopId s i ->
  (hopn (elect A cfg i m p s) + 1 = hopn s)%nat /\ eln (elect A cfg i m p s) = (eln s + 1)%nat /\ dfn (elect A cfg i m p s) = dfn s /\
  map (@cid A) (cands (elect A cfg i m p s)) = map (@cid A) (cands s).
Proof.
  intros Hnd Hh. destruct (find_hop s i Hh) as [c0 Ef]. destruct Hh as (c & Hc & Ei). unfold elect. rewrite Ef.
  destruct (st_change4 Elected (fun _ => Some p) i s c Hnd Hc Ei) as (H1 & H2 & H3 & H4). cbv zeta in *.
  destruct (counts_sl4 _ _ (sl_log A cfg TElect (m ++ ": " ++ cname c0)%string (upd A s i (fun c1 => with_st c1 Elected (Some p))))) as (_ & E2 & E3 & E4).
  destruct (counts_sl A _ _ (sl_log A cfg TElect (m ++ ": " ++ cname c0)%string (upd A s i (fun c1 => with_st c1 Elected (Some p))))) as (_ & _ & E5).
  rewrite E2, E3, E4, E5. repeat split; try lia; assumption.
Qed.
Lemma defeat_counts i m (s : est) : NoDup (map (@cid A) (cands s)) -> HopId s i ->
  (hopn (defeat A cfg i m s) + 1 = hopn s)%nat /\ eln (defeat A cfg i m s) = eln s /\ dfn (defeat A cfg i m s) = (dfn s + 1)%nat /\
  map (@cid A) (cands (defeat A cfg i m s)) = map (@cid A) (cands s).
Proof.
  intros Hnd Hh. destruct (find_hop s i Hh) as [c0 Ef]. destruct Hh as (c & Hc & Ei). unfold defeat. rewrite Ef.
  destruct (st_change4 Defeated (fun c1 => cpend c1) i s c Hnd Hc Ei) as (H1 & H2 & H3 & H4). cbv zeta in *.
  destruct (counts_sl4 _ _ (sl_log A cfg TDefeat (m ++ ": " ++ cname c0)%string (upd A s i (fun c1 => with_st c1 Defeated (cpend c1))))) as (_ & E2 & E3 & E4).
  destruct (counts_sl A _ _ (sl_log A cfg TDefeat (m ++ ": " ++ cname c0)%string (upd A s i (fun c1 => with_st c1 Defeated (cpend c1))))) as (_ & _ & E5).
  rewrite E2, E3, E4, E5. repeat split; try lia; assumption.
Qed.

Lemma sl_transfer_defeated_one i (s : est) : sl (transfer_defeated_one A cfg i s) = sl s.
Proof. unfold transfer_defeated_one. cbv zeta. rewrite sl_log, sl_set_vote. apply sl_for_ballots. intros; apply sl_transfer. Qed.

Lemma wi_defeat_after_tie bt msg lv lows (s : est) : bt_ok A bt -> WI s -> seats < Z.of_nat (actn s) -> low_candidates A s = Some (lv, lows) ->
  let r := match bt lows s with
           | (s1, None) => s1
           | (s1, Some l) => let s2 := defeat A cfg l msg s1 in if crashed s2 then s2 else transfer_defeated_one A cfg l s2
           end in
  WI r.
Proof.
  intros Hok [Hnd Hi] Hlt El. cbv zeta. destruct (Hok lows s) as (_ & Ec & Hin).
  destruct (bt lows s) as [s1 [l|]]; cbn [fst snd] in *.
  2:{ apply (wi_mono s); [apply mono_sl; unfold TerminateQpq.sl; rewrite Ec; reflexivity|split; assumption]. }
  destruct (Hin l eq_refl) as (t & Ht & Et).
  assert (Hnd1: NoDup (map (@cid A) (cands s1))) by (rewrite Ec; exact Hnd).
  assert (Hh1: HopId s1 l) by (exists t; split; [unfold hopefuls; rewrite Ec; exact (low_in_hopefuls A s lv lows El t Ht)|exact Et]).
  destruct (defeat_counts l msg s1 Hnd1 Hh1) as (D1 & D2 & D3 & D4).
  assert (Ea: actn s1 = actn s) by (unfold TerminateQpq.actn; rewrite Ec; reflexivity).
  set (s2 := defeat A cfg l msg s1) in *.
  assert (W2: WI s2).
  { split; [rewrite D4; exact Hnd1|]. right. rewrite actn_split, D2. rewrite (actn_split s1), (actn_split s) in Ea. rewrite actn_split in Hlt. lia. }
  destruct (crashed s2); [exact W2|]. apply (wi_mono s2); [apply mono_sl, sl_transfer_defeated_one|exact W2].
Qed.


(* ---- the closing step of wigm / wigm-prf: elect the remaining hopefuls while seats are free, defeat the others ---- *)
Lemma hopid_other_elect i j m p (t : est) : i <> j -> HopId t i -> HopId (elect A cfg j m p t) i.
Proof.
  intros Hij (c & Hc & Ei). unfold hopefuls in Hc. apply filter_In in Hc. destruct Hc as [Hc Hh].
  exists c. split; [|exact Ei]. unfold hopefuls. apply filter_In. split; [|exact Hh].
  unfold elect. destruct (find_cand A (cands t) j); [|exact Hc]. rewrite (cands_log A cfg). unfold upd. cbn [cands set_cands]. unfold upd_cand.
  apply in_map_iff. exists c. split; [|exact Hc]. destruct (Z.eqb (cid c) j) eqn:E; [exfalso; apply Hij; lia|reflexivity].
Qed.
Lemma hopid_other_defeat i j m (t : est) : i <> j -> HopId t i -> HopId (defeat A cfg j m t) i.
Proof.
  intros Hij (c & Hc & Ei). unfold hopefuls in Hc. apply filter_In in Hc. destruct Hc as [Hc Hh].
  exists c. split; [|exact Ei]. unfold hopefuls. apply filter_In. split; [|exact Hh].
  unfold defeat. destruct (find_cand A (cands t) j); [|exact Hc]. rewrite (cands_log A cfg). unfold upd. cbn [cands set_cands]. unfold upd_cand.
  apply in_map_iff. exists c. split; [|exact Hc]. destruct (Z.eqb (cid c) j) eqn:E; [exfalso; apply Hij; lia|reflexivity].
Qed.

Definition eodr_step (s : est) (c : cand) : est :=
  if (nlen (electeds A s) <? seats) then elect A cfg (cid c) "Elect remaining" false s else defeat A cfg (cid c) "Defeat remaining" s.

Lemma eodr_fold (L : list cand) : forall t : est, NoDup (map (@cid A) (cands t)) -> NoDup (map (@cid A) L) -> (forall c, In c L -> HopId t (cid c)) ->
  let t' := fold_left eodr_step L t in
  Z.of_nat (eln t') = Z.of_nat (eln t) + Z.max 0 (Z.min (Z.of_nat (List.length L)) (seats - Z.of_nat (eln t))) /\
  (hopn t' + List.length L = hopn t)%nat /\ (eln t' + dfn t' = eln t + dfn t + List.length L)%nat.
Proof.
  induction L as [|c L IH]; intros t Hnd HL Hh; cbn [fold_left]; cbv zeta.
  - cbn [List.length]. split; [lia|split; lia].
  - cbn [map] in HL. inversion HL as [|? ? Hn HL']; subst.
    assert (Hc: HopId t (cid c)) by (apply Hh; left; reflexivity).
    assert (Hstep: NoDup (map (@cid A) (cands (eodr_step t c))) /\ (forall x, In x L -> HopId (eodr_step t c) (cid x)) /\
                   (hopn (eodr_step t c) + 1 = hopn t)%nat /\
                   ((Z.of_nat (eln t) < seats /\ eln (eodr_step t c) = (eln t + 1)%nat /\ dfn (eodr_step t c) = dfn t) \/
                    (seats <= Z.of_nat (eln t) /\ eln (eodr_step t c) = eln t /\ dfn (eodr_step t c) = (dfn t + 1)%nat))).
    { unfold eodr_step. rewrite nlen_electeds. destruct (Z.of_nat (eln t) <? seats) eqn:E.
      - destruct (elect_counts (cid c) "Elect remaining" false t Hnd Hc) as (E1 & E2 & E3 & E4).
        split; [rewrite E4; exact Hnd|split; [|split; [exact E1|left; apply Z.ltb_lt in E; auto]]].
        intros x Hx. apply hopid_other_elect; [|apply Hh; right; exact Hx]. intros Eq. apply Hn. rewrite <- Eq. apply in_map. exact Hx.
      - destruct (defeat_counts (cid c) "Defeat remaining" t Hnd Hc) as (E1 & E2 & E3 & E4).
        split; [rewrite E4; exact Hnd|split; [|split; [exact E1|right; apply Z.ltb_ge in E; auto]]].
        intros x Hx. apply hopid_other_defeat; [|apply Hh; right; exact Hx]. intros Eq. apply Hn. rewrite <- Eq. apply in_map. exact Hx. }
    destruct Hstep as (Hnd1 & Hh1 & Hp & Hcase).
    destruct (IH (eodr_step t c) Hnd1 HL' Hh1) as (I1 & I2 & I3). cbv zeta in I1, I2, I3. cbn [List.length].
    destruct Hcase as [(Hlt & Ee & Ed)|(Hge & Ee & Ed)]; rewrite Ee, Ed in *; (split; [|split; lia]); rewrite I1; lia.
Qed.

Lemma eodr_counts (s : est) : NoDup (map (@cid A) (cands s)) ->
  let s' := elect_or_defeat_remaining A cfg s in
  Z.of_nat (eln s') = Z.of_nat (eln s) + Z.max 0 (Z.min (Z.of_nat (hopn s)) (seats - Z.of_nat (eln s))) /\
  hopn s' = 0%nat /\ (eln s' + dfn s' = eln s + dfn s + hopn s)%nat.
Proof.
  intros Hnd. cbv zeta. unfold elect_or_defeat_remaining.
  change (fold_left _ (hopefuls A s) s) with (fold_left eodr_step (hopefuls A s) s).
  assert (HL: List.length (hopefuls A s) = hopn s) by (apply Nat2Z.inj; rewrite <- nlen_hopefuls; reflexivity).
  destruct (eodr_fold (hopefuls A s) s Hnd) as (E1 & E2 & E3).
  - apply nodup_map_filter. exact Hnd.
  - intros c Hc. exists c. split; [exact Hc|reflexivity].
  - cbv zeta in E1, E2, E3. rewrite HL in *. split; [exact E1|split; lia].
Qed.

(* the candidates that are not withdrawn *)
Definition nonw (s : est) : nat := (actn s + dfn s)%nat.

Lemma winners_from_inv (s : est) : WI s -> Z.of_nat (eln s) <= seats ->
  Z.of_nat (eln (elect_or_defeat_remaining A cfg s)) = Z.min seats (Z.of_nat (nonw s)) /\
  nonw (elect_or_defeat_remaining A cfg s) = nonw s /\ hopn (elect_or_defeat_remaining A cfg s) = 0%nat.
Proof.
  intros [Hnd Hi] Hle. destruct (eodr_counts s Hnd) as (E1 & E2 & E3). cbv zeta in E1, E2, E3.
  unfold nonw. rewrite !actn_split, E2. split; [|split; [lia|reflexivity]].
  rewrite E1. unfold INV in Hi. rewrite actn_split in Hi. destruct Hi as [Hd|Ha]; [rewrite Hd|]; lia.
Qed.


(* ---- the rules ---- *)
Notation T3 := (triple est (@crashed A)).

Lemma sl_start_count q (s : est) : sl (start_count A q s) = sl s.
Proof.
  unfold start_count. destruct q; [|reflexivity]. unfold initial_count. cbn [ballots set_quota].
  match goal with |- sl (set_exhausted (fold_left ?g ?l ?t) _) = _ => assert (G: forall l0 t0, sl (fold_left g l0 t0) = sl t0) end.
  { induction l0 as [|b l0 IH]; intros t0; cbn [fold_left]; [reflexivity|]. rewrite IH. destruct (top_rank A b); [|reflexivity].
    unfold add_vote. apply sl_upd_same. intros c; split; reflexivity. }
  unfold TerminateQpq.sl in *. cbn [cands set_exhausted]. rewrite G. reflexivity.
Qed.

Lemma guard_actn (s : est) : guard_main A cfg s = true -> seats < Z.of_nat (actn s).
Proof.
  unfold guard_main, seats_left. rewrite nlen_electeds, nlen_hopefuls, actn_split. intros H. apply andb_prop in H. destruct H as [H1 _]. apply Z.ltb_lt in H1. lia.
Qed.

Definition POST (sf : est) : Prop := exists s2, WI s2 /\ sf = elect_or_defeat_remaining A cfg s2.

Lemma wigm_winners (Qb Qc : est -> Prop) : cf_batch_zero cfg = false -> T3 WI (wigm A cfg) POST Qb Qc.
Proof.
  intros Hbz. unfold wigm.
  eapply t_seq with (M := WI).
  { apply t_do. intros s H. apply (wi_mono s); [|exact H]. eapply mono_trans; [apply mono_sl, sl_start_count|apply mono_log]. }
  eapply t_seq with (M := WI).
  { eapply t_post; [|apply (t_while est (@crashed A) WI (fun _ => False))].
    - intros s [H|[H _]]; [contradiction|exact H].
    - eapply t_seq with (M := fun s => WI s /\ seats < Z.of_nat (actn s)).
      { apply t_do. intros s [H Hg]. pose proof (guard_actn s Hg) as Hlt. pose proof (mono_sl s (new_round A cfg s) (sl_log A cfg _ _ _)) as M.
        split; [apply (wi_mono s); assumption|destruct M as (_ & M2 & _); lia]. }
      eapply t_seq with (M := fun s => WI s /\ seats < Z.of_nat (actn s)).
      { apply t_do. intros s [H Hlt]. pose proof (mono_elect_with_quota (has_quota_exact A) (fun _ _ => true) None (fun _ => true) s) as M.
        split; [apply (wi_mono s); assumption|destruct M as (_ & M2 & _); lia]. }
      apply t_ite.
      + apply t_do. intros s [[H _] _]. apply (wi_mono s); [apply mono_transfer_high, bt_simple_ok|exact H].
      + apply t_ite; [|apply t_skip'; intros s [[[H _] _] _]; exact H].
        apply t_do. intros s [[[H Hlt] _] _]. unfold wigm_defeat. destruct (low_candidates A s) as [[lv lows]|] eqn:El; [|apply (wi_mono s); [apply mono_sl; reflexivity|exact H]].
        rewrite Hbz, andb_false_r. cbn [andb]. exact (wi_defeat_after_tie _ "Defeat" lv lows s (bt_simple_ok A cfg "defeat") H Hlt El). }
  eapply t_seq with (M := WI).
  { apply t_do. intros s H. apply (wi_mono s); [apply mono_unpend_all|exact H]. }
  apply t_do. intros s H. exists s. split; [exact H|reflexivity].
Qed.

Lemma wigm_prf_winners (Qb Qc : est -> Prop) : cf_batch cfg = false -> T3 WI (wigm_prf A cfg) POST Qb Qc.
Proof.
  intros Hb. unfold wigm_prf.
  eapply t_seq with (M := WI).
  { apply t_do. intros s H. apply (wi_mono s); [|exact H]. eapply mono_trans; [apply mono_sl, sl_start_count|apply mono_log]. }
  eapply t_seq with (M := WI).
  { eapply t_post; [|apply (t_while est (@crashed A) WI (fun _ => False))].
    - intros s [H|[H _]]; [contradiction|exact H].
    - eapply t_seq with (M := fun s => WI s /\ seats < Z.of_nat (actn s)).
      { apply t_do. intros s [H Hg]. pose proof (guard_actn s Hg) as Hlt. pose proof (mono_sl s (new_round A cfg s) (sl_log A cfg _ _ _)) as M.
        split; [apply (wi_mono s); assumption|destruct M as (_ & M2 & _); lia]. }
      eapply t_seq with (M := fun s => WI s /\ seats < Z.of_nat (actn s)).
      { apply t_do. intros s [H Hlt]. pose proof (mono_elect_with_quota (ge_quota A) (fun _ _ => true) None (fun _ => true) s) as M.
        split; [apply (wi_mono s); assumption|destruct M as (_ & M2 & _); lia]. }
      eapply t_seq with (M := fun s => (WI s /\ seats < Z.of_nat (actn s)) /\ lv_batch s = []).
      { apply t_do. intros s H. split; [exact H|]. unfold prf_find_batch. rewrite Hb. reflexivity. }
      eapply t_seq with (M := fun s => WI s /\ seats < Z.of_nat (actn s)).
      { apply t_ite; [|apply t_skip'; intros s [[H _] _]; exact H].
        intros fuel s s' k [[_ Hn] Hg] _. rewrite Hn in Hg. discriminate Hg. }
      apply t_ite.
      + apply t_do. intros s [[H _] _]. apply (wi_mono s); [apply mono_transfer_high, bt_simple_ok|exact H].
      + apply t_ite; [|apply t_skip'; intros s [[[H _] _] _]; exact H].
        apply t_do. intros s [[[H Hlt] _] _]. unfold defeat_low. destruct (low_candidates A s) as [[lv lows]|] eqn:El; [|apply (wi_mono s); [apply mono_sl; reflexivity|exact H]].
        exact (wi_defeat_after_tie _ "Defeat" lv lows s (bt_simple_ok A cfg "defeat") H Hlt El). }
  eapply t_seq with (M := WI).
  { apply t_do. intros s H. apply (wi_mono s); [apply mono_unpend_all|exact H]. }
  apply t_do. intros s H. exists s. split; [exact H|reflexivity].
Qed.


(* ---- scotland: its own closing steps ---- *)
Lemma elect_all_fold m (L : list cand) : forall t : est, NoDup (map (@cid A) (cands t)) -> NoDup (map (@cid A) L) -> (forall c, In c L -> HopId t (cid c)) ->
  let t' := fold_left (fun s c => elect A cfg (cid c) m false s) L t in
  (eln t' = eln t + List.length L)%nat /\ (hopn t' + List.length L = hopn t)%nat /\ dfn t' = dfn t /\ NoDup (map (@cid A) (cands t')).
Proof.
  induction L as [|c L IH]; intros t Hnd HL Hh; cbn [fold_left]; cbv zeta; [cbn [List.length]; repeat split; try lia; exact Hnd|].
  cbn [map] in HL. inversion HL as [|? ? Hn HL']; subst.
  destruct (elect_counts (cid c) m false t Hnd (Hh c (or_introl eq_refl))) as (E1 & E2 & E3 & E4).
  destruct (IH (elect A cfg (cid c) m false t)) as (I1 & I2 & I3 & I4); [rewrite E4; exact Hnd|exact HL'| |].
  { intros x Hx. apply hopid_other_elect; [|apply Hh; right; exact Hx]. intros Eq. apply Hn. rewrite <- Eq. apply in_map. exact Hx. }
  cbv zeta in *. cbn [List.length]. repeat split; try lia. exact I4.
Qed.
Lemma defeat_all_fold m (L : list cand) : forall t : est, NoDup (map (@cid A) (cands t)) -> NoDup (map (@cid A) L) -> (forall c, In c L -> HopId t (cid c)) ->
  let t' := fold_left (fun s c => defeat A cfg (cid c) m s) L t in
  eln t' = eln t /\ (hopn t' + List.length L = hopn t)%nat /\ (dfn t' = dfn t + List.length L)%nat.
Proof.
  induction L as [|c L IH]; intros t Hnd HL Hh; cbn [fold_left]; cbv zeta; [cbn [List.length]; repeat split; lia|].
  cbn [map] in HL. inversion HL as [|? ? Hn HL']; subst.
  destruct (defeat_counts (cid c) m t Hnd (Hh c (or_introl eq_refl))) as (E1 & E2 & E3 & E4).
  destruct (IH (defeat A cfg (cid c) m t)) as (I1 & I2 & I3); [rewrite E4; exact Hnd|exact HL'| |].
  { intros x Hx. apply hopid_other_defeat; [|apply Hh; right; exact Hx]. intros Eq. apply Hn. rewrite <- Eq. apply in_map. exact Hx. }
  cbv zeta in *. cbn [List.length]. repeat split; lia.
Qed.
Lemma hop_len (s : est) : List.length (hopefuls A s) = hopn s.
Proof. apply Nat2Z.inj. rewrite <- nlen_hopefuls. reflexivity. Qed.
Lemma hop_self (s : est) c : In c (hopefuls A s) -> HopId s (cid c).
Proof. intros H. exists c. split; [exact H|reflexivity]. Qed.

Definition scot_close (s : est) : est :=
  let s1 := if (nlen (hopefuls A s) <=? seats_left A cfg s)
            then fold_left (fun s c => elect A cfg (cid c) "Elect remaining candidates" false s) (hopefuls A s) s else s in
  fold_left (fun s c => defeat A cfg (cid c) "Defeat remaining candidates" s) (hopefuls A s1) s1.

Lemma scot_close_counts (s : est) : NoDup (map (@cid A) (cands s)) ->
  (Z.of_nat (eln (scot_close s)) = if (Z.of_nat (hopn s) <=? seats - Z.of_nat (eln s)) then Z.of_nat (eln s + hopn s) else Z.of_nat (eln s)) /\
  (eln (scot_close s) + dfn (scot_close s) = eln s + dfn s + hopn s)%nat /\ hopn (scot_close s) = 0%nat.
Proof.
  intros Hnd. unfold scot_close, seats_left. cbv zeta. rewrite nlen_hopefuls, nlen_electeds.
  destruct (Z.of_nat (hopn s) <=? seats - Z.of_nat (eln s)) eqn:E.
  - destruct (elect_all_fold "Elect remaining candidates" (hopefuls A s) s Hnd (nodup_map_filter _ _ _ Hnd) (hop_self s)) as (E1 & E2 & E3 & E4).
    cbv zeta in *. rewrite hop_len in *. set (s1 := fold_left _ (hopefuls A s) s) in *.
    destruct (defeat_all_fold "Defeat remaining candidates" (hopefuls A s1) s1 E4 (nodup_map_filter _ _ _ E4) (hop_self s1)) as (F1 & F2 & F3).
    cbv zeta in *. rewrite hop_len in *. rewrite F1, E1. repeat split; lia.
  - destruct (defeat_all_fold "Defeat remaining candidates" (hopefuls A s) s Hnd (nodup_map_filter _ _ _ Hnd) (hop_self s)) as (F1 & F2 & F3).
    cbv zeta in *. rewrite hop_len in *. rewrite F1. repeat split; lia.
Qed.

Lemma complete_counts (s : est) : count_complete A cfg s = true <-> (seats <= Z.of_nat (eln s) \/ Z.of_nat (hopn s) <= seats - Z.of_nat (eln s)).
Proof.
  unfold count_complete, seats_left. rewrite nlen_hopefuls, nlen_electeds. rewrite orb_true_iff, !Z.leb_le. lia.
Qed.

Definition WC (s : est) : Prop := WI s /\ count_complete A cfg s = true.
Definition POSTS (sf : est) : Prop := exists s2, WC s2 /\ sf = scot_close s2.

Lemma scotland_winners (Qb Qc : est -> Prop) : T3 WI (scotland A cfg) POSTS Qb Qc.
Proof.
  change (scotland A cfg) with
    (Do (fun s => log_action A cfg TBegin "Begin Count" (start_count A (Ok (integer_droop_quota A cfg)) s)) ;;
     While (fun _ => true) (scot_body A cfg) ;;
     Do (unpend_all A cfg) ;;
     Ite (fun s => nlen (hopefuls A s) <=? seats_left A cfg s)
       (Do (fun s => fold_left (fun s c => elect A cfg (cid c) "Elect remaining candidates" false s) (hopefuls A s) s)) Skip ;;
     Do (fun s => fold_left (fun s c => defeat A cfg (cid c) "Defeat remaining candidates" s) (hopefuls A s) s)).
  eapply t_seq with (M := WI).
  { apply t_do. intros s H. apply (wi_mono s); [|exact H]. eapply mono_trans; [apply mono_sl, sl_start_count|apply mono_log]. }
  eapply t_seq with (M := WC).
  { eapply t_post; [|apply (t_while est (@crashed A) WI WC)].
    - intros s [H|[_ H]]; [exact H|discriminate H].
    - unfold scot_body.
      eapply t_seq with (M := WI).
      { apply t_do. intros s [H _]. apply (wi_mono s); [apply mono_elect_with_quota|exact H]. }
      eapply t_seq with (M := fun s => WI s /\ seats < Z.of_nat (actn s)).
      { apply t_ite; [apply t_break'; intros s [H Hc]; split; assumption|]. apply t_skip'. intros s [H Hc]. split; [exact H|].
        assert (Hn: ~ (seats <= Z.of_nat (eln s) \/ Z.of_nat (hopn s) <= seats - Z.of_nat (eln s))) by (intros Hx; apply complete_counts in Hx; congruence).
        rewrite actn_split. lia. }
      eapply t_seq with (M := fun s => WI s /\ seats < Z.of_nat (actn s)).
      { apply t_do. intros s [H Hlt]. pose proof (mono_sl s (new_round A cfg s) (sl_log A cfg _ _ _)) as M.
        split; [apply (wi_mono s); assumption|destruct M as (_ & M2 & _); lia]. }
      eapply t_seq with (M := fun s => WI s /\ seats < Z.of_nat (actn s)).
      { apply t_do. intros s H. exact H. }
      eapply t_seq with (M := fun s => WI s /\ seats < Z.of_nat (actn s)).
      { apply t_ite; [|apply t_skip'; intros s [H _]; exact H].
        eapply t_seq with (M := WI); [|apply t_continue'; auto].
        apply t_do. intros s [[H _] _]. apply (wi_mono s); [apply mono_transfer_high, scot_bt_ok|exact H]. }
      eapply t_seq with (M := WI).
      { apply t_ite; [|apply t_skip'; intros s [[H _] _]; exact H].
        apply t_do. intros s [[H Hlt] _]. unfold defeat_low. destruct (low_candidates A s) as [[lv lows]|] eqn:El; [|apply (wi_mono s); [apply mono_sl; reflexivity|exact H]].
        exact (wi_defeat_after_tie _ "Defeat low candidate" lv lows s (scot_bt_ok A cfg true "defeat low candidate") H Hlt El). }
      apply t_ite; [apply t_break'; intros s [H Hc]; split; assumption|apply t_skip'; intros s [H _]; exact H]. }
  eapply t_seq with (M := WC).
  { apply t_do. intros s [H Hc]. pose proof (mono_unpend_all s) as M. split; [apply (wi_mono s); assumption|].
    (* unpend changes pending flags only *)
    assert (Esl: sl (unpend_all A cfg s) = sl s).
    { clear M. unfold unpend_all. generalize (pendings A s) as L. intros L. revert s H Hc. induction L as [|c L IH]; intros s H Hc; cbn [fold_left]; [reflexivity|].
      assert (E1: sl (unpend A cfg (cid c) None s) = sl s).
      { unfold unpend. destruct (find_cand A (cands s) (cid c)) as [c0|] eqn:Ef; [|reflexivity]. destruct (is_pending A c0) eqn:Ep; [|reflexivity].
        unfold TerminateQpq.sl, upd. cbn [cands set_cands]. unfold upd_cand. rewrite map_map. apply map_ext_in. intros x Hx.
        destruct (Z.eqb (cid x) (cid c)) eqn:E; [|reflexivity]. cbn [cid cst with_st]. f_equal.
        assert (x = c0) by (apply (find_cand_unique A (cands s) (cid c) c0 x (proj1 H) Ef Hx); lia). subst x.
        unfold is_pending, in_state in Ep. destruct (cst c0); cbn in Ep; try discriminate. reflexivity. }
      rewrite IH; [exact E1| |].
      - apply (wi_mono s); [apply mono_sl; exact E1|exact H].
      - apply complete_counts. destruct (counts_sl4 _ _ E1) as (_ & F2 & F3 & _). rewrite F2, F3. apply complete_counts. exact Hc. }
    apply complete_counts. destruct (counts_sl4 _ _ Esl) as (_ & F2 & F3 & _). rewrite F2, F3. apply complete_counts. exact Hc. }
  intros fuel s sf k HW He. cbn [exec] in He.
  destruct (nlen (hopefuls A s) <=? seats_left A cfg s) eqn:Eg.
  - cbn [exec] in He. match type of He with context[if crashed ?t then _ else _] => set (s1 := t) in * end.
    destruct (crashed s1) eqn:C1; [inversion He; subst; exact I|]. cbn [exec] in He. inversion He; subst.
    match goal with |- match (if crashed ?t then Abort else Next) with _ => _ end => destruct (crashed t); [exact I|] end.
    exists s. split; [exact HW|]. unfold scot_close. rewrite Eg. reflexivity.
  - cbn [exec] in He. inversion He; subst.
    match goal with |- match (if crashed ?t then Abort else Next) with _ => _ end => destruct (crashed t); [exact I|] end.
    exists s. split; [exact HW|]. unfold scot_close. rewrite Eg. reflexivity.
Qed.

End W.

(* ================= whole counts ================= *)
Section WCount.
Variable A : arith.
Variable S : Z.
Variable ZL : zlike A S.
Variable cfg : config.
Hypothesis Hmeth : cf_method cfg = MWigm.
Hypothesis Hex : exact A = false.
Hypothesis Hnb : 0 <= cf_nballots cfg.
Hypothesis Hns : 0 <= cf_nseats cfg.

Definition win_rule (r : rule) : Prop := (r = RWigm /\ cf_batch_zero cfg = false) \/ (r = RWigmPrf /\ cf_batch cfg = false).

Lemma nlen_eligibles (s : est A) : nlen (eligibles A s) = Z.of_nat (nonw A s).
Proof.
  unfold nlen, eligibles, nonw, TerminateQpq.actn, dfn. f_equal. unfold TerminateQpq.sumc. induction (cands s) as [|c l IH]; [reflexivity|]. cbn [filter fold_right].
  unfold in_state at 1, actc at 1, dfc at 1. destruct (cst c); cbn [cstate_eqb negb List.length]; lia.
Qed.

Lemma wi_init (pr : profile) : NoDup (map pc_cid (pr_cands pr)) -> WI A cfg (zero_votes A (init_state A cfg pr)).
Proof.
  intros Hnd. destruct (init_state_shape A cfg pr) as (Ec & _ & _). split.
  - unfold zero_votes. cbn [cands set_cands]. rewrite Ec, !map_map. cbn [cid with_vote init_cand]. exact Hnd.
  - left. unfold dfn, zero_votes. cbn [cands set_cands]. rewrite Ec, map_map. unfold TerminateQpq.sumc. clear. induction (pr_cands pr) as [|p l IH]; [reflexivity|].
    cbn [map fold_right]. rewrite IH. unfold dfc. cbn [cst with_vote init_cand]. destruct (pc_withdrawn p); reflexivity.
Qed.

(* a wigm / wigm-prf count that ends normally elects exactly min(seats, candidates not withdrawn) *)
Theorem count_winners r pr fuel s k : win_rule r -> wf_profile pr -> cf_nballots cfg = ballot_total pr ->
  exec (@crashed A) fuel (count_cmd A cfg r) (init_state A cfg pr) = Some (s, k) -> k <> Abort ->
  nlen (electeds A s) = Z.min (cf_nseats cfg) (nlen (eligibles A s)).
Proof.
  intros Hr Hwf Hnbt He Hk.
  assert (Hsr: seat_rule r) by (destruct Hr as [[-> _]|[-> _]]; [left|right; left]; reflexivity).
  pose proof (count_seats A S ZL cfg Hmeth Hex Hnb Hns r pr fuel s k Hsr Hwf Hnbt He Hk) as Hle.
  assert (Ht: triple (est A) (@crashed A) (fun s0 => s0 = init_state A cfg pr) (count_cmd A cfg r)
            (fun sf => exists s2, WI A cfg s2 /\ sl A sf = sl A (elect_or_defeat_remaining A cfg s2)) (fun _ => False) (fun _ => False)).
  { unfold count_cmd. eapply t_seq with (M := WI A cfg).
    - apply t_do. intros s0 ->. apply wi_init. exact (proj1 Hwf).
    - eapply t_seq with (M := POST A cfg).
      + destruct Hr as [[-> Hbz]|[-> Hb]]; cbn [rule_cmd]; [apply wigm_winners|apply wigm_prf_winners]; assumption.
      + apply t_do. intros s0 (s2 & W2 & ->). exists s2. split; [exact W2|apply sl_log]. }
  specialize (Ht fuel _ s k eq_refl He). destruct k; try contradiction.
  destruct Ht as (s2 & W2 & Esl). destruct (counts_sl4 A _ _ Esl) as (E1 & E2 & E3 & E4).
    rewrite nlen_electeds, nlen_eligibles. rewrite nlen_electeds in Hle. unfold nonw. rewrite E1, E3, E4 in *.
    destruct (eodr_counts A cfg s2 (proj1 W2)) as (C1 & _ & _). cbv zeta in C1.
    assert (Hle2: Z.of_nat (eln A s2) <= cf_nseats cfg) by lia.
  destruct (winners_from_inv A cfg s2 W2 Hle2) as (F1 & F2 & _). unfold nonw in F2. rewrite F1. f_equal. f_equal. unfold nonw. symmetry. exact F2.
Qed.

(* the same for the Scottish rule *)
Theorem count_winners_scotland pr fuel s k : wf_profile pr -> cf_nballots cfg = ballot_total pr ->
  exec (@crashed A) fuel (count_cmd A cfg RScotland) (init_state A cfg pr) = Some (s, k) -> k <> Abort ->
  nlen (electeds A s) = Z.min (cf_nseats cfg) (nlen (eligibles A s)).
Proof.
  intros Hwf Hnbt He Hk.
  assert (Hsr: seat_rule RScotland) by (right; right; left; reflexivity).
  pose proof (count_seats A S ZL cfg Hmeth Hex Hnb Hns RScotland pr fuel s k Hsr Hwf Hnbt He Hk) as Hle.
  assert (Ht: triple (est A) (@crashed A) (fun s0 => s0 = init_state A cfg pr) (count_cmd A cfg RScotland)
            (fun sf => exists s2, WC A cfg s2 /\ sl A sf = sl A (scot_close A cfg s2)) (fun _ => False) (fun _ => False)).
  { unfold count_cmd. eapply t_seq with (M := WI A cfg).
    - apply t_do. intros s0 ->. apply wi_init. exact (proj1 Hwf).
    - eapply t_seq with (M := POSTS A cfg); [cbn [rule_cmd]; apply scotland_winners|].
      apply t_do. intros s0 (s2 & W2 & ->). exists s2. split; [exact W2|apply sl_log]. }
  specialize (Ht fuel _ s k eq_refl He). destruct k; try contradiction.
  destruct Ht as (s2 & [[Hnd Hi] Hc] & Esl). destruct (counts_sl4 A _ _ Esl) as (E1 & E2 & E3 & E4).
  rewrite nlen_electeds, nlen_eligibles. rewrite nlen_electeds in Hle. unfold nonw. rewrite E1, E3, E4 in *.
  destruct (scot_close_counts A cfg s2 Hnd) as (C1 & C2 & C3). apply complete_counts in Hc.
  rewrite (actn_split A (scot_close A cfg s2)), C3. unfold INV in Hi. rewrite actn_split in Hi.
  destruct (Z.of_nat (hopn A s2) <=? cf_nseats cfg - Z.of_nat (eln A s2)) eqn:E; [apply Z.leb_le in E|apply Z.leb_gt in E]; rewrite C1 in *; destruct Hi as [Hd|Ha]; lia.
Qed.
End WCount.
