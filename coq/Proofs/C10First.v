(* C10, the part of "line order and multipliers do not matter" that is a statement about the profile alone: the number of ballots
   (which fixes the quota, C04) and every candidate's first-preference total (which is the tally the count starts from:
   Majority.stand_mk) are the same for two presentations of the same bag of ballots -- lines in any order, a line with
   multiplier m1 + m2 written as two lines with multipliers m1 and m2, or the other way round. *)
From Coq Require Import ZArith List Bool Lia Permutation.
From Droop Require Import Model.KernelBase Model.Election Proofs.ConserveCount Proofs.Majority.
Import ListNotations.
Open Scope Z_scope.

Definition fp_list (l : list (Z * list Z)) (m : Z) : Z :=
  fold_right (fun mr acc => (match snd mr with c :: _ => if c =? m then fst mr else 0 | [] => 0 end) + acc) 0 l.
Definition bt_list (l : list (Z * list Z)) : Z :=
  fold_right (fun mr acc => (match snd mr with [] => 0 | _ => fst mr end) + acc) 0 l.

Lemma first_prefs_list pr m : first_prefs pr m = fp_list (pr_ballots pr) m. Proof. reflexivity. Qed.
Lemma ballot_total_list pr : ballot_total pr = bt_list (pr_ballots pr). Proof. reflexivity. Qed.

Lemma fp_app l1 l2 m : fp_list (l1 ++ l2) m = fp_list l1 m + fp_list l2 m.
Proof. unfold fp_list. induction l1 as [|x l IH]; cbn [app fold_right]; [reflexivity|]. rewrite IH. lia. Qed.
Lemma bt_app l1 l2 : bt_list (l1 ++ l2) = bt_list l1 + bt_list l2.
Proof. unfold bt_list. induction l1 as [|x l IH]; cbn [app fold_right]; [reflexivity|]. rewrite IH. lia. Qed.

(* two presentations of one bag of ballots *)
Inductive same_bag : list (Z * list Z) -> list (Z * list Z) -> Prop :=
| sb_perm l l' : Permutation l l' -> same_bag l l'
| sb_split l1 l2 m1 m2 r : same_bag (l1 ++ (m1 + m2, r) :: l2) (l1 ++ (m1, r) :: (m2, r) :: l2)
| sb_merge l1 l2 m1 m2 r : same_bag (l1 ++ (m1, r) :: (m2, r) :: l2) (l1 ++ (m1 + m2, r) :: l2)
| sb_trans l l' l'' : same_bag l l' -> same_bag l' l'' -> same_bag l l''.

Lemma fp_perm l l' m : Permutation l l' -> fp_list l m = fp_list l' m.
Proof. intros P. induction P as [|x l l' P IH|x y l|l l' l'' P1 IH1 P2 IH2]; cbn [fp_list fold_right] in *; unfold fp_list in *; cbn [fold_right]; lia. Qed.
Lemma bt_perm l l' : Permutation l l' -> bt_list l = bt_list l'.
Proof. intros P. induction P as [|x l l' P IH|x y l|l l' l'' P1 IH1 P2 IH2]; unfold bt_list in *; cbn [fold_right]; lia. Qed.

Lemma fp_split l1 l2 m1 m2 r m : fp_list (l1 ++ (m1 + m2, r) :: l2) m = fp_list (l1 ++ (m1, r) :: (m2, r) :: l2) m.
Proof. rewrite !fp_app. unfold fp_list. cbn [fold_right fst snd]. destruct r as [|c r]; [lia|]. destruct (c =? m); lia. Qed.
Lemma bt_split l1 l2 m1 m2 r : bt_list (l1 ++ (m1 + m2, r) :: l2) = bt_list (l1 ++ (m1, r) :: (m2, r) :: l2).
Proof. rewrite !bt_app. unfold bt_list. cbn [fold_right fst snd]. destruct r as [|c r]; lia. Qed.

Theorem same_bag_same_totals l l' : same_bag l l' -> bt_list l = bt_list l' /\ forall m, fp_list l m = fp_list l' m.
Proof.
  intros H. induction H as [l l' P|l1 l2 m1 m2 r|l1 l2 m1 m2 r|l l' l'' H1 [I1 J1] H2 [I2 J2]].
  - split; [apply bt_perm; exact P|intros m; apply fp_perm; exact P].
  - split; [apply bt_split|intros m; apply fp_split].
  - split; [symmetry; apply bt_split|intros m; symmetry; apply fp_split].
  - split; [congruence|intros m; rewrite J1; apply J2].
Qed.

(* on profiles: same ballot count (hence the same quota for the same seats) and the same first-preference total for everybody *)
Theorem presentations_agree_at_the_start (pr pr' : profile) : same_bag (pr_ballots pr) (pr_ballots pr') ->
  ballot_total pr = ballot_total pr' /\ forall m, first_prefs pr m = first_prefs pr' m.
Proof. intros H. rewrite !ballot_total_list. destruct (same_bag_same_totals _ _ H) as [E1 E2]. split; [exact E1|intros m; rewrite !first_prefs_list; apply E2]. Qed.

(* ... and in the arithmetic of the count: the value standing with each candidate when a Gregory count starts ([stand] over the
   ballot objects Election.__init__ builds; C06's invariant says the tallies equal it) is the same for both presentations *)
From Droop Require Import Model.Arith Proofs.Zlike Proofs.Conserve.
Theorem presentations_start_with_the_same_tallies A S (ZL : zlike A S) : exact A = false -> forall pr pr' m,
  wf_profile pr -> wf_profile pr' -> same_bag (pr_ballots pr) (pr_ballots pr') ->
  stand A S ZL (mk_ballots A (pr_ballots pr)) m = stand A S ZL (mk_ballots A (pr_ballots pr')) m.
Proof.
  intros Hex pr pr' m Hw Hw' H. rewrite (stand_mk A S ZL Hex pr m Hw), (stand_mk A S ZL Hex pr' m Hw').
  f_equal. exact (proj2 (presentations_agree_at_the_start pr pr' H) m).
Qed.
