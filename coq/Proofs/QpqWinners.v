(* C01 for QPQ, under every arithmetic: a count that does not crash elects exactly min(seats, candidates not withdrawn).
   Upper bound: QpqSeats.  Lower bound: nobody is excluded unless more candidates are in the running than there are seats (the loop
   guard), a restart keeps everybody in the running, and the closing steps elect the remaining hopefuls when they fit. *)
From Coq Require Import ZArith List Bool String Lia PArith.
From Droop Require Import Model.KernelBase Model.Str Model.Arith Model.Prelude Model.State Model.Prims Model.RulesMeek
  Model.Election Proofs.CmdMeta Proofs.Status Proofs.Ties Proofs.Forward Proofs.ForwardOps Proofs.Terminate Proofs.TerminateQpq
  Proofs.Conserve Proofs.ConserveCount Proofs.Winners Proofs.QpqSeats.
Import ListNotations.
Open Scope Z_scope.

Section QW.
Variable A : arith.
Variable cfg : config.
Notation est := (est A).
Notation cand := (cand A).
Notation actn := (actn A).
Notation hopn := (hopn A).
Notation eln := (eln A).
Notation dfn := (dfn A).
Notation nonw := (nonw A).
Notation sl := (sl A).
Notation seats := (cf_nseats cfg).
Local Open Scope cmd_scope.
Notation T3 := (triple est (@crashed A)).

Lemma nlen_eligibles_any (s : est) : nlen (eligibles A s) = Z.of_nat (nonw s).
Proof.
  unfold nlen, eligibles, Winners.nonw, TerminateQpq.actn, Winners.dfn. f_equal. unfold TerminateQpq.sumc. induction (cands s) as [|c l IH]; [reflexivity|]. cbn [filter fold_right].
  unfold in_state at 1, actc at 1, dfc at 1. destruct (cst c); cbn [cstate_eqb negb List.length]; lia.
Qed.

(* K: distinct ids, at most [seats] winners, and either nobody has been excluded yet or the seats can still be filled *)
Definition K (s : est) : Prop := NoDup (map (@cid A) (cands s)) /\ Z.of_nat (eln s) <= seats /\ (dfn s = 0%nat \/ seats <= Z.of_nat (actn s)).
Definition K1 (s : est) : Prop := NoDup (map (@cid A) (cands s)) /\ Z.of_nat (eln s) < seats /\ seats < Z.of_nat (actn s).

Lemma k_sl (s s' : est) : sl s' = sl s -> K s -> K s'.
Proof.
  intros E (H1 & H2 & H3). destruct (counts_sl4 A _ _ E) as (E1 & _ & E3 & E4). pose proof (mono_sl A s s' E) as (_ & _ & Ei).
  split; [rewrite Ei; exact H1|]. rewrite E1, E3, E4. split; assumption.
Qed.
Lemma k1_sl (s s' : est) : sl s' = sl s -> K1 s -> K1 s'.
Proof.
  intros E (H1 & H2 & H3). destruct (counts_sl4 A _ _ E) as (E1 & _ & E3 & E4). pose proof (mono_sl A s s' E) as (_ & _ & Ei).
  split; [rewrite Ei; exact H1|]. rewrite E1, E3. split; assumption.
Qed.
Lemma k_cands (s s' : est) : cands s' = cands s -> K s -> K s'.
Proof. intros E H. apply (k_sl s); [unfold TerminateQpq.sl; rewrite E; reflexivity|exact H]. Qed.

Lemma step_k (s : est) : K1 s -> K (qpq_step A cfg s).
Proof.
  intros (Hnd & Hlt & Ha).
  assert (H: K s) by (split; [exact Hnd|split; [lia|right; lia]]).
  unfold qpq_step.
  destruct (max_quo A (hopefuls A s)) as [hq|]; [|apply (k_cands s); [reflexivity|exact H]].
  destruct (gtv A hq (quota s)).
  - set (highs := filter _ (hopefuls A s)).
    pose proof (break_tie_cands A cfg (qpq_tie "largest quotient") highs s) as Ec.
    destruct (break_tie A cfg (qpq_tie "largest quotient") highs s) as [s1 [h|]] eqn:Eb; cbn [fst snd] in *; [|apply (k_cands s); assumption].
    destruct (proj1 (break_tie_spec A cfg _ _ _ _ _ Eb)) as (c & Hch & Eh).
    assert (Hc1: HopId A s1 h).
    { exists c. split; [|exact Eh]. unfold hopefuls. rewrite Ec. unfold highs in Hch. apply filter_In in Hch. exact (proj1 Hch). }
    assert (Hnd1: NoDup (map (@cid A) (cands s1))) by (rewrite Ec; exact Hnd).
    destruct (elect_counts A cfg h "Elect high quotient" false s1 Hnd1 Hc1) as (F1 & F2 & F3 & F4).
    assert (G1: eln s1 = eln s /\ actn s1 = actn s) by (unfold Winners.eln, TerminateQpq.actn; rewrite Ec; split; reflexivity).
    cbv zeta. set (s2 := elect A cfg h "Elect high quotient" false s1) in *.
    assert (K2: K s2).
    { split; [rewrite F4; exact Hnd1|]. destruct G1 as [G1 G2]. split; [rewrite F2, G1; lia|right].
      rewrite (actn_split A s2), F2. rewrite (actn_split A s1) in G2. lia. }
    destruct (crashed s2); [exact K2|].
    destruct (divv A (V1 A) _) as [nw|e]; [|apply (k_cands s2); [reflexivity|exact K2]].
    apply (k_cands s2); [|exact K2]. rewrite (cands_log A cfg). reflexivity.
  - destruct (min_quo A (hopefuls A s)) as [lq|]; [|apply (k_cands s); [reflexivity|exact H]].
    set (lows := filter _ (hopefuls A s)).
    pose proof (break_tie_cands A cfg (qpq_tie "smallest quotient") lows s) as Ec.
    destruct (break_tie A cfg (qpq_tie "smallest quotient") lows s) as [s1 [l|]] eqn:Eb; cbn [fst snd] in *; [|apply (k_cands s); assumption].
    destruct (proj1 (break_tie_spec A cfg _ _ _ _ _ Eb)) as (c & Hcl & El).
    assert (Hc1: HopId A s1 l).
    { exists c. split; [|exact El]. unfold hopefuls. rewrite Ec. unfold lows in Hcl. apply filter_In in Hcl. exact (proj1 Hcl). }
    assert (Hnd1: NoDup (map (@cid A) (cands s1))) by (rewrite Ec; exact Hnd).
    destruct (defeat_counts A cfg l "Defeat low quotient" s1 Hnd1 Hc1) as (F1 & F2 & F3 & F4).
    assert (G1: eln s1 = eln s /\ actn s1 = actn s) by (unfold Winners.eln, TerminateQpq.actn; rewrite Ec; split; reflexivity).
    cbv zeta. set (s2 := defeat A cfg l "Defeat low quotient" s1) in *.
    assert (K2: K s2).
    { split; [rewrite F4; exact Hnd1|]. destruct G1 as [G1 G2]. split; [rewrite F2, G1; lia|right].
      rewrite (actn_split A s2), F2. rewrite (actn_split A s1) in G2. lia. }
    destruct (crashed s2); [exact K2|].
    apply (k_cands s2); [|exact K2]. cbn [cands set_flag]. rewrite (cands_log A cfg). reflexivity.
Qed.

Definition FIN (s : est) : Prop := NoDup (map (@cid A) (cands s)) /\ Z.of_nat (eln s) = Z.min seats (Z.of_nat (nonw s)).

Theorem qpq_winners (Qb Qc : est -> Prop) : T3 K (qpq A cfg) FIN Qb Qc.
Proof.
  unfold qpq. eapply t_seq with (M := K).
  { apply t_do. intros s H. cbv zeta.
    match goal with |- K (if crashed ?x then _ else _) => set (s3 := x) end.
    assert (E3: sl s3 = sl s).
    { unfold s3, set_quota_r. destruct (qpq_quota A cfg _); unfold TerminateQpq.sl; cbn [cands set_quota set_crash set_txva]; apply sl_qpq_begin. }
    destruct (crashed s3); [exact (k_sl s s3 E3 H)|].
    apply (k_sl s); [|exact H]. rewrite (sl_log A cfg). unfold TerminateQpq.sl. cbn [cands set_flag set_ballots]. exact E3. }
  eapply t_seq with (M := fun s => K s /\ count_complete_q A cfg s = true).
  { eapply t_post; [|apply (t_while est (@crashed A) K (fun _ => False))].
    { intros s [F|[H Hg]]; [contradiction|]. split; [exact H|]. apply negb_false_iff in Hg. exact Hg. }
    eapply t_seq with (M := K1).
    { apply t_do. intros s [(Hnd & Hle & Hi) Hg]. apply (k1_sl s); [exact (sl_log A cfg _ _ _)|].
      apply negb_true_iff in Hg. unfold count_complete_q in Hg. apply orb_false_iff in Hg. destruct Hg as [Hg1 Hg2].
      apply Z.leb_gt in Hg1. apply Z.leb_gt in Hg2. unfold seats_left in Hg1, Hg2. rewrite (nlen_electeds A) in Hg1, Hg2. rewrite (nlen_hopefuls A) in Hg2.
      split; [exact Hnd|]. split; [lia|]. rewrite (actn_split A s). lia. }
    eapply t_seq with (M := K1).
    { apply t_ite; [|apply t_skip'; intros s [H _]; exact H].
      apply t_do. intros s [(Hnd & Hlt & Ha) _].
      assert (Hnd': NoDup (map (@cid A) (cands (set_flag s false)))) by exact Hnd.
      destruct (restart_facts A (set_flag s false) Hnd') as (Ea & Ei & _).
      split; [rewrite Ei; exact Hnd|]. pose proof (eln_restart_le A (set_flag s false)) as Hle.
      assert (Ee: eln (set_flag s false) = eln s) by reflexivity. assert (Ea': actn (set_flag s false) = actn s) by reflexivity.
      split; [lia|]. rewrite Ea, Ea'. exact Ha. }
    eapply t_seq with (M := K1).
    { apply t_do. intros s H. exact (k1_sl s _ (proj1 (tally_sl A cfg s)) H). }
    apply t_do. intros s H. exact (step_k s H). }
  eapply t_seq with (M := FIN).
  { apply t_ite.
    - apply t_do. intros s [[(Hnd & Hle & Hi) _] Hg]. apply Z.leb_le in Hg. unfold seats_left in Hg. rewrite (nlen_electeds A), (nlen_hopefuls A) in Hg.
      destruct (elect_all_fold A cfg "Elect remaining candidates" (hopefuls A s) s Hnd (nodup_map_filter _ _ _ Hnd) (hop_self A s)) as (F1 & F2 & F3 & F4).
      cbv zeta in F1, F2, F3, F4. split; [exact F4|].
      assert (HL: List.length (hopefuls A s) = hopn s) by (apply Nat2Z.inj; rewrite <- (nlen_hopefuls A); reflexivity).
      unfold Winners.nonw. rewrite (actn_split A), F1, F3, HL. rewrite (actn_split A s) in Hi. lia.
    - apply t_skip'. intros s [[(Hnd & Hle & Hi) Hc] Hg]. split; [exact Hnd|].
      apply Z.leb_gt in Hg. unfold count_complete_q in Hc. apply orb_true_iff in Hc. destruct Hc as [Hc|Hc]; [|apply Z.leb_le in Hc; lia].
      apply Z.leb_le in Hc. unfold seats_left in Hc. rewrite (nlen_electeds A) in Hc.
      unfold Winners.nonw. rewrite (actn_split A). lia. }
  apply t_do. intros s [Hnd He].
  destruct (defeat_all_fold A cfg "Defeat remaining candidates" (hopefuls A s) s Hnd (nodup_map_filter _ _ _ Hnd) (hop_self A s)) as (F1 & F2 & F3).
  cbv zeta in F1, F2, F3. split; [rewrite (ids_fold_defeat_q A cfg); exact Hnd|].
  unfold Winners.nonw in *. rewrite (actn_split A) in *. rewrite F1, F3. lia.
Qed.
End QW.

Section QWCount.
Variable A : arith.
Variable cfg : config.

(* QPQ, every arithmetic: a count that does not crash elects exactly min(seats, candidates not withdrawn) *)
Theorem count_winners_qpq pr fuel s k : 0 <= cf_nseats cfg -> NoDup (map pc_cid (pr_cands pr)) ->
  exec (@crashed A) fuel (count_cmd A cfg RQpq) (init_state A cfg pr) = Some (s, k) -> k <> Abort ->
  nlen (electeds A s) = Z.min (cf_nseats cfg) (nlen (eligibles A s)).
Proof.
  intros Hns Hnd He Hk.
  assert (Ht: triple (est A) (@crashed A) (fun s0 => s0 = init_state A cfg pr) (count_cmd A cfg RQpq) (FIN A cfg) (FIN A cfg) (FIN A cfg)).
  { unfold count_cmd. eapply t_seq with (M := K A cfg).
    - apply t_do. intros s0 ->. destruct (wi_init A cfg pr Hnd) as [W1 W2]. split; [exact W1|]. fold (zero_votes A (init_state A cfg pr)).
      rewrite (eln_init A cfg). split; [cbn; exact Hns|exact W2].
    - eapply t_seq with (M := FIN A cfg); [cbn [rule_cmd]; apply qpq_winners|].
      apply t_do. intros s0 [H1 H2]. destruct (counts_sl4 A _ _ (sl_log A cfg TEnd "Count Complete" s0)) as (E1 & E2 & E3 & E4).
      pose proof (mono_sl A s0 _ (sl_log A cfg TEnd "Count Complete" s0)) as (_ & _ & Ei).
      split; [rewrite Ei; exact H1|]. unfold Winners.nonw in *. rewrite E1, E3, E4. exact H2. }
  specialize (Ht fuel _ s k eq_refl He). assert (H: FIN A cfg s) by (destruct k; try exact Ht; congruence).
  rewrite (nlen_electeds A), nlen_eligibles_any. exact (proj2 H).
Qed.
End QWCount.
