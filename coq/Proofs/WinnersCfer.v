(* The number of winners (C01) for the CfER rule without sure-loser batches (rule name "cfer"): a count that ends normally
   elects exactly min(seats, candidates not withdrawn).  Upper bound: the seat-bound theorem (C09, cfer_seats).  Lower bound,
   here: the rule excludes one candidate at a time and only while more candidates are in the running than there are seats,
   and each of its three exits elects enough -- everybody fits (round 1, or after an exclusion), or the seats are filled. *)
From Coq Require Import ZArith List Bool String Lia PArith.
From Droop Require Import Model.KernelBase Model.Str Model.Arith Model.Prelude Model.State Model.Prims Model.RulesGregory
  Model.Election Proofs.CmdMeta Proofs.Zlike Proofs.Status Proofs.Ties Proofs.SortLemmas Proofs.Forward Proofs.ForwardOps
  Proofs.Terminate Proofs.TerminateQpq Proofs.Conserve Proofs.ConserveCount Proofs.Winners.
Import ListNotations.
Open Scope Z_scope.

Section WC.
Variable A : arith.
Variable cfg : config.
Notation est := (est A).
Notation cand := (cand A).
Notation actn := (actn A).
Notation hopn := (hopn A).
Notation eln := (eln A).
Notation dfn := (dfn A).
Notation nonw := (nonw A).
Notation sl := (sl A).
Notation seats := (cf_nseats cfg).
Notation WI := (WI A cfg).
Notation MONO := (MONO A).
Local Open Scope cmd_scope.
Notation T3 := (triple est (@crashed A)).

Definition LB (s : est) : Prop := Z.min seats (Z.of_nat (nonw s)) <= Z.of_nat (eln s).

(* electing never lowers the number of winners *)
Lemma eln_to_elected i p (s : est) : (eln s <= eln (upd A s i (fun c => with_st c Elected (p c))))%nat.
Proof. unfold Winners.eln, upd. cbn [cands set_cands]. apply sumc_upd_ge. intros c. unfold elc. cbn [cst with_st]. destruct (cst c); lia. Qed.
Lemma eln_sl (s s' : est) : sl s' = sl s -> eln s' = eln s.
Proof. intros E. exact (proj1 (proj2 (proj2 (counts_sl4 A _ _ E)))). Qed.
Lemma eln_unpend i m (s : est) : (eln s <= eln (unpend A cfg i m s))%nat.
Proof.
  unfold unpend. destruct (find_cand A (cands s) i) as [c|]; [|apply Nat.eq_le_incl; symmetry; apply eln_sl; reflexivity].
  destruct (is_pending A c); [|apply Nat.eq_le_incl; symmetry; apply eln_sl; reflexivity].
  pose proof (eln_to_elected i (fun _ => Some false) s) as H.
  destruct m; [rewrite (eln_sl _ _ (sl_log A cfg _ _ _))|]; exact H.
Qed.
Lemma eln_unpend_all (s : est) : (eln s <= eln (unpend_all A cfg s))%nat.
Proof.
  unfold unpend_all. generalize (pendings A s) as l. intros l. revert s. induction l as [|c l IH]; intros s; cbn [fold_left]; [lia|].
  eapply Nat.le_trans; [apply (eln_unpend (cid c) None s)|apply IH].
Qed.

(* everybody still hopeful is elected: all the candidates in the running are winners *)
Lemma lb_elect_all m (s : est) : WI s ->
  LB (fold_left (fun s c => elect A cfg (cid c) m false s) (hopefuls A s) s).
Proof.
  intros [Hnd Hi].
  destruct (elect_all_fold A cfg m (hopefuls A s) s Hnd (nodup_map_filter _ _ _ Hnd) (hop_self A s)) as (E1 & E2 & E3 & E4).
  cbv zeta in *. rewrite (hop_len A) in *. set (s' := fold_left _ (hopefuls A s) s) in *.
  unfold LB, Winners.nonw. rewrite (actn_split A s'). unfold INV in Hi. rewrite (actn_split A s) in Hi. destruct Hi as [Hd|Ha]; lia.
Qed.

(* the steps of the loop *)
Lemma sl_cfer_step (s : est) c : MONO s (cfer_step A cfg s c).
Proof.
  unfold cfer_step. destruct (crashed s); [apply mono_refl|]. cbv zeta.
  pose proof (mono_unpend A cfg (cid c) (Some "Transfer surplus"%string) s) as M2.
  set (s2 := unpend A cfg (cid c) (Some "Transfer surplus"%string) s) in *.
  destruct (crashed s2); [exact M2|].
  match goal with |- context[for_ballots A ?f ?sel s2] => assert (E3: sl (for_ballots A f sel s2) = sl s2)
    by (apply (sl_for_ballots A); intros; apply (sl_reweigh A)); set (s3 := for_ballots A f sel s2) in * end.
  destruct (crashed s3); [eapply mono_trans; [exact M2|apply mono_sl; exact E3]|].
  eapply mono_trans; [exact M2|]. apply mono_sl. rewrite (sl_log A cfg), (sl_set_vote A). exact E3.
Qed.
Lemma mono_cfer_transfer_all (s : est) : MONO s (cfer_transfer_all_pending A cfg s).
Proof.
  unfold cfer_transfer_all_pending. change (fold_left _ (pendings A s) s) with (fold_left (cfer_step A cfg) (pendings A s) s).
  apply (mono_fold A). intros; apply sl_cfer_step.
Qed.
Lemma sl_transfer_batch keep (s : est) : sl (transfer_batch A cfg keep s) = sl s.
Proof.
  unfold transfer_batch. cbv zeta. rewrite (sl_log A cfg).
  match goal with |- sl (fold_left ?g ?l ?t) = _ => assert (G: forall l0 t0, sl (fold_left g l0 t0) = sl t0) end.
  { induction l0 as [|i l0 IH]; intros t0; cbn [fold_left]; [reflexivity|]. rewrite IH. apply (sl_set_vote A). }
  rewrite G. apply (sl_for_ballots A). intros; apply (sl_transfer A).
Qed.

(* one exclusion: afterwards the seats can still be filled, and the batch names the excluded candidate *)
Lemma cfer_defeat_low_wi (s : est) : WI s -> seats < Z.of_nat (actn s) ->
  WI (cfer_defeat_low A cfg s) /\
  (seats < Z.of_nat (actn (cfer_defeat_low A cfg s)) \/
   (seats <= Z.of_nat (actn (cfer_defeat_low A cfg s)) /\ lv_batch (cfer_defeat_low A cfg s) <> [])).
Proof.
  intros [Hnd Hi] Hlt. unfold cfer_defeat_low. destruct (low_candidates A s) as [[lv lows]|] eqn:El.
  2:{ split; [split; assumption|left; exact Hlt]. }
  destruct (bt_simple_ok A cfg "defeat" lows s) as (_ & Ec & Hin).
  destruct (bt_simple A cfg "defeat" lows s) as [s1 [l|]]; cbn [fst snd] in *.
  2:{ assert (Ea: actn s1 = actn s) by (unfold TerminateQpq.actn; rewrite Ec; reflexivity).
      split; [apply (wi_mono A cfg s); [apply mono_sl; unfold TerminateQpq.sl; rewrite Ec; reflexivity|split; assumption]|left; rewrite Ea; exact Hlt]. }
  destruct (Hin l eq_refl) as (t & Ht & Et).
  assert (Hnd1: NoDup (map (@cid A) (cands s1))) by (rewrite Ec; exact Hnd).
  assert (Hh1: HopId A s1 l) by (exists t; split; [unfold hopefuls; rewrite Ec; exact (low_in_hopefuls A s lv lows El t Ht)|exact Et]).
  destruct (defeat_counts A cfg l "Defeat" s1 Hnd1 Hh1) as (D1 & D2 & D3 & D4).
  assert (Ea: actn s1 = actn s) by (unfold TerminateQpq.actn; rewrite Ec; reflexivity).
  set (s2 := defeat A cfg l "Defeat" s1) in *.
  assert (Ha2: seats <= Z.of_nat (actn s2)).
  { rewrite (actn_split A s2), D2. rewrite (actn_split A s1), (actn_split A s) in Ea. rewrite (actn_split A s) in Hlt. lia. }
  split; [split; [cbn [cands set_batch]; rewrite D4; exact Hnd1|right; exact Ha2]|]. right. split; [exact Ha2|discriminate].
Qed.

Definition CW (s : est) : Prop := WI s /\ 0 <= round s /\ (1 <= round s -> seats < Z.of_nat (actn s)).
Definition M1 (s : est) : Prop := WI s /\ 1 <= round s /\ seats < Z.of_nat (actn s).

Lemma m1_step (f : est -> est) (Qb Qc : est -> Prop) : (forall s, round (f s) = round s) -> (forall s, MONO s (f s)) -> T3 M1 (Do f) M1 Qb Qc.
Proof.
  intros Hr Hf. apply t_do. intros s (W & R1 & Hlt). pose proof (Hf s) as M. split; [exact (wi_mono A cfg s _ M W)|]. split; [rewrite Hr; exact R1|].
  destruct M as (_ & M2 & _). lia.
Qed.

Lemma lb_exit3 (s : est) : WI s ->
  LB (let s1 := fold_left (fun s c => elect A cfg (cid c) "Elect pending" false s) (pendings A s) s in
      fold_left (fun s c => elect A cfg (cid c) "Elect remaining" false s) (hopefuls A s1) s1).
Proof.
  intros W. cbv zeta. apply lb_elect_all. apply (wi_mono A cfg s); [|exact W].
  apply (mono_fold A (fun s c => elect A cfg (cid c) "Elect pending" false s)). intros; apply (mono_elect A cfg).
Qed.

Theorem cfer_winners (Qb Qc : est -> Prop) : cf_batch cfg = false ->
  T3 (fun s => WI s /\ round s = 0) (cfer A cfg) LB Qb Qc.
Proof.
  intros Hb. unfold cfer. eapply t_seq with (M := CW).
  { apply t_do. intros s [W R0]. split.
    - apply (wi_mono A cfg s); [|exact W]. eapply mono_trans; [apply mono_sl, sl_start_count|apply mono_log].
    - rewrite (rd_log A cfg). assert (Er: round (start_count A (droop_quota_eps A cfg) s) = round s).
      { destruct (droop_quota_eps A cfg); [apply rd_start|reflexivity]. }
      rewrite Er, R0. split; [lia|intros; lia]. }
  eapply t_post; [|apply (t_while est (@crashed A) CW LB)]; [intros s [H|[_ Hg]]; [exact H|discriminate]|].
  eapply t_pre; [intros s [Hs _]; exact Hs|].
  eapply t_seq with (M := fun s => WI s /\ 1 <= round s /\ (2 <= round s -> seats < Z.of_nat (actn s))).
  { apply t_do. intros s (W & R0 & Hlt). pose proof (mono_sl A s (new_round A cfg s) (sl_log A cfg _ _ _)) as M.
    assert (Er: round (new_round A cfg s) = round s + 1) by (unfold new_round; rewrite (rd_log A cfg); reflexivity).
    split; [exact (wi_mono A cfg s _ M W)|]. split; [lia|]. intros H2. destruct M as (_ & M2 & _). specialize (Hlt ltac:(lia)). lia. }
  eapply t_seq with (M := M1).
  { apply t_ite.
    - eapply t_seq with (M := LB); [|apply t_break'; auto]. apply t_do. intros s [(W & _) _]. apply lb_elect_all. exact W.
    - apply t_skip'. intros s [(W & R1 & H2) Hg]. split; [exact W|]. split; [exact R1|].
      apply andb_false_iff in Hg. destruct Hg as [Hg|Hg].
      + apply Z.eqb_neq in Hg. apply H2. lia.
      + apply Z.leb_gt in Hg. rewrite (nlen_hopefuls A) in Hg. rewrite (actn_split A). lia. }
  eapply t_seq with (M := M1); [apply m1_step; [intros; apply rd_elect_with_quota|intros; apply (mono_elect_with_quota A cfg)]|].
  eapply t_seq with (M := M1).
  { apply t_ite; [|apply t_skip'; intros s [H _]; exact H].
    eapply t_seq with (M := fun s => NoDup (map (@cid A) (cands s)) /\ seats <= Z.of_nat (eln s)); [|eapply t_seq with (M := LB); [|apply t_break'; auto]].
    - apply t_do. intros s [(W & _) Hg]. split.
      + rewrite (proj2 (proj2 (mono_unpend_all A cfg s))). exact (proj1 W).
      + pose proof (eln_unpend_all s). apply Z.leb_le in Hg. rewrite (nlen_electeds A) in Hg. lia.
    - apply t_do. intros s [Hnd Hge].
      destruct (defeat_all_fold A cfg "Defeat remaining" (hopefuls A s) s Hnd (nodup_map_filter _ _ _ Hnd) (hop_self A s)) as (F1 & _ & _).
      cbv zeta in F1. unfold LB. rewrite F1. lia. }
  eapply t_seq with (M := fun s => M1 s /\ lv_batch s = []).
  { apply t_do. intros s H. unfold cfer_find_batch. rewrite Hb. split; [exact H|reflexivity]. }
  eapply t_seq with (M := fun s => WI s /\ 1 <= round s /\ (seats < Z.of_nat (actn s) \/ (seats <= Z.of_nat (actn s) /\ lv_batch s <> []))).
  { apply t_ite.
    - intros fuel s s' k [[_ Hn] Hg] _. rewrite Hn in Hg. discriminate Hg.
    - apply t_ite.
      + apply t_do. intros s [[[(W & R1 & Hlt) _] _] _]. pose proof (mono_cfer_transfer_all s) as M.
        split; [exact (wi_mono A cfg s _ M W)|]. split; [rewrite rd_cfer_transfer_all; exact R1|]. left. destruct M as (_ & M2 & _). lia.
      + apply t_do. intros s [[[(W & R1 & Hlt) _] _] _]. destruct (cfer_defeat_low_wi s W Hlt) as [W' H'].
        split; [exact W'|]. split; [rewrite rd_cfer_defeat_low; exact R1|exact H']. }
  apply t_ite.
  - eapply t_seq with (M := M1).
    + apply t_ite.
      * eapply t_seq with (M := fun s => WI s); [|eapply t_seq with (M := LB); [|apply t_break'; auto]].
        -- apply t_do. intros s [[(W & _) _] _]. apply (wi_mono A cfg s); [|exact W].
           apply (mono_fold A (fun s c => elect A cfg (cid c) "Elect pending" false s)). intros; apply (mono_elect A cfg).
        -- apply t_do. intros s W. apply lb_elect_all. exact W.
      * apply t_skip'. intros s [[(W & R1 & H) _] Hg3]. split; [exact W|]. split; [exact R1|].
        apply Z.leb_gt in Hg3. rewrite (nlen_hopefuls A), (nlen_electeds A) in Hg3. rewrite (actn_split A). lia.
    + apply t_do. intros s (W & R1 & Hlt). pose proof (mono_sl A s _ (sl_transfer_batch (is_hopeful A) s)) as M.
      split; [exact (wi_mono A cfg s _ M W)|]. split; [rewrite rd_transfer_batch; lia|]. intros _. destruct M as (_ & M2 & _). lia.
  - apply t_skip'. intros s [(W & R1 & H) Hg]. split; [exact W|]. split; [lia|]. intros _.
    destruct H as [H|[_ Hne]]; [exact H|]. exfalso. apply Hne. exact (nonempty_false _ Hg).
Qed.
End WC.

Section WCCount.
Variable A : arith.
Variable S : Z.
Variable ZL : zlike A S.
Variable cfg : config.
Hypothesis Hmeth : cf_method cfg = MWigm.
Hypothesis Hex : exact A = false.
Hypothesis Hnb : 0 <= cf_nballots cfg.
Hypothesis Hns : 0 <= cf_nseats cfg.

(* a cfer count (no sure-loser batches) that ends normally elects exactly min(seats, candidates not withdrawn) *)
Theorem count_winners_cfer pr fuel s k : cf_batch cfg = false -> wf_profile pr -> cf_nballots cfg = ballot_total pr ->
  exec (@crashed A) fuel (count_cmd A cfg RCfer) (init_state A cfg pr) = Some (s, k) -> k <> Abort ->
  nlen (electeds A s) = Z.min (cf_nseats cfg) (nlen (eligibles A s)).
Proof.
  intros Hb Hwf Hnbt He Hk.
  assert (Hsr: seat_rule RCfer) by (right; right; right; right; reflexivity).
  pose proof (count_seats A S ZL cfg Hmeth Hex Hnb Hns RCfer pr fuel s k Hsr Hwf Hnbt He Hk) as Hle.
  assert (Ht: triple (est A) (@crashed A) (fun s0 => s0 = init_state A cfg pr) (count_cmd A cfg RCfer)
            (LB A cfg) (LB A cfg) (LB A cfg)).
  { unfold count_cmd. eapply t_seq with (M := fun s0 => WI A cfg s0 /\ round s0 = 0).
    - apply t_do. intros s0 ->. split; [apply (wi_init A cfg); exact (proj1 Hwf)|]. unfold zero_votes. cbn [round set_cands]. apply init_round.
    - eapply t_seq with (M := LB A cfg); [cbn [rule_cmd]; apply cfer_winners; exact Hb|].
      apply t_do. intros s0 H. unfold LB in *. destruct (counts_sl4 A _ _ (sl_log A cfg TEnd "Count Complete" s0)) as (E1 & E2 & E3 & E4).
      unfold Winners.nonw in *. rewrite E1, E3, E4. exact H. }
  specialize (Ht fuel _ s k eq_refl He). assert (H: LB A cfg s) by (destruct k; try exact Ht; congruence).
  unfold LB in H. rewrite (nlen_electeds A), (nlen_eligibles A Hex). rewrite (nlen_electeds A) in Hle.
  pose proof (actn_split A s) as Es. unfold Winners.nonw in *. lia.
Qed.
End WCCount.
