(* Quota formulas (C04) for the integer-carrier arithmetics: what each rule's calcQuota() yields. *)
From Coq Require Import ZArith List Bool Lia String.
From Droop Require Import Model.KernelBase Model.Arith Model.Prelude Model.State Model.Prims Model.RulesGregory
  Model.RulesMeek Proofs.Zlike.
Open Scope Z_scope.

Section Q.
Variable A : arith.
Variable S : Z.
Variable ZL : zlike A S.
Variable cfg : config.
Notation R := (@raw A S ZL).
Let n := cf_nballots cfg.
Let s := cf_nseats cfg.
Hypothesis Hs : 0 <= s.
Hypothesis Heps : R (epsilon A) = 1.

Lemma scale_cancel a b : 0 < b -> a * S * S / (b * S) = a * S / b.
Proof.
  intros Hb. pose proof (S_pos A S ZL). replace (a * S * S) with (a * S * S) by ring.
  replace (b * S) with (S * b) by ring. replace (a * S * S) with (S * (a * S)) by ring.
  apply Z.div_mul_cancel_l; lia.
Qed.

(* V(n) / V(s+1) + epsilon  =  floor(n*S/(s+1)) + 1 raw units: "truncated plus one unit in the last place" *)
Lemma droop_quota_eps_value :
  exists q, droop_quota_eps A cfg = Ok q /\ R q = n * S / (s + 1) + 1.
Proof.
  unfold droop_quota_eps. fold n s.
  assert (Hd: R (of_int A (s + 1)) <> 0).
  { rewrite (r_of_int A S ZL). pose proof (S_pos A S ZL). nia. }
  destruct (r_divv A S ZL (of_int A n) (of_int A (s + 1)) Hd) as (c & E & Ec). rewrite E.
  eexists; split; [reflexivity|]. rewrite (r_add A S ZL), Ec, !(r_of_int A S ZL), Heps.
  rewrite scale_cancel by lia. reflexivity.
Qed.

(* Scottish / Minneapolis / integer_quota: floor(n/(s+1)) + 1 whole votes *)
Lemma integer_quota_value : R (integer_droop_quota A cfg) = (n / (s + 1) + 1) * S.
Proof. unfold integer_droop_quota. fold n s. apply (r_of_int A S ZL). Qed.

Lemma wigm_quota_value : exact A = false ->
  exists q, wigm_quota A cfg = Ok q /\
            R q = if cf_integer_quota cfg then (1 + n / (s + 1)) * S else n * S / (s + 1) + 1.
Proof.
  intros Hex. unfold wigm_quota. fold n s. destruct (cf_integer_quota cfg).
  - eexists; split; [reflexivity|]. apply (r_of_int A S ZL).
  - rewrite Hex. apply droop_quota_eps_value.
Qed.

(* Meek family: the same formula applied to the votes still credited *)
Lemma meek_quota_value (st : est A) : exact A = false ->
  exists q, meek_quota A cfg st = Ok q /\ R q = R (votes st) * S / ((s + 1) * S) + 1.
Proof.
  intros Hex. unfold meek_quota. fold s.
  assert (Hd: R (of_int A (s + 1)) <> 0).
  { rewrite (r_of_int A S ZL). pose proof (S_pos A S ZL). nia. }
  destruct (r_divv A S ZL (votes st) (of_int A (s + 1)) Hd) as (c & E & Ec). rewrite E, Hex.
  eexists; split; [reflexivity|]. rewrite (r_add A S ZL), Ec, (r_of_int A S ZL), Heps. reflexivity.
Qed.
End Q.

(* whoever has the quota is elected at the election step: after elect_with_quota no hopeful candidate
   satisfies the rule's quota test (votes and quota are not changed by electing) *)
